(* Lemmas about model/Compliance.v and the generated tables gen/Gen_Compliance.v (property C20). *)
From Coq Require Import List Arith Bool String Lia.
From Basyx Require Import model.Compliance gen.Gen_Compliance.
Import ListNotations.
Local Open Scope string_scope.
Local Open Scope list_scope.

(* ---------- state manager: the overall status is the worst step status ------------------------------- *)

Definition pick (acc : status) (st : step) : status :=
  if Nat.ltb (rank acc) (rank (s_status st)) then s_status st else acc.

Lemma fold_pick_spec m : forall acc,
  let r := fold_left pick m acc in
  rank acc <= rank r /\ (forall s, In s m -> rank (s_status s) <= rank r) /\
  (r = acc \/ exists s, In s m /\ s_status s = r).
Proof.
  induction m as [|st m IH]; intros acc; cbn.
  - repeat split; auto. intros s [].
  - destruct (IH (pick acc st)) as [H1 [H2 H3]].
    assert (Hp : rank acc <= rank (pick acc st) /\ rank (s_status st) <= rank (pick acc st) /\
                 (pick acc st = acc \/ pick acc st = s_status st)).
    { unfold pick. destruct (Nat.ltb_spec (rank acc) (rank (s_status st))); repeat split; auto; lia. }
    destruct Hp as [P1 [P2 P3]]. repeat split.
    + lia.
    + intros s [<-|Hs]; [lia|auto].
    + destruct H3 as [H3|[s [Hs H3]]].
      * destruct P3 as [P3|P3]; [left; congruence|right; exists st; split; [now left|congruence]].
      * right. exists s. split; [now right|assumption].
Qed.

Lemma overall_worst m :
  (forall s, In s m -> rank (s_status s) <= rank (overall m)) /\
  ((m = [] /\ overall m = SUCCESS) \/ (exists s, In s m /\ s_status s = overall m)).
Proof.
  unfold overall. change (fun acc st => if Nat.ltb (rank acc) (rank (s_status st)) then s_status st else acc) with pick.
  destruct (fold_pick_spec m SUCCESS) as [_ [H2 H3]]. split; [exact H2|].
  destruct H3 as [H3|H3]; [|now right].
  destruct m as [|st m]; [left; auto|]. right.
  (* the result is SUCCESS and bounds every rank, so every step is SUCCESS *)
  assert (Hst : rank (s_status st) <= rank (fold_left pick (st :: m) SUCCESS)) by (apply H2; now left).
  rewrite H3 in Hst. cbn in Hst. exists st. split; [now left|].
  rewrite H3. destruct (s_status st); cbn in Hst; try lia; reflexivity.
Qed.

Lemma rank_inj a b : rank a = rank b -> a = b.
Proof. destruct a, b; cbn; intros; try lia; reflexivity. Qed.

(* every public operation leaves the manager in a state whose overall status is again the maximum:
   immediate from overall_worst, stated for histories *)
Lemma overall_worst_run ops :
  forall s, In s (mrun ops) -> rank (s_status s) <= rank (overall (mrun ops)).
Proof. apply overall_worst. Qed.

Lemma from_log_spec m l r :
  rev m = l :: r ->
  fst (mstep m SetFromLog) = rev r ++ [mk_step (if Nat.ltb 0 (s_logs l) then FAILED else SUCCESS) (s_logs l)].
Proof. intros E. cbn. unfold on_last. now rewrite E. Qed.

(* ---------- exception flow ------------------------------------------------------------------------------ *)

Lemma caught_spec e hs :
  caught e hs = true <-> exists h c, In h hs /\ In c h /\ subclass e c = true.
Proof.
  unfold caught. rewrite existsb_exists. split.
  - intros [h [Hh H]]. apply existsb_exists in H. destruct H as [c [Hc H]]. eauto.
  - intros [h [c [Hh [Hc H]]]]. exists h. split; [assumption|]. apply existsb_exists. eauto.
Qed.

Definition esc_within (allowed : list exc) (r : esc) : bool :=
  match r with
  | EscOk l => forallb (fun e => existsb (exc_eqb e) allowed) l
  | _ => false
  end.

Lemma exc_eqb_eq a b : exc_eqb a b = true -> a = b.
Proof. destruct a, b; cbn; intros; try discriminate; reflexivity. Qed.

Lemma esc_within_spec allowed r :
  esc_within allowed r = true -> exists l, r = EscOk l /\ incl l allowed.
Proof.
  destruct r as [l| |]; cbn; try discriminate. intros H. exists l. split; [reflexivity|].
  intros e He. rewrite forallb_forall in H. specialize (H e He). apply existsb_exists in H.
  destruct H as [x [Hx E]]. apply exc_eqb_eq in E. now subst.
Qed.

Definition has_prefix (p : string) (s : string) : bool := prefix p s.
Definition fuel := 4.

Lemma total_check :
  forallb (fun f => esc_within [] (escapes functions checker_raises fuel f)) public_functions = true.
Proof. vm_compute. reflexivity. Qed.

(* nothing leaves any public check function *)
Lemma total f : In f public_functions -> escapes functions checker_raises fuel f = EscOk [].
Proof.
  intros Hf. pose proof total_check as H. rewrite forallb_forall in H.
  destruct (esc_within_spec _ _ (H f Hf)) as [l [E Hl]]. rewrite E. f_equal.
  destruct l as [|e l]; [reflexivity|]. destruct (Hl e (or_introl eq_refl)).
Qed.

(* the six functions that compare data, and the handlers around their call of the data checker *)
Definition comparing_functions : list string :=
  ["json.check_aas_example"; "json.check_json_files_equivalence"; "xml.check_aas_example";
   "xml.check_xml_files_equivalence"; "aasx.check_aas_example"; "aasx.check_aasx_files_equivalence"].

Lemma comparing_catch f : In f comparing_functions ->
  In f public_functions /\
  exists hs, compare_handlers functions f = Some hs /\ caught ENotImplemented hs = true.
Proof.
  intros [<-|[<-|[<-|[<-|[<-|[<-|[]]]]]]]; (split; [vm_compute; tauto|]); eexists; split; vm_compute; reflexivity.
Qed.

(* ---------- data checker ------------------------------------------------------------------------------------ *)

Lemma compare_by_refl attrs a b : (forall x, a x = b x) -> compare_by attrs a b = true.
Proof.
  intros H. unfold compare_by. apply forallb_forall. intros x _. rewrite H. apply Nat.eqb_refl.
Qed.

Lemma compare_by_complete attrs a b : compare_by attrs a b = true -> forall x, In x attrs -> a x = b x.
Proof.
  unfold compare_by. rewrite forallb_forall. intros H x Hx. now apply Nat.eqb_eq, H.
Qed.

Lemma mem_str_in x l : mem_str x l = true <-> In x l.
Proof.
  unfold mem_str. rewrite existsb_exists. split.
  - intros [y [Hy E]]. apply String.eqb_eq in E. now subst.
  - intros H. exists x. split; [assumption|apply String.eqb_refl].
Qed.

(* the attributes no checker method compares, over the whole class table *)
Definition all_missing : list (string * string) := flat_map (missing checker_methods) class_table.
Lemma nothing_missing : all_missing = [].
Proof. vm_compute. reflexivity. Qed.

Lemma missing_spec cls m attrs a :
  In (cls, m, attrs) class_table -> In a attrs -> ~ In (cls, a) all_missing ->
  In a (compared checker_methods 6 m).
Proof.
  intros Hrow Ha Hn. destruct (mem_str a (compared checker_methods 6 m)) eqn:E; [now apply mem_str_in|].
  exfalso. apply Hn. unfold all_missing. apply in_flat_map. exists (cls, m, attrs). split; [assumption|].
  unfold missing. apply in_map. apply filter_In. split; [assumption|]. now rewrite E.
Qed.

(* completeness of the comparison: if the checker's comparison of two objects of a class succeeds, the
   objects agree on every metamodel attribute of the class *)
Lemma equiv_complete cls m attrs a b x :
  In (cls, m, attrs) class_table -> compare_by (compared checker_methods 6 m) a b = true ->
  In x attrs -> a x = b x.
Proof.
  intros Hrow Hc Hx. eapply compare_by_complete; [exact Hc|].
  eapply missing_spec; [exact Hrow|exact Hx|]. rewrite nothing_missing. intros [].
Qed.

(* the comparison is not vacuous: a difference in a compared attribute is seen *)
Lemma equiv_detects_example :
  exists (a b : record),
    compare_by (compared checker_methods 6 "_check_qualifier_equal") a b = false /\
    (forall x, x <> "semantic_id" -> a x = b x).
Proof.
  exists (fun _ => 0), (fun x => if String.eqb x "semantic_id" then 1 else 0). split; [vm_compute; reflexivity|].
  intros x Hx. destruct (String.eqb_spec x "semantic_id"); [contradiction|reflexivity].
Qed.

(* non-vacuity of the tables *)
Lemma tables_nonempty :
  List.length public_functions = 12 /\ 20 <= List.length class_table /\
  compared checker_methods 6 "check_entity_equal" <> [].
Proof. split; [vm_compute; reflexivity|]. split; [vm_compute; lia|vm_compute; discriminate]. Qed.

(* ---------- unordered lists ---------------------------------------------------------------------------------- *)

(* equal data compare as equal, unless the method refuses unordered lists and one of the lists is unordered *)
Lemma equiv_sound_partial m oa ob attrs (a b : record) :
  (forall x, a x = b x) -> (mem_str m unordered_raises = false \/ (oa = true /\ ob = true)) ->
  compare_obj unordered_raises m oa ob attrs a b = CmpEqual.
Proof.
  intros He H. unfold compare_obj. rewrite (compare_by_refl attrs a b He).
  destruct H as [->|[-> ->]]; [reflexivity|]. cbn. now rewrite andb_false_r.
Qed.

(* ... and for two equal unordered SubmodelElementLists the checker refuses, which every comparing function
   reports as a FAILED step *)
Lemma unordered_equal_fails :
  exists cls m attrs (a b : record),
    In (cls, m, attrs) class_table /\ (forall x, a x = b x) /\
    compare_obj unordered_raises m false false (compared checker_methods 6 m) a b = CmpNotImplemented /\
    (forall f, In f comparing_functions ->
       exists hs, compare_handlers functions f = Some hs /\
                  compare_step (caught ENotImplemented hs) CmpNotImplemented = Some FAILED).
Proof.
  exists "SubmodelElementList", "check_submodel_element_list_equal",
         ["id_short"; "type_value_list_element"; "value"; "semantic_id_list_element"; "value_type_list_element";
          "order_relevant"; "display_name"; "category"; "description"; "semantic_id"; "qualifier"; "extension";
          "supplemental_semantic_id"; "embedded_data_specifications"], (fun _ => 0), (fun _ => 0).
  split; [vm_compute; tauto|]. split; [reflexivity|]. split; [vm_compute; reflexivity|].
  intros f Hf. destruct (comparing_catch f Hf) as [_ [hs [E Hc]]]. exists hs. split; [assumption|].
  cbn. now rewrite Hc.
Qed.

(* a comparing step always gets a status: the refusal never leaves a comparing function *)
Lemma compare_step_total f r : In f comparing_functions ->
  exists hs st, compare_handlers functions f = Some hs /\ compare_step (caught ENotImplemented hs) r = Some st.
Proof.
  intros Hf. destruct (comparing_catch f Hf) as [_ [hs [E Hc]]]. exists hs.
  destruct r; cbn; rewrite ?Hc; eauto.
Qed.

(* ---------- a step set to FAILED stays FAILED -------------------------------------------------------------------- *)

Lemma on_last_snoc m st f : on_last (m ++ [st]) f = (m ++ [f st], MOk).
Proof. unfold on_last. rewrite rev_app_distr. cbn. now rewrite rev_involutive. Qed.

Lemma last_status_snoc m st : last_status (m ++ [st]) = Some (s_status st).
Proof. unfold last_status. now rewrite rev_app_distr. Qed.

(* every comparing function has handlers around the data checker's call, and all of them end the function *)
Lemma handlers_return f : In f comparing_functions -> fassoc f compare_handler_returns = Some true.
Proof. intros [<-|[<-|[<-|[<-|[<-|[<-|[]]]]]]]; vm_compute; reflexivity. Qed.

(* ... hence, after a refusal of the checker, the comparing step of the report is FAILED and so is the overall
   status at least - whatever the checks collected before the refusal say *)
Lemma refusal_keeps_failed f m st failed passed :
  In f comparing_functions ->
  let m' := refusal_flow (match fassoc f compare_handler_returns with Some b => b | None => false end)
                         failed passed (m ++ [st]) in
  last_status m' = Some FAILED /\ rank FAILED <= rank (overall m').
Proof.
  intros Hf. rewrite (handlers_return f Hf). cbn [refusal_flow mstep].
  rewrite on_last_snoc. cbn [fst]. rewrite on_last_snoc. cbn [fst].
  split; [apply last_status_snoc|].
  apply (proj1 (overall_worst _) (mk_step FAILED (S (s_logs st)))). apply in_or_app. right. now left.
Qed.

(* ... and the `return` is necessary: without it a refusal after only passed checks ends as a SUCCESS step *)
Lemma refusal_without_return_loses_failed :
  last_status (refusal_flow false 0 3 [mk_step NOT_EXECUTED 0]) = Some SUCCESS /\
  overall (refusal_flow false 0 3 [mk_step NOT_EXECUTED 0]) = SUCCESS.
Proof. split; vm_compute; reflexivity. Qed.
