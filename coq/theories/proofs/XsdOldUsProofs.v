(* C06 - the pre-repair expression int(float(frac) * 1e6) (model/XsdOldUs.v) evaluated bit-exactly on ALL 10^6
   six-digit fractions: exactly 11549 of them lose one microsecond.  This documents the finding that was repaired
   in datatypes.py (_parse_xsd_microseconds); nothing in the other C06 theorems depends on floating point. *)
From Coq Require Import List ZArith Bool Ascii String Lia.
From Coq Require PrimFloat.
From Basyx Require Import model.XsdBase model.XsdOldUs proofs.XsdBaseProofs.
Import ListNotations.
Local Open Scope Z_scope.

(* the expression on the fraction n / 10^6 *)
Definition us_float_n (n : Z) : Z :=
  trunc_float (PrimFloat.mul (PrimFloat.div (f_of_Z n) (f_of_Z 1000000)) (f_of_Z 1000000)).
Definition v6 (a b c d e f : Z) : Z := ((((a * 10 + b) * 10 + c) * 10 + d) * 10 + e) * 10 + f.
Lemma us_float_digits a b c d e f :
  0 <= a <= 9 -> 0 <= b <= 9 -> 0 <= c <= 9 -> 0 <= d <= 9 -> 0 <= e <= 9 -> 0 <= f <= 9 ->
  us_float [dchar a; dchar b; dchar c; dchar d; dchar e; dchar f] = us_float_n (v6 a b c d e f).
Proof.
  intros Ha Hb Hc Hd He Hf. unfold us_float, float_of_frac, us_float_n, v6, int_dec. cbn [int_acc List.length].
  rewrite !dval_dchar by assumption. change (10 ^ Z.of_nat 6) with 1000000.
  replace (10 * (10 * (10 * (10 * (10 * (10 * 0 + a) + b) + c) + d) + e) + f)
    with (((((a * 10 + b) * 10 + c) * 10 + d) * 10 + e) * 10 + f) by lia.
  reflexivity.
Qed.
Definition sum_digits (g : Z -> Z) : Z := g 0 + g 1 + g 2 + g 3 + g 4 + g 5 + g 6 + g 7 + g 8 + g 9.
(* number of fractions .000000 ... .999999 on which the expression does not return the microseconds written *)
Definition lost_count : Z :=
  sum_digits (fun a => sum_digits (fun b => sum_digits (fun c => sum_digits (fun d => sum_digits (fun e =>
  sum_digits (fun f => let n := v6 a b c d e f in if us_float_n n =? n then 0 else 1)))))).
Lemma lost_count_value : lost_count = 11549.
Proof. vm_compute. reflexivity. Qed.
Lemma old_expression_witness : us_float (L "001009") = 1008 /\ us_float (L "000017") = 17.
Proof. vm_compute. split; reflexivity. Qed.
