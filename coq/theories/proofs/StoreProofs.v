(* Proofs about model/Store.v (DictObjectStore, multiplexer, NamespaceIRIGenerator). *)
From Coq Require Import List Arith Bool String Ascii Lia FinFun.
From Basyx Require Import model.Files proofs.FilesProofs model.Store.
Import ListNotations.
Local Open Scope string_scope.

(* ---------- association-list facts ---------------------------------------------------- *)

Lemma sset_lookup_same k v l : sassoc k (sset k v l) = Some v.
Proof.
  induction l as [|[k' v'] r IH]; cbn.
  - now rewrite String.eqb_refl.
  - destruct (String.eqb k k') eqn:E; cbn.
    + now rewrite String.eqb_refl.
    + now rewrite E.
Qed.
Lemma sset_lookup_other k k' v l : k <> k' -> sassoc k' (sset k v l) = sassoc k' l.
Proof.
  intros Hn. induction l as [|[k2 v2] r IH]; cbn.
  - destruct (String.eqb_spec k' k); [congruence|reflexivity].
  - destruct (String.eqb_spec k k2) as [->|]; cbn.
    + destruct (String.eqb_spec k' k2); [congruence|reflexivity].
    + destruct (String.eqb k' k2); [reflexivity|exact IH].
Qed.
Lemma sset_same k v l : sassoc k l = Some v -> sset k v l = l.
Proof.
  induction l as [|[k' v'] r IH]; cbn; [discriminate|].
  destruct (String.eqb_spec k k') as [->|]; intros H.
  - now injection H as ->.
  - now rewrite IH.
Qed.
Lemma sset_new k v l : sassoc k l = None -> sset k v l = (l ++ [(k, v)])%list.
Proof.
  induction l as [|[k' v'] r IH]; cbn; [reflexivity|].
  destruct (String.eqb k k'); [discriminate|]. intros H. now rewrite IH.
Qed.
Lemma sassoc_In k (l : st) x : sassoc k l = Some x -> In (k, x) l.
Proof.
  induction l as [|[k' v'] r IH]; cbn; [discriminate|].
  destruct (String.eqb_spec k k') as [->|]; intros H.
  - injection H as ->. now left.
  - right. auto.
Qed.
Lemma In_sassoc k (l : st) x : NoDup (map fst l) -> In (k, x) l -> sassoc k l = Some x.
Proof.
  induction l as [|[k' v'] r IH]; cbn; [tauto|].
  intros Hnd [E|Hin]; inversion Hnd as [|? ? Hni Hnd']; subst.
  - injection E as -> ->. now rewrite String.eqb_refl.
  - destruct (String.eqb_spec k k') as [->|]; [|auto].
    exfalso. apply Hni. apply in_map_iff. now exists (k', x).
Qed.
Lemma sremove_notin k (l : st) : ~ In k (map fst l) -> sremove k l = l.
Proof.
  induction l as [|[k' v'] r IH]; cbn; [reflexivity|].
  intros Hn. destruct (String.eqb_spec k k') as [->|]; [tauto|].
  rewrite IH; tauto.
Qed.
Lemma sremove_In k (l : st) p : In p (sremove k l) -> In p l.
Proof.
  induction l as [|[k' v'] r IH]; cbn; [tauto|].
  destruct (String.eqb k k'); cbn; intuition.
Qed.

(* ---------- the reference: a functional map identifier -> object ------------------------ *)

Definition gmap := ident -> option obj.
Definition gempty : gmap := fun _ => None.
Definition gupd (g : gmap) (k : ident) (v : obj) : gmap :=
  fun i => if String.eqb i k then Some v else g i.
Definition grem (g : gmap) (k : ident) : gmap :=
  fun i => if String.eqb i k then None else g i.

Section StoreProofs.
  Variable idof : obj -> ident.

  Definition Inv (s : st) : Prop :=
    NoDup (map fst s) /\ Forall (fun p => idof (snd p) = fst p) s.

  (* x is the very object stored under its identifier *)
  Definition stored (m : gmap) (x : obj) : bool :=
    match m (idof x) with Some y => Nat.eqb y x | None => false end.

  (* what a map does on add / discard / bulk update (first clash stops the update) *)
  Definition g_add (g : gmap) (x : obj) : gmap :=
    match g (idof x) with Some _ => g | None => gupd g (idof x) x end.
  Definition g_discard (g : gmap) (x : obj) : gmap :=
    if stored g x then grem g (idof x) else g.
  Fixpoint g_update (g : gmap) (xs : list obj) : gmap * out :=
    match xs with
    | [] => (g, OUnit)
    | x :: r => match g (idof x) with
                | Some y => if Nat.eqb y x then g_update g r else (g, OKeyError)
                | None => g_update (gupd g (idof x) x) r
                end
    end.
  (* the client's ghost map: updated from the calls made and (for pop) the object handed back *)
  Definition ghost_step (g : gmap) (o : op) (r : out) : gmap :=
    match o with
    | Add x => g_add g x
    | Discard x | Remove x => g_discard g x
    | Pop => match r with OObj x => grem g (idof x) | _ => g end
    | Clear => gempty
    | Update xs | Ior xs => fst (g_update g xs)
    | _ => g
    end.
  Fixpoint exec (s : st) (g : gmap) (ops : list op) : st * gmap :=
    match ops with
    | [] => (s, g)
    | o :: r => let '(s', res) := step idof s o in exec s' (ghost_step g o res) r
    end.
  Definition ghost (ops : list op) : gmap := snd (exec [] gempty ops).

  (* what each call must answer, as a function of the map m alone *)
  Definition out_spec (m : gmap) (o : op) (r : out) : Prop :=
    match o with
    | Add x => match m (idof x) with
               | Some y => if Nat.eqb y x then r = OUnit else r = OKeyError
               | None => r = OUnit
               end
    | Discard x => r = OUnit
    | Remove x => if stored m x then r = OUnit else r = OKeyError
    | Pop => ((forall i, m i = None) /\ r = OKeyError) \/ (exists x, r = OObj x /\ m (idof x) = Some x)
    | Clear => r = OUnit
    | Update xs | Ior xs => r = snd (g_update m xs)
    | GetIdentifiable i => r = match m i with Some x => OObj x | None => OKeyError end
    | Get i d => r = match m i with Some x => OObj x | None => odefault d end
    | ContainsObj x => r = OBool (stored m x)
    | ContainsId i => r = OBool (match m i with Some _ => true | None => false end)
    | ContainsOther => r = OBool false
    | Len => exists keys, r = ONat (List.length keys) /\ NoDup keys /\ forall i, In i keys <-> m i <> None
    | Iter => exists l, r = OList l /\ NoDup l /\ forall x, In x l <-> m (idof x) = Some x
    end.

  (* ---------- single operations -------------------------------------------------------- *)

  Lemma add_cases s x :
    match lookup s (idof x) with
    | Some y => if Nat.eqb y x then add idof s x = (s, OUnit) else add idof s x = (s, OKeyError)
    | None => add idof s x = ((s ++ [(idof x, x)])%list, OUnit)
    end.
  Proof.
    unfold add. destruct (lookup s (idof x)) as [y|] eqn:E.
    - destruct (Nat.eqb_spec y x) as [->|]; [|reflexivity]. now rewrite sset_same.
    - now rewrite sset_new.
  Qed.

  Lemma discard_cases s x :
    match lookup s (idof x) with
    | Some y => if Nat.eqb y x then discard idof s x = (sremove (idof x) s, OUnit)
                else discard idof s x = (s, OUnit)
    | None => discard idof s x = (s, OUnit)
    end.
  Proof. unfold discard. destruct (lookup s (idof x)) as [y|]; [destruct (Nat.eqb y x)|]; reflexivity. Qed.

  Lemma Inv_nil : Inv [].
  Proof. split; constructor. Qed.

  Lemma Inv_snoc s x : Inv s -> lookup s (idof x) = None -> Inv (s ++ [(idof x, x)])%list.
  Proof.
    intros [Hnd Hid] Hn. split.
    - rewrite map_app. cbn. apply NoDup_snoc; [exact Hnd|]. now apply sassoc_none_notin.
    - apply Forall_app. split; [exact Hid|]. constructor; [reflexivity|constructor].
  Qed.
  Lemma Inv_sremove s k : Inv s -> Inv (sremove k s).
  Proof.
    intros [Hnd Hid]. split; [now apply sremove_nodup|].
    rewrite Forall_forall in *. intros p Hp. apply Hid. eapply sremove_In; eauto.
  Qed.

  Lemma Inv_add s x : Inv s -> Inv (fst (add idof s x)).
  Proof.
    intros HI. pose proof (add_cases s x) as H.
    destruct (lookup s (idof x)) as [y|] eqn:E.
    - destruct (Nat.eqb y x); rewrite H; exact HI.
    - rewrite H. now apply Inv_snoc.
  Qed.
  Lemma Inv_discard s x : Inv s -> Inv (fst (discard idof s x)).
  Proof.
    intros HI. pose proof (discard_cases s x) as H.
    destruct (lookup s (idof x)) as [y|]; [destruct (Nat.eqb y x)|]; rewrite H; cbn;
      auto using Inv_sremove.
  Qed.
  Lemma Inv_remove s x : Inv s -> Inv (fst (remove idof s x)).
  Proof. intros HI. unfold remove. destruct (contains_obj idof s x); [now apply Inv_discard|exact HI]. Qed.

  (* pop removes exactly the first entry *)
  Lemma pop_cons k x r : Inv ((k, x) :: r) -> pop idof ((k, x) :: r) = (r, OObj x).
  Proof.
    intros [Hnd Hid]. inversion Hid as [|? ? Hk _]; subst. cbn in Hk. subst k.
    inversion Hnd as [|? ? Hni _]; subst.
    unfold pop. cbn [iter map snd]. unfold discard, lookup. cbn [sassoc].
    rewrite String.eqb_refl, Nat.eqb_refl. cbn [fst sremove]. rewrite String.eqb_refl.
    now rewrite sremove_notin.
  Qed.
  Lemma Inv_tail p r : Inv (p :: r) -> Inv r.
  Proof. intros [Hnd Hid]. inversion Hnd; inversion Hid; subst. now split. Qed.
  Lemma Inv_pop s : Inv s -> Inv (fst (pop idof s)).
  Proof.
    destruct s as [|[k x] r]; intros HI; [exact HI|].
    rewrite pop_cons by exact HI. eapply Inv_tail; eauto.
  Qed.

  (* clear: the pop loop empties the store and never runs out of fuel *)
  Lemma clear_loop_spec s : forall fuel, Inv s -> fuel > List.length s -> clear_loop idof fuel s = ([], OUnit).
  Proof.
    induction s as [|[k x] r IH]; intros fuel HI Hf.
    - destruct fuel; [cbn in Hf; lia|reflexivity].
    - destruct fuel; [cbn in Hf; lia|]. cbn [clear_loop]. rewrite pop_cons by exact HI.
      apply IH; [eapply Inv_tail; eauto|cbn in Hf; lia].
  Qed.
  Lemma clear_spec s : Inv s -> clear idof s = ([], OUnit).
  Proof. intros HI. unfold clear. apply clear_loop_spec; [exact HI|unfold len; lia]. Qed.

  Lemma Inv_update xs : forall s, Inv s -> Inv (fst (update idof s xs)).
  Proof.
    induction xs as [|x r IH]; intros s HI; [exact HI|]. cbn [update].
    pose proof (Inv_add s x HI) as HA. destruct (add idof s x) as [s' o]. cbn in HA.
    destruct o; auto.
  Qed.

  (* construction from the objects of another store yields an equal, independent value: same entries, same order *)
  Lemma update_append s2 : forall s1, Inv (s1 ++ s2)%list -> update idof s1 (map snd s2) = ((s1 ++ s2)%list, OUnit).
  Proof.
    induction s2 as [|[k x] r IH]; intros s1 HI; cbn [map update snd].
    - now rewrite app_nil_r.
    - destruct HI as [Hnd Hid]. assert (Hk : idof x = k).
      { rewrite Forall_forall in Hid. apply (Hid (k, x)). apply in_or_app. right. now left. }
      pose proof (add_cases s1 x) as HA. rewrite Hk in HA.
      assert (Hn : lookup s1 k = None).
      { destruct (lookup s1 k) eqn:E; [|reflexivity]. exfalso. apply sassoc_in in E.
        rewrite map_app in Hnd. cbn in Hnd. apply NoDup_remove_2 in Hnd. apply Hnd. apply in_or_app. now left. }
      rewrite Hn in HA. rewrite HA. replace (s1 ++ (k, x) :: r)%list with ((s1 ++ [(k, x)]) ++ r)%list
        by (rewrite <- app_assoc; reflexivity).
      apply IH. rewrite <- app_assoc. cbn. split; assumption.
  Qed.
  Lemma construct_copy s : Inv s -> construct idof (iter s) = (s, OUnit).
  Proof. intros HI. unfold construct, iter. now apply (update_append s []). Qed.
  Lemma Inv_step s o : Inv s -> Inv (fst (step idof s o)).
  Proof.
    intros HI. destruct o; cbn [step fst]; auto using Inv_add, Inv_discard, Inv_remove, Inv_pop, Inv_update.
    rewrite clear_spec by exact HI. exact Inv_nil.
  Qed.
  Lemma Inv_run_from ops : forall s, Inv s -> Inv (run_from idof s ops).
  Proof. induction ops as [|o r IH]; intros s HI; [exact HI|]. apply IH. now apply Inv_step. Qed.
  Lemma Inv_run ops : Inv (run idof ops).
  Proof. apply Inv_run_from. exact Inv_nil. Qed.

  (* ---------- lookups against the abstraction ------------------------------------------ *)

  Definition abs_eq (s : st) (g : gmap) : Prop := forall i, lookup s i = g i.

  Lemma lookup_snoc s k x i : lookup s k = None ->
    lookup (s ++ [(k, x)])%list i = gupd (lookup s) k x i.
  Proof.
    intros Hn. unfold gupd, lookup in *. destruct (String.eqb_spec i k) as [->|Hne].
    - rewrite sassoc_app_none by exact Hn. cbn. now rewrite String.eqb_refl.
    - destruct (sassoc i s) as [v|] eqn:E.
      + now apply sassoc_app_some.
      + rewrite sassoc_app_none by exact E. cbn. destruct (String.eqb_spec i k); [congruence|reflexivity].
  Qed.
  Lemma lookup_sremove s k i : lookup (sremove k s) i = grem (lookup s) k i.
  Proof.
    unfold grem, lookup. destruct (String.eqb_spec i k) as [->|Hne].
    - apply sassoc_remove_same.
    - apply sassoc_remove_other. congruence.
  Qed.

  Lemma stored_contains s x : stored (lookup s) x = contains_obj idof s x.
  Proof. reflexivity. Qed.

  Lemma add_refines s g x : abs_eq s g -> abs_eq (fst (add idof s x)) (g_add g x).
  Proof.
    intros HA i. pose proof (add_cases s x) as H. unfold g_add. rewrite <- (HA (idof x)).
    destruct (lookup s (idof x)) as [y|] eqn:E.
    - destruct (Nat.eqb y x); rewrite H; apply HA.
    - rewrite H. cbn [fst]. rewrite lookup_snoc by exact E. unfold gupd. now rewrite HA.
  Qed.
  Lemma discard_refines s g x : abs_eq s g -> abs_eq (fst (discard idof s x)) (g_discard g x).
  Proof.
    intros HA i. pose proof (discard_cases s x) as H. unfold g_discard, stored. rewrite <- (HA (idof x)).
    destruct (lookup s (idof x)) as [y|] eqn:E.
    - destruct (Nat.eqb y x); rewrite H; cbn [fst]; [|apply HA].
      rewrite lookup_sremove. unfold grem. now rewrite HA.
    - rewrite H. apply HA.
  Qed.
  Lemma remove_refines s g x : abs_eq s g -> abs_eq (fst (remove idof s x)) (g_discard g x).
  Proof.
    intros HA. unfold remove. destruct (contains_obj idof s x) eqn:E; [now apply discard_refines|].
    intros i. cbn [fst]. unfold g_discard. replace (stored g x) with false; [apply HA|].
    rewrite <- E, <- stored_contains. unfold stored. now rewrite HA.
  Qed.
  Lemma update_refines xs : forall s g, abs_eq s g ->
    abs_eq (fst (update idof s xs)) (fst (g_update g xs)) /\ snd (update idof s xs) = snd (g_update g xs).
  Proof.
    induction xs as [|x r IH]; intros s g HA; [split; [exact HA|reflexivity]|].
    cbn [update g_update]. pose proof (add_cases s x) as H. pose proof (add_refines s g x HA) as HR.
    unfold g_add in HR. rewrite <- (HA (idof x)) in *.
    destruct (lookup s (idof x)) as [y|] eqn:E.
    - destruct (Nat.eqb y x); rewrite H in *; cbn [fst] in HR.
      + apply IH. exact HR.
      + split; [exact HR|reflexivity].
    - rewrite H in *. cbn [fst] in HR. apply IH. exact HR.
  Qed.

  Lemma construct_refines xs :
    (forall i, lookup (fst (construct idof xs)) i = fst (g_update gempty xs) i) /\
    snd (construct idof xs) = snd (g_update gempty xs) /\ Inv (fst (construct idof xs)).
  Proof.
    unfold construct. destruct (update_refines xs [] gempty (fun _ => eq_refl)) as [H1 H2].
    split; [exact H1|]. split; [exact H2|]. apply Inv_update. exact Inv_nil.
  Qed.

  Lemma step_refines s g o : Inv s -> abs_eq s g ->
    abs_eq (fst (step idof s o)) (ghost_step g o (snd (step idof s o))).
  Proof.
    intros HI HA. destruct o; cbn [step ghost_step fst snd]; try exact HA.
    - now apply add_refines.
    - now apply discard_refines.
    - now apply remove_refines.
    - destruct s as [|[k x] r]; [exact HA|]. rewrite pop_cons by exact HI. cbn [fst snd].
      destruct HI as [Hnd Hid]. inversion Hid as [|? ? Hk _]; subst. cbn in Hk. subst k.
      inversion Hnd as [|? ? Hni _]; subst.
      intros i. unfold grem. rewrite <- HA. unfold lookup. cbn [sassoc].
      destruct (String.eqb_spec i (idof x)) as [->|]; [|reflexivity].
      destruct (sassoc (idof x) r) eqn:E; [|reflexivity]. exfalso. apply Hni. eapply sassoc_in; eauto.
    - rewrite clear_spec by exact HI. intros i. reflexivity.
    - now apply update_refines.
    - now apply update_refines.
  Qed.

  Lemma exec_refines ops : forall s g, Inv s -> abs_eq s g ->
    abs_eq (fst (exec s g ops)) (snd (exec s g ops)) /\ fst (exec s g ops) = run_from idof s ops.
  Proof.
    induction ops as [|o r IH]; intros s g HI HA; [split; [exact HA|reflexivity]|].
    cbn [exec run_from fold_left].
    pose proof (step_refines s g o HI HA) as HS. pose proof (Inv_step s o HI) as HI'.
    destruct (step idof s o) as [s' res]. cbn [fst snd] in *. now apply IH.
  Qed.

  Lemma history_refines ops i : lookup (run idof ops) i = ghost ops i.
  Proof.
    destruct (exec_refines ops [] gempty Inv_nil (fun _ => eq_refl)) as [HA HE].
    unfold ghost, run. rewrite <- HE. apply HA.
  Qed.

  (* ---------- outputs ------------------------------------------------------------------- *)

  Lemma Inv_snd_nodup s : Inv s -> NoDup (map snd s).
  Proof.
    intros [Hnd Hid]. apply (NoDup_map_inv idof). rewrite map_map.
    erewrite map_ext_in; [exact Hnd|]. intros p Hp. rewrite Forall_forall in Hid. now apply Hid.
  Qed.
  Lemma iter_elements s x : Inv s -> (In x (iter s) <-> lookup s (idof x) = Some x).
  Proof.
    intros [Hnd Hid]. unfold iter, lookup. split.
    - intros Hin. apply in_map_iff in Hin. destruct Hin as [[k y] [E Hin]]. cbn in E. subst y.
      rewrite Forall_forall in Hid. pose proof (Hid _ Hin) as Hk. cbn in Hk. subst k.
      now apply In_sassoc.
    - intros H. apply sassoc_In in H. apply in_map_iff. now exists (idof x, x).
  Qed.
  Lemma keys_elements (s : st) i : In i (map fst s) <-> lookup s i <> None.
  Proof.
    unfold lookup. split.
    - intros Hin E. now apply sassoc_none_notin in E.
    - intros H. destruct (sassoc i s) eqn:E; [|congruence]. eapply sassoc_in; eauto.
  Qed.

  Lemma out_ok s o : Inv s -> out_spec (lookup s) o (snd (step idof s o)).
  Proof.
    intros HI. destruct o; cbn [step snd out_spec].
    - pose proof (add_cases s x) as H. destruct (lookup s (idof x)) as [y|];
        [destruct (Nat.eqb y x)|]; now rewrite H.
    - pose proof (discard_cases s x) as H. destruct (lookup s (idof x)) as [y|];
        [destruct (Nat.eqb y x)|]; now rewrite H.
    - rewrite stored_contains. unfold remove. destruct (contains_obj idof s x) eqn:E; [|reflexivity].
      pose proof (discard_cases s x) as H. destruct (lookup s (idof x)) as [y|];
        [destruct (Nat.eqb y x)|]; now rewrite H.
    - destruct s as [|[k x] r]; [left; split; [reflexivity|reflexivity]|].
      right. rewrite pop_cons by exact HI. exists x. split; [reflexivity|].
      destruct HI as [_ Hid]. inversion Hid as [|? ? Hk _]; subst. cbn in Hk. subst k.
      unfold lookup. cbn. now rewrite String.eqb_refl.
    - now rewrite clear_spec.
    - apply (update_refines xs s (lookup s)). intros i; reflexivity.
    - apply (update_refines xs s (lookup s)). intros i; reflexivity.
    - reflexivity.
    - reflexivity.
    - reflexivity.
    - reflexivity.
    - reflexivity.
    - exists (map fst s). split; [unfold len; now rewrite map_length|]. split; [apply HI|].
      intros i. apply keys_elements.
    - exists (iter s). split; [reflexivity|]. split; [now apply Inv_snd_nodup|].
      intros x. now apply iter_elements.
  Qed.

  (* ---------- the clauses of the property, one by one ------------------------------------ *)

  Lemma add_duplicate_rejected s x y : lookup s (idof x) = Some y -> y <> x ->
    step idof s (Add x) = (s, OKeyError).
  Proof.
    intros E Hn. cbn. pose proof (add_cases s x) as H. rewrite E in H.
    destruct (Nat.eqb_spec y x); [contradiction|exact H].
  Qed.
  Lemma add_accepted s x : lookup s (idof x) = None \/ lookup s (idof x) = Some x ->
    snd (step idof s (Add x)) = OUnit /\
    lookup (fst (step idof s (Add x))) (idof x) = Some x /\
    forall i, i <> idof x -> lookup (fst (step idof s (Add x))) i = lookup s i.
  Proof.
    intros H. cbn [step]. pose proof (add_cases s x) as HC. destruct H as [E|E]; rewrite E in HC.
    - rewrite HC. cbn [fst snd]. split; [reflexivity|]. split.
      + rewrite lookup_snoc by exact E. unfold gupd. now rewrite String.eqb_refl.
      + intros i Hi. rewrite lookup_snoc by exact E. unfold gupd.
        destruct (String.eqb_spec i (idof x)); [contradiction|reflexivity].
    - rewrite Nat.eqb_refl in HC. rewrite HC. cbn [fst snd]. auto.
  Qed.

  (* discard / remove of x: no other identifier is touched; x's entry goes iff x itself is stored
     (an object that merely shares the identifier does not evict the stored one) *)
  Lemma removal_spec s x o : o = Discard x \/ o = Remove x ->
    (forall i, i <> idof x -> lookup (fst (step idof s o)) i = lookup s i) /\
    (lookup s (idof x) = Some x -> lookup (fst (step idof s o)) (idof x) = None /\ snd (step idof s o) = OUnit) /\
    (lookup s (idof x) <> Some x -> fst (step idof s o) = s /\
       snd (step idof s o) = match o with Remove _ => OKeyError | _ => OUnit end).
  Proof.
    intros Ho. pose proof (discard_cases s x) as HD.
    assert (HR : remove idof s x = if contains_obj idof s x then discard idof s x else (s, OKeyError))
      by reflexivity.
    unfold contains_obj in HR.
    destruct (lookup s (idof x)) as [y|] eqn:E.
    - destruct (Nat.eqb_spec y x) as [->|Hne].
      + assert (Hs : fst (step idof s o) = sremove (idof x) s /\ snd (step idof s o) = OUnit).
        { destruct Ho as [-> | ->]; cbn [step]; rewrite ?HR, HD; auto. }
        destruct Hs as [-> ->]. split; [|split].
        * intros i Hi. rewrite lookup_sremove. unfold grem.
          destruct (String.eqb_spec i (idof x)); [contradiction|reflexivity].
        * intros _. split; [|reflexivity]. rewrite lookup_sremove. unfold grem. now rewrite String.eqb_refl.
        * intros Hc. congruence.
      + assert (Hs : fst (step idof s o) = s /\
                     snd (step idof s o) = match o with Remove _ => OKeyError | _ => OUnit end).
        { destruct Ho as [-> | ->]; cbn [step]; rewrite ?HR, ?HD; auto. }
        destruct Hs as [-> ->]. split; [auto|]. split; [|auto]. intros Hc. congruence.
    - assert (Hs : fst (step idof s o) = s /\
                   snd (step idof s o) = match o with Remove _ => OKeyError | _ => OUnit end).
      { destruct Ho as [-> | ->]; cbn [step]; rewrite ?HR, ?HD; auto. }
      destruct Hs as [-> ->]. split; [auto|]. split; [|auto]. intros Hc. congruence.
  Qed.

  Lemma pop_spec s : Inv s ->
    match snd (step idof s Pop) with
    | OObj x => lookup s (idof x) = Some x /\ lookup (fst (step idof s Pop)) (idof x) = None /\
                forall i, i <> idof x -> lookup (fst (step idof s Pop)) i = lookup s i
    | OKeyError => (forall i, lookup s i = None) /\ fst (step idof s Pop) = s
    | _ => False
    end.
  Proof.
    intros HI. pose proof (step_refines s (lookup s) Pop HI (fun _ => eq_refl)) as HR.
    pose proof (out_ok s Pop HI) as HO. cbn [out_spec] in HO.
    destruct s as [|[k x] r]; [cbn; auto|].
    cbn [step] in *. rewrite pop_cons in * by exact HI. cbn [fst snd ghost_step] in *.
    destruct HO as [[_ HO]|[x' [E Hx]]]; [discriminate|]. injection E as <-.
    split; [exact Hx|]. split.
    - rewrite HR. unfold grem. now rewrite String.eqb_refl.
    - intros i Hi. rewrite HR. unfold grem. destruct (String.eqb_spec i (idof x)); [contradiction|reflexivity].
  Qed.

  Lemma iteration_spec s : Inv s ->
    NoDup (iter s) /\ (forall x, In x (iter s) <-> lookup s (idof x) = Some x) /\
    len s = List.length (iter s).
  Proof.
    intros HI. split; [now apply Inv_snd_nodup|]. split; [intros x; now apply iter_elements|].
    unfold len, iter. now rewrite map_length.
  Qed.
End StoreProofs.

(* ---------- multiplexer ------------------------------------------------------------------ *)

Lemma mux_some ps i x :
  mux ps i = Some x <->
  exists l1 p l2, ps = (l1 ++ p :: l2)%list /\ p i = Some x /\ Forall (fun q : provider => q i = None) l1.
Proof.
  induction ps as [|p r IH]; cbn.
  - split; [discriminate|]. intros (l1 & p & l2 & E & _). destruct l1; discriminate.
  - destruct (p i) as [y|] eqn:E.
    + split.
      * intros H. exists [], p, r. injection H as ->. auto.
      * intros (l1 & q & l2 & Eq & Hq & Hall). destruct l1 as [|a l1]; cbn in Eq; injection Eq as <- ->.
        -- congruence.
        -- inversion Hall; subst. congruence.
    + rewrite IH. split.
      * intros (l1 & q & l2 & -> & Hq & Hall). exists (p :: l1), q, l2. auto.
      * intros (l1 & q & l2 & Eq & Hq & Hall). destruct l1 as [|a l1]; cbn in Eq; injection Eq as <- ->.
        -- congruence.
        -- inversion Hall; subst. exists l1, q, l2. auto.
Qed.
Lemma mux_none ps i : mux ps i = None <-> Forall (fun q : provider => q i = None) ps.
Proof.
  induction ps as [|p r IH]; cbn; [split; auto|].
  destruct (p i) eqn:E.
  - split; [discriminate|]. intros H. inversion H; congruence.
  - rewrite IH. split; [auto|]. intros H. now inversion H.
Qed.

(* ---------- NamespaceIRIGenerator ------------------------------------------------------- *)

Lemma prefix_append ns t : prefix ns (ns ++ t) = true.
Proof.
  induction ns as [|a s IH]; cbn; [now destruct t|].
  destruct (ascii_dec a a); [exact IH|congruence].
Qed.

Lemma candidate_prefix ns p c : prefix ns (candidate ns p c) = true.
Proof. unfold candidate. destruct (negb (Nat.eqb c 0) || is_empty p); apply prefix_append. Qed.

Lemma candidate_inj ns p a b : candidate ns p a = candidate ns p b -> a = b.
Proof.
  unfold candidate. destruct p as [|ch p].
  - rewrite !orb_true_r. cbn [is_empty append]. intros H. apply append_inv_head in H. now apply pad4_inj.
  - cbn [is_empty]. rewrite !orb_false_r.
    destruct (Nat.eqb_spec a 0) as [->|Ha]; destruct (Nat.eqb_spec b 0) as [->|Hb]; cbn [negb]; intros H.
    + reflexivity.
    + exfalso. apply append_inv_head in H. apply (f_equal String.length) in H.
      rewrite !append_length in H. cbn in H. lia.
    + exfalso. apply append_inv_head in H. apply (f_equal String.length) in H.
      rewrite !append_length in H. cbn in H. lia.
    + apply append_inv_head in H. apply append_inv_head in H. cbn in H. injection H as H. now apply pad4_inj.
Qed.

Lemma gen_loop_none knows ns p : forall fuel c, gen_loop fuel knows ns p c = None ->
  forall k, c <= k < c + fuel -> knows (candidate ns p k) = true.
Proof.
  induction fuel as [|f IH]; intros c H k Hk; [lia|]. cbn in H.
  destruct (knows (candidate ns p c)) eqn:E; [|discriminate].
  destruct (Nat.eq_dec k c) as [->|]; [exact E|]. apply (IH (S c)); [exact H|lia].
Qed.
Lemma gen_loop_some knows ns p : forall fuel c iri c', gen_loop fuel knows ns p c = Some (iri, c') ->
  iri = candidate ns p c' /\ knows iri = false /\ c <= c' < c + fuel /\
  forall k, c <= k < c' -> knows (candidate ns p k) = true.
Proof.
  induction fuel as [|f IH]; intros c iri c' H; [discriminate|]. cbn in H.
  destruct (knows (candidate ns p c)) eqn:E.
  - destruct (IH _ _ _ H) as (H1 & H2 & H3 & H4). repeat split; try assumption; try lia.
    intros k Hk. destruct (Nat.eq_dec k c) as [->|]; [exact E|]. apply H4. lia.
  - injection H as <- <-. repeat split; try assumption; try lia.
Qed.

Lemma seq_candidate_nodup ns p c n : NoDup (map (candidate ns p) (seq c n)).
Proof.
  apply FinFun.Injective_map_NoDup; [|apply seq_NoDup]. intros a b. apply candidate_inj.
Qed.

(* pigeonhole: among more candidates than the provider has identifiers one is free *)
Lemma known_run_bound knows known ns p c n :
  (forall i, knows i = true -> In i known) ->
  (forall k, c <= k < c + n -> knows (candidate ns p k) = true) -> n <= List.length known.
Proof.
  intros Hk Hall.
  assert (Hincl : incl (map (candidate ns p) (seq c n)) known).
  { intros x Hx. apply in_map_iff in Hx. destruct Hx as [j [<- Hj]]. apply in_seq in Hj.
    apply Hk, Hall. lia. }
  apply NoDup_incl_length in Hincl; [|apply seq_candidate_nodup].
  now rewrite map_length, seq_length in Hincl.
Qed.

Lemma gen_loop_terminates knows known ns p c fuel :
  (forall i, knows i = true -> In i known) -> fuel > List.length known ->
  exists c', gen_loop fuel knows ns p c = Some (candidate ns p c', c') /\
    knows (candidate ns p c') = false /\ c <= c' <= c + List.length known /\
    forall k, c <= k < c' -> knows (candidate ns p k) = true.
Proof.
  intros Hk Hf. destruct (gen_loop fuel knows ns p c) as [[iri c']|] eqn:E.
  - destruct (gen_loop_some _ _ _ _ _ _ _ E) as (-> & H2 & H3 & H4).
    exists c'. repeat split; try assumption; try lia.
    pose proof (known_run_bound knows known ns p c (c' - c) Hk) as Hb.
    assert (c' - c <= List.length known); [|unfold ident in *; lia]. apply Hb. intros k Hkk. apply H4. lia.
  - exfalso. pose proof (gen_loop_none _ _ _ _ _ E) as Hall.
    pose proof (known_run_bound knows known ns p c fuel Hk Hall). unfold ident in *. lia.
Qed.

Lemma cset_same k v l : sassoc k (cset k v l) = Some v.
Proof.
  induction l as [|[k' v'] r IH]; cbn.
  - now rewrite String.eqb_refl.
  - destruct (String.eqb k k') eqn:E; cbn; [now rewrite String.eqb_refl|now rewrite E].
Qed.

Lemma generate_id_spec fuel g knows known proposal :
  (forall i, knows i = true -> In i known) -> fuel > List.length known ->
  let p := quote (match proposal with Some p => p | None => "" end) in
  exists c,
    generate_id fuel g knows proposal
      = (mkGen (g_ns g) (cset p c (g_cache g)), GId (candidate (g_ns g) p c)) /\
    prefix (g_ns g) (candidate (g_ns g) p c) = true /\
    knows (candidate (g_ns g) p c) = false /\
    start_counter g p <= c <= start_counter g p + List.length known /\
    (forall k, start_counter g p <= k < c -> knows (candidate (g_ns g) p k) = true) /\
    start_counter (fst (generate_id fuel g knows proposal)) p = c.
Proof.
  intros Hk Hf p.
  destruct (gen_loop_terminates knows known (g_ns g) p (start_counter g p) fuel Hk Hf)
    as (c & E & H2 & H3 & H4).
  exists c. unfold generate_id. fold p. rewrite E. repeat split; try assumption; try lia.
  - apply candidate_prefix.
  - cbn. unfold start_counter. cbn. now rewrite cset_same.
Qed.

(* the provider being a multiplexer over dict stores: its identifiers are the stores' keys *)
Lemma mux_stores_known (stores : list st) i :
  knows_of (mux (map lookup stores)) i = true -> In i (flat_map (map fst) stores).
Proof.
  unfold knows_of. destruct (mux (map lookup stores) i) as [x|] eqn:E; [intros _|discriminate].
  apply mux_some in E. destruct E as (l1 & p & l2 & Eq & Hp & _).
  assert (Hin : In p (map lookup stores)) by (rewrite Eq; apply in_elt).
  apply in_map_iff in Hin. destruct Hin as [s [<- Hs]].
  apply in_flat_map. exists s. split; [exact Hs|]. eapply sassoc_in; eauto.
Qed.

(* ---------- _quote_iri_segment ------------------------------------------------------------ *)

Fixpoint chars (s : string) : list ascii :=
  match s with EmptyString => [] | String c r => c :: chars r end.
Lemma chars_app s t : chars (s ++ t) = (chars s ++ chars t)%list.
Proof. induction s as [|a s IH]; cbn; [reflexivity|now rewrite IH]. Qed.

Definition clean (c : ascii) : bool := negb (removed_char c) && negb (is_quoted c).

Lemma hex_digit_clean n : clean (hex_digit n) = true.
Proof. do 16 (destruct n as [|n]; [reflexivity|]). reflexivity. Qed.

Lemma quote_char_clean c : forallb clean (chars (quote_char c)) = true.
Proof.
  unfold quote_char. destruct (removed_char c) eqn:R; [reflexivity|].
  destruct (is_quoted c) eqn:Q.
  - unfold percent. cbn [chars forallb]. rewrite !hex_digit_clean. reflexivity.
  - cbn. unfold clean. now rewrite R, Q.
Qed.
Lemma quote_clean s : forallb clean (chars (quote s)) = true.
Proof.
  induction s as [|c r IH]; [reflexivity|]. cbn [quote]. rewrite chars_app, forallb_app, IH.
  now rewrite quote_char_clean.
Qed.
(* characters outside the table pass unchanged *)
Lemma quote_clean_id s : forallb clean (chars s) = true -> quote s = s.
Proof.
  induction s as [|c r IH]; [reflexivity|]. cbn [chars forallb quote]. intros H.
  apply andb_true_iff in H. destruct H as [Hc Hr]. rewrite (IH Hr).
  unfold clean in Hc. apply andb_true_iff in Hc. destruct Hc as [H1 H2].
  apply negb_true_iff in H1, H2. unfold quote_char. now rewrite H1, H2.
Qed.
