(* Lemmas about model/Dispatch.v (property C17). *)
From Coq Require Import List ZArith Bool String Ascii Lia.
From Basyx Require Import gen.Gen_RefKeys model.Refs model.Dispatch proofs.RefsProofs.
Import ListNotations.
Local Open Scope string_scope.
Local Open Scope list_scope.

(* ------------------------------------------------------------------ induction over trees *)

Fixpoint tree_ind' (P : tree -> Prop)
  (H : forall c i k s ch, Forall P ch -> P (Node c i k s ch)) (t : tree) : P t.
Proof.
  destruct t as [c i k s ch]. apply H.
  induction ch as [|x r IHr]; constructor; [apply tree_ind'; exact H | exact IHr].
Qed.

Lemma wf_tree_children : forall t, wf_tree t -> Forall wf_tree (t_ch t).
Proof.
  intros t Hwf. apply Forall_forall. intros x Hin.
  destruct (In_nth_error _ _ Hin) as [i Hi]. eapply wf_child; eauto.
Qed.

(* ------------------------------------------------------------------ sequencing *)

Lemma then_nil_l : forall a, then_ nil_out a = a.
Proof. intros [c e]. reflexivity. Qed.

Lemma then_nil_r : forall a, then_ a nil_out = a.
Proof. intros [c [e|]]; unfold then_; simpl; auto. rewrite app_nil_r. reflexivity. Qed.

Lemma then_assoc : forall a b c, then_ (then_ a b) c = then_ a (then_ b c).
Proof.
  intros [ca [ea|]] [cb [eb|]] [cc ec]; unfold then_; simpl; auto. rewrite app_assoc. reflexivity.
Qed.

Lemma run_app : forall reg k a b, run reg k (a ++ b) = then_ (run reg k a) (run reg k b).
Proof.
  induction a; intros b; simpl.
  - rewrite then_nil_l. reflexivity.
  - rewrite IHa, then_assoc. reflexivity.
Qed.

(* ------------------------------------------------------------------ the subtree traversal *)

Lemma direct_unfold : forall reg k t here,
  direct reg k t here = then_ (own_call reg k t here) (children_direct reg k t here).
Proof.
  intros reg k [c i ky s ch] here. unfold children_direct. simpl. destruct (is_namespace c); [|reflexivity].
  f_equal. generalize 0%nat. induction ch as [|x r IH]; intros j; simpl; [reflexivity|]. rewrite IH. reflexivity.
Qed.

Lemma nodes_unfold : forall t here, nodes t here = (here, t) :: nodes_list (t_ch t) here 0.
Proof.
  intros [c i ky s ch] here. simpl. f_equal.
  generalize 0%nat. induction ch as [|x r IH]; intros j; simpl; [reflexivity|]. rewrite IH. reflexivity.
Qed.

Lemma self_visits_app : forall a b, self_visits (a ++ b) = self_visits a ++ self_visits b.
Proof. intros. unfold self_visits. rewrite filter_app, map_app. reflexivity. Qed.

Lemma self_visits_cons : forall q m l, self_visits ((q, m) :: l) =
  (if sourced m then [mkVisit (t_src m) q q []] else []) ++ self_visits l.
Proof. intros. unfold self_visits. simpl. destruct (sourced m); reflexivity. Qed.

Lemma own_call_run : forall reg k t here,
  own_call reg k t here = run reg k (if sourced t then [mkVisit (t_src t) here here []] else []).
Proof.
  intros. unfold own_call. destruct (sourced t); simpl; [|reflexivity]. rewrite then_nil_r. reflexivity.
Qed.

Lemma direct_nodes : forall t reg k here, wf_tree t ->
  direct reg k t here = run reg k (self_visits (nodes t here)).
Proof.
  induction t using tree_ind'. intros reg kd here Hwf.
  rewrite direct_unfold, nodes_unfold, self_visits_cons, run_app, <- own_call_run. f_equal.
  unfold children_direct. cbn [t_cls t_ch].
  pose proof (wf_tree_children _ Hwf) as Hch. cbn [t_ch] in Hch.
  destruct (wf_node_ok _ Hwf) as [Hns _]. cbn [t_ch t_cls] in Hns.
  destruct ch as [|x0 r0]; [destruct (is_namespace c); reflexivity|].
  rewrite Hns by discriminate.
  generalize 0%nat. revert H Hch. generalize (x0 :: r0). clear.
  induction l as [|x r IH]; intros HP Hwf j; simpl; [reflexivity|].
  inversion HP; subst. inversion Hwf; subst.
  rewrite self_visits_app, run_app. rewrite H1 by assumption. rewrite IH by assumption. reflexivity.
Qed.

Lemma children_nodes : forall t reg k here, wf_tree t ->
  children_direct reg k t here = run reg k (self_visits (nodes_list (t_ch t) here 0)).
Proof.
  intros t reg k here Hwf. unfold children_direct.
  pose proof (wf_tree_children _ Hwf) as Hch.
  destruct (wf_node_ok _ Hwf) as [Hns _].
  destruct (t_ch t) as [|x0 r0]; [destruct (is_namespace (t_cls t)); reflexivity|].
  rewrite Hns by discriminate.
  generalize 0%nat. revert Hch. generalize (x0 :: r0). clear.
  induction l as [|x r IH]; intros Hwf j; simpl; [reflexivity|].
  inversion Hwf; subst.
  rewrite self_visits_app, run_app, direct_nodes by assumption. rewrite IH by assumption. reflexivity.
Qed.

(* ------------------------------------------------------------------ the parent chain *)

Lemma segs_cons : forall t i r c, nth_error (t_ch t) i = Some c -> segs t (i :: r) = seg_of t i c :: segs c r.
Proof. intros. simpl. rewrite H. reflexivity. Qed.

Lemma chain_spec : forall reg obj p t here sg acc l,
  chain t here sg p acc = Some l ->
  exists n nsg below,
    l = (n, here ++ p, nsg) :: below ++ acc /\ addr t p = Some n /\
    commit_anc reg obj (below ++ acc) [nsg] =
      then_ (run reg KCommit (rev (anc_visits t here p obj))) (commit_anc reg obj acc (sg :: segs t p)) /\
    find_source ((n, here ++ p, nsg) :: below ++ acc) [] =
      match nearest t here sg p obj with
      | Some v => Some (v_src v, v_store v, v_rel v)
      | None => find_source acc (sg :: segs t p)
      end.
Proof.
  induction p as [|i r IH]; intros t here sg acc l Hc; simpl in Hc.
  - injection Hc as <-. exists t, sg, []. rewrite app_nil_r. simpl.
    split; [reflexivity|]. split; [reflexivity|]. split; [rewrite then_nil_l; reflexivity|].
    destruct (sourced t); reflexivity.
  - destruct (nth_error (t_ch t) i) as [c|] eqn:Hn; [|discriminate].
    destruct (IH c (here ++ [i]) (seg_of t i c) ((t, here, sg) :: acc) l Hc) as [n [nsg [below [Hl [Ha [Hca Hfs]]]]]].
    exists n, nsg, (below ++ [(t, here, sg)]).
    rewrite <- app_assoc in Hl. cbn [app] in Hl. rewrite <- !app_assoc. cbn [app].
    split; [exact Hl|]. split; [simpl; rewrite Hn; exact Ha|].
    rewrite (segs_cons _ _ _ _ Hn). split.
    + etransitivity; [exact Hca|]. cbn [commit_anc anc_visits]. rewrite Hn.
      rewrite rev_app_distr, run_app, then_assoc. f_equal.
      destruct (sourced t); simpl; rewrite ?Hn.
      * rewrite then_nil_r. reflexivity.
      * rewrite then_nil_l. reflexivity.
    + rewrite <- app_assoc in Hfs. cbn [app] in Hfs. etransitivity; [exact Hfs|]. cbn [nearest]. rewrite Hn.
      destruct (nearest c (here ++ [i]) (seg_of t i c) r obj) as [v|]; [reflexivity|].
      cbn [find_source]. rewrite (segs_cons _ _ _ _ Hn). destruct (sourced t); reflexivity.
Qed.

Lemma chain_exists : forall p t here sg acc n, addr t p = Some n -> exists l, chain t here sg p acc = Some l.
Proof.
  induction p as [|i r IH]; intros t here sg acc n Ha; simpl in *.
  - eexists; reflexivity.
  - destruct (nth_error (t_ch t) i) as [c|]; [|discriminate]. eapply IH; eauto.
Qed.

Lemma wf_addr : forall p t n, wf_tree t -> addr t p = Some n -> wf_tree n.
Proof.
  induction p as [|i r IH]; intros t n Hwf Ha; simpl in Ha.
  - injection Ha as <-. exact Hwf.
  - destruct (nth_error (t_ch t) i) as [c|] eqn:Hn; [|discriminate].
    exact (IH c n (wf_child _ _ _ Hwf Hn) Ha).
Qed.

Lemma nearest_obj : forall p t here sg obj v, nearest t here sg p obj = Some v -> v_obj v = obj.
Proof.
  induction p as [|i r IH]; intros t here sg obj v H; simpl in H.
  - destruct (sourced t); [injection H as <-; reflexivity | discriminate].
  - destruct (nth_error (t_ch t) i) as [c|]; [|discriminate].
    destruct (nearest c (here ++ [i]) (seg_of t i c) r obj) as [v'|] eqn:E.
    + injection H as <-. eapply IH; eauto.
    + destruct (sourced t); [injection H as <-; reflexivity | discriminate].
Qed.

(* ------------------------------------------------------------------ commit() and update() = their intended calls *)

Lemma commit_is_run : forall reg root p n, wf_tree root -> addr root p = Some n ->
  commit reg root p = Some (run reg KCommit (commit_visits root p n)).
Proof.
  intros reg root p n Hwf Ha.
  destruct (chain_exists p root [] (t_key root) [] n Ha) as [l Hl].
  destruct (chain_spec reg p p root [] (t_key root) [] l Hl) as [n' [nsg [below [-> [Ha' [Hca _]]]]]].
  rewrite Ha in Ha'. injection Ha' as <-.
  unfold commit. rewrite Hl. cbn [app] in *. rewrite Hca. cbn [commit_anc]. rewrite then_nil_r.
  rewrite (direct_nodes n reg KCommit p (wf_addr _ _ _ Hwf Ha)).
  unfold commit_visits. rewrite run_app. reflexivity.
Qed.

Lemma update_is_run : forall reg root p n recursive, wf_tree root -> addr root p = Some n ->
  update reg root p recursive = Some (run reg KUpdate (update_visits root p n recursive)).
Proof.
  intros reg root p n recursive Hwf Ha.
  destruct (chain_exists p root [] (t_key root) [] n Ha) as [l Hl].
  destruct (chain_spec reg p p root [] (t_key root) [] l Hl) as [n' [nsg [below [-> [Ha' [_ Hfs]]]]]].
  rewrite Ha in Ha'. injection Ha' as <-.
  unfold update. rewrite Hl. cbn [app] in *. unfold update_visits. rewrite run_app. f_equal. f_equal.
  - destruct (sourced n).
    + simpl. rewrite then_nil_r. reflexivity.
    + match goal with |- match ?X with _ => _ end = _ =>
        assert (EX : X = match nearest root [] (t_key root) p p with
                         | Some v => Some (v_src v, v_store v, v_rel v)
                         | None => find_source [] (t_key root :: segs root p)
                         end) by exact Hfs; rewrite EX; clear EX end.
      destruct (nearest root [] (t_key root) p p) as [v|] eqn:En.
      * simpl. rewrite then_nil_r. rewrite (nearest_obj _ _ _ _ _ _ En). reflexivity.
      * reflexivity.
  - destruct recursive; [|reflexivity]. apply children_nodes. eapply wf_addr; eauto.
Qed.

(* ------------------------------------------------------------------ what `run` does *)

Definition backend_of (reg : registry) (v : visit) : option nat :=
  match get_backend reg (v_src v) with inr b => Some b | inl _ => None end.
Definition to_call (k : kind) (b : nat) (v : visit) : call := mkCall k b (v_store v) (v_obj v) (v_rel v).

(* every source has a backend: no exception, one call per intended call, in order *)
Lemma run_all_ok : forall reg k vs bs,
  map (backend_of reg) vs = map Some bs ->
  run reg k vs = (map (fun bv => to_call k (fst bv) (snd bv)) (combine bs vs), None).
Proof.
  induction vs as [|v r IH]; intros bs H; destruct bs as [|b bs']; simpl in H; try discriminate.
  - reflexivity.
  - injection H as Hb Hr. simpl. unfold one_call, backend_of in *.
    destruct (get_backend reg (v_src v)) as [e|b']; [discriminate|]. injection Hb as ->.
    rewrite (IH bs' Hr). reflexivity.
Qed.

(* the first source without backend ends the traversal with its error, after exactly the calls before it *)
Lemma run_stops : forall reg k pre v post bs e,
  map (backend_of reg) pre = map Some bs -> get_backend reg (v_src v) = inl e ->
  run reg k (pre ++ v :: post) = (map (fun bv => to_call k (fst bv) (snd bv)) (combine bs pre), Some e).
Proof.
  intros reg k pre v post bs e Hpre He. rewrite run_app, (run_all_ok _ _ _ _ Hpre).
  simpl. unfold one_call. rewrite He. unfold then_. simpl. rewrite app_nil_r. reflexivity.
Qed.

Lemma run_error_inv : forall reg k vs calls e, run reg k vs = (calls, Some e) ->
  exists pre v post bs, vs = pre ++ v :: post /\ map (backend_of reg) pre = map Some bs /\
                        get_backend reg (v_src v) = inl e.
Proof.
  induction vs as [|v r IH]; intros calls e H; simpl in H; [discriminate|].
  unfold one_call in H. destruct (get_backend reg (v_src v)) as [e'|b] eqn:Eb.
  - unfold then_ in H. simpl in H. injection H as _ <-. exists [], v, r, []. auto.
  - unfold then_ in H. simpl in H. destruct (run reg k r) as [c' e''] eqn:Er. simpl in H.
    injection H as _ ->. destruct (IH _ _ eq_refl) as [pre [v' [post [bs [-> [Hp He]]]]]].
    exists (v :: pre), v', post, (b :: bs). simpl. unfold backend_of at 1. rewrite Eb, Hp. auto.
Qed.

Lemma get_backend_spec : forall reg url,
  (get_backend reg url = inl BValueError <-> scheme_of url = None) /\
  (get_backend reg url = inl BUnknownBackend <-> exists s, scheme_of url = Some s /\ reg_lookup reg s = None) /\
  (forall b, get_backend reg url = inr b <-> exists s, scheme_of url = Some s /\ reg_lookup reg s = Some b).
Proof.
  intros reg url. unfold get_backend. destruct (scheme_of url) as [s|].
  - destruct (reg_lookup reg s) as [b|] eqn:E.
    + split; [split; discriminate|]. split; [split; [discriminate | intros [s' [Hs Hn]]; congruence]|].
      intros b'. split; [intros H; injection H as <-; eauto | intros [s' [Hs Hb]]; congruence].
    + split; [split; discriminate|]. split; [split; eauto|].
      intros b'. split; [discriminate | intros [s' [Hs Hb]]; congruence].
  - split; [tauto|]. split; [split; [discriminate | intros [s [Hs _]]; discriminate]|].
    intros b. split; [discriminate | intros [s [Hs _]]; discriminate].
Qed.

(* ------------------------------------------------------------------ who is visited: ancestors *)

Lemma addr_app : forall q t r, addr t (q ++ r) = match addr t q with Some a => addr a r | None => None end.
Proof.
  induction q as [|i q IH]; intros t r; simpl; [reflexivity|].
  destruct (nth_error (t_ch t) i); [apply IH | reflexivity].
Qed.

Lemma anc_visits_in : forall p t here obj v, In v (anc_visits t here p obj) ->
  exists k a, (k < List.length p)%nat /\ addr t (firstn k p) = Some a /\ sourced a = true /\
              v = mkVisit (t_src a) (here ++ firstn k p) obj (segs a (skipn k p)).
Proof.
  induction p as [|i r IH]; intros t here obj v Hin; simpl in Hin; [contradiction|].
  destruct (nth_error (t_ch t) i) as [c|] eqn:Hn; [|contradiction].
  apply in_app_or in Hin. destruct Hin as [Hin | Hin].
  - destruct (sourced t) eqn:Es; [|contradiction]. destruct Hin as [<- | []].
    exists 0%nat, t. simpl. rewrite app_nil_r, Hn. repeat split; auto; lia.
  - destruct (IH _ _ _ _ Hin) as [k [a [Hk [Ha [Hs ->]]]]].
    exists (S k), a. simpl. rewrite Hn, <- app_assoc. simpl. repeat split; auto; lia.
Qed.

Lemma anc_visits_complete : forall p t here obj k a,
  (k < List.length p)%nat -> addr t p <> None -> addr t (firstn k p) = Some a -> sourced a = true ->
  In (mkVisit (t_src a) (here ++ firstn k p) obj (segs a (skipn k p))) (anc_visits t here p obj).
Proof.
  induction p as [|i r IH]; intros t here obj k a Hk Hp Ha Hs; simpl in Hk; [lia|].
  simpl in Hp. simpl. destruct (nth_error (t_ch t) i) as [c|] eqn:Hn; [|congruence].
  apply in_or_app. destruct k as [|k].
  - left. simpl in Ha. injection Ha as <-. rewrite Hs. simpl. rewrite app_nil_r, Hn. auto.
  - right. simpl in Ha. rewrite Hn in Ha. simpl.
    replace (here ++ i :: firstn k r) with ((here ++ [i]) ++ firstn k r) by (rewrite <- app_assoc; reflexivity).
    apply IH; auto. lia.
Qed.

Lemma anc_store_len : forall p t here obj v, In v (anc_visits t here p obj) ->
  (List.length here <= List.length (v_store v))%nat.
Proof.
  intros. destruct (anc_visits_in _ _ _ _ _ H) as [k [a [_ [_ [_ ->]]]]]. simpl. rewrite app_length. lia.
Qed.

Lemma anc_stores_nodup : forall p t here obj, NoDup (map v_store (anc_visits t here p obj)).
Proof.
  induction p as [|i r IH]; intros t here obj; simpl; [constructor|].
  destruct (nth_error (t_ch t) i) as [c|]; [|constructor].
  rewrite map_app. destruct (sourced t); simpl; [|apply IH].
  constructor; [|apply IH]. intros Hin. apply in_map_iff in Hin. destruct Hin as [v [Hv Hin]].
  apply anc_store_len in Hin. rewrite Hv, app_length in Hin. simpl in Hin. lia.
Qed.

(* ------------------------------------------------------------------ who is visited: the subtree *)

Lemma nodes_list_in : forall l here j q m,
  Forall (fun x => forall here q m, In (q, m) (nodes x here) <-> exists r, q = here ++ r /\ addr x r = Some m) l ->
  (In (q, m) (nodes_list l here j) <->
   exists i x r, nth_error l i = Some x /\ q = here ++ (j + i)%nat :: r /\ addr x r = Some m).
Proof.
  induction l as [|x l IH]; intros here j q m HP; simpl.
  - split; [contradiction | intros [i [x [r [H _]]]]; destruct i; discriminate].
  - inversion HP as [|? ? Hx Hl]; subst. rewrite in_app_iff, Hx, (IH here (S j) q m Hl). split.
    + intros [[r [-> Ha]] | [i [y [r [Hn [-> Ha]]]]]].
      * exists 0%nat, x, r. rewrite Nat.add_0_r, <- app_assoc. auto.
      * exists (S i), y, r. simpl. replace (j + S i)%nat with (S j + i)%nat by lia. auto.
    + intros [i [y [r [Hn [-> Ha]]]]]. destruct i; simpl in Hn.
      * injection Hn as <-. left. exists r. rewrite Nat.add_0_r, <- app_assoc. auto.
      * right. exists i, y, r. replace (S j + i)%nat with (j + S i)%nat by lia. auto.
Qed.

Lemma nodes_in : forall t here q m, In (q, m) (nodes t here) <-> exists r, q = here ++ r /\ addr t r = Some m.
Proof.
  induction t using tree_ind'. intros here q m. rewrite nodes_unfold. cbn [t_ch In].
  rewrite (nodes_list_in ch here 0 q m H). split.
  - intros [Heq | [j [x [r [Hn [-> Ha]]]]]].
    + injection Heq as <- <-. exists []. rewrite app_nil_r. auto.
    + exists (j :: r). simpl. rewrite Hn. auto.
  - intros [[|j r] [-> Ha]]; simpl in Ha.
    + injection Ha as <-. left. rewrite app_nil_r. reflexivity.
    + right. destruct (nth_error ch j) as [x|] eqn:Hn; [|discriminate]. exists j, x, r. auto.
Qed.

Lemma NoDup_app_intro : forall (A : Type) (a b : list A),
  NoDup a -> NoDup b -> (forall x, In x a -> ~ In x b) -> NoDup (a ++ b).
Proof.
  induction a; intros b Ha Hb Hd; simpl; auto. inversion Ha; subst. constructor.
  - rewrite in_app_iff. intros [H | H]; [contradiction | apply (Hd a); simpl; auto].
  - apply IHa; auto. intros x Hx. apply Hd. simpl. auto.
Qed.

Lemma nodes_prefix : forall t here q, In q (map fst (nodes t here)) -> exists r, q = here ++ r.
Proof.
  intros t here q Hin. apply in_map_iff in Hin. destruct Hin as [[q' m] [<- Hin]].
  apply nodes_in in Hin. destruct Hin as [r [-> _]]. exists r. reflexivity.
Qed.

Lemma nodes_list_prefix : forall l here j q, In q (map fst (nodes_list l here j)) ->
  exists i r, q = here ++ (j + i)%nat :: r.
Proof.
  induction l as [|x l IH]; intros here j q Hin; simpl in Hin; [contradiction|].
  rewrite map_app, in_app_iff in Hin. destruct Hin as [Hin | Hin].
  - apply nodes_prefix in Hin. destruct Hin as [r ->]. exists 0%nat, r. rewrite Nat.add_0_r, <- app_assoc. reflexivity.
  - apply IH in Hin. destruct Hin as [i [r ->]]. exists (S i), r. replace (j + S i)%nat with (S j + i)%nat by lia. reflexivity.
Qed.

Lemma nodes_list_nodup : forall l here j,
  Forall (fun x => forall here, NoDup (map fst (nodes x here))) l -> NoDup (map fst (nodes_list l here j)).
Proof.
  induction l as [|x l IH]; intros here j HP; simpl; [constructor|].
  inversion HP; subst. rewrite map_app. apply NoDup_app_intro; auto.
  intros q Hq1 Hq2. apply nodes_prefix in Hq1. destruct Hq1 as [r ->].
  apply nodes_list_prefix in Hq2. destruct Hq2 as [i [r' Heq]].
  rewrite <- app_assoc in Heq. apply app_inv_head in Heq. simpl in Heq. injection Heq as Hj _. lia.
Qed.

Lemma nodes_nodup : forall t here, NoDup (map fst (nodes t here)).
Proof.
  induction t using tree_ind'. intros here. rewrite nodes_unfold. cbn [t_ch map fst]. constructor.
  - intros Hin. apply nodes_list_prefix in Hin. destruct Hin as [j [r Heq]].
    apply (f_equal (@List.length nat)) in Heq. rewrite app_length in Heq. simpl in Heq. lia.
  - apply nodes_list_nodup. exact H.
Qed.

Lemma self_visits_in : forall l v, In v (self_visits l) <->
  exists q m, In (q, m) l /\ sourced m = true /\ v = mkVisit (t_src m) q q [].
Proof.
  intros l v. unfold self_visits. rewrite in_map_iff. split.
  - intros [[q m] [<- Hin]]. apply filter_In in Hin. destruct Hin as [Hin Hs]. exists q, m. auto.
  - intros [q [m [Hin [Hs ->]]]]. exists (q, m). split; [reflexivity|]. apply filter_In. auto.
Qed.

Lemma self_visits_stores_nodup : forall l, NoDup (map fst l) -> NoDup (map v_store (self_visits l)).
Proof.
  induction l as [|[q m] l IH]; intros Hnd; [constructor|].
  rewrite self_visits_cons. simpl in Hnd. inversion Hnd; subst.
  destruct (sourced m); simpl; [|auto]. constructor; [|auto].
  intros Hin. apply in_map_iff in Hin. destruct Hin as [v [Hv Hin]].
  apply self_visits_in in Hin. destruct Hin as [q' [m' [Hin' [_ ->]]]]. simpl in Hv. subst q'.
  apply H1. apply in_map_iff. exists (q, m'). auto.
Qed.

(* ------------------------------------------------------------------ relative paths *)

Lemma segs_key_chain : forall r a kc, key_chain a r = Some kc -> all_some (segs a r) = Some (map snd kc).
Proof.
  induction r as [|i r IH]; intros a kc H; simpl in H.
  - injection H as <-. reflexivity.
  - destruct (nth_error (t_ch a) i) as [c|] eqn:Hn; [|discriminate].
    destruct (if is_list (t_cls a) then Some (index_str i) else t_key c) as [v|] eqn:Ev; [|discriminate].
    destruct (key_chain c r) as [kc'|] eqn:Hk; [|discriminate]. injection H as <-.
    rewrite (segs_cons _ _ _ _ Hn). unfold seg_of. destruct (is_list (t_cls a)).
    + injection Ev as <-. cbn [all_some]. rewrite (IH _ _ Hk). reflexivity.
    + rewrite Ev. cbn [all_some]. rewrite (IH _ _ Hk). reflexivity.
Qed.

Lemma segs_lead : forall a r n, wf_tree a -> addr a r = Some n ->
  exists ids, all_some (segs a r) = Some ids /\ get_ref a ids = Ok (r, n).
Proof.
  intros a r n Hwf Ha. destruct (key_chain_exists _ _ _ Hwf Ha) as [kc [Hkc Hg]].
  exists (map snd kc). split; [apply segs_key_chain; exact Hkc | exact Hg].
Qed.

Lemma addr_firstn_skipn : forall p t n k a, addr t p = Some n -> addr t (firstn k p) = Some a ->
  addr a (skipn k p) = Some n.
Proof.
  intros p t n k a Hp Ha. rewrite <- (firstn_skipn k p) in Hp. rewrite addr_app, Ha in Hp. exact Hp.
Qed.

Lemma commit_paths_lead : forall root p n v, wf_tree root -> addr root p = Some n ->
  In v (commit_visits root p n) -> path_leads root (v_store v) (v_obj v) (v_rel v).
Proof.
  intros root p n v Hwf Ha Hin. unfold commit_visits in Hin. apply in_app_or in Hin. destruct Hin as [Hin | Hin].
  - apply in_rev in Hin. destruct (anc_visits_in _ _ _ _ _ Hin) as [k [a [Hk [Haa [Hs ->]]]]]. simpl.
    pose proof (addr_firstn_skipn _ _ _ _ _ Ha Haa) as Hr.
    destruct (segs_lead _ _ _ (wf_addr _ _ _ Hwf Haa) Hr) as [ids [Hall Hg]].
    exists a, ids, (skipn k p), n. rewrite firstn_skipn. auto.
  - apply self_visits_in in Hin. destruct Hin as [q [m [Hq [Hs ->]]]]. simpl.
    apply nodes_in in Hq. destruct Hq as [r [-> Hr]].
    exists m, [], [], m. rewrite app_nil_r, addr_app, Ha. auto.
Qed.

Lemma path_leads_b : forall root store obj rel, path_leads root store obj rel -> path_leadsb root store obj rel = true.
Proof.
  intros root store obj rel [a [ids [q [n [Ha [Hs [Hg ->]]]]]]]. unfold path_leadsb. rewrite Ha, Hs, Hg.
  destruct (list_eq_dec Nat.eq_dec (store ++ q) (store ++ q)); congruence.
Qed.

(* ------------------------------------------------------------------ update(): the closest source *)

Lemma nearest_none : forall p t here sg obj n, nearest t here sg p obj = None -> addr t p = Some n ->
  forall k a, addr t (firstn k p) = Some a -> sourced a = false.
Proof.
  induction p as [|i r IH]; intros t here sg obj n H Hp k a Ha; simpl in H.
  - destruct k; simpl in Ha; injection Ha as <-; destruct (sourced t); congruence.
  - simpl in Hp. destruct (nth_error (t_ch t) i) as [c|] eqn:Hn; [|discriminate].
    destruct (nearest c (here ++ [i]) (seg_of t i c) r obj) as [v'|] eqn:E; [discriminate|].
    destruct k as [|k]; simpl in Ha.
    + injection Ha as <-. destruct (sourced t); congruence.
    + rewrite Hn in Ha. eapply IH; eauto.
Qed.

Lemma nearest_spec : forall p t here sg obj n v, nearest t here sg p obj = Some v -> addr t p = Some n ->
  exists k a, (k <= List.length p)%nat /\ addr t (firstn k p) = Some a /\ sourced a = true /\
    v_src v = t_src a /\ v_store v = here ++ firstn k p /\ v_obj v = obj /\
    tl (v_rel v) = segs a (skipn k p) /\ v_rel v <> [] /\
    (forall k' a', (k < k')%nat -> addr t (firstn k' p) = Some a' -> k' <= List.length p -> sourced a' = false)%nat.
Proof.
  induction p as [|i r IH]; intros t here sg obj n v H Hp; simpl in H.
  - destruct (sourced t) eqn:Es; [|discriminate]. injection H as <-. exists 0%nat, t. simpl.
    rewrite app_nil_r. repeat split; auto; try discriminate. intros; lia.
  - simpl in Hp. destruct (nth_error (t_ch t) i) as [c|] eqn:Hn; [|discriminate].
    destruct (nearest c (here ++ [i]) (seg_of t i c) r obj) as [v'|] eqn:E.
    + injection H as <-. destruct (IH _ _ _ _ _ _ E Hp) as [k [a [Hk [Ha [Hs [H1 [H2 [H3 [H4 [H5 H6]]]]]]]]]].
      exists (S k), a. simpl. rewrite Hn, <- app_assoc in *. simpl in *.
      repeat split; auto; try lia.
      intros k' a' Hk' Ha' Hle. destruct k' as [|k']; [lia|]. simpl in Ha'. rewrite Hn in Ha'.
      apply (H6 k' a'); auto; lia.
    + destruct (sourced t) eqn:Es; [|discriminate]. injection H as <-. exists 0%nat, t. simpl.
      rewrite app_nil_r, Hn. repeat split; auto; try lia; try discriminate.
      intros k' a' Hk' Ha' Hle. destruct k' as [|k']; [lia|]. simpl in Ha'. rewrite Hn in Ha'.
      eapply nearest_none; eauto.
Qed.

(* the path update() hands out, minus its first element, leads from the store object to the object *)
Lemma update_path_tail_leads : forall root p n v, wf_tree root -> addr root p = Some n ->
  nearest root [] (t_key root) p p = Some v -> path_leads root (v_store v) (v_obj v) (tl (v_rel v)).
Proof.
  intros root p n v Hwf Ha Hv.
  destruct (nearest_spec _ _ _ _ _ _ _ Hv Ha) as [k [a [Hk [Haa [Hs [H1 [H2 [H3 [H4 _]]]]]]]]].
  rewrite H2, H3, H4. simpl.
  pose proof (addr_firstn_skipn _ _ _ _ _ Ha Haa) as Hr.
  destruct (segs_lead _ _ _ (wf_addr _ _ _ Hwf Haa) Hr) as [ids [Hall Hg]].
  exists a, ids, (skipn k p), n. rewrite firstn_skipn. auto.
Qed.

(* ------------------------------------------------------------------ "exactly these, each once" *)

Lemma commit_visits_exactly : forall root p n, addr root p = Some n ->
  (forall v, In v (commit_visits root p n) <->
     (exists k a, (k < List.length p)%nat /\ addr root (firstn k p) = Some a /\ sourced a = true /\
                  v = mkVisit (t_src a) (firstn k p) p (segs a (skipn k p))) \/
     (exists r m, addr n r = Some m /\ sourced m = true /\ v = mkVisit (t_src m) (p ++ r) (p ++ r) [])) /\
  NoDup (map v_store (commit_visits root p n)).
Proof.
  intros root p n Ha. split.
  - intros v. unfold commit_visits. rewrite in_app_iff, <- in_rev. split.
    + intros [Hin | Hin].
      * left. destruct (anc_visits_in _ _ _ _ _ Hin) as [k [a [Hk [Haa [Hs ->]]]]]. exists k, a. auto.
      * right. apply self_visits_in in Hin. destruct Hin as [q [m [Hq [Hs ->]]]].
        apply nodes_in in Hq. destruct Hq as [r [-> Hr]]. exists r, m. auto.
    + intros [[k [a [Hk [Haa [Hs ->]]]]] | [r [m [Hr [Hs ->]]]]].
      * left. apply (anc_visits_complete p root [] p k a); auto. congruence.
      * right. apply self_visits_in. exists (p ++ r), m. split; [|auto]. apply nodes_in. exists r. auto.
  - unfold commit_visits. rewrite map_app, map_rev. apply NoDup_app_intro.
    + apply NoDup_rev. apply anc_stores_nodup.
    + apply self_visits_stores_nodup. apply nodes_nodup.
    + intros q Hq1 Hq2. apply in_rev in Hq1. apply in_map_iff in Hq1. destruct Hq1 as [v [<- Hv]].
      destruct (anc_visits_in _ _ _ _ _ Hv) as [k [a [Hk [_ [_ ->]]]]]. simpl in Hq2.
      apply in_map_iff in Hq2. destruct Hq2 as [v' [Hv' Hin']]. apply self_visits_in in Hin'.
      destruct Hin' as [q [m [Hq [_ ->]]]]. simpl in Hv'. subst q. apply nodes_in in Hq. destruct Hq as [r [Heq _]].
      apply (f_equal (@List.length nat)) in Heq. rewrite app_length, firstn_length_le in Heq by lia. lia.
Qed.

Lemma nodes_forall_in : forall l,
  Forall (fun x => forall here q m, In (q, m) (nodes x here) <-> exists r, q = here ++ r /\ addr x r = Some m) l.
Proof. intros l. apply Forall_forall. intros x _ here q m. apply nodes_in. Qed.

Lemma nodes_forall_nodup : forall l, Forall (fun x => forall here, NoDup (map fst (nodes x here))) l.
Proof. intros l. apply Forall_forall. intros x _ here. apply nodes_nodup. Qed.

Lemma update_visits_exactly : forall root p n, addr root p = Some n ->
  (sourced n = true -> forall r, hd_error (update_visits root p n r) = Some (mkVisit (t_src n) p p [])) /\
  (sourced n = false -> forall v, nearest root [] (t_key root) p p = Some v ->
     exists k a, (k < List.length p)%nat /\ addr root (firstn k p) = Some a /\ sourced a = true /\
       v_src v = t_src a /\ v_store v = firstn k p /\ v_obj v = p /\
       (forall k' a', (k < k')%nat -> addr root (firstn k' p) = Some a' -> (k' <= List.length p)%nat -> sourced a' = false)) /\
  (sourced n = false -> nearest root [] (t_key root) p p = None ->
     forall k a, addr root (firstn k p) = Some a -> sourced a = false) /\
  (forall v, In v (self_visits (nodes_list (t_ch n) p 0)) <->
     exists r m, r <> [] /\ addr n r = Some m /\ sourced m = true /\ v = mkVisit (t_src m) (p ++ r) (p ++ r) []) /\
  NoDup (map v_store (self_visits (nodes_list (t_ch n) p 0))).
Proof.
  intros root p n Ha. split; [|split; [|split; [|split]]].
  - intros Hs r. unfold update_visits. rewrite Hs. reflexivity.
  - intros Hs v Hv. destruct (nearest_spec _ _ _ _ _ _ _ Hv Ha) as [k [a [Hk [Haa [Hsa [H1 [H2 [H3 [_ [_ H6]]]]]]]]]].
    exists k, a. simpl in H2. repeat split; auto.
    destruct (Nat.eq_dec k (List.length p)) as [-> | Hne]; [|lia].
    rewrite firstn_all in Haa. rewrite Ha in Haa. injection Haa as <-. congruence.
  - intros Hs Hnone k a Hka. eapply nearest_none; eauto.
  - intros v. rewrite self_visits_in. split.
    + intros [q [m [Hq [Hs ->]]]]. apply (nodes_list_in _ _ _ _ _ (nodes_forall_in _)) in Hq.
      destruct Hq as [i [x [r [Hn [-> Hr]]]]]. exists (i :: r), m. simpl. rewrite Hn.
      repeat split; auto. discriminate.
    + intros [r [m [Hne [Hr [Hs ->]]]]]. destruct r as [|i r]; [congruence|]. simpl in Hr.
      destruct (nth_error (t_ch n) i) as [x|] eqn:Hn; [|discriminate].
      exists (p ++ i :: r), m. split; [|auto]. apply (nodes_list_in _ _ _ _ _ (nodes_forall_in _)). exists i, x, r. auto.
  - apply self_visits_stores_nodup. apply nodes_list_nodup. apply nodes_forall_nodup.
Qed.

(* ------------------------------------------------------------------ update(): the path find_source hands out *)

Definition ex_upd : tree :=
  Node C_Submodel "urn:a" (Some "smid") "scheme:x"
    [ Node C_SubmodelElementCollection "" (Some "c") "" [ Node C_Property "" (Some "p") "" [] ] ].

Lemma update_path_refuted :
  exists root p n v, wf_tree root /\ addr root p = Some n /\ In v (update_visits root p n false) /\
                     ~ path_leads root (v_store v) (v_obj v) (v_rel v).
Proof.
  exists ex_upd, [0; 0]%nat, (Node C_Property "" (Some "p") "" []),
         (mkVisit "scheme:x" [] [0; 0]%nat [Some "smid"; Some "c"; Some "p"]).
  split; [exact (wf_treeb_sound ex_upd eq_refl)|]. split; [reflexivity|]. split; [left; reflexivity|].
  intros H. apply path_leads_b in H. vm_compute in H. discriminate H.
Qed.

Lemma update_path_partial : forall root p n v, wf_tree root -> addr root p = Some n ->
  nearest root [] (t_key root) p p = Some v ->
  v_rel v <> [] /\ path_leads root (v_store v) (v_obj v) (tl (v_rel v)).
Proof.
  intros root p n v Hwf Ha Hv. split; [|eapply update_path_tail_leads; eauto].
  destruct (nearest_spec _ _ _ _ _ _ _ Hv Ha) as [k [a [_ [_ [_ [_ [_ [_ [_ [H _]]]]]]]]]]. exact H.
Qed.

(* ------------------------------------------------------------------ registrations over time *)

Lemma reg_lookup_after : forall h reg s,
  reg_lookup (reg_after reg h) s = last_registered h s (reg_lookup reg s).
Proof.
  induction h as [|[k b] r IH]; intros reg s; [reflexivity|].
  change (reg_after reg ((k, b) :: r)) with (reg_after (register reg k b) r).
  rewrite IH. reflexivity.
Qed.

Lemma regs_of_app : forall a b, regs_of (a ++ b) = regs_of a ++ regs_of b.
Proof. intros. unfold regs_of. apply flat_map_app. Qed.

Lemma reg_after_app : forall reg a b, reg_after reg (a ++ b) = reg_after (reg_after reg a) b.
Proof. intros. unfold reg_after. apply fold_left_app. Qed.

Lemma exec_app : forall a reg root b,
  exec reg root (a ++ b) = exec reg root a ++ exec (reg_after reg (regs_of a)) root b.
Proof.
  induction a as [|o a IH]; intros reg root b; simpl; [reflexivity|].
  destruct o; simpl; rewrite IH; reflexivity.
Qed.

Lemma get_backend_history : forall reg h url b,
  get_backend (reg_after reg h) url = inr b <->
  exists s, scheme_of url = Some s /\ last_registered h s (reg_lookup reg s) = Some b.
Proof.
  intros reg h url b. destruct (get_backend_spec (reg_after reg h) url) as [_ [_ H]]. rewrite H.
  split; intros [s [Hs Hl]]; exists s; split; auto; [rewrite <- reg_lookup_after | rewrite reg_lookup_after]; exact Hl.
Qed.

Lemma last_registered_app : forall h s cur k b,
  last_registered (h ++ [(k, b)]) s cur = if String.eqb k s then Some b else last_registered h s cur.
Proof.
  induction h as [|[k' b'] r IH]; intros s cur k b; simpl; [reflexivity|]. apply IH.
Qed.

Lemma exec_history : forall reg root pre post p n, wf_tree root -> addr root p = Some n ->
  let reg' := reg_after reg (regs_of pre) in
  exec reg root (pre ++ OCommit p :: post) =
    exec reg root pre ++ Some (run reg' KCommit (commit_visits root p n)) :: exec reg' root post /\
  forall rc, exec reg root (pre ++ OUpdate p rc :: post) =
    exec reg root pre ++ Some (run reg' KUpdate (update_visits root p n rc)) :: exec reg' root post.
Proof.
  intros reg root pre post p n Hwf Ha reg'. split; [|intros rc]; rewrite exec_app; simpl; fold reg'.
  - rewrite (commit_is_run _ _ _ _ Hwf Ha). reflexivity.
  - rewrite (update_is_run _ _ _ _ _ Hwf Ha). reflexivity.
Qed.

(* ------------------------------------------------------------------ time and edits *)

Lemma exec_clock_irrelevant : forall ops reg root,
  exec reg root ops = exec reg root (filter (fun o => negb (is_clock o)) ops).
Proof.
  induction ops as [|o r IH]; intros reg root; [reflexivity|].
  destruct o; simpl; rewrite <- ?IH; reflexivity.
Qed.

Lemma regs_of_clock : forall ops, regs_of (filter (fun o => negb (is_clock o)) ops) = regs_of ops.
Proof.
  induction ops as [|o r IH]; [reflexivity|]. destruct o; simpl; rewrite ?IH; reflexivity.
Qed.

(* after an edit of the tree (children of the node at position q replaced, see Refs.replace_at) commit()/update()
   of any node of the edited tree are again characterised by the visit lists of the edited tree *)
Lemma commit_after_edit : forall reg t q old new p n, wf_tree t -> addr t q = Some old -> wf_tree new ->
  t_cls new = t_cls old -> t_key new = t_key old -> addr (replace_at t q new) p = Some n ->
  commit reg (replace_at t q new) p = Some (run reg KCommit (commit_visits (replace_at t q new) p n)) /\
  (forall rc, update reg (replace_at t q new) p rc = Some (run reg KUpdate (update_visits (replace_at t q new) p n rc))) /\
  (forall v, In v (commit_visits (replace_at t q new) p n) ->
     path_leads (replace_at t q new) (v_store v) (v_obj v) (v_rel v)).
Proof.
  intros reg t q old new p n Hwf Ha Hn Hc Hk Hp.
  destruct (wf_replace q t old new Hwf Ha Hn Hc Hk) as [Hwf' _].
  split; [apply commit_is_run; assumption|]. split.
  - intros rc. apply update_is_run; assumption.
  - intros v Hv. eapply commit_paths_lead; eauto.
Qed.
