(* C02 - ConstrainedList with the hooks of Entity (AASd-014) and AssetInformation (AASd-131):
   every accepted operation keeps the object well-formed, every rejected one leaves it unchanged
   and raises the documented error; a constraint violation is raised exactly when carrying out
   the operation would produce an ill-formed object. *)
From Coq Require Import List ZArith Bool Lia.
From Basyx Require Import model.ConstraintsBase gen.Gen_RefChecks gen.Gen_SemSetter model.ConstraintsModel model.ConstraintsSpec.
Import ListNotations.
Local Open Scope Z_scope.

(* ---- lengths ------------------------------------------------------------------------------- *)
Lemma len_nonneg : forall A (l : list A), 0 <= len l.
Proof. intros. unfold len. lia. Qed.
Lemma len_nil_iff : forall A (l : list A), len l = 0 <-> l = [].
Proof. intros A l. unfold len. destruct l; simpl; split; intro H; try reflexivity; try discriminate; lia. Qed.
Lemma len_app : forall A (a b : list A), len (a ++ b) = len a + len b.
Proof. intros. unfold len. rewrite app_length. lia. Qed.
Lemma len_cons : forall A (x : A) l, len (x :: l) = 1 + len l.
Proof. intros. unfold len. simpl length. lia. Qed.
Lemma len_zfirstn : forall A (l : list A) n, 0 <= n <= len l -> len (zfirstn n l) = n.
Proof. intros A l n H. unfold zfirstn, len in *. rewrite firstn_length. lia. Qed.
Lemma len_zskipn : forall A (l : list A) n, 0 <= n <= len l -> len (zskipn n l) = len l - n.
Proof. intros A l n H. unfold zskipn, len in *. rewrite skipn_length. lia. Qed.

Lemma nonempty_iff : forall l, nonempty l = true <-> l <> [].
Proof.
  intro l. unfold nonempty. rewrite negb_true_iff, Z.eqb_neq. rewrite <- len_nil_iff. tauto.
Qed.
Lemma gtb0_iff : forall (l : list nat) z, len l = z -> ((z >? 0) = true <-> l <> []).
Proof.
  intros l z H. rewrite Z.gtb_lt. rewrite <- len_nil_iff. pose proof (len_nonneg _ l). lia.
Qed.
Lemma gtb1_iff : forall (l : list nat) n, len l = n - 1 -> ((n >? 1) = true <-> l <> []).
Proof.
  intros l n H. rewrite Z.gtb_lt. rewrite <- len_nil_iff. pose proof (len_nonneg _ l). lia.
Qed.

Lemma norm_index_range : forall A (l : list A) i j, norm_index l i = Some j -> 0 <= j < len l.
Proof.
  intros A l i j. unfold norm_index.
  destruct ((0 <=? (if i <? 0 then i + len l else i)) && ((if i <? 0 then i + len l else i) <? len l)) eqn:E;
    [|discriminate].
  intro H. inversion H; subst. apply andb_true_iff in E. destruct E as [E1 E2].
  apply Z.leb_le in E1. apply Z.ltb_lt in E2. lia.
Qed.

Lemma clamp_range : forall n b d, 0 <= n -> 0 <= d <= n -> 0 <= clamp_bound n b d <= n.
Proof.
  intros n b d Hn Hd. unfold clamp_bound. destruct b as [v|]; [|lia].
  destruct (v <? 0); repeat match goal with |- context [?a <? ?b] => destruct (Z.ltb_spec a b) end; lia.
Qed.

Lemma slice_bounds_range : forall A (l : list A) a b lo hi,
  slice_bounds l a b = (lo, hi) -> 0 <= lo <= hi /\ hi <= len l.
Proof.
  intros A l a b lo hi. unfold slice_bounds. pose proof (len_nonneg _ l) as Hn.
  pose proof (clamp_range (len l) a 0 Hn ltac:(lia)) as H1.
  pose proof (clamp_range (len l) b (len l) Hn ltac:(lia)) as H2.
  intro H. inversion H; subst. clear H.
  destruct (Z.ltb_spec (clamp_bound (len l) b (len l)) (clamp_bound (len l) a 0)); lia.
Qed.

Lemma insert_pos_range : forall A (l : list A) i, 0 <= insert_pos l i <= len l.
Proof.
  intros. unfold insert_pos. pose proof (len_nonneg _ l).
  destruct (i <? 0); repeat match goal with |- context [?a <? ?b] => destruct (Z.ltb_spec a b) end; lia.
Qed.

Lemma len_list_insert : forall (l : list nat) i x, len (list_insert l i x) = len l + 1.
Proof.
  intros. unfold list_insert. pose proof (insert_pos_range _ l i).
  rewrite len_app, len_cons, len_zfirstn, len_zskipn by lia. lia.
Qed.
Lemma len_list_del : forall (l : list nat) j, 0 <= j < len l -> len (list_del l j) = len l - 1.
Proof.
  intros. unfold list_del. rewrite len_app, len_zfirstn, len_zskipn by lia. lia.
Qed.
Lemma len_list_set_slice : forall (l : list nat) lo hi xs, 0 <= lo <= hi -> hi <= len l ->
  len (list_set_slice l lo hi xs) = len l - (hi - lo) + len xs.
Proof.
  intros. unfold list_set_slice. rewrite !len_app, len_zfirstn, len_zskipn by lia. lia.
Qed.
Lemma len_list_del_slice : forall (l : list nat) lo hi, 0 <= lo <= hi -> hi <= len l ->
  len (list_del_slice l lo hi) = len l - (hi - lo).
Proof.
  intros. unfold list_del_slice. rewrite !len_app, len_zfirstn, len_zskipn by lia. lia.
Qed.
Lemma list_set_nonempty : forall (l : list nat) j x, list_set l j x <> [].
Proof. intros. unfold list_set. destruct (zfirstn j l); discriminate. Qed.
Lemma list_insert_nonempty : forall (l : list nat) i x, list_insert l i x <> [].
Proof. intros. unfold list_insert. destruct (zfirstn (insert_pos l i) l); discriminate. Qed.

Lemma index_of_range : forall x l p j, index_of x l p = Some j -> p <= j < p + len l.
Proof.
  induction l as [|y r IH]; intros p j; simpl; [discriminate|].
  rewrite len_cons. pose proof (len_nonneg _ r) as Hr. destruct (Nat.eqb x y).
  - intro H. inversion H. lia.
  - intro H. apply IH in H. lia.
Qed.

(* ---- the constraint test is the well-formedness of the state it is asked about ------- *)
Lemma validate_post : forall o t g b l, g <> GBad -> (b = true <-> l <> []) ->
  (validate o t g b = None -> wf_owner o (mkSt t g l)) /\
  (forall e, validate o t g b = Some e -> e = EAASd (cnum o) /\ ~ wf_owner o (mkSt t g l)).
Proof.
  intros o t g b l Hg Hb. unfold validate, wf_owner. cbn [etype gaid items].
  destruct o; destruct t; destruct g as [|n|]; try congruence; destruct b; cbn;
    (split; [intro H | intros e H]); try discriminate H; try (inversion H; subst; clear H);
    try (split; try reflexivity);
    destruct l; intuition (try congruence; try discriminate).
Qed.

Lemma wf_gaid : forall o s, wf_owner o s -> gaid s <> GBad.
Proof. intros o s H. exact (proj1 H). Qed.

Lemma wf_upd_same : forall o s, wf_owner o s -> wf_owner o (mkSt (etype s) (gaid s) (items s)).
Proof. intros o [t g l] H. exact H. Qed.

Lemma owner_eq_sem : forall o, {o = OSem} + {o <> OSem}.
Proof. destruct o; [right | right | left]; congruence. Qed.

(* ---- dry run of a slice deletion ---------------------------------------------------------- *)
Lemma del_dry_run_sem : forall s n k, del_dry_run OSem s n k = None.
Proof. intros s n k. revert n. induction k as [|k IH]; intro n; [reflexivity|]. cbn. apply IH. Qed.

Lemma del_dry_run_spec : forall o s, wf_owner o s -> forall k n l',
  0 <= Z.of_nat k <= n -> n <= len (items s) -> len l' = n - Z.of_nat k -> (k = O -> l' = items s) ->
  (del_dry_run o s n k = None -> wf_owner o (upd_items s l')) /\
  (forall e, del_dry_run o s n k = Some e -> e = EAASd (cnum o) /\ ~ wf_owner o (upd_items s l')).
Proof.
  intros o s Hwf.
  assert (Hsem : o = OSem -> forall k n l', 0 <= Z.of_nat k <= n -> n <= len (items s) ->
            len l' = n - Z.of_nat k -> wf_owner o (upd_items s l')).
  { intros -> k n l' Hk Hn Hl. destruct Hwf as (Hg & Hw). split; [exact Hg|]. cbn. intro Hne.
    apply Hw. intro Hi. rewrite Hi in Hn. unfold len in Hn at 1. simpl in Hn.
    apply Hne. apply len_nil_iff. pose proof (len_nonneg _ l'). lia. }
  destruct (owner_eq_sem o) as [Ho|Ho].
  { subst o. intros k n l' Hk Hn Hl _. rewrite del_dry_run_sem. split; [|discriminate].
    intros _. eapply (Hsem eq_refl); eassumption. }
  clear Hsem.
  assert (Hdh : forall n, del_hook o s n = validate o (etype s) (gaid s) (n >? 1)).
  { intro n. destruct o; try reflexivity. congruence. }
  induction k as [|k IH]; intros n l' Hk Hn Hl H0.
  - simpl. rewrite (H0 eq_refl). split; [intros _; apply wf_upd_same; exact Hwf | discriminate].
  - cbn [del_dry_run]. rewrite Hdh.
    assert (Hempty : etype s = false -> o = OEntity -> False).
    { intros Ht Ho'. subst o. destruct Hwf as (_ & Hw). rewrite Ht in Hw. destruct Hw as (_ & Hi).
      rewrite Hi in Hn. unfold len in Hn. simpl in Hn. lia. }
    destruct (validate o (etype s) (gaid s) (n >? 1)) as [e|] eqn:Ev.
    + (* the first (highest) deletion is refused: then the final list is empty and the gaid absent *)
      cbn [orelse]. split; [discriminate|]. intros e' He. inversion He; subst e'.
      assert (Hl' : l' = []).
      { apply len_nil_iff. unfold validate in Ev. pose proof (len_nonneg _ l') as Hnn.
        pose proof (wf_gaid _ _ Hwf) as Hg.
        destruct o; try congruence; destruct (etype s) eqn:Et; try (exfalso; apply Hempty; auto; fail);
          destruct (gaid s); try congruence; simpl in Ev; try discriminate;
          destruct (Z.gtb_spec n 1); simpl in Ev; try discriminate; lia. }
      subst l'.
      assert (Hb : (false = true <-> (@nil nat) <> [])) by (split; [discriminate | congruence]).
      destruct (validate_post o (etype s) (gaid s) false [] (wf_gaid _ _ Hwf) Hb) as (_ & Hr).
      apply Hr. unfold validate in *. pose proof (wf_gaid _ _ Hwf) as Hg.
      destruct o; try congruence; destruct (etype s) eqn:Et; try (exfalso; apply Hempty; auto; fail);
        destruct (gaid s); try congruence; simpl in *; try discriminate;
        destruct (n >? 1); simpl in *; try discriminate; exact Ev.
    + cbn [orelse]. destruct k as [|k'].
      * (* last deletion: the hook just asked about the final state *)
        simpl. assert (Hb : ((n >? 1) = true <-> l' <> [])) by (apply gtb1_iff; lia).
        destruct (validate_post o (etype s) (gaid s) (n >? 1) l' (wf_gaid _ _ Hwf) Hb) as (Ha & _).
        split; [intros _; apply Ha; exact Ev | discriminate].
      * apply IH; try lia; try discriminate.
Qed.

(* ---- one call: effect + hooks ---------------------------------------------------------------- *)
Definition is_iadd (p : op) : bool := match p with IAdd _ => true | _ => false end.

Lemma first_some_const : forall (A : Type) (v : option err) (xs : list A),
  first_some (fun _ => v) xs = match xs with [] => None | _ => v end.
Proof.
  intros A v xs. induction xs as [|x r IH]; [reflexivity|]. cbn [first_some]. rewrite IH.
  destruct v; destruct r; reflexivity.
Qed.

Lemma sem_wf_present : forall s l', wf_owner OSem s -> gaid s <> GNone -> wf_owner OSem (upd_items s l').
Proof. intros s l' (Hg & _) Hp. split; [exact Hg|]. cbn. intros _. exact Hp. Qed.

Lemma add_hook_spec : forall o s l', wf_owner o s -> l' <> [] ->
  (add_hook o s = None -> wf_owner o (upd_items s l')) /\
  (forall e, add_hook o s = Some e -> e = EAASd (cnum o) /\ ~ wf_owner o (upd_items s l')).
Proof.
  intros o s l' Hwf Hl. pose proof (wf_gaid _ _ Hwf) as Hg.
  assert (Hb : true = true <-> l' <> []) by tauto.
  destruct o; unfold add_hook.
  - apply validate_post; assumption.
  - split; [|discriminate]. intros _. destruct Hwf as (H1 & H2). split; [exact H1|]. cbn. right. exact Hl.
  - apply validate_post; assumption.
Qed.

Lemma set_hook_spec : forall o s l' n_repl n_new, wf_owner o s ->
  0 <= n_repl <= len (items s) -> 0 <= n_new -> len l' = len (items s) - n_repl + n_new ->
  (set_hook o s (len (items s)) n_repl n_new = None -> wf_owner o (upd_items s l')) /\
  (forall e, set_hook o s (len (items s)) n_repl n_new = Some e ->
     e = EAASd (cnum o) /\ ~ wf_owner o (upd_items s l')).
Proof.
  intros o s l' n_repl n_new Hwf Hr Hn Hl. pose proof (wf_gaid _ _ Hwf) as Hg.
  destruct o; unfold set_hook.
  - apply validate_post; [exact Hg|]. apply gtb0_iff. exact Hl.
  - apply validate_post; [exact Hg|]. apply gtb0_iff. exact Hl.
  - assert (Hi : gaid s = GNone -> items s = []).
    { intro Eg. destruct Hwf as (_ & Hw). cbn in Hw. destruct (items s); [reflexivity|].
      exfalso. apply Hw; [discriminate | exact Eg]. }
    pose proof (sem_wf_present s l' Hwf) as Hp.
    unfold upd_items in *. destruct (gaid s) eqn:Eg; try congruence.
    + (* no semantic id: the list is empty, so the new items are the whole result *)
      rewrite (Hi eq_refl) in *. unfold len in Hr at 1. simpl in Hr.
      apply validate_post; [exact Hg|]. apply gtb0_iff.
      unfold len in Hl at 2. simpl in Hl. lia.
    + split; [|cbn; discriminate]. intros _. apply Hp. discriminate.
Qed.

Lemma del_hook_spec : forall o s l', wf_owner o s -> len l' = len (items s) - 1 ->
  (del_hook o s (len (items s)) = None -> wf_owner o (upd_items s l')) /\
  (forall e, del_hook o s (len (items s)) = Some e -> e = EAASd (cnum o) /\ ~ wf_owner o (upd_items s l')).
Proof.
  intros o s l' Hwf Hl. pose proof (wf_gaid _ _ Hwf) as Hg.
  destruct o; unfold del_hook.
  - apply validate_post; [exact Hg|]. apply gtb1_iff. exact Hl.
  - apply validate_post; [exact Hg|]. apply gtb1_iff. exact Hl.
  - split; [|discriminate]. intros _. destruct Hwf as (_ & Hw). split; [exact Hg|]. cbn. intros _.
    apply Hw. intro Hi. rewrite Hi in Hl. unfold len in Hl at 2. simpl in Hl.
    pose proof (len_nonneg _ l'). lia.
Qed.

(* ---- extended slices ------------------------------------------------------------------------- *)
Lemma filter_partition_length : forall (A : Type) (f : A -> bool) (l : list A),
  (length (filter f l) + length (filter (fun x => negb (f x)) l))%nat = length l.
Proof.
  intros A f l. induction l as [|x r IH]; [reflexivity|]. cbn [filter]. destruct (f x); cbn [negb length]; lia.
Qed.

Lemma filter_none_keeps_all : forall (A : Type) (f : A -> bool) (l : list A),
  length (filter f l) = O -> filter (fun x => negb (f x)) l = l.
Proof.
  intros A f l. induction l as [|x r IH]; [reflexivity|]. cbn [filter]. destruct (f x); cbn [negb length].
  - discriminate.
  - intro H. rewrite (IH H). reflexivity.
Qed.

Lemma map_snd_combine_eq : forall (A B : Type) (a : list A) (l : list B),
  length a = length l -> map snd (combine a l) = l.
Proof.
  intros A B a. induction a as [|x r IH]; intros [|y t] H; try discriminate; [reflexivity|].
  cbn. f_equal. apply IH. cbn in H. lia.
Qed.

Lemma zpositions_length : forall (A : Type) (l : list A), length (zpositions l) = length l.
Proof. intros. unfold zpositions. rewrite combine_length, map_length, seq_length. lia. Qed.
Lemma zpositions_snd : forall (A : Type) (l : list A), map snd (zpositions l) = l.
Proof. intros. unfold zpositions. apply map_snd_combine_eq. rewrite map_length, seq_length. reflexivity. Qed.

Lemma xdel_spec : forall (l : list nat) a b step,
  (xcount l a b step <= length l)%nat /\
  len (xdel l a b step) = len l - Z.of_nat (xcount l a b step) /\
  (xcount l a b step = O -> xdel l a b step = l).
Proof.
  intros l a b step. unfold xcount, xdel.
  pose proof (filter_partition_length _ (xsel l a b step) (zpositions l)) as Hp.
  rewrite zpositions_length in Hp. repeat split.
  - lia.
  - unfold len. rewrite map_length. lia.
  - intro H0. rewrite (filter_none_keeps_all _ _ _ H0). apply zpositions_snd.
Qed.

Lemma sem_setter_is_validate : forall g l p,
  sem_setter_check (negb (g_present g)) (len l) p false = validate OSem p g (nonempty l).
Proof.
  intros g l p. unfold sem_setter_check, sem_setter_flow, validate, nonempty.
  pose proof (len_nonneg _ l) as Hn.
  destruct (g_present g); destruct p; cbn;
    destruct (Z.gtb_spec (len l) 0); destruct (Z.eqb_spec (len l) 0); cbn; try reflexivity; lia.
Qed.

Lemma hooks_spec : forall o s p s' v, wf_owner o s -> effect o s p = inr (s', v) ->
  (hooks o s p = None -> wf_owner o s') /\
  (forall e, hooks o s p = Some e -> e = EAASd (cnum o) /\ ~ wf_owner o s').
Proof.
  intros o s p s' v Hwf He. pose proof (wf_gaid _ _ Hwf) as Hg.
  pose proof (len_nonneg _ (items s)) as Hnn.
  destruct p; cbn [effect] in He; cbn [hooks].
  - (* Append *) inversion He; subst. apply add_hook_spec; [exact Hwf | apply list_insert_nonempty].
  - (* Insert *) inversion He; subst. apply add_hook_spec; [exact Hwf | apply list_insert_nonempty].
  - (* Extend *) inversion He; subst. rewrite first_some_const. destruct xs as [|x r].
    + rewrite app_nil_r. split; [intros _; apply wf_upd_same; exact Hwf | discriminate].
    + apply add_hook_spec; [exact Hwf | destruct (items s); discriminate].
  - (* ExtendBad *) discriminate.
  - (* IAdd: the hooks of its first half *) inversion He; subst. rewrite first_some_const. destruct xs as [|x r].
    + rewrite app_nil_r. split; [intros _; apply wf_upd_same; exact Hwf | discriminate].
    + apply add_hook_spec; [exact Hwf | destruct (items s); discriminate].
  - (* Pop *) destruct (norm_index (items s) match i with Some v0 => v0 | None => -1 end) as [j|] eqn:Ej; [|discriminate].
    inversion He; subst. apply norm_index_range in Ej.
    apply del_hook_spec; [exact Hwf | apply len_list_del; exact Ej].
  - (* Remove *) destruct (index_of x (items s) 0) as [j|] eqn:Ej; [|discriminate].
    inversion He; subst. apply index_of_range in Ej.
    apply del_hook_spec; [exact Hwf | apply len_list_del; lia].
  - (* Clear *) inversion He; subst.
    apply del_dry_run_spec; try exact Hwf.
    + unfold len. lia.
    + lia.
    + unfold len. simpl. lia.
    + intro H. destruct (items s); [reflexivity | discriminate].
  - (* SetItem *) destruct (norm_index (items s) i) as [j|] eqn:Ej; [|discriminate].
    inversion He; subst. apply norm_index_range in Ej.
    apply set_hook_spec; [exact Hwf | lia | lia |].
    unfold list_set. rewrite len_app, len_cons, len_zfirstn, len_zskipn by lia. lia.
  - (* DelItem *) destruct (norm_index (items s) i) as [j|] eqn:Ej; [|discriminate].
    inversion He; subst. apply norm_index_range in Ej.
    apply del_hook_spec; [exact Hwf | apply len_list_del; exact Ej].
  - (* SetSlice *) destruct (slice_bounds (items s) start stop) as [lo hi] eqn:Eb.
    inversion He; subst. apply slice_bounds_range in Eb.
    apply set_hook_spec; [exact Hwf | lia | apply len_nonneg | apply len_list_set_slice; lia].
  - (* SetSliceBad *) discriminate.
  - (* DelSlice *) destruct (slice_bounds (items s) start stop) as [lo hi] eqn:Eb.
    inversion He; subst. apply slice_bounds_range in Eb.
    apply del_dry_run_spec; try exact Hwf.
    + rewrite Z2Nat.id by lia. lia.
    + lia.
    + rewrite Z2Nat.id by lia. apply len_list_del_slice; lia.
    + intro H. assert (hi = lo) by lia. subst hi. unfold list_del_slice, zfirstn, zskipn. apply firstn_skipn.
  - (* DelXSlice *) destruct (step =? 0); [discriminate|]. inversion He; subst.
    destruct (xdel_spec (items s) start stop step) as (Hk & Hlen & H0).
    apply del_dry_run_spec; try exact Hwf.
    + unfold len. lia.
    + lia.
    + exact Hlen.
    + exact H0.
  - (* SetList *) inversion He; subst.
    apply set_hook_spec; [exact Hwf | lia | apply len_nonneg | lia].
  - (* SetType *) destruct o; try discriminate; inversion He; subst.
    + apply validate_post; [exact Hg|]. apply nonempty_iff.
    + (* OSem: attaching / detaching does not touch semantic ids *)
      split; [|discriminate]. intros _. destruct Hwf as (H1 & H2). split; [exact H1 | exact H2].
  - (* SetGaid *) destruct (validate_gid g) eqn:Eg; [discriminate|]. inversion He; subst.
    assert (Hgb : g <> GBad) by (destruct g; discriminate).
    destruct o; try (apply validate_post; [exact Hgb | apply nonempty_iff]).
    (* OSem: the translated semantic_id setter equals the AASd-118 test, whatever the containment state *)
    rewrite sem_setter_is_validate. apply validate_post; [exact Hgb | apply nonempty_iff].
Qed.

(* errors Python itself raises before any hook runs, and when *)
Definition plain_error (o : owner) (s : st) (p : op) (e : err) : Prop :=
  match p with
  | ExtendBad | SetSliceBad _ _ => e = EType
  | Pop i => e = EIndex /\ norm_index (items s) (match i with Some v => v | None => -1 end) = None
  | SetItem i _ | DelItem i => e = EIndex /\ norm_index (items s) i = None
  | Remove x => e = EValue /\ ~ In x (items s)
  | SetGaid g => e = EValue /\ g = GBad
  | DelXSlice _ _ step => e = EValue /\ step = 0
  | SetType _ => e = EAttr /\ o = OAsset
  | _ => False
  end.

Lemma index_of_none : forall x l p, index_of x l p = None -> ~ In x l.
Proof.
  induction l as [|y r IH]; intros p H; simpl; [tauto|]. simpl in H.
  destruct (Nat.eqb x y) eqn:E; [discriminate|]. apply PeanoNat.Nat.eqb_neq in E.
  intros [->|Hi]; [congruence | exact (IH _ H Hi)].
Qed.

Lemma effect_error : forall o s p e, effect o s p = inl e -> plain_error o s p e.
Proof.
  intros o s p e H. destruct p; cbn [effect] in H; cbn [plain_error]; try discriminate.
  - inversion H. reflexivity.
  - destruct (norm_index (items s) match i with Some v => v | None => -1 end) eqn:E; [discriminate|].
    inversion H. auto.
  - destruct (index_of x (items s) 0) eqn:E; [discriminate|]. inversion H. split; [reflexivity|].
    eapply index_of_none. exact E.
  - destruct (norm_index (items s) i) eqn:E; [discriminate|]. inversion H. auto.
  - destruct (norm_index (items s) i) eqn:E; [discriminate|]. inversion H. auto.
  - inversion H. reflexivity.
  - destruct (Z.eqb_spec step 0); [|discriminate]. inversion H. auto.
  - destruct o; try discriminate; inversion H; split; reflexivity.
  - destruct g; simpl in H; try discriminate. inversion H. auto.
Qed.

Definition is_ok (v : out) : Prop := match v with Err _ => False | _ => True end.

Theorem step1_accept_wf : forall o s p s' v, wf_owner o s -> step1 o s p = (s', v) -> is_ok v ->
  wf_owner o s' /\ effect o s p = inr (s', v).
Proof.
  intros o s p s' v Hwf Hs Hv. unfold step1 in Hs.
  destruct (effect o s p) as [e|[s1 v1]] eqn:Ee.
  - inversion Hs; subst. contradiction.
  - destruct (hooks_spec o s p s1 v1 Hwf Ee) as (Ha & _).
    destruct (hooks o s p) eqn:Eh.
    + inversion Hs; subst. contradiction.
    + inversion Hs; subst. split; [apply Ha; reflexivity | reflexivity].
Qed.

Theorem step1_reject_unchanged : forall o s p s' e, wf_owner o s -> step1 o s p = (s', Err e) ->
  s' = s /\
  ((e = EAASd (cnum o) /\ exists s2 v, effect o s p = inr (s2, v) /\ ~ wf_owner o s2) \/
   (effect o s p = inl e /\ plain_error o s p e)).
Proof.
  intros o s p s' e Hwf Hs. unfold step1 in Hs.
  destruct (effect o s p) as [e0|[s1 v1]] eqn:Ee.
  - inversion Hs; subst. split; [reflexivity|]. right. split; [reflexivity|]. apply effect_error. exact Ee.
  - destruct (hooks_spec o s p s1 v1 Hwf Ee) as (_ & Hr).
    destruct (hooks o s p) as [e0|] eqn:Eh.
    + inversion Hs; subst. split; [reflexivity|]. left. destruct (Hr e eq_refl) as (H1 & H2).
      split; [exact H1|]. exists s1, v1. auto.
    + inversion Hs; subst.
      (* an accepted call never returns Err: effect produces OK / OVal only *)
      exfalso. destruct p; cbn [effect] in Ee;
        repeat match goal with
        | H : context [match ?x with _ => _ end] |- _ => destruct x eqn:?; try discriminate
        end; inversion Ee.
Qed.

(* ---- `+=` (two calls) --------------------------------------------------------------------------- *)
Lemma upd_items_same : forall s, upd_items s (items s) = s.
Proof. intros [t g l]. reflexivity. Qed.

Lemma setlist_self_ok : forall o s, wf_owner o s -> step1 o s (SetList (items s)) = (upd_items s (items s), OK).
Proof.
  intros o s Hwf. unfold step1. cbn [effect hooks]. pose proof (len_nonneg _ (items s)) as Hnn.
  destruct (set_hook_spec o s (items s) (len (items s)) (len (items s)) Hwf ltac:(lia) ltac:(lia) ltac:(lia))
    as (_ & Hr).
  destruct (set_hook o s (len (items s)) (len (items s)) (len (items s))) eqn:E; [|reflexivity].
  exfalso. destruct (Hr e eq_refl) as (_ & Hn). apply Hn. rewrite upd_items_same. exact Hwf.
Qed.

Theorem step_accept_wf : forall o s p s' v, wf_owner o s -> step o s p = (s', v) -> is_ok v ->
  wf_owner o s' /\ effect o s p = inr (s', v).
Proof.
  intros o s p s' v Hwf Hs Hv. destruct p; try (eapply step1_accept_wf; eassumption).
  cbn [step] in Hs. destruct (step1 o s (Extend xs)) as [s1 v1] eqn:E1.
  destruct v1 as [| |e1].
  - destruct (step1_accept_wf o s (Extend xs) s1 OK Hwf E1 I) as (Hw1 & He1).
    rewrite (setlist_self_ok o s1 Hw1), upd_items_same in Hs. inversion Hs; subst.
    split; [exact Hw1 | exact He1].
  - exfalso. unfold step1 in E1. cbn [effect] in E1. destruct (hooks o s (Extend xs)); inversion E1.
  - inversion Hs; subst. contradiction.
Qed.

Theorem step_reject_unchanged : forall o s p s' e, wf_owner o s -> step o s p = (s', Err e) ->
  s' = s /\
  ((e = EAASd (cnum o) /\ exists s2 v, effect o s p = inr (s2, v) /\ ~ wf_owner o s2) \/
   (effect o s p = inl e /\ plain_error o s p e)).
Proof.
  intros o s p s' e Hwf Hs. destruct p; try (eapply step1_reject_unchanged; eassumption).
  cbn [step] in Hs. destruct (step1 o s (Extend xs)) as [s1 v1] eqn:E1.
  destruct v1 as [| |e1].
  - destruct (step1_accept_wf o s (Extend xs) s1 OK Hwf E1 I) as (Hw1 & He1).
    rewrite (setlist_self_ok o s1 Hw1) in Hs. discriminate.
  - exfalso. unfold step1 in E1. cbn [effect] in E1. destruct (hooks o s (Extend xs)); inversion E1.
  - inversion Hs; subst. exact (step1_reject_unchanged o s (Extend xs) s' e Hwf E1).
Qed.

(* ---- constructors ------------------------------------------------------------------------------- *)
(* for owner OSem the argument is a Reference or None: there is no ill-formed semantic id *)
Theorem ctor_spec : forall o t g xs, (o = OSem -> g <> GBad) ->
  match ctor o t g xs with
  | (Some s, None) => wf_owner o s /\ s = mkSt t g xs
  | (None, Some e) =>
      (e = EValue /\ g = GBad) \/ (e = EAASd (cnum o) /\ (g = GBad \/ ~ wf_owner o (mkSt t g xs)))
  | _ => False
  end.
Proof.
  intros o t g xs Hsem. unfold ctor. rewrite first_some_const.
  destruct o; destruct t; destruct g as [|n|]; try (exfalso; apply Hsem; reflexivity);
    destruct xs as [|x r]; cbn; unfold wf_owner; cbn;
    first [ split; [split; [discriminate | intuition (try congruence; try discriminate)] | reflexivity]
          | left; split; reflexivity
          | right; split; [reflexivity | try (left; reflexivity); right; intuition (try congruence; try discriminate)] ].
Qed.

(* ---- all histories --------------------------------------------------------------------------------- *)
Theorem run_wf : forall o ops s, wf_owner o s -> wf_owner o (run o s ops).
Proof.
  intros o ops. induction ops as [|p r IH]; intros s Hwf; [exact Hwf|].
  cbn [run]. apply IH. destruct (step o s p) as [s' v] eqn:E. cbn [fst].
  destruct v as [|x|e].
  - exact (proj1 (step_accept_wf o s p s' OK Hwf E I)).
  - exact (proj1 (step_accept_wf o s p s' (OVal x) Hwf E I)).
  - destruct (step_reject_unchanged o s p s' e Hwf E) as (-> & _). exact Hwf.
Qed.

Theorem ctor_run_wf : forall o t g xs s ops, (o = OSem -> g <> GBad) ->
  ctor o t g xs = (Some s, None) -> wf_owner o (run o s ops).
Proof.
  intros o t g xs s ops Hsem H. pose proof (ctor_spec o t g xs Hsem) as H0. rewrite H in H0.
  apply run_wf. exact (proj1 H0).
Qed.
