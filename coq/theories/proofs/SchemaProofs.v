(* C05, JSON writing direction: conforms T S SM TR XN = true -> every value that is well formed w.r.t. the
   specification-side table is encoded by the interpreted writer rules into a document the schema validator accepts
   (with members outside the schema rejected or not: for both settings of [closed]). *)
From Coq Require Import List Bool String NArith Lia.
From Basyx Require Import model.Codec model.CodecSpec model.SchemaBase model.Schema proofs.CodecProofs.
Import ListNotations.
Local Open Scope string_scope.

(* ---------- facets ---------- *)
Lemma fimpl_sound pm f g s : fimpl f g = true -> facets_ok pm f s = true -> facets_ok pm g s = true.
Proof.
  unfold fimpl, facets_ok. intros H1 H2.
  apply andb_prop in H1. destruct H1 as [H1 Hp]. apply andb_prop in H1. destruct H1 as [Hmin Hmax].
  apply andb_prop in H2. destruct H2 as [H2 Hq]. apply andb_prop in H2. destruct H2 as [Hm1 Hm2].
  apply N.leb_le in Hmin, Hm1.
  repeat (apply andb_true_intro; split).
  - apply N.leb_le. lia.
  - destruct (f_max g) as [mg|]; [|reflexivity].
    destruct (f_max f) as [mf|]; [|discriminate].
    apply N.leb_le in Hmax, Hm2. apply N.leb_le. lia.
  - rewrite forallb_forall in *. intros p Hin. specialize (Hp p Hin).
    apply existsb_exists in Hp. destruct Hp as [p' [Hin' E]]. apply String.eqb_eq in E. subst p'.
    exact (Hq p Hin').
Qed.

Lemma ulen_pos_nonempty s : (1 <= ulen s)%N -> s <> "".
Proof. intros H E. subst s. cbn in H. lia. Qed.

Lemma forallb_map {A B} (f : A -> B) p l : forallb p (map f l) = forallb (fun x => p (f x)) l.
Proof. induction l as [|x l IH]; cbn; [reflexivity|now rewrite IH]. Qed.
Lemma nonempty_map {A B} (f : A -> B) l : nonempty (map f l) = nonempty l.
Proof. destruct l; reflexivity. Qed.

(* ---------- validator unfolding ---------- *)
Section Unfold.
Variable pm : string -> string -> bool.
Variable S : jschema.
Variable closed : bool.
Notation JV := (jvalid pm S closed).

Definition members_ok (ps : list sprop) (ms : list (string * doc)) : bool :=
  forallb (fun md => match pfind (fst md) ps with
                     | Some p => JV (p_ty p) (snd md)
                     | None => negb closed end) ms.
Definition vobj (cls : string) (ms : list (string * doc)) : bool :=
  match sfind cls S with
  | None => false
  | Some ps => forallb (fun p => negb (p_req p) || has (p_name p) ms) ps && members_ok ps ms
  end.

Lemma go_members ps ms :
  (fix go (l : list (string * doc)) : bool :=
     match l with
     | [] => true
     | (m, dj) :: l' =>
       match pfind m ps with Some p => JV (p_ty p) dj | None => negb closed end && go l'
     end) ms = members_ok ps ms.
Proof. induction ms as [|[m dj] ms IH]; cbn; [reflexivity|]. now rewrite IH. Qed.

Lemma jvalid_obj cls ms : JV (SObj cls) (DObj ms) = vobj cls ms.
Proof. unfold vobj. cbn [jvalid]. destruct (sfind cls S) as [ps|]; [|reflexivity]. now rewrite go_members. Qed.

Lemma jvalid_one alts ms :
  JV (SOne alts) (DObj ms) =
  match sfind "modelType" ms with
  | Some (DStr s) => match find (fun a => mt_is S a s) alts with Some a => vobj a ms | None => false end
  | _ => false
  end.
Proof.
  cbn [jvalid]. destruct (sfind "modelType" ms) as [[]|]; try reflexivity.
  destruct (find (fun a => mt_is S a s) alts) as [a|]; [|reflexivity].
  unfold vobj. destruct (sfind a S) as [ps|]; [|reflexivity]. now rewrite go_members.
Qed.

Lemma members_ok_forall ps ms :
  (forall m d, In (m, d) ms -> exists p, pfind m ps = Some p /\ JV (p_ty p) d = true) -> members_ok ps ms = true.
Proof.
  intros H. unfold members_ok. apply forallb_forall. intros [m d] Hin. cbn.
  destruct (H m d Hin) as [p [Hp Hv]]. now rewrite Hp.
Qed.
End Unfold.

(* ---------- what the writer emits for an object ---------- *)
Lemma fields_of_In T lt c fs : forall l m d,
  In (m, d) (fields_of T lt c fs l) ->
  exists a x w, In (a, x) l /\ find_w a (c_w c) = Some w /\ w_member w = m /\
                cond_holds lt (w_cond w) fs x = true /\ d = enc_with (enc_auto T lt false) (w_enc w) x.
Proof.
  induction l as [|[a x] l IH]; intros m d Hin; [destruct Hin|].
  cbn [fields_of] in Hin.
  destruct (find_w a (c_w c)) as [w|] eqn:Ew.
  - rewrite andb_false_r in Hin. cbn [orb] in Hin.
    destruct (cond_holds lt (w_cond w) fs x) eqn:Ec; cbn [negb] in Hin.
    + destruct Hin as [E|Hin].
      * injection E as <- <-. exists a, x, w. repeat split; auto. now left.
      * destruct (IH m d Hin) as [a' [x' [w' [H1 H2]]]]. exists a', x', w'. split; [now right|exact H2].
    + destruct (IH m d Hin) as [a' [x' [w' [H1 H2]]]]. exists a', x', w'. split; [now right|exact H2].
  - destruct (IH m d Hin) as [a' [x' [w' [H1 H2]]]]. exists a', x', w'. split; [now right|exact H2].
Qed.

(* ---------- alignment of a well-formed object with its table row ---------- *)
Lemma saligned_forall2 pm SM attrs : forall fs, saligned pm SM attrs fs = true ->
  Forall2 (fun a ax => a_name a = fst ax /\
                       match snd ax with VNone => a_opt a = true | x => swf pm SM (a_kind a) x = true end) attrs fs.
Proof.
  induction attrs as [|a attrs IH]; intros [|[n x] fs] H; cbn in H; try discriminate; [constructor|].
  apply andb_prop in H. destruct H as [H H3]. apply andb_prop in H. destruct H as [H1 H2].
  apply String.eqb_eq in H1. constructor; [|apply IH; exact H3].
  cbn [fst snd]. split; [exact H1|]. destruct x; exact H2.
Qed.

Lemma swf_obj pm SM classes ctx cls fs :
  swf pm SM (KObj classes ctx) (VObj cls fs) =
  smem cls classes && match sfind (cls ++ ctx) SM with None => false | Some attrs => saligned pm SM attrs fs end.
Proof. reflexivity. Qed.

Lemma Forall2_keys {A} (attrs : list sattr) (fs : list (string * A)) (R : sattr -> string * A -> Prop) :
  Forall2 (fun a ax => a_name a = fst ax /\ R a ax) attrs fs -> map fst fs = map a_name attrs.
Proof. induction 1 as [|a ax l1 l2 [E _] H IH]; cbn; [reflexivity|]. now rewrite E, IH. Qed.

Lemma Forall2_In_r {A B} (R : A -> B -> Prop) l1 l2 b : Forall2 R l1 l2 -> In b l2 -> exists a, In a l1 /\ R a b.
Proof.
  induction 1 as [|a0 b0 l1 l2 H0 H IH]; intros Hin; [destruct Hin|].
  destruct Hin as [<-|Hin]; [exists a0; split; [now left|exact H0]|].
  destruct (IH Hin) as [a [Ha Hr]]. exists a. split; [now right|exact Hr].
Qed.
Lemma Forall2_In_l {A B} (R : A -> B -> Prop) l1 l2 a : Forall2 R l1 l2 -> In a l1 -> exists b, In b l2 /\ R a b.
Proof.
  induction 1 as [|a0 b0 l1 l2 H0 H IH]; intros Hin; [destruct Hin|].
  destruct Hin as [<-|Hin]; [exists b0; split; [now left|exact H0]|].
  destruct (IH Hin) as [b [Hb Hr]]. exists b. split; [now right|exact Hr].
Qed.

(* ---------- conditions ---------- *)
Lemma cond_drops_none_sound lt c fs : cond_drops_none c = true -> cond_holds lt c fs VNone = false.
Proof.
  destruct c; cbn; try discriminate; try reflexivity. intros _.
  destruct (sfind other fs); [|reflexivity]. now rewrite andb_false_r.
Qed.
Lemma cond_nonempty_sound lt c fs x : cond_nonempty c = true -> cond_holds lt c fs x = true -> x <> VList [].
Proof.
  intros Hc Hh E. subst x. destruct c; cbn in *; try discriminate.
  destruct (sfind other fs); [|discriminate]. now rewrite andb_false_r in Hh.
Qed.

Lemma kind_truthy_sound pm SM lt k x : kind_truthy k = true -> swf pm SM k x = true -> truthy lt x = true.
Proof.
  destruct k; cbn [kind_truthy]; try discriminate; intros Hk Hw; destruct x; try discriminate Hw; cbn in *.
  - unfold facets_ok in Hw. apply andb_prop in Hw. destruct Hw as [Hw _]. apply andb_prop in Hw. destruct Hw as [Hw _].
    apply N.leb_le in Hk, Hw. destruct (String.eqb_spec s ""); [|reflexivity]. subst s. cbn in Hw. lia.
  - destruct (String.eqb_spec s ""); [|reflexivity]. subst s. rewrite Hw in Hk. discriminate.
  - reflexivity.
  - subst min1. cbn in Hw. destruct l; [discriminate|reflexivity].
Qed.

Lemma always_emits_sound pm SM lt k c fs x :
  always_emits k c = true -> swf pm SM k x = true -> x <> VNone -> cond_holds lt c fs x = true.
Proof.
  destruct c; cbn; try discriminate; intros Hk Hw Hn.
  - reflexivity.
  - eapply kind_truthy_sound; eauto.
  - destruct x; [congruence|reflexivity..].
Qed.

Lemma swf_not_none pm SM k x : swf pm SM k x = true -> x <> VNone.
Proof. destruct k; cbn; intros H E; subst x; discriminate. Qed.

(* ---------- main theorem ---------- *)
Section Write.
Variable pm : string -> string -> bool.
Variable T : tables.
Variable S : jschema.
Variable SM : smeta.
Variable TR : list triple.
Variable XN : table.
Variable lt : string -> bool.
Variable closed : bool.
Hypothesis Hconf : conforms T S SM TR XN = true.
Notation EA := (enc_auto T lt false).
Notation JV := (jvalid pm S closed).

Lemma triple_in t : tmem3 t TR = true -> triple_ok T S SM TR XN t = true.
Proof.
  intros H. unfold tmem3 in H. apply existsb_exists in H. destruct H as [t' [Hin E]].
  assert (t = t').
  { destruct t as [[a1 a2] a3], t' as [[b1 b2] b3]. cbn in E.
    apply andb_prop in E. destruct E as [E E3]. apply andb_prop in E. destruct E as [E1 E2].
    apply String.eqb_eq in E1, E2, E3. now subst. }
  subst t'. unfold conforms in Hconf. rewrite forallb_forall in Hconf. exact (Hconf _ Hin).
Qed.

Definition PW (v : value) : Prop :=
  forall k ne0 e t, swf pm SM k v = true -> tyconf T S TR XN k ne0 e t = true ->
                    (ne0 = true -> v <> VList []) -> JV t (enc_with EA e v) = true.

Lemma obj_valid cls ctx scls fs classes :
  Forall (fun p => PW (snd p)) fs ->
  swf pm SM (KObj classes ctx) (VObj cls fs) = true ->
  tmem3 (cls, ctx, scls) TR = true ->
  vobj pm S closed scls (match EA (VObj cls fs) with DObj ms => ms | _ => [] end) = true /\
  exists ms, EA (VObj cls fs) = DObj ms.
Proof.
  intros IH Hwf Htr. pose proof (triple_in _ Htr) as Hok. unfold triple_ok in Hok.
  rewrite swf_obj in Hwf. apply andb_prop in Hwf. destruct Hwf as [_ Hal].
  destruct (sfind cls T) as [c|] eqn:Ec; [|discriminate].
  destruct (sfind (cls ++ ctx) SM) as [attrs|] eqn:Ea; [|discriminate].
  destruct (sfind scls S) as [ps|] eqn:Es; [|discriminate].
  apply andb_prop in Hok. destruct Hok as [Hok Hreq]. apply andb_prop in Hok. destruct Hok as [Hok Hattrs].
  apply andb_prop in Hok. destruct Hok as [Hok Hconsts]. apply andb_prop in Hok. destruct Hok as [HndA HndW].
  apply nodup_str_NoDup in HndA, HndW.
  pose proof (saligned_forall2 pm SM attrs fs Hal) as Hf2.
  assert (Hkeys : map fst fs = map a_name attrs) by (eapply Forall2_keys; exact Hf2).
  assert (Hfs : NoDup (map fst fs)) by now rewrite Hkeys.
  rewrite (enc_obj_unfold T lt cls fs c Ec). split; [|eauto].
  set (consts' := map (fun kv : string * string => (fst kv, DStr (snd kv))) (c_consts c)).
  unfold vobj. rewrite Es. apply andb_true_intro. split.
  - (* required members *)
    apply forallb_forall. intros p Hp. rewrite forallb_forall in Hreq. specialize (Hreq p Hp).
    unfold req_ok in Hreq. destruct (p_req p); [|reflexivity]. cbn [negb orb] in Hreq |- *.
    apply orb_prop in Hreq. destruct Hreq as [Hc|Hex].
    + apply smem_In in Hc. unfold has. rewrite sfind_app_in with (v := DStr match sfind (p_name p) (c_consts c) with Some s => s | None => "" end).
      * reflexivity.
      * unfold consts'. rewrite sfind_consts.
        destruct (sfind (p_name p) (c_consts c)) eqn:E; [reflexivity|].
        exfalso. exact (sfind_None_notin _ _ E Hc).
    + apply existsb_exists in Hex. destruct Hex as [a [Hain Hex]].
      destruct (find_w (a_name a) (c_w c)) as [w|] eqn:Ew; [|discriminate].
      apply andb_prop in Hex. destruct Hex as [Hex Hae]. apply andb_prop in Hex. destruct Hex as [Hm Hno].
      apply String.eqb_eq in Hm. apply negb_true_iff in Hno.
      destruct (Forall2_In_l _ _ _ a Hf2 Hain) as [[n x] [Hxin [Hn Hx]]]. cbn [fst snd] in Hn, Hx.
      unfold has. rewrite <- Hm. unfold consts'. rewrite (ms_lookup T lt c fs HndW Hfs (a_name a) w Ew).
      rewrite Hn. rewrite (In_sfind fs n x Hfs Hxin).
      assert (Hsw : swf pm SM (a_kind a) x = true).
      { destruct x; try exact Hx. rewrite Hno in Hx. discriminate. }
      rewrite (always_emits_sound pm SM lt _ _ fs x Hae Hsw (swf_not_none _ _ _ _ Hsw)). reflexivity.
  - (* every emitted member is a schema member holding a valid value *)
    apply members_ok_forall. intros m d Hin. apply in_app_or in Hin. destruct Hin as [Hin|Hin].
    + unfold consts' in Hin. apply in_map_iff in Hin. destruct Hin as [[k s] [E Hks]]. cbn in E. injection E as <- <-.
      rewrite forallb_forall in Hconsts. specialize (Hconsts _ Hks). unfold const_ok in Hconsts. cbn [fst snd] in Hconsts.
      destruct (pfind k ps) as [p|]; [|discriminate]. exists p. split; [reflexivity|].
      destruct (p_ty p); try discriminate. exact Hconsts.
    + destruct (fields_of_In T lt c fs fs m d Hin) as [a [x [w [Hxin [Ew [Hm [Hcond Hd]]]]]]].
      destruct (Forall2_In_r _ _ _ (a, x) Hf2 Hxin) as [at_ [Hain [Hn Hx]]]. cbn [fst snd] in Hn, Hx.
      rewrite forallb_forall in Hattrs. specialize (Hattrs _ Hain). unfold attr_ok in Hattrs.
      rewrite Hn, Ew in Hattrs.
      apply andb_prop in Hattrs. destruct Hattrs as [Hattrs Hty]. apply andb_prop in Hattrs. destruct Hattrs as [_ Hopt].
      rewrite Hm in Hty. destruct (pfind m ps) as [p|]; [|discriminate]. exists p. split; [reflexivity|].
      subst d.
      assert (Hsw : swf pm SM (a_kind at_) x = true).
      { destruct x; try exact Hx. apply orb_prop in Hopt. destruct Hopt as [Ho|Hd].
        - rewrite Hx in Ho. discriminate.
        - rewrite (cond_drops_none_sound lt _ fs Hd) in Hcond. discriminate. }
      rewrite Forall_forall in IH. specialize (IH _ Hxin). cbn [snd] in IH.
      apply (IH (a_kind at_) (cond_nonempty (w_cond w)) (w_enc w) (p_ty p) Hsw Hty).
      intros Hne. eapply cond_nonempty_sound; eauto.
Qed.

Lemma const_lookup cls c fs s :
  sfind cls T = Some c -> sfind "modelType" (c_consts c) = Some s ->
  sfind "modelType" (map (fun kv : string * string => (fst kv, DStr (snd kv))) (c_consts c) ++ fields_of T lt c fs fs)
  = Some (DStr s).
Proof. intros _ H. apply sfind_app_in. rewrite sfind_consts, H. reflexivity. Qed.

Lemma wrap_valid scls m P y :
  wrap_ok S scls m P = true -> (forall t', P t' = true -> JV t' y = true) ->
  JV (SObj scls) (DObj [(m, y)]) = true.
Proof.
  unfold wrap_ok. intros H HP. rewrite jvalid_obj. unfold vobj.
  destruct (sfind scls S) as [ps|]; [|discriminate]. apply andb_prop in H. destruct H as [Hm Hreq].
  destruct (pfind m ps) as [p|] eqn:Ep; [|discriminate].
  apply andb_true_intro. split.
  - apply forallb_forall. intros p' Hp'. rewrite forallb_forall in Hreq. specialize (Hreq _ Hp').
    destruct (p_req p'); [|reflexivity]. cbn in Hreq |- *. apply String.eqb_eq in Hreq. rewrite Hreq.
    unfold has. cbn. now rewrite String.eqb_refl.
  - unfold members_ok. cbn. rewrite Ep. rewrite (HP _ Hm). reflexivity.
Qed.

Theorem write_valid : forall v, PW v.
Proof.
  induction v as [|s|bb|lx|l IH|cls fs IH] using value_ind2; intros k ne0 e t Hwf Hty Hne.
  - destruct k; discriminate.
  - (* strings and enum members *)
    destruct k as [f| |ms|f|cl cx|k' mn|ms]; try discriminate.
    + destruct e, t; try discriminate; cbn in *; eapply fimpl_sound; eauto.
    + destruct e, t; try discriminate. cbn in Hty, Hwf |- *.
      apply smem_In in Hwf. rewrite forallb_forall in Hty. specialize (Hty _ Hwf).
      destruct (sfind s t0) as [j|]; [|discriminate]. apply andb_prop in Hty. exact (proj1 Hty).
  - destruct k; try discriminate. destruct e, t; try discriminate. reflexivity.
  - destruct k; try discriminate. destruct e, t; try discriminate. cbn in *. eapply fimpl_sound; eauto.
  - (* lists *)
    destruct k as [f| |ms|f|cl cx|k' mn|ms]; try discriminate.
    + (* KList *)
      cbn [swf] in Hwf. apply andb_prop in Hwf. destruct Hwf as [Hmn Hall].
      assert (Hnonempty : forall m1, (negb m1 || mn || ne0) = true -> (negb m1 || nonempty l) = true).
      { intros m1 H. destruct m1; [|reflexivity]. cbn in H |- *. apply orb_prop in H. destruct H as [H|H].
        - subst mn. exact Hmn.
        - specialize (Hne H). destruct l; [congruence|reflexivity]. }
      assert (Helem : forall it, tyconf T S TR XN k' false EAuto it = true -> forallb (fun x => JV it (EA x)) l = true).
      { intros it Hit. apply forallb_forall. intros x Hx. rewrite Forall_forall in IH. rewrite forallb_forall in Hall.
        apply (IH x Hx k' false EAuto it (Hall _ Hx) Hit). discriminate. }
      destruct e; try discriminate.
      * (* EAuto *)
        destruct t; try discriminate. cbn [tyconf] in Hty. apply andb_prop in Hty. destruct Hty as [Hm Hit].
        cbn [enc_with enc_auto jvalid]. rewrite nonempty_map, (Hnonempty _ Hm), forallb_map. exact (Helem _ Hit).
      * (* EListWrap *)
        destruct t; try discriminate. destruct t; try discriminate.
        cbn [tyconf] in Hty. apply andb_prop in Hty. destruct Hty as [Hm Hw].
        cbn [enc_with jvalid]. rewrite nonempty_map, (Hnonempty _ Hm). cbn [andb].
        rewrite forallb_map. apply forallb_forall. intros x Hx.
        apply (wrap_valid _ _ _ _ Hw). intros t' Ht'.
        rewrite Forall_forall in IH. rewrite forallb_forall in Hall.
        apply (IH x Hx k' false EAuto t' (Hall _ Hx) Ht'). discriminate.
      * (* EObjWrap *)
        destruct t; try discriminate. cbn [tyconf] in Hty. cbn [enc_with].
        apply (wrap_valid _ _ _ _ Hty). intros t' Ht'. destruct t'; try discriminate.
        apply andb_prop in Ht'. destruct Ht' as [Hm Hit].
        cbn [enc_auto jvalid]. rewrite nonempty_map, (Hnonempty _ Hm). cbn [andb].
        rewrite forallb_map. exact (Helem _ Hit).
    + (* KEnumSet / ELevel *)
      destruct e; try discriminate. destruct t; try discriminate. cbn [tyconf] in Hty. cbn [enc_with enc_level].
      unfold level_ok in Hty. rewrite jvalid_obj. unfold vobj.
      destruct (sfind cls S) as [ps|]; [|discriminate]. apply andb_prop in Hty. destruct Hty as [Hreq Hb].
      apply andb_true_intro. split.
      * apply forallb_forall. intros p Hp. rewrite forallb_forall in Hreq. specialize (Hreq _ Hp).
        destruct (p_req p); [|reflexivity]. cbn in Hreq |- *. apply smem_In in Hreq.
        unfold has. apply in_map_iff in Hreq. destruct Hreq as [kv [E Hkv]].
        destruct (sfind (p_name p) (map (fun kv0 : string * string => (snd kv0, DBool (existsb (fun x => match x with VStr s => String.eqb s (fst kv0) | _ => false end) l))) t0)) eqn:Es; [reflexivity|].
        exfalso. apply (sfind_None_notin _ _ Es). rewrite map_map. cbn. rewrite <- E. now apply in_map.
      * apply members_ok_forall. intros m d Hin. apply in_map_iff in Hin. destruct Hin as [kv [E Hkv]].
        injection E as <- <-. rewrite forallb_forall in Hb. specialize (Hb _ Hkv).
        destruct (pfind (snd kv) ps) as [p|]; [|discriminate]. exists p. split; [reflexivity|].
        destruct (p_ty p); try discriminate. reflexivity.
  - (* objects *)
    destruct k as [f| |ms|f|cl cx|k' mn|ms]; try discriminate.
    destruct e; try discriminate. cbn [enc_with].
    pose proof Hwf as Hwf'. rewrite swf_obj in Hwf'. apply andb_prop in Hwf'. destruct Hwf' as [Hcls _].
    apply smem_In in Hcls.
    destruct t; try discriminate; cbn [tyconf] in Hty; rewrite forallb_forall in Hty; specialize (Hty _ Hcls).
    + (* SObj *)
      destruct (obj_valid cls cx cls0 fs cl IH Hwf Hty) as [Hv [ms' Hms]]. rewrite Hms in Hv |- *.
      rewrite jvalid_obj. exact Hv.
    + (* SOne *)
      unfold const_of in Hty. destruct (sfind cls T) as [c|] eqn:Ec; [|discriminate].
      destruct (sfind "modelType" (c_consts c)) as [s|] eqn:Esc; [|discriminate].
      destruct (find (fun a => mt_is S a s) alts) as [a|] eqn:Ef; [|discriminate].
      destruct (obj_valid cls cx a fs cl IH Hwf Hty) as [Hv [ms' Hms]]. rewrite Hms in Hv |- *.
      rewrite jvalid_one.
      rewrite (enc_obj_unfold T lt cls fs c Ec) in Hms. injection Hms as <-.
      rewrite (const_lookup cls c fs s Ec Esc). rewrite Ef. exact Hv.
Qed.

(* every present attribute value appears under the member name the mapping prescribes *)
Lemma member_present cls ctx scls classes fs attrs a x :
  swf pm SM (KObj classes ctx) (VObj cls fs) = true -> tmem3 (cls, ctx, scls) TR = true ->
  sfind (cls ++ ctx) SM = Some attrs -> In a attrs ->
  In (a_name a, x) fs -> x <> VNone -> x <> VList [] ->
  exists c w ms, sfind cls T = Some c /\ find_w (a_name a) (c_w c) = Some w /\ w_member w = a_member a /\
                 EA (VObj cls fs) = DObj ms /\
                 (simple_cond (w_cond w) = true -> sfind (a_member a) ms = Some (enc_with EA (w_enc w) x)).
Proof.
  intros Hwf Htr Ea Hain Hxin Hn1 Hn2. pose proof (triple_in _ Htr) as Hok. unfold triple_ok in Hok.
  rewrite swf_obj in Hwf. apply andb_prop in Hwf. destruct Hwf as [_ Hal]. rewrite Ea in Hal, Hok.
  destruct (sfind cls T) as [c|] eqn:Ec; [|discriminate].
  destruct (sfind scls S) as [ps|] eqn:Es; [|discriminate].
  apply andb_prop in Hok. destruct Hok as [Hok _]. apply andb_prop in Hok. destruct Hok as [Hok Hattrs].
  apply andb_prop in Hok. destruct Hok as [Hok _]. apply andb_prop in Hok. destruct Hok as [HndA HndW].
  apply nodup_str_NoDup in HndA, HndW.
  pose proof (saligned_forall2 pm SM attrs fs Hal) as Hf2.
  assert (Hkeys : map fst fs = map a_name attrs) by (eapply Forall2_keys; exact Hf2).
  assert (Hfs : NoDup (map fst fs)) by now rewrite Hkeys.
  rewrite forallb_forall in Hattrs. pose proof (Hattrs _ Hain) as Hao. unfold attr_ok in Hao.
  destruct (find_w (a_name a) (c_w c)) as [w|] eqn:Ew; [|discriminate].
  apply andb_prop in Hao. destruct Hao as [Hao _]. apply andb_prop in Hao. destruct Hao as [Hao _].
  apply andb_prop in Hao. destruct Hao as [Hm Hp]. apply String.eqb_eq in Hm.
  exists c, w, (map (fun kv : string * string => (fst kv, DStr (snd kv))) (c_consts c) ++ fields_of T lt c fs fs)%list.
  repeat split; auto; [apply (enc_obj_unfold T lt cls fs c Ec)|].
  intros Hs. rewrite <- Hm. rewrite (ms_lookup T lt c fs HndW Hfs (a_name a) w Ew).
  rewrite (In_sfind fs (a_name a) x Hfs Hxin).
  assert (Hsw : swf pm SM (a_kind a) x = true).
  { destruct (Forall2_In_r _ _ _ (a_name a, x) Hf2 Hxin) as [a' [Ha' [Hn Hx]]]. cbn [fst snd] in Hn, Hx.
    assert (a' = a) by (eapply NoDup_map_inj; eauto). subst a'. destruct x; try exact Hx. congruence. }
  assert (Hc : cond_holds lt (w_cond w) fs x = true).
  { destruct (w_cond w); try discriminate Hs; cbn [cond_holds].
    - reflexivity.
    - cbn [present_ok] in Hp. destruct (a_kind a) as [f| |ms|f|cl cx|k' mn|ms]; try discriminate Hp;
        destruct x; try discriminate Hsw; cbn [truthy]; try reflexivity.
      + cbn [swf] in Hsw. unfold facets_ok in Hsw. apply andb_prop in Hsw. destruct Hsw as [Hsw _].
        apply andb_prop in Hsw. destruct Hsw as [Hsw _]. cbn [kind_truthy_present] in Hp. apply N.leb_le in Hp, Hsw.
        destruct (String.eqb_spec s ""); [|reflexivity]. subst s. cbn in Hsw. lia.
      + cbn [kind_truthy_present] in Hp. cbn [swf] in Hsw. destruct (String.eqb_spec s ""); [|reflexivity].
        subst s. rewrite Hsw in Hp. discriminate.
      + destruct l; [congruence|reflexivity].
      + destruct l; [congruence|reflexivity].
    - destruct x; [congruence|reflexivity..].
    - destruct x; try reflexivity. destruct l; [congruence|reflexivity]. }
  now rewrite Hc.
Qed.

(* a whole object of a class reachable from the environment *)
Lemma write_object cls scls v :
  tmem3 (cls, "", scls) TR = true -> swf pm SM (KObj [cls] "") v = true ->
  JV (SObj scls) (EA v) = true.
Proof.
  intros Htr Hwf. apply (write_valid v (KObj [cls] "") false EAuto (SObj scls) Hwf); [|discriminate].
  cbn [tyconf forallb]. now rewrite Htr.
Qed.

Lemma write_env root tops objs :
  env_ok S TR root tops = true ->
  (forall v, In v objs -> forall mc, In mc tops -> cls_is (snd mc) v = true -> swf pm SM (KObj [snd mc] "") v = true) ->
  JV (SObj root) (env_doc T lt tops objs) = true.
Proof.
  unfold env_ok. intros Hok Hwf. unfold env_doc. rewrite jvalid_obj. unfold vobj.
  destruct (sfind root S) as [ps|]; [|discriminate]. apply andb_prop in Hok. destruct Hok as [Hreq Htops].
  apply andb_true_intro. split.
  - apply forallb_forall. intros p Hp. rewrite forallb_forall in Hreq. now rewrite (Hreq _ Hp).
  - apply members_ok_forall. intros m d Hin. apply in_flat_map in Hin. destruct Hin as [mc [Hmc Hin]].
    destruct (filter (cls_is (snd mc)) objs) as [|x0 mine] eqn:Ef; [destruct Hin|].
    destruct Hin as [E|[]]. injection E as <- <-.
    rewrite forallb_forall in Htops. specialize (Htops _ Hmc).
    destruct (pfind (fst mc) ps) as [p|]; [|discriminate]. exists p. split; [reflexivity|].
    destruct (p_ty p) as [| | |it m1| |]; try discriminate. destruct it; try discriminate.
    cbn [jvalid]. change (EA x0 :: map EA mine) with (map EA (x0 :: mine)).
    rewrite nonempty_map. cbn [nonempty]. rewrite orb_true_r. cbn [andb].
    rewrite forallb_map. apply forallb_forall. intros v Hv.
    assert (Hvin : In v (filter (cls_is (snd mc)) objs)) by now rewrite Ef.
    apply filter_In in Hvin. destruct Hvin as [Hvo Hvc].
    apply (write_object (snd mc) cls v Htops). exact (Hwf v Hvo mc Hmc Hvc).
Qed.

End Write.
