(* Slice assignment and the identifying-attribute setters of model/Namespace.v. *)
From Coq Require Import List ZArith Bool String Ascii Arith Lia.
From Basyx Require Import model.Namespace proofs.NamespaceProofs proofs.NamespacePrim proofs.NamespaceOps
  proofs.NamespaceOps2.
Import ListNotations.
Local Open Scope nat_scope.

Section WithCfg.
Variable c : cfg.

(* ---- __setitem__(slice) ---------------------------------------------------- *)

Lemma order_of_set_order : forall s i o o', order_of s i = Some o -> order_of (set_order s i o') i = Some o'.
Proof.
  intros s i o o' H. destruct (order_of_some s i o H) as [st [N _]].
  destruct (set_order_lookup s i o' st N) as [L _]. unfold order_of. rewrite L. reflexivity.
Qed.

Lemma add_all_spec : forall es s i o0 done cur s' out, BInv c s -> NoDup done -> (forall x, In x done -> mem s i x) ->
  order_of s i = Some cur -> add_all c s i o0 es done = (s', out) ->
  match out with
  | Err x => x <> EInternal /\ BInv c s' /\ shells_except i s s' /\ order_of s' i = Some o0 /\
             (forall j x, mem s' j x <-> mem s j x /\ ~ (j = i /\ In x done))
  | _ => BInv c s' /\ shells_except i s s' /\ order_of s' i = Some (cur ++ es) /\
         (forall j x, mem s' j x <-> mem s j x \/ (j = i /\ In x es)) /\
         NoDup es /\ (forall x, In x es -> forall j, ~ mem s j x)
  end.
Proof.
  induction es as [|e r IH]; intros s i o0 done cur s' out B ND HD OC H; simpl in H.
  - inversion H; subst s' out. split; auto. split; [intros j _; reflexivity|]. split; [rewrite app_nil_r; exact OC|]. split.
    + intros j x. split; auto. intros [X|[_ []]]. exact X.
    + split; [constructor|]. intros x [].
  - destruct (ns_add c s i e) as [s1 o1] eqn:A. assert (R := ns_add_spec c s i e s1 o1 B A).
    assert (GO : BInv c s1 /\ same_shells s s1 /\ (forall j x, mem s1 j x <-> mem s j x \/ j = i /\ x = e) /\
       (forall x, x <> e -> elems s1 x = elems s x) /\ e_parent (elems s e) = None /\ gen s <= gen s1 /\
       (exists st, nth_error (sets s) i = Some st /\ (s_hooks st = None -> e_key (elems s1 e) = e_key (elems s e)) /\
                   (s_hooks st <> None -> e_key (elems s e) = None)) ->
       add_all c (match order_of s1 i with Some o => set_order s1 i (o ++ [e]) | None => s1 end) i o0 r (e :: done) = (s', out) ->
       match out with
       | Err x => x <> EInternal /\ BInv c s' /\ shells_except i s s' /\ order_of s' i = Some o0 /\
                  (forall j x, mem s' j x <-> mem s j x /\ ~ (j = i /\ In x done))
       | _ => BInv c s' /\ shells_except i s s' /\ order_of s' i = Some (cur ++ e :: r) /\
              (forall j x, mem s' j x <-> mem s j x \/ (j = i /\ In x (e :: r))) /\
              NoDup (e :: r) /\ (forall x, In x (e :: r) -> forall j, ~ mem s j x)
       end).
    { intros [B1 [SH [HM [_ [PF _]]]]] H1.
      assert (OC1 : order_of s1 i = Some cur) by (rewrite (order_of_shells s s1 i SH); exact OC).
      rewrite OC1 in H1. set (s1' := set_order s1 i (cur ++ [e])) in *.
      assert (B1' : BInv c s1') by (apply set_order_BInv; exact B1).
      assert (HM1 : forall j x, mem s1' j x <-> mem s j x \/ j = i /\ x = e).
      { intros j x. unfold s1'. rewrite set_order_mem. apply HM. }
      assert (SX : shells_except i s s1').
      { apply (shells_except_trans i s s1); [apply same_shells_except; exact SH|apply set_order_except]. }
      assert (OC1' : order_of s1' i = Some (cur ++ [e])) by (apply (order_of_set_order s1 i cur); exact OC1).
      assert (FR : forall j, ~ mem s j e) by (apply (free_not_mem c s e B PF)).
      assert (ND' : NoDup (e :: done)). { constructor; auto. intro X. apply (FR i). apply HD. exact X. }
      assert (HD' : forall x, In x (e :: done) -> mem s1' i x).
      { intros x [X|X]; apply HM1; [right; auto|left; apply HD; exact X]. }
      assert (R1 := IH s1' i o0 (e :: done) (cur ++ [e]) s' out B1' ND' HD' OC1' H1). destruct out as [|v|er].
      - destruct R1 as [B2 [SH2 [O2 [HM2 [ND2 FR2]]]]]. split; auto. split; [eapply shells_except_trans; eauto|].
        split; [rewrite O2, <- app_assoc; reflexivity|]. split; [|split].
        + intros j x. rewrite HM2, HM1. simpl. intuition.
        + constructor; auto. intro X. apply (FR2 e X i). apply HM1. right. auto.
        + intros x [X|X] j; [subst; apply FR|]. intro Y. apply (FR2 x X j). apply HM1. left. exact Y.
      - destruct R1 as [B2 [SH2 [O2 [HM2 [ND2 FR2]]]]]. split; auto. split; [eapply shells_except_trans; eauto|].
        split; [rewrite O2, <- app_assoc; reflexivity|]. split; [|split].
        + intros j x. rewrite HM2, HM1. simpl. intuition.
        + constructor; auto. intro X. apply (FR2 e X i). apply HM1. right. auto.
        + intros x [X|X] j; [subst; apply FR|]. intro Y. apply (FR2 x X j). apply HM1. left. exact Y.
      - destruct R1 as [X1 [B2 [SH2 [O2 HM2]]]]. split; auto. split; auto. split; [eapply shells_except_trans; eauto|].
        split; auto. intros j x. rewrite HM2, HM1. simpl. split.
        + intros [[X|[X1' X2]] Y]; [split; auto; intros [Z W]; apply Y; auto|]. exfalso. apply Y. auto.
        + intros [X Y]. split; auto. intros [Z [W|W]]; [subst; apply (FR i); exact X|apply Y; auto]. }
    destruct o1 as [|v|x].
    + apply GO; auto.
    + apply GO; auto.
    + destruct R as [P X]. clear GO.
      assert (OC1 : order_of s1 i = Some cur) by (rewrite (order_of_shells s s1 i (pub_eq_shells s s1 P)); exact OC).
      set (s1r := set_order s1 i o0) in *.
      destruct (remove_all c s1r i (rev done)) as [s2 o2] eqn:RA.
      destruct (remove_all_spec c (rev done) s1r i s2 o2) as [E2 [B2 [SH2 HM2]]]; auto.
      * apply set_order_BInv. eapply pub_eq_BInv; eauto.
      * apply NoDup_rev. exact ND.
      * intros y Y. unfold s1r. rewrite set_order_mem. apply (pub_eq_mem s s1 i y P). apply HD. apply in_rev. exact Y.
      * subst o2. inversion H; subst s' out. split; auto. split; auto. split; [|split].
        -- apply (shells_except_trans i s s1); [apply same_shells_except; apply pub_eq_shells; exact P|].
           apply (shells_except_trans i s1 s1r); [apply set_order_except|apply same_shells_except; exact SH2].
        -- rewrite (order_of_shells s1r s2 i SH2). apply (order_of_set_order s1 i cur). exact OC1.
        -- intros j y. rewrite HM2. unfold s1r. rewrite set_order_mem. rewrite (pub_eq_mem s s1 j y P). rewrite <- in_rev. tauto.
Qed.

Lemma good_setslice : forall s i a b es, Inv c s -> good c s (set_setslice c s i a b es) false.
Proof.
  intros s i a b es [B O]. unfold set_setslice.
  destruct (order_of s i) as [o|] eqn:OO; [|apply good_weaken; apply good_same; [split; auto|discriminate]].
  destruct (order_ok s i o O OO) as [N1 N2].
  set (lo := slice_lo (List.length o) a). set (hi := slice_hi (List.length o) a b).
  assert (L : lo <= hi) by apply slice_bounds.
  destruct (slice_parts o lo hi L N1) as [P1 [P2 [P3 [D1 [D2 [D3 PE]]]]]].
  set (pre := firstn lo o) in *. set (del := firstn (hi - lo) (skipn lo o)) in *. set (post := skipn hi o) in *.
  set (new := firstn (List.length del) es).
  destruct (add_all c s i o new []) as [s1 o1] eqn:A.
  assert (R := add_all_spec new s i o [] o s1 o1 B (NoDup_nil _) (fun x (X : In x []) => match X with end) OO A).
  assert (GO : BInv c s1 /\ shells_except i s s1 /\ order_of s1 i = Some (o ++ new) /\
               (forall j x, mem s1 j x <-> mem s j x \/ (j = i /\ In x new)) /\
               NoDup new /\ (forall x, In x new -> forall j, ~ mem s j x) ->
               good c s (remove_all c (set_order s1 i (pre ++ new ++ post)) i del) false).
  { intros [B1 [SH [OO1 [HM [NDn FRn]]]]].
    set (s2 := set_order s1 i (pre ++ new ++ post)).
    assert (B2 : BInv c s2) by (apply set_order_BInv; exact B1).
    destruct (remove_all c s2 i del) as [s3 o3] eqn:RA.
    destruct (remove_all_spec c del s2 i s3 o3 B2 P2) as [E3 [B3 [SH3 HM3]]]; auto.
    { intros x X. unfold s2. rewrite set_order_mem, HM. left. apply N2. apply PE. auto. }
    subst o3. split; [|split; [discriminate|intro; discriminate]]. simpl.
    destruct (order_of_some s1 i _ OO1) as [st1 [Ni1 _]].
    destruct (set_order_lookup s1 i (pre ++ new ++ post) st1 Ni1) as [L1 _]. fold s2 in L1.
    assert (NEWO : forall x, In x new -> ~ In x o). { intros x X Y. apply (FRn x X i). apply N2. exact Y. }
    apply (Inv_keep c s s3 i); auto.
    - apply (shells_except_trans i s s1); [exact SH|].
      apply (shells_except_trans i s1 s2); [apply set_order_except|apply same_shells_except; exact SH3].
    - intros j x D. rewrite HM3. unfold s2. rewrite set_order_mem, HM. split; [intros [[X|[X _]] _]; auto; contradiction|].
      intro X. split; auto. intros [Y _]. contradiction.
    - intros st3 o3' N3 SO3. destruct (shell_lookup_rev s2 s3 i st3 SH3 N3) as [st2 [N2' SHE]].
      rewrite L1 in N2'. inversion N2'; subst st2. unfold shell in SHE. injection SHE as _ _ SO'.
      change (s_order st3 = Some (pre ++ new ++ post)) in SO'.
      assert (o3' = pre ++ new ++ post) by congruence. subst o3'. split.
      + apply nodup_app; auto.
        * apply nodup_app; auto. intros x X Y. apply (NEWO x X). apply PE. auto.
        * intros x X Y. apply in_app_iff in Y. destruct Y as [Y|Y]; [apply (NEWO x Y); apply PE; auto|apply (D2 x X Y)].
      + intro x. rewrite !in_app_iff, HM3. unfold s2. rewrite set_order_mem, HM, <- N2, PE. split.
        * intros [X|[X|X]].
          -- split; auto. intros [_ Y]. apply (D1 x X Y).
          -- split; auto. intros [_ Y]. apply (NEWO x X). apply PE. auto.
          -- split; auto. intros [_ Y]. apply (D3 x Y X).
        * intros [[[X|[X|X]]|[_ X]] Y]; auto. exfalso. apply Y. auto. }
  unfold bind. destruct o1 as [|v|er].
  - apply GO. exact R.
  - apply GO. exact R.
  - destruct R as [X [B1 [SH [OO1 HM]]]]. split; [|split; [intro E; inversion E; contradiction|intro; discriminate]]. simpl.
    apply (Inv_keep c s s1 i); auto.
    + intros j x D. rewrite HM. tauto.
    + intros st1 o1 N1' SO1.
      assert (order_of s1 i = Some o1). { unfold order_of. rewrite N1'. exact SO1. }
      assert (o1 = o) by congruence. subst o1. split; auto. intro x. rewrite HM, N2. tauto.
Qed.

End WithCfg.
