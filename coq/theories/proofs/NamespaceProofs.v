(* Lemmas about model/Namespace.v: the containment invariant holds initially, is preserved by
   every call whether it returns or raises, hence holds after every history; single-element
   calls that raise leave the state unchanged. *)
From Coq Require Import List ZArith Bool String Ascii Arith Lia Permutation.
From Basyx Require Import model.Namespace.
Import ListNotations.
Local Open Scope nat_scope.

(* ---- keys and dicts ---------------------------------------------------- *)

Lemma key_eqb_eq : forall a b, key_eqb a b = true <-> a = b.
Proof.
  destruct a, b; simpl; split; intro H; try discriminate; try congruence.
  - apply String.eqb_eq in H. congruence.
  - inversion H. apply String.eqb_refl.
  - apply Nat.eqb_eq in H. congruence.
  - inversion H. apply Nat.eqb_refl.
Qed.
Lemma key_eqb_refl : forall a, key_eqb a a = true.
Proof. intro. apply key_eqb_eq. reflexivity. Qed.
Lemma key_eqb_neq : forall a b, key_eqb a b = false <-> a <> b.
Proof.
  intros. split; intro H.
  - intro E. apply key_eqb_eq in E. congruence.
  - destruct (key_eqb a b) eqn:E; auto. apply key_eqb_eq in E. contradiction.
Qed.
Lemma okey_eqb_eq : forall a b, okey_eqb a b = true <-> a = b.
Proof.
  destruct a, b; simpl; split; intro H; try discriminate; try congruence.
  - apply key_eqb_eq in H. congruence.
  - inversion H. apply key_eqb_refl.
Qed.

Lemma dget_in : forall k v d, dget k d = Some v -> In (k, v) d.
Proof.
  induction d as [|[k' v'] r IH]; simpl; intro H; try discriminate.
  destruct (key_eqb k k') eqn:E.
  - apply key_eqb_eq in E. inversion H. subst. auto.
  - auto.
Qed.
Lemma in_dget : forall k v d, NoDup (map fst d) -> In (k, v) d -> dget k d = Some v.
Proof.
  induction d as [|[k' v'] r IH]; simpl; intros ND H; [contradiction|].
  inversion ND; subst. destruct H as [H|H].
  - inversion H; subst. rewrite key_eqb_refl. reflexivity.
  - destruct (key_eqb k k') eqn:E.
    + apply key_eqb_eq in E. subst. exfalso. apply H2. apply (in_map fst) in H. exact H.
    + auto.
Qed.
Lemma dget_none : forall k d, dget k d = None <-> ~ In k (map fst d).
Proof.
  induction d as [|[k' v'] r IH]; simpl.
  - tauto.
  - destruct (key_eqb k k') eqn:E.
    + apply key_eqb_eq in E. subst. split; [discriminate|]. intro H. exfalso. apply H. auto.
    + apply key_eqb_neq in E. rewrite IH. split; intro H; [intros [A|A]; [congruence|contradiction]|tauto].
Qed.
Lemma dmem_true : forall k d, dmem k d = true <-> In k (map fst d).
Proof.
  intros. unfold dmem. destruct (dget k d) eqn:E.
  - split; auto. intros _. apply dget_in in E. apply (in_map fst) in E. exact E.
  - split; [discriminate|]. intro H. apply dget_none in E. contradiction.
Qed.
Lemma dmem_false : forall k d, dmem k d = false <-> ~ In k (map fst d).
Proof.
  intros. rewrite <- dmem_true. destruct (dmem k d); split; congruence.
Qed.
Lemma dset_fresh : forall k v d, dget k d = None -> dset k v d = d ++ [(k, v)].
Proof.
  induction d as [|[k' v'] r IH]; simpl; intro H; auto.
  destruct (key_eqb k k'); [discriminate|]. rewrite IH; auto.
Qed.
Lemma ddel_in : forall k d k' v', NoDup (map fst d) ->
  (In (k', v') (ddel k d) <-> In (k', v') d /\ k' <> k).
Proof.
  induction d as [|[k0 v0] r IH]; simpl; intros k' v' ND.
  - tauto.
  - inversion ND; subst. destruct (key_eqb k k0) eqn:E.
    + apply key_eqb_eq in E. subst. split.
      * intro H. split; auto. intro; subst. apply H1. apply (in_map fst) in H. exact H.
      * intros [[H|H] N]; auto. inversion H; subst. congruence.
    + apply key_eqb_neq in E. simpl. rewrite IH by assumption. split.
      * intros [H|[H N]]; [inversion H; subst; split; auto|tauto].
      * intros [[H|H] N]; auto.
Qed.
Lemma ddel_nodup : forall k d, NoDup (map fst d) -> NoDup (map fst (ddel k d)).
Proof.
  induction d as [|[k0 v0] r IH]; simpl; intro ND; auto.
  inversion ND; subst. destruct (key_eqb k k0); auto. simpl. constructor; auto.
  intro H. apply H1. apply in_map_iff in H. destruct H as [[a b] [E H]]. simpl in E. subst.
  apply ddel_in in H; auto. destruct H as [H _]. apply (in_map fst) in H. exact H.
Qed.

Lemma nodup_snd : forall (d : list (key * nat)),
  NoDup (map fst d) -> (forall k1 k2 e, In (k1, e) d -> In (k2, e) d -> k1 = k2) -> NoDup (map snd d).
Proof.
  induction d as [|[k v] r IH]; simpl; intros ND H; [constructor|].
  inversion ND; subst. constructor.
  - intro A. apply in_map_iff in A. destruct A as [[k' v'] [E A]]. simpl in E. subst.
    assert (k' = k) by (apply (H k' k v); auto). subst. apply H2. apply (in_map fst) in A. exact A.
  - apply IH; auto. intros. apply (H k1 k2 e); auto.
Qed.

Lemma nth_error_upd_nth : forall {A} (f : A -> A) l i j,
  nth_error (upd_nth i f l) j = if Nat.eqb j i then option_map f (nth_error l j) else nth_error l j.
Proof.
  induction l as [|x r IH]; intros i j; simpl.
  - destruct i; simpl; destruct (Nat.eqb j _); destruct j; reflexivity.
  - destruct i, j; simpl; auto.
Qed.
Lemma length_upd_nth : forall {A} (f : A -> A) l i, List.length (upd_nth i f l) = List.length l.
Proof. induction l; intros [|i]; simpl; auto. Qed.

(* ---- the invariant ------------------------------------------------------ *)

Section WithCfg.
Variable c : cfg.

Definition entry_ok (s : state) (st : nset) (k : key) (e : nat) : Prop :=
  exists r, e_key (elems s e) = Some r /\ k = norm c r /\ e_parent (elems s e) = Some (s_owner st).

(* backend part: dicts are well formed, every entry is keyed by the (normalised) identifying
   attribute of its element and the element's parent is the owner of the set, no key occurs in
   two sets of one owner, every parent link leads to a set of that owner holding the element,
   generated idShorts are older than the generator *)
Record BInv (s : state) : Prop := mkBInv {
  b_nodup : forall i st, nth_error (sets s) i = Some st -> NoDup (map fst (s_backend st));
  b_entry : forall i st k e, nth_error (sets s) i = Some st -> In (k, e) (s_backend st) -> entry_ok s st k e;
  b_uniq : forall i j sti stj k, nth_error (sets s) i = Some sti -> nth_error (sets s) j = Some stj ->
      s_owner sti = s_owner stj -> In k (map fst (s_backend sti)) -> In k (map fst (s_backend stj)) -> i = j;
  b_parent : forall e o, e_parent (elems s e) = Some o ->
      exists i st, nth_error (sets s) i = Some st /\ s_owner st = o /\ In e (values st);
  b_gen : forall e n, e_key (elems s e) = Some (KGen n) -> n < gen s
}.

(* positional part: _order is a duplicate-free enumeration of the dict values *)
Definition ord_ok (st : nset) : Prop :=
  match s_order st with
  | Some o => NoDup o /\ (forall e, In e o <-> In e (values st))
  | None => True
  end.
Definition OInv (s : state) : Prop := forall i st, nth_error (sets s) i = Some st -> ord_ok st.
Definition Inv (s : state) : Prop := BInv s /\ OInv s.

Definition mem (s : state) (i e : nat) : Prop :=
  exists st, nth_error (sets s) i = Some st /\ In e (values st).

Lemma in_values : forall st e, In e (values st) <-> exists k, In (k, e) (s_backend st).
Proof.
  intros. unfold values. rewrite in_map_iff. split.
  - intros [[k v] [E H]]. simpl in E. subst. eauto.
  - intros [k H]. exists (k, e). auto.
Qed.

Lemma mem_entry : forall s i st e, BInv s -> nth_error (sets s) i = Some st -> In e (values st) ->
  exists r, e_key (elems s e) = Some r /\ In (norm c r, e) (s_backend st) /\
            e_parent (elems s e) = Some (s_owner st).
Proof.
  intros s i st e B N H. apply in_values in H. destruct H as [k H].
  destruct (b_entry s B i st k e N H) as [r [K [E P]]]. subst. eauto.
Qed.

Lemma mem_unique : forall s i j e, BInv s -> mem s i e -> mem s j e -> i = j.
Proof.
  intros s i j e B [sti [Ni Hi]] [stj [Nj Hj]].
  destruct (mem_entry s i sti e B Ni Hi) as [r [K [E P]]].
  destruct (mem_entry s j stj e B Nj Hj) as [r' [K' [E' P']]].
  assert (r' = r) by congruence. subst.
  apply (b_uniq s B i j sti stj (norm c r)); auto; try congruence.
  - apply (in_map fst) in E. exact E.
  - apply (in_map fst) in E'. exact E'.
Qed.

Lemma values_nodup : forall s i st, BInv s -> nth_error (sets s) i = Some st -> NoDup (values st).
Proof.
  intros s i st B N. apply nodup_snd.
  - apply (b_nodup s B i st N).
  - intros k1 k2 e H1 H2.
    destruct (b_entry s B i st k1 e N H1) as [r [K [E P]]].
    destruct (b_entry s B i st k2 e N H2) as [r' [K' [E' P']]]. congruence.
Qed.

Lemma free_not_mem : forall s e, BInv s -> e_parent (elems s e) = None -> forall j, ~ mem s j e.
Proof.
  intros s e B P j [st [N H]]. destruct (mem_entry s j st e B N H) as [r [_ [_ Q]]]. congruence.
Qed.

Lemma contains_iff : forall s i st e, BInv s -> nth_error (sets s) i = Some st ->
  (contains c s i e = true <-> In e (values st)).
Proof.
  intros s i st e B N. unfold contains. rewrite N. split.
  - destruct (e_key (elems s e)) as [k|]; [|discriminate].
    destruct (dget (norm c k) (s_backend st)) as [e'|] eqn:G; [|discriminate].
    intro H. apply Nat.eqb_eq in H. subst. apply dget_in in G. apply in_values. eauto.
  - intro H. destruct (mem_entry s i st e B N H) as [r [K [E P]]]. rewrite K.
    rewrite (in_dget _ _ _ (b_nodup s B i st N) E). apply Nat.eqb_refl.
Qed.

Lemma contains_mem : forall s i e, BInv s -> (contains c s i e = true <-> mem s i e).
Proof.
  intros s i e B. split.
  - intro H. unfold contains in H. destruct (nth_error (sets s) i) as [st|] eqn:N; [|discriminate].
    exists st. split; auto. apply (contains_iff s i st e B N). unfold contains. rewrite N. exact H.
  - intros [st [N H]]. apply (contains_iff s i st e B N). exact H.
Qed.

(* states that agree on owners, dicts, elements (the generator may have advanced) *)
Definition core (st : nset) := (s_owner st, s_backend st).
Lemma BInv_frame : forall s s', BInv s ->
  (forall j, option_map core (nth_error (sets s') j) = option_map core (nth_error (sets s) j)) ->
  (forall x, elems s' x = elems s x) -> gen s <= gen s' -> BInv s'.
Proof.
  intros s s' B HS HE HG.
  assert (X : forall j st', nth_error (sets s') j = Some st' ->
             exists st, nth_error (sets s) j = Some st /\ s_owner st = s_owner st' /\ s_backend st = s_backend st').
  { intros j st' N. specialize (HS j). rewrite N in HS. simpl in HS.
    destruct (nth_error (sets s) j) as [st|]; [|discriminate]. simpl in HS. inversion HS. eauto. }
  assert (Y : forall j st, nth_error (sets s) j = Some st ->
             exists st', nth_error (sets s') j = Some st' /\ s_owner st = s_owner st' /\ s_backend st = s_backend st').
  { intros j st N. specialize (HS j). rewrite N in HS. simpl in HS.
    destruct (nth_error (sets s') j) as [st'|]; [|discriminate]. simpl in HS. inversion HS. eauto. }
  constructor.
  - intros i st' N. destruct (X i st' N) as [st [N0 [O E]]]. rewrite <- E. apply (b_nodup s B i st N0).
  - intros i st' k e N H. destruct (X i st' N) as [st [N0 [O E]]]. rewrite <- E in H.
    destruct (b_entry s B i st k e N0 H) as [r [K [E1 P]]]. exists r. rewrite HE. rewrite <- O. auto.
  - intros i j sti' stj' k Ni Nj O Hi Hj.
    destruct (X i sti' Ni) as [sti [Ni0 [Oi Ei]]]. destruct (X j stj' Nj) as [stj [Nj0 [Oj Ej]]].
    rewrite <- Ei in Hi. rewrite <- Ej in Hj.
    apply (b_uniq s B i j sti stj k); auto. congruence.
  - intros e o P. rewrite HE in P. destruct (b_parent s B e o P) as [i [st [N [O H]]]].
    destruct (Y i st N) as [st' [N' [O' E']]]. exists i, st'. split; auto. split; [congruence|].
    unfold values in *. rewrite <- E'. exact H.
  - intros e n K. rewrite HE in K. apply (b_gen s B) in K. lia.
Qed.

Lemma BInv_insert : forall s s' i st st' e k,
  BInv s -> nth_error (sets s) i = Some st -> nth_error (sets s') i = Some st' ->
  s_owner st' = s_owner st ->
  (forall j, j <> i -> nth_error (sets s') j = nth_error (sets s) j) ->
  (forall k' x, In (k', x) (s_backend st') <-> In (k', x) (s_backend st) \/ (k' = norm c k /\ x = e)) ->
  NoDup (map fst (s_backend st')) ->
  e_parent (elems s e) = None ->
  e_key (elems s' e) = Some k -> e_parent (elems s' e) = Some (s_owner st) ->
  (forall x, x <> e -> elems s' x = elems s x) ->
  (forall j stj, nth_error (sets s) j = Some stj -> s_owner stj = s_owner st ->
                 ~ In (norm c k) (map fst (s_backend stj))) ->
  gen s <= gen s' -> (forall n, k = KGen n -> n < gen s') -> BInv s'.
Proof.
  intros s s' i st st' e k B N N' O HS HB ND PF K' P' HE FR HG HK.
  assert (NM : forall j stj, nth_error (sets s) j = Some stj -> ~ In e (values stj)).
  { intros j stj Nj H. apply (free_not_mem s e B PF j). exists stj. auto. }
  assert (KEYS : forall k', In k' (map fst (s_backend st')) <-> In k' (map fst (s_backend st)) \/ k' = norm c k).
  { intro k'. rewrite !in_map_iff. split.
    - intros [[a b] [E H]]. simpl in E. subst. apply HB in H. destruct H as [H|[H1 H2]].
      + left. exists (k', b). auto.
      + right. auto.
    - intros [[[a b] [E H]]|H].
      + simpl in E. subst. exists (k', b). split; auto. apply HB. auto.
      + subst. exists (norm c k, e). split; auto. apply HB. auto. }
  constructor.
  - intros j stj Nj. destruct (Nat.eq_dec j i) as [->|D].
    + rewrite N' in Nj. inversion Nj; subst. exact ND.
    + rewrite HS in Nj by assumption. apply (b_nodup s B j stj Nj).
  - intros j stj k0 x Nj H. destruct (Nat.eq_dec j i) as [->|D].
    + rewrite N' in Nj. inversion Nj; subst stj. apply HB in H. destruct H as [H|[H1 H2]].
      * destruct (b_entry s B i st k0 x N H) as [r [K [E P]]].
        assert (x <> e). { intro; subst. apply (NM i st N). apply in_values. eauto. }
        exists r. rewrite HE by assumption. rewrite O. auto.
      * subst. exists k. rewrite O. auto.
    + rewrite HS in Nj by assumption.
      destruct (b_entry s B j stj k0 x Nj H) as [r [K [E P]]].
      assert (x <> e). { intro; subst. apply (NM j stj Nj). apply in_values. eauto. }
      exists r. rewrite HE by assumption. auto.
  - intros j1 j2 st1 st2 k0 N1 N2 OO H1 H2.
    destruct (Nat.eq_dec j1 i) as [->|D1]; destruct (Nat.eq_dec j2 i) as [->|D2]; auto.
    + rewrite N' in N1. inversion N1; subst st1. rewrite HS in N2 by assumption.
      apply KEYS in H1. destruct H1 as [H1|H1].
      * apply (b_uniq s B i j2 st st2 k0); auto. congruence.
      * subst. exfalso. apply (FR j2 st2 N2); auto. congruence.
    + rewrite N' in N2. inversion N2; subst st2. rewrite HS in N1 by assumption.
      apply KEYS in H2. destruct H2 as [H2|H2].
      * apply (b_uniq s B j1 i st1 st k0); auto. congruence.
      * subst. exfalso. apply (FR j1 st1 N1); auto. congruence.
    + rewrite HS in N1, N2 by assumption. apply (b_uniq s B j1 j2 st1 st2 k0); auto.
  - intros x o Px. destruct (Nat.eq_dec x e) as [->|D].
    + exists i, st'. split; auto. split; [congruence|]. apply in_values. exists (norm c k). apply HB. auto.
    + rewrite HE in Px by assumption. destruct (b_parent s B x o Px) as [j [stj [Nj [Oj H]]]].
      destruct (Nat.eq_dec j i) as [->|Dj].
      * rewrite N in Nj. inversion Nj; subst stj. exists i, st'. split; auto. split; [congruence|].
        apply in_values in H. destruct H as [k0 H]. apply in_values. exists k0. apply HB. auto.
      * exists j, stj. rewrite HS by assumption. auto.
  - intros x n Kx. destruct (Nat.eq_dec x e) as [->|D].
    + rewrite K' in Kx. inversion Kx. auto.
    + rewrite HE in Kx by assumption. apply (b_gen s B) in Kx. lia.
Qed.

(* removal of the elements selected by D from set i *)
Lemma BInv_delete : forall s s' i st st' (D : nat -> bool),
  BInv s -> nth_error (sets s) i = Some st -> nth_error (sets s') i = Some st' ->
  s_owner st' = s_owner st ->
  (forall j, j <> i -> nth_error (sets s') j = nth_error (sets s) j) ->
  (forall k x, In (k, x) (s_backend st') <-> In (k, x) (s_backend st) /\ D x = false) ->
  NoDup (map fst (s_backend st')) ->
  (forall x, D x = true -> In x (values st) ->
             e_parent (elems s' x) = None /\
             (e_key (elems s' x) = e_key (elems s x) \/ e_key (elems s' x) = None)) ->
  (forall x, ~ (D x = true /\ In x (values st)) -> elems s' x = elems s x) ->
  gen s <= gen s' -> BInv s'.
Proof.
  intros s s' i st st' D B N N' O HS HB ND HD HE HG.
  assert (SAME : forall j stj x, nth_error (sets s) j = Some stj -> j <> i -> In x (values stj) ->
                 elems s' x = elems s x).
  { intros j stj x Nj Dj H. apply HE. intros [_ A]. apply Dj.
    apply (mem_unique s j i x B); [exists stj|exists st]; auto. }
  constructor.
  - intros j stj Nj. destruct (Nat.eq_dec j i) as [->|Dj].
    + rewrite N' in Nj. inversion Nj; subst. exact ND.
    + rewrite HS in Nj by assumption. apply (b_nodup s B j stj Nj).
  - intros j stj k0 x Nj H. destruct (Nat.eq_dec j i) as [->|Dj].
    + rewrite N' in Nj. inversion Nj; subst stj. apply HB in H. destruct H as [H F].
      destruct (b_entry s B i st k0 x N H) as [r [K [E P]]].
      exists r. rewrite HE; [rewrite O; auto|]. intros [A _]. congruence.
    + rewrite HS in Nj by assumption.
      destruct (b_entry s B j stj k0 x Nj H) as [r [K [E P]]].
      exists r. rewrite (SAME j stj x Nj Dj); auto. apply in_values. eauto.
  - intros j1 j2 st1 st2 k0 N1 N2 OO H1 H2.
    assert (SUB : forall k', In k' (map fst (s_backend st')) -> In k' (map fst (s_backend st))).
    { intros k' A. apply in_map_iff in A. destruct A as [[a b] [E A]]. simpl in E. subst.
      apply HB in A. destruct A as [A _]. apply (in_map fst) in A. exact A. }
    destruct (Nat.eq_dec j1 i) as [->|D1]; destruct (Nat.eq_dec j2 i) as [->|D2]; auto.
    + rewrite N' in N1. inversion N1; subst st1. rewrite HS in N2 by assumption.
      apply (b_uniq s B i j2 st st2 k0); auto. congruence.
    + rewrite N' in N2. inversion N2; subst st2. rewrite HS in N1 by assumption.
      apply (b_uniq s B j1 i st1 st k0); auto. congruence.
    + rewrite HS in N1, N2 by assumption. apply (b_uniq s B j1 j2 st1 st2 k0); auto.
  - intros x o Px.
    destruct (D x) eqn:Dx.
    + destruct (in_dec Nat.eq_dec x (values st)) as [A|A].
      * destruct (HD x Dx A) as [Q _]. congruence.
      * rewrite HE in Px by tauto. destruct (b_parent s B x o Px) as [j [stj [Nj [Oj H]]]].
        destruct (Nat.eq_dec j i) as [->|Dj].
        -- rewrite N in Nj. inversion Nj; subst. contradiction.
        -- exists j, stj. rewrite HS by assumption. auto.
    + rewrite HE in Px by (intros [A _]; congruence).
      destruct (b_parent s B x o Px) as [j [stj [Nj [Oj H]]]].
      destruct (Nat.eq_dec j i) as [->|Dj].
      * rewrite N in Nj. inversion Nj; subst stj. exists i, st'. split; auto. split; [congruence|].
        apply in_values in H. destruct H as [k0 H]. apply in_values. exists k0. apply HB. auto.
      * exists j, stj. rewrite HS by assumption. auto.
  - intros x n Kx.
    destruct (D x) eqn:Dx.
    + destruct (in_dec Nat.eq_dec x (values st)) as [A|A].
      * destruct (HD x Dx A) as [_ [Q|Q]]; [rewrite Q in Kx; apply (b_gen s B) in Kx; lia|congruence].
      * rewrite HE in Kx by tauto. apply (b_gen s B) in Kx. lia.
    + rewrite HE in Kx by (intros [A _]; congruence). apply (b_gen s B) in Kx. lia.
Qed.


(* ---- summaries of the state changes ------------------------------------- *)

Definition shell (st : nset) := (s_owner st, s_hooks st, s_order st).
Definition same_shells (s s' : state) : Prop :=
  forall j, option_map shell (nth_error (sets s') j) = option_map shell (nth_error (sets s) j).
(* nothing a client can see has changed (the uuid generator may have advanced) *)
Definition pub_eq (s s' : state) : Prop :=
  sets s' = sets s /\ (forall x, elems s' x = elems s x) /\ gen s <= gen s'.

Lemma pub_eq_refl : forall s, pub_eq s s.
Proof. intro. repeat split; auto. Qed.
Lemma pub_eq_trans : forall a b d, pub_eq a b -> pub_eq b d -> pub_eq a d.
Proof.
  intros a b d [S1 [E1 G1]] [S2 [E2 G2]].
  split; [congruence|split; [intro x; rewrite E2; apply E1|lia]].
Qed.
Lemma same_shells_refl : forall s, same_shells s s.
Proof. intros s j. reflexivity. Qed.
Lemma same_shells_trans : forall a b d, same_shells a b -> same_shells b d -> same_shells a d.
Proof. intros a b d H1 H2 j. rewrite H2. apply H1. Qed.
Lemma pub_eq_shells : forall s s', pub_eq s s' -> same_shells s s'.
Proof. intros s s' [S _] j. rewrite S. reflexivity. Qed.
Lemma pub_eq_mem : forall s s' j x, pub_eq s s' -> (mem s' j x <-> mem s j x).
Proof. intros s s' j x [S _]. unfold mem. rewrite S. tauto. Qed.
Lemma pub_eq_BInv : forall s s', pub_eq s s' -> BInv s -> BInv s'.
Proof.
  intros s s' [S [E G]] B. apply (BInv_frame s s'); auto. intro j. rewrite S. reflexivity.
Qed.
Lemma pub_eq_OInv : forall s s', pub_eq s s' -> OInv s -> OInv s'.
Proof. intros s s' [S _] O i st N. rewrite S in N. apply (O i st N). Qed.

Lemma shell_lookup : forall s s' j st, same_shells s s' -> nth_error (sets s) j = Some st ->
  exists st', nth_error (sets s') j = Some st' /\ shell st' = shell st.
Proof.
  intros s s' j st H N. specialize (H j). rewrite N in H. simpl in H.
  destruct (nth_error (sets s') j) as [st'|]; [|discriminate]. simpl in H.
  exists st'. split; [reflexivity|congruence].
Qed.
Lemma shell_lookup_rev : forall s s' j st', same_shells s s' -> nth_error (sets s') j = Some st' ->
  exists st, nth_error (sets s) j = Some st /\ shell st' = shell st.
Proof.
  intros s s' j st' H N. specialize (H j). rewrite N in H. simpl in H.
  destruct (nth_error (sets s) j) as [st|]; [|discriminate]. simpl in H.
  exists st. split; [reflexivity|congruence].
Qed.

Lemma replace_shells : forall s s' i st st',
  nth_error (sets s) i = Some st -> nth_error (sets s') i = Some st' -> shell st' = shell st ->
  (forall j, j <> i -> nth_error (sets s') j = nth_error (sets s) j) -> same_shells s s'.
Proof.
  intros s s' i st st' N N' SH HS j. destruct (Nat.eq_dec j i) as [->|D].
  - rewrite N, N'. simpl. congruence.
  - rewrite HS by assumption. reflexivity.
Qed.
Lemma replace_mem : forall s s' i st st' (P : nat -> Prop),
  nth_error (sets s) i = Some st -> nth_error (sets s') i = Some st' ->
  (forall j, j <> i -> nth_error (sets s') j = nth_error (sets s) j) ->
  (forall x, In x (values st') <-> P x) ->
  forall j x, mem s' j x <-> (j <> i /\ mem s j x) \/ (j = i /\ P x).
Proof.
  intros s s' i st st' P N N' HS HV j x. unfold mem. destruct (Nat.eq_dec j i) as [->|D].
  - rewrite N'. split.
    + intros [a [E H]]. inversion E; subst a. right. split; auto. apply HV. exact H.
    + intros [[A _]|[_ H]]; [congruence|]. exists st'. split; auto. apply HV. exact H.
  - rewrite HS by assumption. split.
    + intro H. left. auto.
    + intros [[_ H]|[A _]]; [exact H|contradiction].
Qed.

Lemma upd_set_lookup : forall s i f st, nth_error (sets s) i = Some st ->
  nth_error (sets (upd_set s i f)) i = Some (f st) /\
  (forall j, j <> i -> nth_error (sets (upd_set s i f)) j = nth_error (sets s) j).
Proof.
  intros s i f st N. unfold upd_set. simpl. split.
  - rewrite nth_error_upd_nth, Nat.eqb_refl, N. reflexivity.
  - intros j D. rewrite nth_error_upd_nth. apply Nat.eqb_neq in D. rewrite D. reflexivity.
Qed.

(* ---- validate ------------------------------------------------------------ *)

Lemma validate_not_internal : forall ss o k x, validate_sets c ss o k = Err x -> x <> EInternal.
Proof.
  induction ss as [|st r IH]; simpl; intros o k x H; [discriminate|].
  destruct (Nat.eqb (s_owner st) o); [|eauto].
  destruct k as [k|].
  - destruct (dmem (norm c k) (s_backend st)); [|eauto].
    inversion H. unfold dup_err. discriminate.
  - inversion H. unfold none_err. destruct (c_attr c); discriminate.
Qed.
Lemma validate_ok_or_err : forall ss o k, validate_sets c ss o k = Ok \/ exists x, validate_sets c ss o k = Err x.
Proof.
  induction ss as [|st r IH]; simpl; intros o k; auto.
  destruct (Nat.eqb (s_owner st) o); auto.
  destruct k as [k|]; [|eauto]. destruct (dmem (norm c k) (s_backend st)); eauto.
Qed.
Lemma validate_none : forall ss o, validate_sets c ss o None = Ok ->
  forall j st, nth_error ss j = Some st -> s_owner st <> o.
Proof.
  induction ss as [|st r IH]; simpl; intros o H j st0 N.
  - destruct j; discriminate.
  - destruct (Nat.eqb (s_owner st) o) eqn:E; [discriminate|].
    destruct j; simpl in N.
    + inversion N; subst. apply Nat.eqb_neq. exact E.
    + eapply IH; eauto.
Qed.
Lemma validate_some : forall ss o k, validate_sets c ss o (Some k) = Ok ->
  forall j st, nth_error ss j = Some st -> s_owner st = o -> ~ In (norm c k) (map fst (s_backend st)).
Proof.
  induction ss as [|st r IH]; simpl; intros o k H j st0 N O.
  - destruct j; discriminate.
  - destruct j; simpl in N.
    + inversion N; subst st0. rewrite O, Nat.eqb_refl in H.
      destruct (dmem (norm c k) (s_backend st)) eqn:M; [discriminate|]. apply dmem_false. exact M.
    + destruct (Nat.eqb (s_owner st) o).
      * destruct (dmem (norm c k) (s_backend st)); [discriminate|]. eapply IH; eauto.
      * eapply IH; eauto.
Qed.
Lemma validate_complete : forall ss o k,
  (forall j st, nth_error ss j = Some st -> s_owner st = o -> ~ In (norm c k) (map fst (s_backend st))) ->
  validate_sets c ss o (Some k) = Ok.
Proof.
  induction ss as [|st r IH]; simpl; intros o k H; auto.
  destruct (Nat.eqb (s_owner st) o) eqn:E.
  - apply Nat.eqb_eq in E. assert (A := H 0 st eq_refl E). apply dmem_false in A. rewrite A.
    apply IH. intros j st0 N. apply (H (S j) st0). exact N.
  - apply IH. intros j st0 N. apply (H (S j) st0). exact N.
Qed.

Lemma norm_gen : forall r n, norm c r = KGen n -> r = KGen n.
Proof. intros r n. unfold norm. destruct (c_cs c); auto. destruct r; congruence. Qed.

Lemma check_114_not_internal : forall m l x, check_114 m l = Err x -> x <> EInternal.
Proof.
  induction l as [|a r IH]; simpl; intros x H; [discriminate|].
  destruct (e_sem a); [|eauto]. destruct (Nat.eqb m n); [eauto|]. inversion H. discriminate.
Qed.
Lemma check_constraints_not_internal : forall lc el l x, check_constraints lc el l = Err x -> x <> EInternal.
Proof.
  intros lc el l x. unfold check_constraints.
  destruct (negb (cls_ok lc el)); [intro H; inversion H; discriminate|].
  destruct (match l_sem lc with Some a => match e_sem el with Some b => negb (Nat.eqb a b) | None => false end | None => false end);
    [intro H; inversion H; discriminate|].
  destruct ((l_cls lc <? 2) && negb (Nat.eqb (e_vt el) (l_vt lc))); [intro H; inversion H; discriminate|].
  destruct (e_sem el); [|discriminate]. destruct (l_sem lc); [discriminate|]. apply check_114_not_internal.
Qed.

Lemma elem_eta : forall el, e_key el = None -> e_parent el = None ->
  mkelem None None (e_cls el) (e_vt el) (e_sem el) = el.
Proof. intros [k p a b m] H1 H2. simpl in *. subst. reflexivity. Qed.

End WithCfg.
