(* C02 - the small state machines of model/ConstraintsModel.v part B: AdministrativeInformation
   (AASd-005), BasicEventElement, category (AASd-090), language string sets. *)
From Coq Require Import List ZArith Bool Lia.
From Basyx Require Import model.ConstraintsBase gen.Gen_RefChecks model.ConstraintsModel model.ConstraintsSpec.
Import ListNotations.
Local Open Scope Z_scope.

(* ---- AdministrativeInformation ----------------------------------------------------------------- *)
Definition aplain (s : adm) (p : aop) : adm :=
  match p with SetVersion a => mkAdm a (arev s) | SetRevision a => mkAdm (aver s) a end.
Definition aarg (p : aop) : sarg := match p with SetVersion a | SetRevision a => a end.

Theorem astep_accept_wf : forall s p s', wf_adm s -> astep s p = (s', None) -> wf_adm s' /\ s' = aplain s p.
Proof.
  intros [v r] p s' (Hv & Hr & Hvr) H. destruct p as [a|a]; cbn in *;
    destruct a; destruct v; destruct r; cbn in *; try contradiction; inversion H; subst;
    (split; [|reflexivity]); unfold wf_adm; cbn; intuition (try congruence; try discriminate).
Qed.

Theorem astep_reject_unchanged : forall s p s' e, wf_adm s -> astep s p = (s', Some e) ->
  s' = s /\ ((e = EAASd 5 /\ ~ wf_adm (aplain s p)) \/ (e = EValue /\ ~ s_valid (aarg p))).
Proof.
  intros [v r] p s' e (Hv & Hr & Hvr) H. destruct p as [a|a]; cbn in *;
    destruct a; destruct v; destruct r; cbn in *; try contradiction; inversion H; subst;
    (split; [reflexivity|]); unfold wf_adm; cbn; intuition (try congruence; try discriminate).
Qed.

Theorem actor_spec : forall v r,
  match actor v r with
  | (Some s, None) => wf_adm s /\ s = mkAdm v r
  | (None, Some e) => (e = EAASd 5 /\ ~ wf_adm (mkAdm v r)) \/ (e = EValue /\ (~ s_valid v \/ ~ s_valid r))
  | _ => False
  end.
Proof.
  intros v r. destruct v; destruct r; cbn; unfold wf_adm; cbn; intuition (try congruence; try discriminate).
Qed.

Theorem arun_wf : forall ops s, wf_adm s -> wf_adm (arun s ops).
Proof.
  induction ops as [|p r IH]; intros s Hwf; [exact Hwf|]. cbn [arun]. apply IH.
  destruct (astep s p) as [s' [e|]] eqn:E; cbn [fst].
  - destruct (astep_reject_unchanged s p s' e Hwf E) as (-> & _). exact Hwf.
  - exact (proj1 (astep_accept_wf s p s' Hwf E)).
Qed.

(* ---- BasicEventElement ---------------------------------------------------------------------------- *)
Definition bplain (s : bee) (p : bop) : bee :=
  match p with
  | SetDirection d => mkBee d (bmax s) (blast s)
  | SetMaxInterval m => mkBee (bin s) m (blast s)
  | SetLastUpdate u => mkBee (bin s) (bmax s) u
  end.

Theorem bstep_accept_wf : forall s p s', wf_bee s -> bstep s p = (s', None) -> wf_bee s' /\ s' = bplain s p.
Proof.
  intros [d m u] p s' (H1 & H2) H. destruct p as [x|x|x]; cbn in *;
    destruct x; destruct d; destruct m; destruct u; cbn in *; inversion H; subst;
    (split; [|reflexivity]); unfold wf_bee; cbn; intuition (try congruence; try discriminate).
Qed.

Theorem bstep_reject_unchanged : forall s p s' e, wf_bee s -> bstep s p = (s', Some e) ->
  s' = s /\ e = EValue /\ ~ wf_bee (bplain s p).
Proof.
  intros [d m u] p s' e (H1 & H2) H. destruct p as [x|x|x]; cbn in *;
    destruct x; destruct d; destruct m; destruct u; cbn in *; inversion H; subst;
    (split; [reflexivity|]); (split; [reflexivity|]); unfold wf_bee; cbn; intuition (try congruence; try discriminate).
Qed.

Theorem bctor_spec : forall d u m,
  match bctor d u m with
  | (Some s, None) => wf_bee s /\ s = mkBee d m u
  | (None, Some e) => e = EValue /\ ~ wf_bee (mkBee d m u)
  | _ => False
  end.
Proof.
  intros d u m. destruct d; destruct u; destruct m; cbn; unfold wf_bee; cbn;
    intuition (try congruence; try discriminate).
Qed.

Theorem brun_wf : forall ops s, wf_bee s -> wf_bee (brun s ops).
Proof.
  induction ops as [|p r IH]; intros s Hwf; [exact Hwf|]. cbn [brun]. apply IH.
  destruct (bstep s p) as [s' [e|]] eqn:E; cbn [fst].
  - destruct (bstep_reject_unchanged s p s' e Hwf E) as (-> & _). exact Hwf.
  - exact (proj1 (bstep_accept_wf s p s' Hwf E)).
Qed.

(* ---- category -------------------------------------------------------------------------------------- *)
Theorem category_accept_wf : forall k a, set_category k a = None -> wf_category k a.
Proof.
  intros k a H. destruct k; destruct a; cbn in H; try discriminate; unfold wf_category, category_is_name;
    intuition (try congruence; try discriminate).
Qed.

Theorem category_reject : forall k a e, set_category k a = Some e ->
  ~ wf_category k a /\
  ((e = EValue /\ ~ category_is_name a) \/ (e = EAASd 100 /\ a = CEmpty /\ k <> COther) \/
   (e = EAASd 90 /\ k = CDataElement /\ a <> CNone /\ a <> CAllowed)).
Proof.
  intros k a e H. destruct k; destruct a; cbn in H; try discriminate; inversion H; subst;
    unfold wf_category, category_is_name; intuition (try congruence; try discriminate).
Qed.

(* the text of AASd-090 has no exemption for File and Blob *)
Theorem category_text_refuted : exists k a, set_category k a = None /\ ~ wf_category_090_text k a.
Proof.
  exists CFileBlob, CValidOther. split; [reflexivity|]. unfold wf_category_090_text.
  intros (_ & H). destruct (H ltac:(discriminate)); discriminate.
Qed.

Theorem category_text_partial : forall k a, k <> CFileBlob -> set_category k a = None -> wf_category_090_text k a.
Proof.
  intros k a Hk H. destruct k; destruct a; cbn in H; try discriminate; try congruence;
    unfold wf_category_090_text, category_is_name; intuition (try congruence; try discriminate).
Qed.

(* ---- language string sets ----------------------------------------------------------------------- *)
Definition entry_ok (c : bool) (e : nat * bool) : Prop := tag_ok (fst e) = true /\ (c = true -> snd e = true).

Lemma lset_ok : forall c l k t, Forall (entry_ok c) l -> entry_ok c (k, t) -> Forall (entry_ok c) (lset l k t).
Proof.
  intros c l k t Hl He. induction l as [|x r IH]; cbn.
  - constructor; [exact He | constructor].
  - inversion Hl; subst. destruct (Nat.eqb (fst x) k); constructor; auto.
Qed.
Lemma lset_nonempty : forall l k t, lset l k t <> [].
Proof. intros [|x r] k t; cbn; [discriminate|]. destruct (Nat.eqb (fst x) k); discriminate. Qed.
Lemma lremove_ok : forall c l k, Forall (entry_ok c) l -> Forall (entry_ok c) (lremove l k).
Proof.
  intros c l k Hl. induction l as [|x r IH]; cbn; [constructor|].
  inversion Hl; subst. destruct (Nat.eqb (fst x) k); [assumption | constructor; auto].
Qed.
Lemma lremove_length : forall l k, lmem l k = true -> S (length (lremove l k)) = length l.
Proof.
  induction l as [|x r IH]; intros k H; cbn in *; [discriminate|].
  destruct (Nat.eqb (fst x) k); cbn in *; [reflexivity|]. rewrite IH by exact H. reflexivity.
Qed.
Lemma lremove_len : forall l k, lmem l k = true -> len (lremove l k) = len l - 1.
Proof. intros l k H. unfold len. rewrite <- (lremove_length l k H). lia. Qed.

Lemma l_setitem_spec : forall c l k t l' r, Forall (entry_ok c) l -> l_setitem c l k t = (l', r) ->
  match r with
  | None => Forall (entry_ok c) l' /\ l' <> []
  | Some e => l' = l /\ e = EValue
  end.
Proof.
  intros c l k t l' r Hl H. unfold l_setitem in H.
  destruct (c && negb t) eqn:E1; [inversion H; auto|].
  destruct (tag_ok k) eqn:E2; cbn in H; [|inversion H; auto].
  inversion H; subst. split; [|apply lset_nonempty]. apply lset_ok; [exact Hl|].
  split; [exact E2|]. cbn. intro Hc. subst c. cbn in E1. destruct t; [reflexivity | discriminate].
Qed.

Lemma l_delitem_spec : forall c l k l' r, wf_lss c l -> l_delitem l k = (l', r) ->
  match r with
  | None => wf_lss c l'
  | Some e => l' = l /\ e = EKey
  end.
Proof.
  intros c l k l' r (Hne & Hl) H. unfold l_delitem in H.
  destruct (len l =? 1) eqn:E1; [inversion H; auto|].
  destruct (lmem l k) eqn:E2; [|inversion H; auto].
  inversion H; subst. split; [|apply lremove_ok; exact Hl].
  intro Hn. apply Z.eqb_neq in E1. pose proof (lremove_len l k E2) as Hlen. rewrite Hn in Hlen.
  unfold len in Hlen at 1. cbn in Hlen. lia.
Qed.

Lemma l_update_raw_spec : forall c kvs l l' r, Forall (entry_ok c) l -> l_update_raw c l kvs = (l', r) ->
  match r with
  | None => Forall (entry_ok c) l' /\ (l <> [] -> l' <> [])
  | Some e => e = EValue
  end.
Proof.
  intros c kvs. induction kvs as [|[k t] rest IH]; intros l l' r Hl H; cbn [l_update_raw] in H.
  - inversion H; subst. auto.
  - destruct (l_setitem c l k t) as [l1 [e|]] eqn:E.
    + pose proof (l_setitem_spec c l k t l1 (Some e) Hl E) as S. inversion H; subst. exact (proj2 S).
    + destruct (l_setitem_spec c l k t l1 None Hl E) as (H1 & H2).
      specialize (IH l1 l' r H1 H). destruct r; [exact IH|]. destruct IH as (Ha & Hb). split; [exact Ha|].
      intros _. apply Hb. exact H2.
Qed.

Theorem lstep_spec : forall c l p l' r, wf_lss c l -> lstep c l p = (l', r) ->
  match r with
  | None => wf_lss c l'
  | Some e => l' = l /\ (e = EValue \/ e = EKey)
  end.
Proof.
  intros c l p l' r Hwf H. pose proof Hwf as (Hne & Hl). destruct p; cbn [lstep] in H.
  - pose proof (l_setitem_spec c l k t l' r Hl H) as S. destruct r; [intuition | split; tauto].
  - pose proof (l_delitem_spec c l k l' r Hwf H) as S. destruct r; intuition.
  - inversion H; subst. auto.
  - destruct (lmem l k).
    + pose proof (l_delitem_spec c l k l' r Hwf H) as S. destruct r; intuition.
    + inversion H; subst. auto.
  - destruct l as [|x rest]; [congruence|].
    pose proof (l_delitem_spec c (x :: rest) (fst x) l' r Hwf H) as S. destruct r; intuition.
  - destruct (lmem l k).
    + inversion H; subst. exact Hwf.
    + pose proof (l_setitem_spec c l k t l' r Hl H) as S. destruct r; [intuition | split; tauto].
  - destruct (l_update_raw c l kvs) as [l1 [e|]] eqn:E.
    + pose proof (l_update_raw_spec c kvs l l1 (Some e) Hl E) as S. cbn in S. inversion H; subst. auto.
    + destruct (l_update_raw_spec c kvs l l1 None Hl E) as (Ha & Hb). inversion H; subst.
      split; [apply Hb; exact Hne | exact Ha].
Qed.

Theorem lctor_spec : forall c kvs,
  match lctor c kvs with
  | (Some l, None) => wf_lss c l /\ l = kvs
  | (None, Some e) => e = EValue /\ ~ wf_lss c kvs
  | _ => False
  end.
Proof.
  intros c kvs. unfold lctor.
  destruct (len kvs =? 0) eqn:E0.
  { split; [reflexivity|]. intros (Hne & _). apply Hne. apply Z.eqb_eq in E0. unfold len in E0.
    destruct kvs; [reflexivity | cbn in E0; lia]. }
  destruct (forallb (fun e => tag_ok (fst e)) kvs) eqn:E1; cbn [negb].
  2:{ split; [reflexivity|]. intros (_ & Hf). assert (forallb (fun e => tag_ok (fst e)) kvs = true); [|congruence].
      apply forallb_forall. intros x Hx. rewrite Forall_forall in Hf. exact (proj1 (Hf x Hx)). }
  destruct (c && negb (forallb (fun e => snd e) kvs)) eqn:E2.
  { split; [reflexivity|]. intros (_ & Hf). apply andb_true_iff in E2. destruct E2 as (Hc & E2).
    apply negb_true_iff in E2. assert (forallb (fun e => snd e) kvs = true); [|congruence].
    apply forallb_forall. intros x Hx. rewrite Forall_forall in Hf. exact (proj2 (Hf x Hx) Hc). }
  split; [|reflexivity]. split.
  - intro Hn. subst kvs. discriminate.
  - apply Forall_forall. intros x Hx. rewrite forallb_forall in E1. split; [exact (E1 x Hx)|].
    intro Hc. subst c. cbn in E2. apply negb_false_iff in E2. rewrite forallb_forall in E2. exact (E2 x Hx).
Qed.

Theorem lrun_wf : forall c ops l, wf_lss c l -> wf_lss c (lrun c l ops).
Proof.
  intros c ops. induction ops as [|p r IH]; intros l Hwf; [exact Hwf|]. cbn [lrun]. apply IH.
  destruct (lstep c l p) as [l' o] eqn:E. cbn [fst].
  pose proof (lstep_spec c l p l' o Hwf E) as S. destruct o; [destruct S as (-> & _); exact Hwf | exact S].
Qed.
