(* C02 - the small state machines of model/ConstraintsModel.v part B: AdministrativeInformation
   (AASd-005), BasicEventElement, category (AASd-090), language string sets. *)
From Coq Require Import List ZArith Bool Lia.
From Basyx Require Import model.ConstraintsBase gen.Gen_RefChecks model.ConstraintsModel model.ConstraintsSpec.
Import ListNotations.
Local Open Scope Z_scope.

(* ---- AdministrativeInformation ----------------------------------------------------------------- *)
Definition aplain (s : adm) (p : aop) : adm :=
  match p with SetVersion a => mkAdm a (arev s) | SetRevision a => mkAdm (aver s) a end.
Definition aarg (p : aop) : sarg := match p with SetVersion a | SetRevision a => a end.

Theorem astep_accept_wf : forall s p s', wf_adm s -> astep s p = (s', None) -> wf_adm s' /\ s' = aplain s p.
Proof.
  intros [v r] p s' (Hv & Hr & Hvr) H. destruct p as [a|a]; cbn in *;
    destruct a; destruct v; destruct r; cbn in *; try contradiction; inversion H; subst;
    (split; [|reflexivity]); unfold wf_adm; cbn; intuition (try congruence; try discriminate).
Qed.

Theorem astep_reject_unchanged : forall s p s' e, wf_adm s -> astep s p = (s', Some e) ->
  s' = s /\ ((e = EAASd 5 /\ ~ wf_adm (aplain s p)) \/ (e = EValue /\ ~ s_valid (aarg p))).
Proof.
  intros [v r] p s' e (Hv & Hr & Hvr) H. destruct p as [a|a]; cbn in *;
    destruct a; destruct v; destruct r; cbn in *; try contradiction; inversion H; subst;
    (split; [reflexivity|]); unfold wf_adm; cbn; intuition (try congruence; try discriminate).
Qed.

Theorem actor_spec : forall v r,
  match actor v r with
  | (Some s, None) => wf_adm s /\ s = mkAdm v r
  | (None, Some e) => (e = EAASd 5 /\ ~ wf_adm (mkAdm v r)) \/ (e = EValue /\ (~ s_valid v \/ ~ s_valid r))
  | _ => False
  end.
Proof.
  intros v r. destruct v; destruct r; cbn; unfold wf_adm; cbn; intuition (try congruence; try discriminate).
Qed.

Theorem arun_wf : forall ops s, wf_adm s -> wf_adm (arun s ops).
Proof.
  induction ops as [|p r IH]; intros s Hwf; [exact Hwf|]. cbn [arun]. apply IH.
  destruct (astep s p) as [s' [e|]] eqn:E; cbn [fst].
  - destruct (astep_reject_unchanged s p s' e Hwf E) as (-> & _). exact Hwf.
  - exact (proj1 (astep_accept_wf s p s' Hwf E)).
Qed.

(* ---- BasicEventElement ---------------------------------------------------------------------------- *)
Definition bplain (s : bee) (p : bop) : bee :=
  match p with
  | SetDirection d => mkBee d (bmax s) (blast s)
  | SetMaxInterval m => mkBee (bin s) m (blast s)
  | SetLastUpdate u => mkBee (bin s) (bmax s) u
  end.

Theorem bstep_accept_wf : forall s p s', wf_bee s -> bstep s p = (s', None) -> wf_bee s' /\ s' = bplain s p.
Proof.
  intros [d m u] p s' (H1 & H2) H. destruct p as [x|x|x]; cbn in *;
    destruct x; destruct d; destruct m; destruct u; cbn in *; inversion H; subst;
    (split; [|reflexivity]); unfold wf_bee; cbn; intuition (try congruence; try discriminate).
Qed.

Theorem bstep_reject_unchanged : forall s p s' e, wf_bee s -> bstep s p = (s', Some e) ->
  s' = s /\ e = EValue /\ ~ wf_bee (bplain s p).
Proof.
  intros [d m u] p s' e (H1 & H2) H. destruct p as [x|x|x]; cbn in *;
    destruct x; destruct d; destruct m; destruct u; cbn in *; inversion H; subst;
    (split; [reflexivity|]); (split; [reflexivity|]); unfold wf_bee; cbn; intuition (try congruence; try discriminate).
Qed.

Theorem bctor_spec : forall d u m,
  match bctor d u m with
  | (Some s, None) => wf_bee s /\ s = mkBee d m u
  | (None, Some e) => e = EValue /\ ~ wf_bee (mkBee d m u)
  | _ => False
  end.
Proof.
  intros d u m. destruct d; destruct u; destruct m; cbn; unfold wf_bee; cbn;
    intuition (try congruence; try discriminate).
Qed.

Theorem brun_wf : forall ops s, wf_bee s -> wf_bee (brun s ops).
Proof.
  induction ops as [|p r IH]; intros s Hwf; [exact Hwf|]. cbn [brun]. apply IH.
  destruct (bstep s p) as [s' [e|]] eqn:E; cbn [fst].
  - destruct (bstep_reject_unchanged s p s' e Hwf E) as (-> & _). exact Hwf.
  - exact (proj1 (bstep_accept_wf s p s' Hwf E)).
Qed.

(* ---- category -------------------------------------------------------------------------------------- *)
Theorem category_accept_wf : forall k a, set_category k a = None -> wf_category k a.
Proof.
  intros k a H. destruct k; destruct a; cbn in H; try discriminate; unfold wf_category, category_is_name;
    intuition (try congruence; try discriminate).
Qed.

Theorem category_reject : forall k a e, set_category k a = Some e ->
  ~ wf_category k a /\
  ((e = EValue /\ ~ category_is_name a) \/ (e = EAASd 100 /\ a = CEmpty /\ k <> COther) \/
   (e = EAASd 90 /\ k = CDataElement /\ a <> CNone /\ a <> CAllowed)).
Proof.
  intros k a e H. destruct k; destruct a; cbn in H; try discriminate; inversion H; subst;
    unfold wf_category, category_is_name; intuition (try congruence; try discriminate).
Qed.

(* the text of AASd-090 has no exemption for File and Blob *)
Theorem category_text_refuted : exists k a, set_category k a = None /\ ~ wf_category_090_text k a.
Proof.
  exists CFileBlob, CValidOther. split; [reflexivity|]. unfold wf_category_090_text.
  intros (_ & H). destruct (H ltac:(discriminate)); discriminate.
Qed.

Theorem category_text_partial : forall k a, k <> CFileBlob -> set_category k a = None -> wf_category_090_text k a.
Proof.
  intros k a Hk H. destruct k; destruct a; cbn in H; try discriminate; try congruence;
    unfold wf_category_090_text, category_is_name; intuition (try congruence; try discriminate).
Qed.

(* ---- language string sets ----------------------------------------------------------------------- *)
Definition entry_ok (c : bool) (e : nat * bool) : Prop := tag_ok (fst e) = true /\ (c = true -> snd e = true).

Lemma lset_ok : forall c l k t, Forall (entry_ok c) l -> entry_ok c (k, t) -> Forall (entry_ok c) (lset l k t).
Proof.
  intros c l k t Hl He. induction l as [|x r IH]; cbn.
  - constructor; [exact He | constructor].
  - inversion Hl; subst. destruct (Nat.eqb (fst x) k); constructor; auto.
Qed.
Lemma lset_nonempty : forall l k t, lset l k t <> [].
Proof. intros [|x r] k t; cbn; [discriminate|]. destruct (Nat.eqb (fst x) k); discriminate. Qed.
Lemma lremove_ok : forall c l k, Forall (entry_ok c) l -> Forall (entry_ok c) (lremove l k).
Proof.
  intros c l k Hl. induction l as [|x r IH]; cbn; [constructor|].
  inversion Hl; subst. destruct (Nat.eqb (fst x) k); [assumption | constructor; auto].
Qed.
Lemma lremove_length : forall l k, lmem l k = true -> S (length (lremove l k)) = length l.
Proof.
  induction l as [|x r IH]; intros k H; cbn in *; [discriminate|].
  destruct (Nat.eqb (fst x) k); cbn in *; [reflexivity|]. rewrite IH by exact H. reflexivity.
Qed.
Lemma lremove_len : forall l k, lmem l k = true -> len (lremove l k) = len l - 1.
Proof. intros l k H. unfold len. rewrite <- (lremove_length l k H). lia. Qed.

Lemma l_setitem_spec : forall c l k t l' r, Forall (entry_ok c) l -> l_setitem c l k t = (l', r) ->
  match r with
  | None => Forall (entry_ok c) l' /\ l' <> []
  | Some e => l' = l /\ e = EValue
  end.
Proof.
  intros c l k t l' r Hl H. unfold l_setitem in H.
  destruct (c && negb t) eqn:E1; [inversion H; auto|].
  destruct (tag_ok k) eqn:E2; cbn in H; [|inversion H; auto].
  inversion H; subst. split; [|apply lset_nonempty]. apply lset_ok; [exact Hl|].
  split; [exact E2|]. cbn. intro Hc. subst c. cbn in E1. destruct t; [reflexivity | discriminate].
Qed.

Lemma l_delitem_spec : forall c l k l' r, wf_lss c l -> l_delitem l k = (l', r) ->
  match r with
  | None => wf_lss c l'
  | Some e => l' = l /\ e = EKey
  end.
Proof.
  intros c l k l' r (Hne & Hl) H. unfold l_delitem in H.
  destruct (len l =? 1) eqn:E1; [inversion H; auto|].
  destruct (lmem l k) eqn:E2; [|inversion H; auto].
  inversion H; subst. split; [|apply lremove_ok; exact Hl].
  intro Hn. apply Z.eqb_neq in E1. pose proof (lremove_len l k E2) as Hlen. rewrite Hn in Hlen.
  unfold len in Hlen at 1. cbn in Hlen. lia.
Qed.

Lemma l_update_raw_spec : forall c kvs l l' r, Forall (entry_ok c) l -> l_update_raw c l kvs = (l', r) ->
  match r with
  | None => Forall (entry_ok c) l' /\ (l <> [] -> l' <> [])
  | Some e => e = EValue
  end.
Proof.
  intros c kvs. induction kvs as [|[k t] rest IH]; intros l l' r Hl H; cbn [l_update_raw] in H.
  - inversion H; subst. auto.
  - destruct (l_setitem c l k t) as [l1 [e|]] eqn:E.
    + pose proof (l_setitem_spec c l k t l1 (Some e) Hl E) as S. inversion H; subst. exact (proj2 S).
    + destruct (l_setitem_spec c l k t l1 None Hl E) as (H1 & H2).
      specialize (IH l1 l' r H1 H). destruct r; [exact IH|]. destruct IH as (Ha & Hb). split; [exact Ha|].
      intros _. apply Hb. exact H2.
Qed.

Theorem lstep_spec : forall c l p l' r, wf_lss c l -> lstep c l p = (l', r) ->
  match r with
  | None => wf_lss c l'
  | Some e => l' = l /\ (e = EValue \/ e = EKey)
  end.
Proof.
  intros c l p l' r Hwf H. pose proof Hwf as (Hne & Hl). destruct p; cbn [lstep] in H.
  - pose proof (l_setitem_spec c l k t l' r Hl H) as S. destruct r; [intuition | split; tauto].
  - pose proof (l_delitem_spec c l k l' r Hwf H) as S. destruct r; intuition.
  - inversion H; subst. auto.
  - destruct (lmem l k).
    + pose proof (l_delitem_spec c l k l' r Hwf H) as S. destruct r; intuition.
    + inversion H; subst. auto.
  - destruct l as [|x rest]; [congruence|].
    pose proof (l_delitem_spec c (x :: rest) (fst x) l' r Hwf H) as S. destruct r; intuition.
  - destruct (lmem l k).
    + inversion H; subst. exact Hwf.
    + pose proof (l_setitem_spec c l k t l' r Hl H) as S. destruct r; [intuition | split; tauto].
  - destruct (l_update_raw c l kvs) as [l1 [e|]] eqn:E.
    + pose proof (l_update_raw_spec c kvs l l1 (Some e) Hl E) as S. cbn in S. inversion H; subst. auto.
    + destruct (l_update_raw_spec c kvs l l1 None Hl E) as (Ha & Hb). inversion H; subst.
      split; [apply Hb; exact Hne | exact Ha].
Qed.

Theorem lctor_spec : forall c kvs,
  match lctor c kvs with
  | (Some l, None) => wf_lss c l /\ l = kvs
  | (None, Some e) => e = EValue /\ ~ wf_lss c kvs
  | _ => False
  end.
Proof.
  intros c kvs. unfold lctor.
  destruct (len kvs =? 0) eqn:E0.
  { split; [reflexivity|]. intros (Hne & _). apply Hne. apply Z.eqb_eq in E0. unfold len in E0.
    destruct kvs; [reflexivity | cbn in E0; lia]. }
  destruct (forallb (fun e => tag_ok (fst e)) kvs) eqn:E1; cbn [negb].
  2:{ split; [reflexivity|]. intros (_ & Hf). assert (forallb (fun e => tag_ok (fst e)) kvs = true); [|congruence].
      apply forallb_forall. intros x Hx. rewrite Forall_forall in Hf. exact (proj1 (Hf x Hx)). }
  destruct (c && negb (forallb (fun e => snd e) kvs)) eqn:E2.
  { split; [reflexivity|]. intros (_ & Hf). apply andb_true_iff in E2. destruct E2 as (Hc & E2).
    apply negb_true_iff in E2. assert (forallb (fun e => snd e) kvs = true); [|congruence].
    apply forallb_forall. intros x Hx. rewrite Forall_forall in Hf. exact (proj2 (Hf x Hx) Hc). }
  split; [|reflexivity]. split.
  - intro Hn. subst kvs. discriminate.
  - apply Forall_forall. intros x Hx. rewrite forallb_forall in E1. split; [exact (E1 x Hx)|].
    intro Hc. subst c. cbn in E2. apply negb_false_iff in E2. rewrite forallb_forall in E2. exact (E2 x Hx).
Qed.

Theorem lrun_wf : forall c ops l, wf_lss c l -> wf_lss c (lrun c l ops).
Proof.
  intros c ops. induction ops as [|p r IH]; intros l Hwf; [exact Hwf|]. cbn [lrun]. apply IH.
  destruct (lstep c l p) as [l' o] eqn:E. cbn [fst].
  pose proof (lstep_spec c l p l' o Hwf E) as S. destruct o; [destruct S as (-> & _); exact Hwf | exact S].
Qed.

(* ---- SubmodelElementList._check_constraints -------------------------------------------------- *)
Lemma type_ok_spec : forall c e, type_ok c e = true <-> (ety e = tle c \/ In (ety e) (members c)).
Proof.
  intros c e. unfold type_ok. rewrite orb_true_iff, PeanoNat.Nat.eqb_eq, existsb_exists. split.
  - intros [H|(x & Hx & E)]; [left; exact H|]. apply PeanoNat.Nat.eqb_eq in E. subst. right. exact Hx.
  - intros [H|H]; [left; exact H|]. right. exists (ety e). split; [exact H | apply PeanoNat.Nat.eqb_refl].
Qed.

Lemma vt_ok_spec : forall c e, vt_ok c e = true <-> vtle c = Some (evt e).
Proof.
  intros c e. unfold vt_ok. destruct (vtle c) as [v|]; [|split; discriminate].
  rewrite PeanoNat.Nat.eqb_eq. split; [intros ->; reflexivity | intro H; inversion H; reflexivity].
Qed.

Lemma loop114_none : forall s l,
  first_some (fun x : elem => match esem x with
                              | Some s' => when (negb (Nat.eqb s s')) (Some (EAASd 114))
                              | None => None
                              end) l = None <->
  (forall y b, In y l -> esem y = Some b -> b = s).
Proof.
  intros s l. induction l as [|x r IH]; cbn [first_some].
  - split; [intros _ y b [] | reflexivity].
  - destruct (esem x) as [s'|] eqn:Ex.
    + destruct (Nat.eqb s s') eqn:E; cbn [negb when orelse].
      * apply PeanoNat.Nat.eqb_eq in E. subst s'. rewrite IH. split.
        -- intros H y b [<-|Hy] Hb; [congruence | eapply H; eassumption].
        -- intros H y b Hy Hb. apply (H y b); [right; exact Hy | exact Hb].
      * apply PeanoNat.Nat.eqb_neq in E. split; [discriminate|]. intro H.
        exfalso. apply E. symmetry. apply (H x s'); [left; reflexivity | exact Ex].
    + cbn [orelse]. rewrite IH. split.
      * intros H y b [<-|Hy] Hb; [congruence | eapply H; eassumption].
      * intros H y b Hy Hb. apply (H y b); [right; exact Hy | exact Hb].
Qed.

Lemma loop114_some : forall s l e,
  first_some (fun x : elem => match esem x with
                              | Some s' => when (negb (Nat.eqb s s')) (Some (EAASd 114))
                              | None => None
                              end) l = Some e -> e = EAASd 114.
Proof.
  intros s l e. induction l as [|x r IH]; cbn [first_some]; [discriminate|].
  destruct (esem x) as [s'|]; [destruct (Nat.eqb s s')|]; cbn [negb when orelse]; auto.
  intro H. inversion H. reflexivity.
Qed.

Definition b107 (c : lcfg) (e : elem) : bool :=
  match semle c, esem e with Some s, Some s' => negb (Nat.eqb s' s) | _, _ => false end.
Definition l114 (c : lcfg) (e : elem) (l : list elem) : option err :=
  match esem e, semle c with
  | Some s, None =>
      first_some (fun x => match esem x with
                           | Some s' => when (negb (Nat.eqb s s')) (Some (EAASd 114))
                           | None => None
                           end) l
  | _, _ => None
  end.

Lemma check_new_eq : forall c e l,
  check_new c e l =
  if ehasid e then Some (EAASd 120)
  else if negb (type_ok c e) then Some (EAASd 108)
  else if b107 c e then Some (EAASd 107)
  else if prop_or_range c && negb (vt_ok c e) then Some (EAASd 109)
  else l114 c e l.
Proof.
  intros c e l. unfold check_new, b107. fold (l114 c e l). cbv beta iota delta [seqs].
  destruct (ehasid e); [reflexivity|]. destruct (type_ok c e); cbn [negb when orelse]; [|reflexivity].
  destruct (semle c); destruct (esem e); try destruct (Nat.eqb _ _); cbn [negb when orelse]; try reflexivity;
    destruct (prop_or_range c && negb (vt_ok c e)); cbn [when orelse]; try reflexivity;
    destruct (l114 c e l); reflexivity.
Qed.

Lemma b107_false : forall c e, b107 c e = false <->
  (forall s s', semle c = Some s -> esem e = Some s' -> s' = s).
Proof.
  intros c e. unfold b107. destruct (semle c) as [t|]; destruct (esem e) as [a|];
    try (split; [intros _ s s' H1 H2; discriminate | reflexivity]).
  rewrite negb_false_iff, PeanoNat.Nat.eqb_eq. split.
  - intros -> s s' H1 H2. congruence.
  - intro H. exact (H t a eq_refl eq_refl).
Qed.

Lemma b109_false : forall c e, prop_or_range c && negb (vt_ok c e) = false <->
  (prop_or_range c = true -> vtle c = Some (evt e)).
Proof.
  intros c e. rewrite <- vt_ok_spec. destruct (prop_or_range c); destruct (vt_ok c e); cbn; split; intro H;
    try reflexivity; try discriminate; try (intros _; reflexivity);
    try (discriminate (H eq_refl)); try (intro H0; discriminate).
Qed.

Lemma l114_none : forall c e l, (forall x, In x l -> elem_ok c x) -> b107 c e = false ->
  (l114 c e l = None <-> (forall y a b, In y l -> esem e = Some a -> esem y = Some b -> b = a)).
Proof.
  intros c e l Hok H7'. pose proof (proj1 (b107_false c e) H7') as H7. unfold l114.
  destruct (esem e) as [a|] eqn:Ea.
  - destruct (semle c) as [t|] eqn:Es.
    + split; [|reflexivity]. intros _ y a' b Hy Ha Hb. inversion Ha; subst a'.
      rewrite (H7 t a eq_refl eq_refl). destruct (Hok y Hy) as (_ & Hy7 & _). exact (Hy7 t b Es Hb).
    + rewrite loop114_none. split.
      * intros H y a' b Hy Ha Hb. inversion Ha; subst a'. exact (H y b Hy Hb).
      * intros H y b Hy Hb. exact (H y a b Hy eq_refl Hb).
  - split; [|reflexivity]. intros _ y a b _ Ha. discriminate.
Qed.

Lemma l114_some : forall c e l x, l114 c e l = Some x -> x = EAASd 114.
Proof.
  intros c e l x. unfold l114. destruct (esem e); [|discriminate]. destruct (semle c); [discriminate|].
  apply loop114_some.
Qed.

Theorem check_new_accept : forall c e l, wf_list c l -> check_new c e l = None ->
  ehasid e = false /\ forall l1 l2, l = l1 ++ l2 -> wf_list c (l1 ++ e :: l2).
Proof.
  intros c e l (Hok & Hpair) H. rewrite check_new_eq in H.
  destruct (ehasid e) eqn:Eid; [discriminate|].
  destruct (type_ok c e) eqn:Et; cbn [negb] in H; [|discriminate].
  destruct (b107 c e) eqn:E7; [discriminate|].
  destruct (prop_or_range c && negb (vt_ok c e)) eqn:E9; [discriminate|].
  pose proof (proj1 (l114_none c e l Hok E7) H) as H114.
  pose proof (proj1 (b107_false c e) E7) as E7'. pose proof (proj1 (b109_false c e) E9) as E9'.
  split; [reflexivity|]. intros l1 l2 ->. split.
  - intros x Hx. apply in_app_or in Hx. destruct Hx as [Hx|[<-|Hx]].
    + apply Hok. apply in_or_app. left. exact Hx.
    + split; [apply type_ok_spec; exact Et | split; [exact E7' | exact E9']].
    + apply Hok. apply in_or_app. right. exact Hx.
  - assert (Hin : forall z, In z (l1 ++ e :: l2) -> z = e \/ In z (l1 ++ l2)).
    { intros z Hz. apply in_app_or in Hz. destruct Hz as [Hz|[Hz|Hz]]; [right | left; congruence | right];
        apply in_or_app; tauto. }
    intros x y a b Hx Hy Ha Hb. destruct (Hin x Hx) as [->|Hx']; destruct (Hin y Hy) as [->|Hy'].
    + congruence.
    + symmetry. exact (H114 y a b Hy' Ha Hb).
    + exact (H114 x b a Hx' Hb Ha).
    + exact (Hpair x y a b Hx' Hy' Ha Hb).
Qed.

(* a refusal names a constraint that the new element really violates, given a well-formed list *)
Theorem check_new_reject : forall c e l x, wf_list c l -> check_new c e l = Some x ->
  (x = EAASd 120 /\ ehasid e = true) \/
  (ehasid e = false /\ ~ wf_list c (e :: l) /\
   ((x = EAASd 108 /\ type_ok c e = false) \/
    (x = EAASd 107 /\ exists s s', semle c = Some s /\ esem e = Some s' /\ s' <> s) \/
    (x = EAASd 109 /\ prop_or_range c = true /\ vtle c <> Some (evt e)) \/
    (x = EAASd 114 /\ exists y a b, In y l /\ esem e = Some a /\ esem y = Some b /\ b <> a))).
Proof.
  intros c e l x (Hok & Hpair) H. rewrite check_new_eq in H.
  destruct (ehasid e) eqn:Eid; [left; inversion H; auto|].
  right. split; [reflexivity|].
  destruct (type_ok c e) eqn:Et; cbn [negb] in H.
  2:{ inversion H. split; [|auto]. intros (Hok' & _). destruct (Hok' e (or_introl eq_refl)) as (Ht & _).
      apply type_ok_spec in Ht. congruence. }
  destruct (b107 c e) eqn:E7.
  { inversion H. assert (Hn : ~ (forall s s', semle c = Some s -> esem e = Some s' -> s' = s)).
    { intro Hc. pose proof (proj2 (b107_false c e) Hc). congruence. }
    split.
    - intros (Hok' & _). destruct (Hok' e (or_introl eq_refl)) as (_ & H7 & _). exact (Hn H7).
    - right. left. split; [reflexivity|]. unfold b107 in E7.
      destruct (semle c) as [t|]; [|discriminate]. destruct (esem e) as [a|]; [|discriminate].
      exists t, a. repeat split. apply negb_true_iff in E7. apply PeanoNat.Nat.eqb_neq. exact E7. }
  destruct (prop_or_range c && negb (vt_ok c e)) eqn:E9.
  { inversion H. apply andb_true_iff in E9. destruct E9 as (Ep & Ev). apply negb_true_iff in Ev.
    assert (Hn : vtle c <> Some (evt e)). { intro Hc. apply vt_ok_spec in Hc. congruence. }
    split.
    - intros (Hok' & _). destruct (Hok' e (or_introl eq_refl)) as (_ & _ & H9). exact (Hn (H9 Ep)).
    - right. right. left. auto. }
  rewrite (l114_some c e l x H). unfold l114 in H.
  destruct (esem e) as [a|] eqn:Ea; [|discriminate]. destruct (semle c) eqn:Es; [discriminate|].
  assert (Hex : exists y b, In y l /\ esem y = Some b /\ b <> a).
  { clear -H. induction l as [|z r IH]; cbn [first_some] in H; [discriminate|].
    destruct (esem z) as [b|] eqn:Ez.
    - destruct (Nat.eqb a b) eqn:E; cbn [negb when orelse] in H.
      + destruct (IH H) as (y & b' & Hy & Hb & Hne). exists y, b'. split; [right; exact Hy | auto].
      + exists z, b. split; [left; reflexivity|]. split; [exact Ez|]. apply PeanoNat.Nat.eqb_neq in E. congruence.
    - cbn [orelse] in H. destruct (IH H) as (y & b' & Hy & Hb & Hne). exists y, b'. split; [right; exact Hy | auto]. }
  destruct Hex as (y & b & Hy & Hb & Hne). split.
  - intros (_ & Hpair'). apply Hne. symmetry.
    exact (Hpair' e y a b (or_introl eq_refl) (or_intror Hy) Ea Hb).
  - right. right. right. split; [reflexivity|]. exists y, a, b. auto.
Qed.

Theorem sml_adds_wf : forall c es l, wf_list c l -> wf_list c (fst (sml_adds c l es)).
Proof.
  intros c es. induction es as [|e r IH]; intros l Hwf; [exact Hwf|]. cbn [sml_adds].
  destruct (check_new c e l) eqn:E.
  - specialize (IH l Hwf). destruct (sml_adds c l r). exact IH.
  - destruct (check_new_accept c e l Hwf E) as (_ & Hins).
    specialize (Hins l [] (eq_sym (app_nil_r l))). specialize (IH (l ++ [e]) Hins).
    destruct (sml_adds c (l ++ [e]) r). exact IH.
Qed.


Lemma wf_list_nil : forall c, wf_list c [].
Proof. intro c. split; [intros x [] | intros x y a b []]. Qed.

(* ---- extend / += / value setter ------------------------------------------------------------------ *)
Definition sml_errno (x : err) : Prop :=
  x = EAASd 120 \/ x = EAASd 108 \/ x = EAASd 107 \/ x = EAASd 109 \/ x = EAASd 114.

Lemma check_new_errno : forall c e l x, wf_list c l -> check_new c e l = Some x -> sml_errno x.
Proof.
  intros c e l x Hwf H. unfold sml_errno.
  destruct (check_new_reject c e l x Hwf H) as [(-> & _)|(_ & _ & [(-> & _)|[(-> & _)|[(-> & _)|(-> & _)]]])]; tauto.
Qed.

Lemma sml_extend_raw_spec : forall c es l, wf_list c l ->
  match sml_extend_raw c l es with
  | inl l' => wf_list c l'
  | inr x => sml_errno x
  end.
Proof.
  intros c es. induction es as [|e r IH]; intros l Hwf; cbn [sml_extend_raw]; [exact Hwf|].
  destruct (check_new c e l) eqn:E.
  - eapply check_new_errno; eassumption.
  - apply IH. destruct (check_new_accept c e l Hwf E) as (_ & Hins).
    exact (Hins l [] (eq_sym (app_nil_r l))).
Qed.

Theorem sml_step_spec : forall c l p l' r, wf_list c l -> sml_step c l p = (l', r) ->
  match r with
  | None => wf_list c l'
  | Some x => l' = l /\ sml_errno x
  end.
Proof.
  intros c l p l' r Hwf H. destruct p as [e|es|es]; cbn [sml_step] in H.
  - destruct (check_new c e l) eqn:E; inversion H; subst.
    + split; [reflexivity | eapply check_new_errno; eassumption].
    + destruct (check_new_accept c e l Hwf E) as (_ & Hins). exact (Hins l [] (eq_sym (app_nil_r l))).
  - pose proof (sml_extend_raw_spec c es l Hwf) as S. destruct (sml_extend_raw c l es); inversion H; subst; auto.
  - pose proof (sml_extend_raw_spec c es [] (wf_list_nil c)) as S.
    destruct (sml_extend_raw c [] es); inversion H; subst; auto.
Qed.

Theorem sml_run_wf : forall c ops l, wf_list c l -> wf_list c (fst (sml_run c l ops)).
Proof.
  intros c ops. induction ops as [|p r IH]; intros l Hwf; [exact Hwf|]. cbn [sml_run].
  destruct (sml_step c l p) as [l1 o] eqn:E. pose proof (sml_step_spec c l p l1 o Hwf E) as S.
  assert (Hw1 : wf_list c l1) by (destruct o; [destruct S as (-> & _); exact Hwf | exact S]).
  specialize (IH l1 Hw1). destruct (sml_run c l1 r). exact IH.
Qed.
