(* C06 - proofs about Duration (model/XsdDur.v): every relativedelta with integer fields that is
   "fixed" (what the constructor's _fix() produces) and whose non-zero fields share one sign is
   written as a valid xs:duration literal that reads back as the same value; mixed signs are refused. *)
From Coq Require Import List ZArith Bool Ascii String Lia.
From Basyx Require Import model.XsdBase model.XsdRe model.XsdLex model.Xsd model.XsdDur
  proofs.XsdBaseProofs proofs.XsdIntProofs proofs.XsdDateFacts proofs.XsdDateProofs.
Import ListNotations.
Local Open Scope Z_scope.

Definition fixed (v : duration) : Prop :=
  Z.abs (du_us v) <= 999999 /\ Z.abs (du_s v) <= 59 /\ Z.abs (du_mi v) <= 59 /\ Z.abs (du_h v) <= 23 /\
  Z.abs (du_mo v) <= 11.
Definition all_fields (P : Z -> Prop) (v : duration) : Prop :=
  P (du_y v) /\ P (du_mo v) /\ P (du_d v) /\ P (du_h v) /\ P (du_mi v) /\ P (du_s v) /\ P (du_us v).
Definition is_zero (v : duration) : Prop := all_fields (fun x => x = 0) v.
Definition absd (v : duration) : duration :=
  mkDur (Z.abs (du_y v)) (Z.abs (du_mo v)) (Z.abs (du_d v)) (Z.abs (du_h v)) (Z.abs (du_mi v)) (Z.abs (du_s v))
        (Z.abs (du_us v)).

Lemma carry_id x lim base : Z.abs x <= lim -> carry x lim base = (x, 0).
Proof. intros H. unfold carry. destruct (Z.gtb_spec (Z.abs x) lim); [lia|reflexivity]. Qed.
Lemma fix_dur_id v : fixed v -> fix_dur v = v.
Proof.
  destruct v as [y mo d h mi s us]. unfold fixed. cbn [du_y du_mo du_d du_h du_mi du_s du_us].
  intros (H1 & H2 & H3 & H4 & H5). unfold fix_dur. cbn [du_y du_mo du_d du_h du_mi du_s du_us].
  rewrite (carry_id us) by exact H1. rewrite Z.add_0_r. rewrite (carry_id s) by exact H2. rewrite Z.add_0_r.
  rewrite (carry_id mi) by exact H3. rewrite Z.add_0_r. rewrite (carry_id h) by exact H4.
  rewrite (carry_id mo) by exact H5. rewrite !Z.add_0_r. reflexivity.
Qed.

(* ---------------------------------------------------------------- tokens *)
Definition ofz (x : Z) : option Z := if x =? 0 then None else Some x.
Lemma oz_ofz x : oz (ofz x) = x.
Proof. unfold ofz. destruct (Z.eqb_spec x 0); cbn; congruence. Qed.
Definition no_field (c : ascii) (r : str) : Prop := opt_field c r = (None, r).

Lemma du_field_pos x c : 0 < x -> du_field x c = str_nat x ++ [c].
Proof.
  intros H. unfold du_field. destruct (Z.eqb_spec x 0); [lia|]. rewrite Z.abs_eq by lia.
  unfold str_int. destruct (Z.ltb_spec x 0); [lia|reflexivity].
Qed.
Lemma du_field_abs x c : du_field (Z.abs x) c = du_field x c.
Proof.
  unfold du_field. rewrite Z.abs_involutive.
  destruct (Z.eqb_spec x 0) as [->|Hn]; [reflexivity|]. destruct (Z.eqb_spec (Z.abs x) 0); [lia|reflexivity].
Qed.
Lemma field_scan c x r : 0 <= x -> is_digit c = false -> no_field c r ->
  opt_field c (du_field x c ++ r) = (ofz x, r).
Proof.
  intros Hx Hc Hr. unfold ofz. destruct (Z.eqb_spec x 0) as [->|Hn]; [exact Hr|].
  rewrite du_field_pos by lia. destruct (str_nat_spec x Hx) as (Hne & Hd & Hv).
  unfold opt_field. rewrite <- app_assoc. cbn [app].
  rewrite (span_app is_digit (str_nat x) (c :: r) Hd Hc).
  destruct (str_nat x) as [|d0 ds] eqn:E; [congruence|]. rewrite ceq_refl, Hv. reflexivity.
Qed.
Lemma no_field_skip c c' x r : 0 <= x -> is_digit c' = false -> ceq c' c = false -> no_field c r ->
  no_field c (du_field x c' ++ r).
Proof.
  intros Hx Hc' Hne Hr. unfold du_field. destruct (Z.eqb_spec x 0) as [->|Hn]; [exact Hr|].
  change (du_field x c' ++ r) with (du_field x c' ++ r). rewrite Z.abs_eq by lia.
  replace (str_int x) with (str_nat x) by (unfold str_int; destruct (Z.ltb_spec x 0); [lia|reflexivity]).
  destruct (str_nat_spec x Hx) as (Hnn & Hd & _).
  unfold no_field, opt_field. rewrite <- app_assoc. cbn [app].
  rewrite (span_app is_digit (str_nat x) (c' :: r) Hd Hc').
  destruct (str_nat x) as [|d0 ds]; [congruence|]. rewrite Hne. reflexivity.
Qed.
Lemma no_field_nil c : no_field c [].
Proof. reflexivity. Qed.
Lemma no_field_nondigit c x r : is_digit x = false -> no_field c (x :: r).
Proof. intros H. unfold no_field, opt_field. cbn [span]. rewrite H. reflexivity. Qed.

Lemma du_field_head x c r : 0 < x -> head_digit (du_field x c ++ r) = true.
Proof.
  intros H. rewrite du_field_pos by exact H. destruct (str_nat_head_digit x ltac:(lia)) as (c0 & r0 & E & Hd).
  rewrite E. cbn. exact Hd.
Qed.
Lemma du_field_zero c : du_field 0 c = [].
Proof. reflexivity. Qed.

(* ---------------------------------------------------------------- the seconds token *)
Lemma rstrip_zeros_rev_spec r : exists k, r = repeat "0"%char k ++ rstrip_zeros_rev r.
Proof.
  induction r as [|c r (k & IH)]; [exists 0%nat; reflexivity|]. cbn [rstrip_zeros_rev].
  destruct (ceq c "0") eqn:E.
  - apply ceq_eq in E. subst c. exists (S k). cbn [repeat app]. f_equal. exact IH.
  - exists 0%nat. reflexivity.
Qed.
Definition strip0 (ds : str) : str := rev (rstrip_zeros_rev (rev ds)).
Lemma rev_repeat {A} (x : A) k : rev (repeat x k) = repeat x k.
Proof.
  induction k; [reflexivity|]. cbn [repeat rev]. rewrite IHk. clear. induction k; [reflexivity|]. cbn. f_equal. exact IHk.
Qed.
Lemma strip0_spec ds : exists k, ds = strip0 ds ++ repeat "0"%char k.
Proof.
  unfold strip0. destruct (rstrip_zeros_rev_spec (rev ds)) as (k & E). exists k.
  set (X := rstrip_zeros_rev (rev ds)) in *. rewrite <- (rev_involutive ds). rewrite E.
  rewrite rev_app_distr, rev_repeat. reflexivity.
Qed.
Lemma int_acc_trailing_zeros k : forall a, int_acc a (repeat "0"%char k) = a * 10 ^ Z.of_nat k.
Proof.
  induction k; intros a; [cbn; lia|]. cbn [repeat int_acc]. rewrite IHk. change (dval "0") with 0.
  rewrite Nat2Z.inj_succ, Z.pow_succ_r by lia. lia.
Qed.
(* stripping the trailing zeros of the six microsecond digits and padding them again gives the same value *)
Lemma strip0_us us : 1 <= us <= 999999 ->
  strip0 (fmt_0d 6 us) <> [] /\ forallb is_digit (strip0 (fmt_0d 6 us)) = true /\ us_of_frac (strip0 (fmt_0d 6 us)) = us.
Proof.
  intros H. destruct (six_digits us ltac:(lia)) as (Hl & Hd & Hv). set (ds := fmt_0d 6 us) in *.
  destruct (strip0_spec ds) as (k & E).
  assert (Hd' : forallb is_digit (strip0 ds) = true) by (rewrite E, forallb_app in Hd; apply andb_true_iff in Hd; tauto).
  pose proof (f_equal (@List.length ascii) E) as Hlen. rewrite app_length, repeat_length, Hl in Hlen.
  repeat split; [|exact Hd'|].
  - intros En. rewrite En in E. cbn [app] in E. unfold us_of_frac in Hv. rewrite E in Hv.
    assert (k = 6%nat) by (rewrite En in Hlen; cbn in Hlen; lia). subst k. cbn in Hv. lia.
  - unfold us_of_frac in *. rewrite firstn_all2 by lia. replace (6 - List.length (strip0 ds))%nat with k by lia.
    rewrite firstn_all2 in Hv by lia. rewrite Hl in Hv. cbn [Nat.sub repeat] in Hv. rewrite app_nil_r in Hv.
    rewrite <- E. exact Hv.
Qed.

Definition sec_token (s us : Z) : str := if (s =? 0) && (us =? 0) then [] else g8_seconds s us ++ ["S"%char].
Definition sec_frac (us : Z) : str := if us =? 0 then [] else "."%char :: strip0 (fmt_0d 6 us).
Lemma g8_seconds_eq s us : 0 <= s -> g8_seconds s us = str_nat s ++ sec_frac us.
Proof. intros H. unfold g8_seconds, sec_frac, strip0, str_int. destruct (Z.ltb_spec s 0); [lia|reflexivity]. Qed.
Lemma sec_frac_text us : 0 <= us <= 999999 -> exists fr, frac_text (sec_frac us) fr /\ us_of_group fr = us.
Proof.
  intros H. unfold sec_frac. destruct (Z.eqb_spec us 0) as [->|Hn].
  - exists None. split; [constructor|reflexivity].
  - destruct (strip0_us us ltac:(lia)) as (Hne & Hd & Hv). exists (Some (strip0 (fmt_0d 6 us))). split; [constructor; assumption|exact Hv].
Qed.
Lemma sec_scan s us : 0 <= s -> 0 <= us <= 999999 ->
  exists o, opt_seconds (sec_token s us) = (o, []) /\
            (match o with Some (sv, _) => sv | None => 0 end) = s /\
            (match o with Some (_, Some fr) => us_of_frac fr | _ => 0 end) = us.
Proof.
  intros Hs Hus. unfold sec_token. destruct ((s =? 0) && (us =? 0)) eqn:Z0.
  - apply andb_true_iff in Z0 as [A B]. apply Z.eqb_eq in A. apply Z.eqb_eq in B. subst. exists None. repeat split.
  - rewrite (g8_seconds_eq s us Hs). destruct (sec_frac_text us Hus) as (fr & Hft & Hfr).
    destruct (str_nat_spec s Hs) as (Hne & Hd & Hv).
    exists (Some (s, fr)). repeat split; [|destruct fr; exact Hfr].
    unfold opt_seconds. rewrite <- app_assoc.
    assert (Hh : match sec_frac us ++ ["S"%char] with c :: _ => is_digit c = false | [] => True end)
      by (destruct Hft; reflexivity).
    rewrite (span_app is_digit (str_nat s) _ Hd Hh).
    assert (Hnil : is_nil (str_nat s) = false) by (destruct (str_nat s); [congruence|reflexivity]). rewrite Hnil.
    rewrite (frac_group_text _ fr ["S"%char] Hft eq_refl). rewrite ceq_refl, Hv. reflexivity.
Qed.
Lemma sec_token_no_field c s us : 0 <= s -> 0 <= us <= 999999 -> ceq "." c = false -> ceq "S" c = false ->
  no_field c (sec_token s us).
Proof.
  intros Hs Hus N1 N2. unfold sec_token. destruct ((s =? 0) && (us =? 0)); [reflexivity|].
  rewrite (g8_seconds_eq s us Hs). destruct (str_nat_spec s Hs) as (Hne & Hd & _).
  unfold no_field, opt_field. rewrite <- app_assoc.
  destruct (sec_frac_text us Hus) as (fr & Hft & _).
  assert (Hh : match sec_frac us ++ ["S"%char] with c :: _ => is_digit c = false | [] => True end)
    by (destruct Hft; reflexivity).
  rewrite (span_app is_digit (str_nat s) _ Hd Hh). destruct (str_nat s) as [|d0 ds]; [congruence|].
  destruct Hft; cbn [app]; [rewrite N2|rewrite N1]; reflexivity.
Qed.
Lemma sec_token_head s us : 0 <= s -> sec_token s us <> [] -> forall r, head_digit (sec_token s us ++ r) = true.
Proof.
  intros Hs Hne r. unfold sec_token in *. destruct ((s =? 0) && (us =? 0)); [congruence|].
  rewrite (g8_seconds_eq s us Hs). destruct (str_nat_head_digit s Hs) as (c0 & r0 & E & Hd). rewrite E. cbn. exact Hd.
Qed.

(* ---------------------------------------------------------------- body of a non-negative duration *)
Definition time_part (p : duration) : str :=
  du_field (du_h p) "H" ++ du_field (du_mi p) "M" ++ sec_token (du_s p) (du_us p).
Definition t_part (p : duration) : str := if is_nil (time_part p) then [] else "T"%char :: time_part p.
Definition body (p : duration) : str :=
  du_field (du_y p) "Y" ++ du_field (du_mo p) "M" ++ du_field (du_d p) "D" ++ t_part p.

(* the scanner of parse_duration after the optional minus sign *)
Definition parse_dur_body (neg : bool) (s0 : str) : res duration :=
  match s0 with
  | p :: s1 =>
    if ceq p "P" && (head_digit s1 || match s1 with t :: s1' => ceq t "T" && head_digit s1' | [] => false end) then
      let '(y, s2) := opt_field "Y" s1 in
      let '(mo, s3) := opt_field "M" s2 in
      let '(d, s4) := opt_field "D" s3 in
      let tgroup :=
          match s4 with
          | t :: s5 =>
            if ceq t "T" && head_digit s5 then
              let '(h, s6) := opt_field "H" s5 in
              let '(mi, s7) := opt_field "M" s6 in
              let '(sec, s8) := opt_seconds s7 in
              if at_end s8 then Some (h, mi, sec) else None
            else if at_end s4 then Some (None, None, None) else None
          | [] => Some (None, None, None)
          end in
      match tgroup with
      | Some (h, mi, sec) =>
        let res := new_dur (oz y) (oz mo) (oz d) (oz h) (oz mi)
                           (match sec with Some (sv, _) => sv | None => 0 end)
                           (match sec with Some (_, Some fr) => us_of_frac fr | _ => 0 end) in
        Ok (if neg then neg_dur res else res)
      | None => Err ValueError
      end
    else Err ValueError
  | [] => Err ValueError
  end.
Lemma parse_duration_eq s : parse_duration s = let '(neg, s0) := opt_minus s in parse_dur_body neg s0.
Proof. reflexivity. Qed.

Definition nonneg (p : duration) : Prop := all_fields (fun x => 0 <= x) p.

Lemma time_part_head p : nonneg p -> time_part p <> [] -> head_digit (time_part p) = true.
Proof.
  destruct p as [y mo d h mi s us]. unfold nonneg, all_fields, time_part. cbn [du_y du_mo du_d du_h du_mi du_s du_us].
  intros (_ & _ & _ & Hh & Hmi & Hs & Hus) Hne.
  destruct (Z.eq_dec h 0) as [->|]; [|apply du_field_head; lia]. rewrite du_field_zero in *. cbn [app] in *.
  destruct (Z.eq_dec mi 0) as [->|]; [|apply du_field_head; lia]. rewrite du_field_zero in *. cbn [app] in *.
  rewrite <- (app_nil_r (sec_token s us)). apply sec_token_head; assumption.
Qed.

Lemma time_scan p : nonneg p -> fixed p ->
  exists sec, (let '(h, s6) := opt_field "H" (time_part p) in
               let '(mi, s7) := opt_field "M" s6 in
               let '(sec', s8) := opt_seconds s7 in
               if at_end s8 then Some (h, mi, sec') else None) = Some (ofz (du_h p), ofz (du_mi p), sec) /\
              (match sec with Some (sv, _) => sv | None => 0 end) = du_s p /\
              (match sec with Some (_, Some fr) => us_of_frac fr | _ => 0 end) = du_us p.
Proof.
  destruct p as [y mo d h mi s us]. unfold nonneg, all_fields, fixed, time_part. cbn [du_y du_mo du_d du_h du_mi du_s du_us].
  intros (_ & _ & _ & Hh & Hmi & Hs & Hus) (F1 & _).
  assert (Hus' : 0 <= us <= 999999) by lia.
  destruct (sec_scan s us Hs Hus') as (o & So & Sv & Su). exists o. split; [|split; assumption].
  rewrite (field_scan "H" h _ Hh eq_refl).
  - rewrite (field_scan "M" mi _ Hmi eq_refl).
    + rewrite So. reflexivity.
    + apply sec_token_no_field; auto.
  - apply no_field_skip; auto. apply sec_token_no_field; auto.
Qed.

Lemma t_part_no_field c p : no_field c (t_part p).
Proof. unfold t_part. destruct (is_nil (time_part p)); [apply no_field_nil|apply no_field_nondigit; reflexivity]. Qed.

Lemma body_scan neg p : nonneg p -> fixed p -> ~ is_zero p ->
  parse_dur_body neg ("P"%char :: body p) = Ok (if neg then neg_dur p else p).
Proof.
  intros Hn Hf Hz. pose proof Hn as Hn'. pose proof Hf as Hf'.
  destruct (time_scan p Hn Hf) as (sec & Ts & Tv & Tu).
  destruct p as [y mo d h mi s us]. unfold nonneg, all_fields in Hn. cbn [du_y du_mo du_d du_h du_mi du_s du_us] in *.
  destruct Hn as (Hy & Hmo & Hd & Hh & Hmi & Hs & Hus).
  set (p := mkDur y mo d h mi s us) in *.
  unfold parse_dur_body. change (ceq "P" "P") with true. cbn [andb].
  (* the look-ahead *)
  assert (LA : head_digit (body p) || match body p with t :: s1' => ceq t "T" && head_digit s1' | [] => false end = true).
  { unfold body. cbn [du_y du_mo du_d du_h du_mi du_s du_us p].
    destruct (Z.eq_dec y 0) as [->|]; [|rewrite du_field_head by lia; reflexivity]. rewrite du_field_zero. cbn [app].
    destruct (Z.eq_dec mo 0) as [->|]; [|rewrite du_field_head by lia; reflexivity]. rewrite du_field_zero. cbn [app].
    destruct (Z.eq_dec d 0) as [->|]; [|rewrite du_field_head by lia; reflexivity]. rewrite du_field_zero. cbn [app].
    unfold t_part. destruct (time_part _) as [|c0 tm] eqn:Et.
    - exfalso. apply Hz. unfold is_zero, all_fields. cbn [du_y du_mo du_d du_h du_mi du_s du_us].
      unfold time_part, p in Et. cbn [du_h du_mi du_s du_us] in Et.
      apply app_eq_nil in Et as [E1 Et]. apply app_eq_nil in Et as [E2 E3].
      assert (h = 0) by (destruct (Z.eq_dec h 0); [assumption|]; rewrite du_field_pos in E1 by lia; destruct (str_nat h); discriminate).
      assert (mi = 0) by (destruct (Z.eq_dec mi 0); [assumption|]; rewrite du_field_pos in E2 by lia; destruct (str_nat mi); discriminate).
      unfold sec_token in E3. destruct ((s =? 0) && (us =? 0)) eqn:Z0; [|destruct (g8_seconds s us); discriminate].
      apply andb_true_iff in Z0 as [A B]. apply Z.eqb_eq in A. apply Z.eqb_eq in B. auto 10.
    - cbn [is_nil]. rewrite <- Et. cbn [head_digit]. change (ceq "T" "T") with true. cbn [andb].
      rewrite (time_part_head _ Hn') by (rewrite Et; discriminate). apply orb_true_r. }
  rewrite LA. unfold body. cbn [du_y du_mo du_d p].
  rewrite (field_scan "Y" y _ Hy eq_refl)
    by (apply no_field_skip; auto; apply no_field_skip; auto; apply t_part_no_field).
  rewrite (field_scan "M" mo _ Hmo eq_refl) by (apply no_field_skip; auto; apply t_part_no_field).
  rewrite (field_scan "D" d _ Hd eq_refl) by apply t_part_no_field.
  unfold t_part. destruct (time_part p) as [|c0 tm] eqn:Et.
  - cbn [is_nil]. rewrite !oz_ofz. cbn [oz].
    (* no time part: hours, minutes, seconds, microseconds are zero *)
    unfold time_part, p in Et. cbn [du_h du_mi du_s du_us] in Et.
    apply app_eq_nil in Et as [E1 Et]. apply app_eq_nil in Et as [E2 E3].
    assert (h = 0) by (destruct (Z.eq_dec h 0); [assumption|]; rewrite du_field_pos in E1 by lia; destruct (str_nat h); discriminate).
    assert (mi = 0) by (destruct (Z.eq_dec mi 0); [assumption|]; rewrite du_field_pos in E2 by lia; destruct (str_nat mi); discriminate).
    assert (s = 0 /\ us = 0) as [-> ->].
    { unfold sec_token in E3. destruct ((s =? 0) && (us =? 0)) eqn:Z0; [|destruct (g8_seconds s us); discriminate].
      apply andb_true_iff in Z0 as [A B]. apply Z.eqb_eq in A. apply Z.eqb_eq in B. auto. }
    subst h mi. unfold new_dur. fold p. rewrite (fix_dur_id _ Hf'). reflexivity.
  - cbn [is_nil]. change (ceq "T" "T") with true. cbn [andb]. rewrite <- Et.
    rewrite (time_part_head _ Hn') by (rewrite Et; discriminate).
    rewrite <- Et in Ts. rewrite Ts. rewrite !oz_ofz, Tv, Tu. unfold p. cbn [du_h du_mi du_s du_us].
    unfold new_dur. fold p. rewrite (fix_dur_id _ Hf'). reflexivity.
Qed.

(* ---------------------------------------------------------------- validity of the body *)
Lemma m_du_n c x : 0 < x -> matches (du_n c) (du_field x c) = true.
Proof.
  intros H. rewrite du_field_pos by exact H. destruct (str_nat_spec x ltac:(lia)) as (Hne & Hd & _).
  unfold du_n. apply m_cat; [apply m_plus_cls; assumption|apply m_ch].
Qed.
Lemma m_opt_du_n c x : 0 <= x -> matches (opt (du_n c)) (du_field x c) = true.
Proof.
  intros H. destruct (Z.eq_dec x 0) as [->|]; [reflexivity|]. apply m_opt_some, m_du_n. lia.
Qed.
Lemma du_field_no_ws c x : 0 <= x -> is_xsd_ws c = false -> no_ws (du_field x c) = true.
Proof.
  intros H Hc. destruct (Z.eq_dec x 0) as [->|]; [reflexivity|]. rewrite du_field_pos by lia.
  destruct (str_nat_spec x H) as (_ & Hd & _). rewrite no_ws_app, (digits_no_ws _ Hd). cbn. rewrite Hc. reflexivity.
Qed.
Lemma m_du_sec s us : 0 <= s -> 0 <= us <= 999999 -> sec_token s us <> [] ->
  matches du_sec (sec_token s us) = true.
Proof.
  intros Hs Hus Hne. unfold sec_token in *. destruct ((s =? 0) && (us =? 0)); [congruence|].
  rewrite (g8_seconds_eq s us Hs). destruct (str_nat_spec s Hs) as (Hnn & Hd & _).
  destruct (sec_frac_text us Hus) as (fr & Hft & _). destruct (frac_text_facts _ _ Hft) as [Mf _].
  unfold du_sec. cbn [cats]. rewrite <- app_assoc. apply m_cat; [apply m_plus_cls; assumption|].
  apply m_cat; [exact Mf|apply m_ch].
Qed.
Lemma m_opt_du_sec s us : 0 <= s -> 0 <= us <= 999999 -> matches (opt du_sec) (sec_token s us) = true.
Proof.
  intros Hs Hus. destruct (sec_token s us) as [|c0 r] eqn:E; [reflexivity|]. rewrite <- E.
  apply m_opt_some, m_du_sec; auto. rewrite E. discriminate.
Qed.
Lemma sec_token_no_ws s us : 0 <= s -> 0 <= us <= 999999 -> no_ws (sec_token s us) = true.
Proof.
  intros Hs Hus. unfold sec_token. destruct ((s =? 0) && (us =? 0)); [reflexivity|].
  rewrite (g8_seconds_eq s us Hs). destruct (str_nat_spec s Hs) as (_ & Hd & _).
  destruct (sec_frac_text us Hus) as (fr & Hft & _). destruct (frac_text_facts _ _ Hft) as [_ Nf].
  rewrite !no_ws_app, (digits_no_ws _ Hd), Nf. reflexivity.
Qed.

Lemma time_part_valid p : nonneg p -> fixed p -> time_part p <> [] ->
  matches du_time ("T"%char :: time_part p) = true.
Proof.
  destruct p as [y mo d h mi s us]. unfold nonneg, all_fields, fixed, time_part. cbn [du_y du_mo du_d du_h du_mi du_s du_us].
  intros (_ & _ & _ & Hh & Hmi & Hs & Hus) (F1 & _) Hne. assert (Hus' : 0 <= us <= 999999) by lia.
  unfold du_time. apply m_cons_ch. cbn [alts].
  destruct (Z.eq_dec h 0) as [->|].
  - rewrite du_field_zero in *. cbn [app] in *. apply m_altr.
    destruct (Z.eq_dec mi 0) as [->|].
    + rewrite du_field_zero in *. cbn [app] in *. apply m_altr. apply m_du_sec; assumption.
    + apply m_altl. apply m_cat; [apply m_du_n; lia|apply m_opt_du_sec; assumption].
  - apply m_altl. cbn [cats]. apply m_cat; [apply m_du_n; lia|]. apply m_cat; [apply m_opt_du_n; lia|apply m_opt_du_sec; assumption].
Qed.

Lemma body_valid p : nonneg p -> fixed p -> ~ is_zero p ->
  matches (Alt (Cat du_ymd (opt du_time)) du_time) (body p) = true /\ no_ws (body p) = true.
Proof.
  intros Hn Hf Hz. pose proof (time_part_valid p Hn Hf) as Tv.
  assert (Tn : no_ws (t_part p) = true).
  { unfold t_part. destruct (is_nil (time_part p)); [reflexivity|]. rewrite no_ws_cons. cbn [negb is_xsd_ws].
    destruct p as [y mo d h mi s us]. unfold nonneg, all_fields, fixed in *. cbn [du_y du_mo du_d du_h du_mi du_s du_us] in *.
    destruct Hn as (_ & _ & _ & Hh & Hmi & Hs & Hus). destruct Hf as (F1 & _).
    unfold time_part. cbn [du_h du_mi du_s du_us].
    rewrite !no_ws_app, !du_field_no_ws, sec_token_no_ws by (auto; lia). reflexivity. }
  assert (To : matches (opt du_time) (t_part p) = true).
  { unfold t_part. destruct (time_part p) as [|c0 r] eqn:E; [reflexivity|]. cbn [is_nil].
    apply m_opt_some, Tv. discriminate. }
  destruct p as [y mo d h mi s us]. unfold nonneg, all_fields in Hn. cbn [du_y du_mo du_d du_h du_mi du_s du_us] in *.
  destruct Hn as (Hy & Hmo & Hd & Hh & Hmi & Hs & Hus).
  set (p := mkDur y mo d h mi s us) in *. split.
  - unfold body. cbn [du_y du_mo du_d p].
    destruct (Z.eq_dec y 0) as [->|].
    + rewrite du_field_zero. cbn [app]. destruct (Z.eq_dec mo 0) as [->|].
      * rewrite du_field_zero. cbn [app]. destruct (Z.eq_dec d 0) as [->|].
        -- rewrite du_field_zero. cbn [app]. apply m_altr. unfold t_part.
           destruct (time_part p) as [|c0 r] eqn:E.
           ++ exfalso. apply Hz. unfold is_zero, all_fields. cbn [du_y du_mo du_d du_h du_mi du_s du_us p].
              unfold time_part, p in E. cbn [du_h du_mi du_s du_us] in E.
              apply app_eq_nil in E as [E1 E]. apply app_eq_nil in E as [E2 E3].
              assert (h = 0) by (destruct (Z.eq_dec h 0); [assumption|]; rewrite du_field_pos in E1 by lia; destruct (str_nat h); discriminate).
              assert (mi = 0) by (destruct (Z.eq_dec mi 0); [assumption|]; rewrite du_field_pos in E2 by lia; destruct (str_nat mi); discriminate).
              unfold sec_token in E3. destruct ((s =? 0) && (us =? 0)) eqn:Z0; [|destruct (g8_seconds s us); discriminate].
              apply andb_true_iff in Z0 as [A B]. apply Z.eqb_eq in A. apply Z.eqb_eq in B. auto 10.
           ++ cbn [is_nil]. apply Tv. discriminate.
        -- apply m_altl. apply m_cat; [|exact To]. unfold du_ymd. cbn [alts]. apply m_altr, m_altr. apply m_du_n. lia.
      * apply m_altl. rewrite app_assoc. apply m_cat; [|exact To]. unfold du_ymd. cbn [alts]. apply m_altr, m_altl.
        apply m_cat; [apply m_du_n; lia|apply m_opt_du_n; lia].
    + apply m_altl. rewrite !app_assoc. apply m_cat; [|exact To]. unfold du_ymd. cbn [alts]. apply m_altl. cbn [cats].
      rewrite <- app_assoc. apply m_cat; [apply m_du_n; lia|]. apply m_cat; apply m_opt_du_n; lia.
  - unfold body. cbn [du_y du_mo du_d p]. rewrite !no_ws_app, !du_field_no_ws, Tn by (auto; lia). reflexivity.
Qed.

(* ---------------------------------------------------------------- the theorems *)
Definition nonpos (v : duration) : Prop := all_fields (fun x => x <= 0) v.
Definition wf_dur (v : duration) : Prop := fixed v /\ (nonneg v \/ nonpos v).

Lemma existsb_filter_false {A} (p q : A -> bool) l : (forall x, In x l -> p x = false) -> existsb p (filter q l) = false.
Proof.
  intros H. induction l as [|x l IH]; [reflexivity|]. cbn [filter].
  destruct (q x); [cbn [existsb]; rewrite (H x (or_introl eq_refl))|]; apply IH; intros y Hy; apply H; right; exact Hy.
Qed.
Lemma in_fields v x : In x (fields v) -> forall P, all_fields P v -> P x.
Proof.
  unfold fields, all_fields. intros H P (A & B & C & D & E & F & G). cbn in H.
  repeat destruct H as [H|H]; subst; auto. contradiction.
Qed.
Definition nzf (v : duration) : list Z := filter (fun x => negb (x =? 0)) (fields v).
Lemma nzf_nil v : nzf v = [] -> is_zero v.
Proof.
  unfold nzf, fields, is_zero, all_fields. cbn [filter].
  repeat match goal with |- context [?x =? 0] => destruct (Z.eqb_spec x 0) end; cbn [negb]; try discriminate; auto 10.
Qed.
Lemma absd_fixed v : fixed v -> fixed (absd v).
Proof. unfold fixed, absd. cbn. rewrite !Z.abs_involutive. trivial. Qed.
Lemma absd_nonneg v : nonneg (absd v).
Proof. unfold nonneg, all_fields, absd. cbn. repeat split; apply Z.abs_nonneg. Qed.
Lemma absd_zero v : is_zero (absd v) -> is_zero v.
Proof. unfold is_zero, all_fields, absd. cbn. intros H. repeat split; lia. Qed.

(* the text xsd_repr produces, in terms of the absolute values *)
Lemma print_text v : fixed v -> ~ is_zero v -> (nonneg v \/ nonpos v) ->
  print_duration v = Ok ((if existsb (fun x => x <? 0) (nzf v) then ["-"%char] else []) ++ "P"%char :: body (absd v)).
Proof.
  intros Hf Hz Hs. unfold print_duration. rewrite (fix_dur_id v Hf). fold (nzf v).
  assert (M : existsb (fun x => x <? 0) (nzf v) && existsb (fun x => 0 <? x) (nzf v) = false).
  { unfold nzf. destruct Hs as [Hn|Hn].
    - rewrite (existsb_filter_false (fun x => x <? 0)); [reflexivity|]. intros x Hx.
      pose proof (in_fields v x Hx _ Hn) as K. cbn beta in K. apply Z.ltb_ge. exact K.
    - rewrite andb_comm. rewrite (existsb_filter_false (fun x => 0 <? x)); [reflexivity|]. intros x Hx.
      pose proof (in_fields v x Hx _ Hn) as K. cbn beta in K. apply Z.ltb_ge. exact K. }
  rewrite M. destruct (nzf v) eqn:En; [exfalso; apply Hz, nzf_nil, En|]. cbn [is_nil]. rewrite <- En.
  f_equal. f_equal. f_equal. unfold body, t_part, time_part, absd. cbn [du_y du_mo du_d du_h du_mi du_s du_us].
  rewrite !du_field_abs. unfold sec_token.
  replace ((Z.abs (du_s v) =? 0) && (Z.abs (du_us v) =? 0)) with ((du_s v =? 0) && (du_us v =? 0))
    by (destruct (Z.eqb_spec (du_s v) 0), (Z.eqb_spec (du_us v) 0), (Z.eqb_spec (Z.abs (du_s v)) 0),
          (Z.eqb_spec (Z.abs (du_us v)) 0); try reflexivity; lia).
  reflexivity.
Qed.

Lemma neg_absd v : fixed v -> nonpos v -> neg_dur (absd v) = v.
Proof.
  destruct v as [y mo d h mi s us]. unfold nonpos, all_fields, neg_dur, absd, new_dur. cbn [du_y du_mo du_d du_h du_mi du_s du_us].
  intros Hf (A & B & C & D & E & F & G).
  replace (- Z.abs y) with y by lia. replace (- Z.abs mo) with mo by lia. replace (- Z.abs d) with d by lia.
  replace (- Z.abs h) with h by lia. replace (- Z.abs mi) with mi by lia. replace (- Z.abs s) with s by lia.
  replace (- Z.abs us) with us by lia. apply fix_dur_id, Hf.
Qed.
Lemma absd_nonneg_id v : nonneg v -> absd v = v.
Proof.
  destruct v as [y mo d h mi s us]. unfold nonneg, all_fields, absd. cbn. intros (A & B & C & D & E & F & G).
  rewrite !Z.abs_eq by assumption. reflexivity.
Qed.

Lemma dur_roundtrip v : wf_dur v ->
  exists s, print_duration v = Ok s /\ parse_duration s = Ok v /\ valid_xsd_duration s = true.
Proof.
  intros [Hf Hs].
  destruct (nzf v) eqn:En.
  - (* the zero duration is written P0D *)
    pose proof (nzf_nil v En) as Hz. exists (L "P0D"). split; [|split].
    + unfold print_duration. rewrite (fix_dur_id v Hf). fold (nzf v). rewrite En. reflexivity.
    + destruct v as [y mo d h mi s us]. unfold is_zero, all_fields in Hz. cbn in Hz.
      destruct Hz as (-> & -> & -> & -> & -> & -> & ->). reflexivity.
    + reflexivity.
  - assert (Hz : ~ is_zero v).
    { intros Z. unfold nzf, fields in En. destruct Z as (A & B & C & D & E & F & G). rewrite A, B, C, D, E, F, G in En. discriminate. }
    clear En. pose proof (print_text v Hf Hz Hs) as Pt.
    pose proof (body_valid (absd v) (absd_nonneg v) (absd_fixed v Hf) (fun Z => Hz (absd_zero v Z))) as [Mb Nb].
    destruct (existsb (fun x => x <? 0) (nzf v)) eqn:Hneg.
    + (* negative *)
      assert (Hnp : nonpos v).
      { destruct Hs as [Hn|Hn]; [|exact Hn]. exfalso.
        unfold nzf in Hneg. rewrite (existsb_filter_false (fun x => x <? 0)) in Hneg; [discriminate|]. intros x Hx.
        pose proof (in_fields v x Hx _ Hn) as K. cbn beta in K. apply Z.ltb_ge. exact K. }
      eexists. split; [exact Pt|]. split.
      * rewrite parse_duration_eq. cbn [app opt_minus]. change (ceq "-" "-") with true. cbv iota.
        rewrite (body_scan true (absd v) (absd_nonneg v) (absd_fixed v Hf) (fun Z => Hz (absd_zero v Z))).
        rewrite (neg_absd v Hf Hnp). reflexivity.
      * unfold valid_xsd_duration. cbn [app].
        rewrite ws_collapse_id by (rewrite !no_ws_cons, Nb; reflexivity).
        unfold duration_re. cbn [cats]. change ("-"%char :: "P"%char :: body (absd v)) with (["-"%char] ++ "P"%char :: body (absd v)).
        apply m_cat; [reflexivity|]. apply m_cons_ch. exact Mb.
    + destruct Hs as [Hn|Hn].
      * eexists. split; [exact Pt|]. split.
        -- rewrite parse_duration_eq. cbn [app opt_minus]. change (ceq "P" "-") with false. cbv iota.
           rewrite (body_scan false (absd v) (absd_nonneg v) (absd_fixed v Hf) (fun Z => Hz (absd_zero v Z))).
           rewrite (absd_nonneg_id v Hn). reflexivity.
        -- unfold valid_xsd_duration. cbn [app].
           rewrite ws_collapse_id by (rewrite !no_ws_cons, Nb; reflexivity).
           unfold duration_re. cbn [cats]. change ("P"%char :: body (absd v)) with ([] ++ "P"%char :: body (absd v)).
           apply m_cat; [reflexivity|]. apply m_cons_ch. exact Mb.
      * (* non-positive and no negative field among the non-zero ones: impossible unless zero *)
        exfalso. apply Hz. destruct v as [y mo d h mi s us]. unfold nonpos, all_fields, is_zero in *. cbn in Hn |- *.
        destruct Hn as (A & B & C & D & E & F & G).
        unfold nzf, fields in Hneg. cbn [du_y du_mo du_d du_h du_mi du_s du_us filter] in Hneg.
        assert (K : forall x, x <= 0 -> forall l', existsb (fun x => x <? 0) (if negb (x =? 0) then x :: l' else l') = false -> x = 0 /\ existsb (fun x => x <? 0) l' = false).
        { intros x Hx l'. destruct (Z.eqb_spec x 0); cbn [negb existsb]; [auto|]. destruct (Z.ltb_spec x 0); [discriminate|lia]. }
        apply K in Hneg as [-> Hneg]; [|assumption]. apply K in Hneg as [-> Hneg]; [|assumption].
        apply K in Hneg as [-> Hneg]; [|assumption]. apply K in Hneg as [-> Hneg]; [|assumption].
        apply K in Hneg as [-> Hneg]; [|assumption]. apply K in Hneg as [-> Hneg]; [|assumption].
        apply K in Hneg as [-> Hneg]; [|assumption]. repeat split.
Qed.

(* a duration whose non-zero fields have different signs is refused *)
Lemma dur_mixed_rejected v x y : fixed v -> In x (fields v) -> In y (fields v) -> x < 0 -> 0 < y ->
  print_duration v = Err ValueError.
Proof.
  intros Hf Hx Hy Nx Py. unfold print_duration. rewrite (fix_dur_id v Hf).
  assert (A : existsb (fun z => z <? 0) (filter (fun z => negb (z =? 0)) (fields v)) = true).
  { apply existsb_exists. exists x. split; [apply filter_In; split; [exact Hx|]|apply Z.ltb_lt; exact Nx].
    apply negb_true_iff, Z.eqb_neq. lia. }
  assert (B : existsb (fun z => 0 <? z) (filter (fun z => negb (z =? 0)) (fields v)) = true).
  { apply existsb_exists. exists y. split; [apply filter_In; split; [exact Hy|]|apply Z.ltb_lt; exact Py].
    apply negb_true_iff, Z.eqb_neq. lia. }
  rewrite A, B. reflexivity.
Qed.

(* ================================================================ every accepted literal is a valid xs:duration *)
Inductive tok (c : ascii) : option Z -> str -> Prop :=
| TokNone : tok c None []
| TokSome ds : ds <> [] -> forallb is_digit ds = true -> tok c (Some (int_dec ds)) (ds ++ [c]).
Lemma opt_field_shape c s o r : opt_field c s = (o, r) -> exists t, s = t ++ r /\ tok c o t.
Proof.
  unfold opt_field. destruct (span is_digit s) as [ds r0] eqn:Sp. destruct (span_spec _ _ _ _ Sp) as (E & Hd & _).
  destruct ds as [|d0 ds']; [intros [= <- <-]; exists []; split; [reflexivity|constructor]|].
  destruct r0 as [|x r']; [intros [= <- <-]; exists []; split; [reflexivity|constructor]|].
  destruct (ceq x c) eqn:C; [|intros [= <- <-]; exists []; split; [reflexivity|constructor]].
  apply ceq_eq in C. subst x. intros [= <- <-]. exists ((d0 :: ds') ++ [c]).
  split; [rewrite E, <- app_assoc; reflexivity|constructor; [discriminate|exact Hd]].
Qed.
Lemma tok_facts c o t : tok c o t -> is_xsd_ws c = false ->
  matches (opt (du_n c)) t = true /\ no_ws t = true /\ (t <> [] -> matches (du_n c) t = true) /\
  (t = [] \/ head_digit t = true).
Proof.
  intros [|ds Hne Hd] Hc; [repeat split; auto|].
  assert (M : matches (du_n c) (ds ++ [c]) = true) by (unfold du_n; apply m_cat; [apply m_plus_cls; assumption|apply m_ch]).
  repeat split; auto.
  - apply m_opt_some, M.
  - rewrite no_ws_app, (digits_no_ws _ Hd). cbn. rewrite Hc. reflexivity.
  - right. destruct ds as [|d0 ds']; [congruence|]. cbn in Hd |- *. apply andb_true_iff in Hd. tauto.
Qed.
Inductive sectok : option (Z * option str) -> str -> Prop :=
| SecNone : sectok None []
| SecSome ds ft fr : ds <> [] -> forallb is_digit ds = true -> frac_text ft fr ->
    sectok (Some (int_dec ds, fr)) (ds ++ ft ++ ["S"%char]).
Lemma opt_seconds_shape s o r : opt_seconds s = (o, r) -> exists t, s = t ++ r /\ sectok o t.
Proof.
  unfold opt_seconds. destruct (span is_digit s) as [ds r0] eqn:Sp. destruct (span_spec _ _ _ _ Sp) as (E & Hd & _).
  destruct ds as [|d0 ds']; cbn [is_nil]; [intros [= <- <-]; exists []; split; [reflexivity|constructor]|].
  destruct (frac_group r0) as [fr r1] eqn:Fg. destruct (frac_group_shape _ _ _ Fg) as (ft & E1 & Hft).
  destruct r1 as [|x r2]; [intros [= <- <-]; exists []; split; [reflexivity|constructor]|].
  destruct (ceq x "S") eqn:C; [|intros [= <- <-]; exists []; split; [reflexivity|constructor]].
  apply ceq_eq in C. subst x. intros [= <- <-]. exists ((d0 :: ds') ++ ft ++ ["S"%char]).
  split; [rewrite E, E1, <- !app_assoc; reflexivity|constructor; [discriminate|exact Hd|exact Hft]].
Qed.
Lemma sectok_facts o t : sectok o t ->
  matches (opt du_sec) t = true /\ no_ws t = true /\ (t <> [] -> matches du_sec t = true) /\ (t = [] \/ head_digit t = true).
Proof.
  intros [|ds ft fr Hne Hd Hft]; [repeat split; auto|].
  destruct (frac_text_facts _ _ Hft) as [Mf Nf].
  assert (M : matches du_sec (ds ++ ft ++ ["S"%char]) = true).
  { unfold du_sec. cbn [cats]. apply m_cat; [apply m_plus_cls; assumption|]. apply m_cat; [exact Mf|apply m_ch]. }
  repeat split; auto.
  - apply m_opt_some, M.
  - rewrite !no_ws_app, (digits_no_ws _ Hd), Nf. reflexivity.
  - right. destruct ds as [|d0 ds']; [congruence|]. cbn in Hd |- *. apply andb_true_iff in Hd. tauto.
Qed.
Lemma head_digit_not_end s : head_digit s = true -> at_end s = false.
Proof.
  destruct s as [|c [|? ?]]; cbn; try discriminate; try reflexivity. intros H.
  destruct (ceq c "010") eqn:C; [|reflexivity]. apply ceq_eq in C. subst c. discriminate.
Qed.
Lemma head_digit_app_nil t r : t = [] \/ head_digit t = true -> head_digit (t ++ r) = true -> t = [] -> head_digit r = true.
Proof. intros _ H ->. exact H. Qed.

Lemma time_tokens_valid tH tMi tS oh om os :
  tok "H" oh tH -> tok "M" om tMi -> sectok os tS -> head_digit (tH ++ tMi ++ tS) = true ->
  matches du_time ("T"%char :: tH ++ tMi ++ tS) = true /\ no_ws (tH ++ tMi ++ tS) = true.
Proof.
  intros KH KM KS Hh.
  destruct (tok_facts _ _ _ KH eq_refl) as (OH & NH & MH & _). destruct (tok_facts _ _ _ KM eq_refl) as (OM & NM & MM & _).
  destruct (sectok_facts _ _ KS) as (OS & NS & MS & _).
  split; [|rewrite !no_ws_app, NH, NM, NS; reflexivity].
  unfold du_time. apply m_cons_ch. cbn [alts].
  destruct tH as [|h0 tH'].
  - cbn [app]. apply m_altr. destruct tMi as [|m0 tM'].
    + cbn [app] in *. apply m_altr. apply MS. destruct tS; [discriminate|discriminate].
    + apply m_altl. apply m_cat; [apply MM; discriminate|exact OS].
  - apply m_altl. cbn [cats]. apply m_cat; [apply MH; discriminate|]. apply m_cat; assumption.
Qed.

Lemma dur_body_valid neg s0 v : parse_dur_body neg s0 = Ok v ->
  exists core w2, s0 = "P"%char :: core ++ w2 /\ forallb is_xsd_ws w2 = true /\ no_ws core = true /\
                  matches (Alt (Cat du_ymd (opt du_time)) du_time) core = true.
Proof.
  unfold parse_dur_body. destruct s0 as [|p s1]; [discriminate|].
  destruct (ceq p "P" && _) eqn:C; [|discriminate]. apply andb_true_iff in C as [Cp LA]. apply ceq_eq in Cp. subst p.
  destruct (opt_field "Y" s1) as [oy s2] eqn:FY. destruct (opt_field_shape _ _ _ _ FY) as (tY & EY & KY).
  destruct (opt_field "M" s2) as [om s3] eqn:FM. destruct (opt_field_shape _ _ _ _ FM) as (tM & EM & KM).
  destruct (opt_field "D" s3) as [od s4] eqn:FD. destruct (opt_field_shape _ _ _ _ FD) as (tD & ED & KD).
  destruct (tok_facts _ _ _ KY eq_refl) as (OY & NY & MY & HY). destruct (tok_facts _ _ _ KM eq_refl) as (OM & NM & MM & HM).
  destruct (tok_facts _ _ _ KD eq_refl) as (OD & ND & MD & HD).
  (* the date tokens as a du_ymd, when at least one is present *)
  assert (YMD : tY ++ tM ++ tD <> [] -> matches du_ymd (tY ++ tM ++ tD) = true).
  { intros Hne. unfold du_ymd. cbn [alts]. destruct tY as [|y0 tY'].
    - cbn [app] in *. apply m_altr. destruct tM as [|m0 tM'].
      + cbn [app] in *. apply m_altr. apply MD, Hne.
      + apply m_altl. apply m_cat; [apply MM; discriminate|exact OD].
    - apply m_altl. cbn [cats]. apply m_cat; [apply MY; discriminate|]. apply m_cat; assumption. }
  assert (NYMD : no_ws (tY ++ tM ++ tD) = true) by (rewrite !no_ws_app, NY, NM, ND; reflexivity).
  assert (Es1 : s1 = (tY ++ tM ++ tD) ++ s4) by (rewrite EY, EM, ED, <- !app_assoc; reflexivity).
  destruct s4 as [|t s5].
  - (* no time part, end of text *)
    intros _. exists (tY ++ tM ++ tD), []. rewrite app_nil_r in Es1 |- *.
    split; [rewrite Es1; reflexivity|]. split; [reflexivity|]. split; [exact NYMD|].
    apply m_altl. rewrite <- (app_nil_r (tY ++ tM ++ tD)). apply m_cat; [|reflexivity]. apply YMD.
    intros E0. rewrite Es1, E0 in LA. discriminate.
  - destruct (ceq t "T" && head_digit s5) eqn:CT.
    + apply andb_true_iff in CT as [CT HS5]. apply ceq_eq in CT. subst t.
      destruct (opt_field "H" s5) as [oh s6] eqn:FH. destruct (opt_field_shape _ _ _ _ FH) as (tH & EH & KH).
      destruct (opt_field "M" s6) as [omi s7] eqn:FMi. destruct (opt_field_shape _ _ _ _ FMi) as (tMi & EMi & KMi).
      destruct (opt_seconds s7) as [os s8] eqn:FS. destruct (opt_seconds_shape _ _ _ FS) as (tS & ES & KS).
      destruct (at_end s8) eqn:AE; [|discriminate]. intros _.
      assert (Es5 : s5 = (tH ++ tMi ++ tS) ++ s8) by (rewrite EH, EMi, ES, <- !app_assoc; reflexivity).
      assert (HT : head_digit (tH ++ tMi ++ tS) = true).
      { destruct (tH ++ tMi ++ tS) as [|c0 r0] eqn:E0; [|rewrite Es5 in HS5; exact HS5].
        cbn [app] in Es5. rewrite Es5 in HS5. rewrite (head_digit_not_end _ HS5) in AE. discriminate. }
      destruct (time_tokens_valid _ _ _ _ _ _ KH KMi KS HT) as [MT NT].
      exists ((tY ++ tM ++ tD) ++ "T"%char :: tH ++ tMi ++ tS), s8.
      split; [rewrite Es1, Es5; repeat (rewrite <- app_assoc; cbn [app]); reflexivity|]. split; [apply at_end_ws, AE|]. split.
      * rewrite no_ws_app, NYMD, no_ws_cons, NT. reflexivity.
      * destruct (tY ++ tM ++ tD) as [|c0 r0] eqn:E0.
        -- cbn [app]. apply m_altr. exact MT.
        -- apply m_altl. apply m_cat; [apply YMD; discriminate|apply m_opt_some, MT].
    + destruct (at_end (t :: s5)) eqn:AE; [|discriminate]. intros _.
      exists (tY ++ tM ++ tD), (t :: s5). split; [rewrite Es1; reflexivity|]. split; [apply at_end_ws, AE|]. split; [exact NYMD|].
      apply m_altl. rewrite <- (app_nil_r (tY ++ tM ++ tD)). apply m_cat; [|reflexivity]. apply YMD.
      intros E0. rewrite E0 in Es1. cbn [app] in Es1. rewrite Es1 in LA.
      (* the look-ahead demands a digit or T+digit, but the text is at its end *)
      apply at_end_shape in AE as [AE|AE]; [discriminate|]. injection AE as -> ->. cbn in LA. discriminate.
Qed.
Lemma opt_minus_shape s neg s0 : opt_minus s = (neg, s0) -> s = (if neg then ["-"%char] else []) ++ s0.
Proof.
  unfold opt_minus. destruct s as [|c r]; [intros [= <- <-]; reflexivity|].
  destruct (ceq c "-") eqn:C; intros [= <- <-]; [apply ceq_eq in C; subst; reflexivity|reflexivity].
Qed.
Lemma dur_accept_valid s v : parse_duration s = Ok v -> valid_xsd_duration s = true.
Proof.
  rewrite parse_duration_eq. destruct (opt_minus s) as [neg s0] eqn:Om. intros H.
  destruct (dur_body_valid _ _ _ H) as (core & w2 & E0 & Hw & Nc & Mc).
  apply opt_minus_shape in Om. unfold valid_xsd_duration.
  assert (Es : s = ((if neg then ["-"%char] else []) ++ "P"%char :: core) ++ w2) by (rewrite Om, E0, <- app_assoc; reflexivity).
  rewrite Es.
  pose proof (ws_collapse_core [] ((if neg then ["-"%char] else []) ++ "P"%char :: core) w2 eq_refl
                ltac:(rewrite no_ws_app, no_ws_cons, Nc; destruct neg; reflexivity) Hw) as K.
  cbn [app] in K. cbn [app]. rewrite K.
  unfold duration_re. cbn [cats]. apply m_cat; [destruct neg; reflexivity|]. apply m_cons_ch. exact Mc.
Qed.
Lemma dur_reject_literal s : valid_xsd_duration s = false -> parse_duration s = Err ValueError.
Proof.
  intros H. destruct (parse_duration s) as [v|e] eqn:E.
  - apply dur_accept_valid in E. congruence.
  - f_equal. revert E. rewrite parse_duration_eq. destruct (opt_minus s) as [neg s0]. unfold parse_dur_body.
    destruct s0 as [|p s1]; [congruence|]. destruct (_ && _); [|congruence].
    destruct (opt_field "Y" s1) as [? s2]. destruct (opt_field "M" s2) as [? s3]. destruct (opt_field "D" s3) as [? s4].
    match goal with |- context [match ?tg with Some _ => _ | None => _ end] => destruct tg as [[[? ?] ?]|] end; congruence.
Qed.
