(* Proofs about model/Crash.v: every disciplined write procedure is all-or-nothing under every
   fault (exception at any effect, failing cleanup, process death at any effect with any amount of
   buffered data flushed). *)
From Coq Require Import List Arith Bool Lia ZArith.
From Basyx Require Import model.Crash.
Import ListNotations.

(* ---------- file names and the assoc-list file system -------------------- *)

Lemma fname_eqb_spec a b : reflect (a = b) (fname_eqb a b).
Proof.
  destruct a as [x|x|x], b as [y|y|y]; cbn; try (constructor; discriminate);
    destruct (Nat.eqb_spec x y); constructor; congruence.
Qed.
Lemma fname_eqb_refl a : fname_eqb a a = true.
Proof. destruct (fname_eqb_spec a a); congruence. Qed.
Lemma fname_eqb_neq a b : a <> b -> fname_eqb a b = false.
Proof. destruct (fname_eqb_spec a b); congruence. Qed.

Lemma lookup_set_eq f c d : lookup f (set f c d) = Some c.
Proof.
  induction d as [|[g c'] r IH]; cbn; [now rewrite fname_eqb_refl|].
  destruct (fname_eqb f g) eqn:E; cbn; rewrite E; auto.
Qed.
Lemma lookup_set_neq f g c d : f <> g -> lookup g (set f c d) = lookup g d.
Proof.
  intros Hn. induction d as [|[h c'] r IH]; cbn.
  - rewrite fname_eqb_neq; auto.
  - destruct (fname_eqb_spec f h) as [->|]; cbn.
    + rewrite fname_eqb_neq; auto.
    + destruct (fname_eqb g h); auto.
Qed.
Lemma lookup_remove_eq f d : lookup f (remove f d) = None.
Proof.
  induction d as [|[g c] r IH]; cbn; [reflexivity|].
  destruct (fname_eqb f g) eqn:E; [exact IH|]. cbn. rewrite E. exact IH.
Qed.
Lemma lookup_remove_neq f g d : f <> g -> lookup g (remove f d) = lookup g d.
Proof.
  intros Hn. induction d as [|[h c] r IH]; cbn; [reflexivity|].
  destruct (fname_eqb_spec f h) as [->|].
  - rewrite fname_eqb_neq; auto.
  - cbn. destruct (fname_eqb g h); auto.
Qed.
Lemma remove_keys_incl f d x : In x (map fst (remove f d)) -> In x (map fst d).
Proof.
  induction d as [|[g c] r IH]; cbn; [tauto|].
  destruct (fname_eqb f g); cbn; intuition.
Qed.
Lemma remove_nodup f d : NoDup (map fst d) -> NoDup (map fst (remove f d)).
Proof.
  induction d as [|[g c] r IH]; cbn; [trivial|].
  intros H. inversion H as [|? ? Hni Hnd]; subst.
  destruct (fname_eqb f g); [auto|]. cbn. constructor; [|auto].
  intros Hin. apply Hni. eapply remove_keys_incl; eauto.
Qed.
Lemma set_keys_incl f c d x : In x (map fst (set f c d)) -> x = f \/ In x (map fst d).
Proof.
  induction d as [|[g c'] r IH]; cbn; [intuition|].
  destruct (fname_eqb_spec f g) as [->|]; cbn; intuition.
Qed.
Lemma set_nodup f c d : NoDup (map fst d) -> NoDup (map fst (set f c d)).
Proof.
  induction d as [|[g c'] r IH]; cbn; [intros; constructor; [cbn; tauto|constructor]|].
  intros H. inversion H as [|? ? Hni Hnd]; subst.
  destruct (fname_eqb_spec f g) as [->|Hn]; cbn; [constructor; auto|].
  constructor; [|auto]. intros Hin. apply set_keys_incl in Hin. destruct Hin; [congruence|auto].
Qed.
Lemma lookup_in f d c : lookup f d = Some c -> In f (map fst d).
Proof.
  induction d as [|[g c'] r IH]; cbn; [discriminate|].
  destruct (fname_eqb_spec f g) as [->|]; [left; reflexivity|right; auto].
Qed.
Lemma in_lookup f d : In f (map fst d) -> exists c, lookup f d = Some c.
Proof.
  induction d as [|[g c'] r IH]; cbn; [tauto|].
  destruct (fname_eqb_spec f g) as [->|Hn]; [eauto|]. intros [E|I]; [congruence|auto].
Qed.

(* ---------- well-formed stores and what a fresh instance answers --------- *)

Lemma doc_keys_in d k : In k (doc_keys d) <-> In (FDoc k) (map fst d).
Proof.
  unfold doc_keys. induction d as [|[g c] r IH]; cbn; [tauto|].
  destruct g as [x|x|x]; cbn; rewrite IH; intuition; try congruence; try discriminate.
  left. congruence.
Qed.
Lemma doc_keys_nodup d : NoDup (map fst d) -> NoDup (doc_keys d).
Proof.
  unfold doc_keys. induction d as [|[g c] r IH]; cbn; [constructor|].
  intros H. inversion H as [|? ? Hni Hnd]; subst.
  destruct g as [x|x|x]; cbn; auto. constructor; auto.
  intros Hin. apply Hni. apply (doc_keys_in r x). exact Hin.
Qed.

Lemma r_iter_from_ok d ks :
  (forall k, In k ks -> exists v, lookup (FDoc k) d = Some (Full v)) ->
  exists l, r_iter_from d ks = Some l /\ map fst l = ks /\
            forall k v, In k ks -> lookup (FDoc k) d = Some (Full v) -> In (k, v) l.
Proof.
  induction ks as [|k r IH]; cbn; intros H.
  - exists []. split; [reflexivity|]. split; [reflexivity|]. intros ? ? [].
  - destruct (H k (or_introl eq_refl)) as [v Hv].
    destruct IH as [l [Hl [Hm Hin]]]; [intros; apply H; auto|].
    unfold r_get. rewrite Hv, Hl. exists ((k, v) :: l). repeat split; [cbn; congruence|].
    intros k' v' [->|Hk] Hlk; [left; congruence|right; auto].
Qed.

Lemma wf_answers d : wf d -> answers_ok d.
Proof.
  intros [Hnd Hfull].
  destruct (r_iter_from_ok d (doc_keys d)) as [l [Hl [Hm Hin]]].
  { intros k Hk. apply doc_keys_in in Hk. destruct (in_lookup _ _ Hk) as [c Hc].
    destruct (Hfull _ _ Hc) as [v ->]. eauto. }
  exists l. split; [exact Hl|]. split; [exact Hm|]. split.
  { unfold r_len. rewrite <- Hm. now rewrite map_length. }
  split; [rewrite Hm; now apply doc_keys_nodup|].
  intros k. unfold r_contains, mem, r_get. destruct (lookup (FDoc k) d) as [c|] eqn:E.
  - assert (Hk : In k (doc_keys d)) by (apply doc_keys_in; eapply lookup_in; eauto).
    destruct (Hfull _ _ E) as [v ->]. repeat split; auto. exists v. repeat split; auto.
  - repeat split; auto. intros Hk. apply doc_keys_in in Hk. destruct (in_lookup _ _ Hk). congruence.
Qed.

(* ---------- the invariant of a disciplined write -------------------------- *)

Section Safety.
Variables (k : key) (d0 : fs) (pl : payload) (c0 m0 : bool).

Definition others_same (d : fs) : Prop :=
  forall f, f <> FDoc k -> f <> FTmp k -> lookup f d = lookup f d0.
Definition doc_old (d : fs) : Prop := lookup (FDoc k) d = lookup (FDoc k) d0.
Definition doc_new (d : fs) : Prop := exists v, pl = Good v /\ lookup (FDoc k) d = Some (Full v).
Definition unmarked (s : st) : Prop := cached s = c0 /\ sourced s = m0.

(* what holds whenever the procedure has stopped (returned, raised, died) *)
Definition Safe (s : st) : Prop :=
  NoDup (map fst (disk s)) /\ others_same (disk s) /\ (doc_old (disk s) \/ doc_new (disk s)) /\ wr s = None.
(* ... and additionally when nothing has been moved over the document yet *)
Definition Before (s : st) : Prop :=
  NoDup (map fst (disk s)) /\ others_same (disk s) /\ doc_old (disk s) /\ wr s = None /\ unmarked s.

Definition Inv (ph : phase) (s : st) : Prop :=
  NoDup (map fst (disk s)) /\ others_same (disk s) /\
  match ph with
  | P0 => doc_old (disk s) /\ wr s = None /\ unmarked s
  | P1 => doc_old (disk s) /\ wr s = None /\ unmarked s /\ exists v, pl = Good v /\ data s = Some v
  | P2 => doc_old (disk s) /\ unmarked s /\ exists v, pl = Good v /\ data s = Some v /\ wr s = Some (FTmp k, None)
  | P3 => doc_old (disk s) /\ unmarked s /\ exists v, pl = Good v /\ data s = Some v /\ wr s = Some (FTmp k, Some v)
  | P4 => doc_old (disk s) /\ wr s = None /\ unmarked s /\
          exists v, pl = Good v /\ lookup (FTmp k) (disk s) = Some (Full v)
  | P5 => doc_new (disk s) /\ wr s = None
  end.

Lemma Before_Safe s : Before s -> Safe s.
Proof. intros (A & B & C & D & _). repeat split; auto. Qed.

Lemma others_set_tmp d c : others_same d -> others_same (set (FTmp k) c d).
Proof. intros H f H1 H2. rewrite lookup_set_neq; auto. Qed.
Lemma others_remove_tmp d : others_same d -> others_same (remove (FTmp k) d).
Proof. intros H f H1 H2. rewrite lookup_remove_neq; auto. Qed.
Lemma doc_old_set_tmp d c : doc_old d -> doc_old (set (FTmp k) c d).
Proof. unfold doc_old. intros H. rewrite lookup_set_neq; [auto|discriminate]. Qed.
Lemma doc_old_remove_tmp d : doc_old d -> doc_old (remove (FTmp k) d).
Proof. unfold doc_old. intros H. rewrite lookup_remove_neq; [auto|discriminate]. Qed.
Lemma doc_new_set_tmp d c : doc_new d -> doc_new (set (FTmp k) c d).
Proof. intros [v [E H]]. exists v. split; auto. rewrite lookup_set_neq; [auto|discriminate]. Qed.
Lemma doc_new_remove_tmp d : doc_new d -> doc_new (remove (FTmp k) d).
Proof. intros [v [E H]]. exists v. split; auto. rewrite lookup_remove_neq; [auto|discriminate]. Qed.

(* with a file open (phases P2, P3) every way of stopping leaves only the temporary file changed *)
Lemma Before_tmp_content s c cs ms :
  NoDup (map fst (disk s)) -> others_same (disk s) -> doc_old (disk s) -> cs = c0 -> ms = m0 ->
  forall dt, Before (mkst (set (FTmp k) c (disk s)) None dt cs ms).
Proof.
  intros A B C -> ->. intros dt. repeat split; cbn; auto using set_nodup, others_set_tmp, doc_old_set_tmp.
Qed.

(* the cleanup handler os.remove(<tmp>) under every fault *)
Lemma cleanup_Before fc x s : Before s ->
  let r := cleanup_run (cleanup_of k) pl fc x s in
  Before (fin r) /\ out r <> OStuck /\ out r <> ODone.
Proof.
  intros HB. pose proof HB as (A & B & C & D & U1 & U2). unfold cleanup_run, cleanup_of.
  destruct fc as [|x' fl|fl]; cbn.
  - destruct (mem (FTmp k) (disk s)); cbn; (split; [|split; discriminate]); auto.
    repeat split; cbn; auto using remove_nodup, others_remove_tmp, doc_old_remove_tmp.
  - split; [|split; discriminate]. exact HB.
  - split; [|split; discriminate]. unfold crash_st. rewrite D. repeat split; auto.
Qed.
Lemma cleanup_Safe fc x s : Safe s ->
  let r := cleanup_run (cleanup_of k) pl fc x s in
  Safe (fin r) /\ out r <> OStuck /\ out r <> ODone.
Proof.
  intros (A & B & C & D). unfold cleanup_run, cleanup_of.
  destruct fc as [|x' fl|fl]; cbn.
  - destruct (mem (FTmp k) (disk s)); cbn; (split; [|split; discriminate]).
    + repeat split; cbn; auto using remove_nodup, others_remove_tmp.
      destruct C; [left|right]; auto using doc_old_remove_tmp, doc_new_remove_tmp.
    + repeat split; auto.
  - split; [|split; discriminate]. repeat split; auto.
  - split; [|split; discriminate]. unfold crash_st. rewrite D. repeat split; auto.
Qed.

Definition handler (g : bool) (fc : fk) (x : exn) (s : st) : result :=
  if g then cleanup_run (cleanup_of k) pl fc x s else mkres (ORaised x) s [].
Lemma handler_Before g fc x s : Before s ->
  Before (fin (handler g fc x s)) /\ out (handler g fc x s) <> OStuck /\ out (handler g fc x s) <> ODone.
Proof.
  intros H. destruct g; cbn; [now apply cleanup_Before|]. split; [exact H|split; discriminate].
Qed.
Lemma handler_Safe g fc x s : Safe s ->
  Safe (fin (handler g fc x s)) /\ out (handler g fc x s) <> OStuck /\ out (handler g fc x s) <> ODone.
Proof.
  intros H. destruct g; cbn; [now apply cleanup_Safe|]. split; [exact H|split; discriminate].
Qed.

(* phase reached when every effect succeeds *)
Fixpoint last_phase (ph : phase) (p : list (eff * bool)) : phase :=
  match p with
  | [] => ph
  | (e, _) :: r => match next k ph e with Some ph' => last_phase ph' r | None => ph end
  end.

(* one effect from a state satisfying the invariant of its phase: under a crash or an injected
   exception the state is Before (phases < P5) resp. Safe; a natural outcome is either a raise from
   a Before state or success into the next phase's invariant *)
Lemma step_crash ph e ph' s fl : next k ph e = Some ph' -> Inv ph s ->
  Safe (crash_st e fl s) /\ (ph' <> P5 \/ ph = P4 -> Before (crash_st e fl s)).
Proof.
  intros Hn (A & B & HI). unfold crash_st.
  destruct ph; cbn in HI.
  - destruct HI as (C & D & U). rewrite D. split; [|intros _]; repeat split; cbn; auto; apply U.
  - destruct HI as (C & D & U & _). rewrite D. split; [|intros _]; repeat split; cbn; auto; apply U.
  - destruct HI as (C & U & v & Ep & Ed & Ew). rewrite Ew.
    assert (HB : forall c, Before (mkst (set (FTmp k) c (disk s)) None None (cached s) (sourced s))).
    { intros c. apply Before_tmp_content; auto; apply U. }
    split; [apply Before_Safe|intros _]; apply HB.
  - destruct HI as (C & U & v & Ep & Ed & Ew). rewrite Ew.
    assert (HB : forall c, Before (mkst (set (FTmp k) c (disk s)) None None (cached s) (sourced s))).
    { intros c. apply Before_tmp_content; auto; apply U. }
    split; [apply Before_Safe|intros _]; apply HB.
  - destruct HI as (C & D & U & _). rewrite D. split; [|intros _]; repeat split; cbn; auto; apply U.
  - destruct HI as (C & D). rewrite D. split.
    + repeat split; cbn; auto.
    + destruct e; cbn in Hn; try discriminate; inversion Hn; subst; intros [H|H]; congruence.
Qed.

Lemma step_injected ph e ph' s fl : next k ph e = Some ph' -> Inv ph s ->
  Safe (injected e fl s) /\ (ph' <> P5 \/ ph = P4 -> Before (injected e fl s)).
Proof.
  intros Hn (A & B & HI).
  destruct ph; cbn in HI.
  - destruct HI as (C & D & U).
    assert (HB : Before s) by (repeat split; auto; apply U).
    destruct e; cbn in Hn; try discriminate; cbn; auto using Before_Safe.
  - destruct HI as (C & D & U & _).
    assert (HB : Before s) by (repeat split; auto; apply U).
    destruct e; cbn in Hn; try discriminate; cbn; auto using Before_Safe.
  - destruct HI as (C & U & v & Ep & Ed & Ew).
    destruct e; cbn in Hn; try discriminate.
    destruct (fname_eqb_spec f (FTmp k)) as [->|]; [|discriminate].
    unfold injected. rewrite Ew, fname_eqb_refl.
    assert (HB : Before (mkst (set (FTmp k) (resolve fl (data s)) (disk s)) None (data s) (cached s) (sourced s))).
    { apply Before_tmp_content; auto; apply U. }
    split; [apply Before_Safe|intros _]; apply HB.
  - destruct HI as (C & U & v & Ep & Ed & Ew).
    destruct e; cbn in Hn; try discriminate.
    destruct (fname_eqb_spec f (FTmp k)) as [->|]; [|discriminate].
    unfold injected. rewrite Ew, fname_eqb_refl.
    assert (HB : Before (mkst (set (FTmp k) (resolve fl (Some v)) (disk s)) None (data s) (cached s) (sourced s))).
    { apply Before_tmp_content; auto; apply U. }
    split; [apply Before_Safe|intros _]; apply HB.
  - destruct HI as (C & D & U & _).
    assert (HB : Before s) by (repeat split; auto; apply U).
    destruct e; cbn in Hn; try discriminate; cbn; auto using Before_Safe.
  - destruct HI as (C & D).
    assert (HS : Safe s) by (repeat split; auto).
    destruct e; cbn in Hn; try discriminate; inversion Hn; subst; cbn; (split; [exact HS|intros [H|H]; congruence]).
Qed.

Lemma step_natural ph e ph' s : next k ph e = Some ph' -> Inv ph s ->
  match natural e pl s with
  | SOk s' => Inv ph' s'
  | SRaise x s' => Before s' /\ ph' <> P5
  | SStuck => False
  end.
Proof.
  intros Hn (A & B & HI).
  destruct ph; cbn in HI.
  - (* P0 *) destruct HI as (C & D & U).
    destruct e; cbn in Hn; try discriminate; inversion Hn; subst; cbn.
    + destruct (mem f (disk s)); [split; [repeat split; auto; apply U|discriminate]|].
      repeat split; auto; apply U.
    + destruct pl as [v|x] eqn:Ep; [|split; [repeat split; auto; apply U|discriminate]].
      repeat split; cbn; auto; try apply U. exists v. auto.
  - (* P1 *) destruct HI as (C & D & U & v & Ep & Ed).
    destruct e; cbn in Hn; try discriminate.
    + inversion Hn; subst. cbn.
      destruct (mem f (disk s)); [split; [repeat split; auto; apply U|discriminate]|].
      repeat split; auto; try apply U. exists v; auto.
    + destruct (fname_eqb_spec f (FTmp k)) as [->|]; [|discriminate]. inversion Hn; subst.
      unfold natural. rewrite D. repeat split; cbn; auto using set_nodup, others_set_tmp, doc_old_set_tmp; try apply U.
      exists v. auto.
  - (* P2 *) destruct HI as (C & U & v & Ep & Ed & Ew).
    destruct e; cbn in Hn; try discriminate.
    destruct (fname_eqb_spec f (FTmp k)) as [->|]; [|discriminate]. inversion Hn; subst.
    unfold natural. rewrite Ew, Ed, fname_eqb_refl. repeat split; cbn; auto; try apply U. exists v. auto.
  - (* P3 *) destruct HI as (C & U & v & Ep & Ed & Ew).
    destruct e; cbn in Hn; try discriminate.
    destruct (fname_eqb_spec f (FTmp k)) as [->|]; [|discriminate]. inversion Hn; subst.
    unfold natural. rewrite Ew, fname_eqb_refl.
    repeat split; cbn; auto using set_nodup, others_set_tmp, doc_old_set_tmp; try apply U.
    exists v. split; auto. apply lookup_set_eq.
  - (* P4 *) destruct HI as (C & D & U & v & Ep & Et).
    destruct e; cbn in Hn; try discriminate.
    destruct (fname_eqb_spec a (FTmp k)) as [->|]; [|discriminate].
    destruct (fname_eqb_spec b (FDoc k)) as [->|]; [|discriminate]. inversion Hn; subst.
    unfold natural. rewrite Et. repeat split; cbn; auto using set_nodup, remove_nodup.
    + intros f H1 H2. rewrite lookup_set_neq, lookup_remove_neq; auto.
    + exists v. split; auto. apply lookup_set_eq.
  - (* P5 *) destruct HI as (C & D).
    destruct e; cbn in Hn; try discriminate; inversion Hn; subst; cbn; repeat split; auto.
Qed.

(* P5 is only entered from P4 *)
Lemma next_P5 ph e : next k ph e = Some P5 -> ph = P4 \/ (ph = P5 /\ is_mem e = true).
Proof.
  destruct ph, e; cbn; try discriminate; auto;
    try (destruct (fname_eqb _ _); discriminate).
Qed.
Lemma next_mem_P5 ph e ph' : next k ph e = Some ph' -> is_mem e = true -> ph = P5 /\ ph' = P5.
Proof. destruct ph, e; cbn; try discriminate; intros H _; inversion H; auto. Qed.
Lemma next_from_P5 e ph' : next k P5 e = Some ph' -> is_mem e = true /\ ph' = P5.
Proof. destruct e; cbn; try discriminate; intros H; inversion H; auto. Qed.

Lemma out_push e r : out (push e r) = out r. Proof. reflexivity. Qed.
Lemma fin_push e r : fin (push e r) = fin r. Proof. reflexivity. Qed.

(* what holds of the directory whenever the procedure has stopped *)
Definition Safe0 (d : fs) : Prop :=
  NoDup (map fst d) /\ others_same d /\ (doc_old d \/ doc_new d).
Lemma Safe_Safe0 s : Safe s -> Safe0 (disk s).
Proof. intros (A & B & C & _). repeat split; auto. Qed.
Lemma Before_Safe0 s : Before s -> Safe0 (disk s).
Proof. intros H. apply Safe_Safe0, Before_Safe, H. Qed.
Lemma Inv_Safe0 ph s : Inv ph s -> Safe0 (disk s).
Proof.
  intros (A & B & HI). split; [exact A|]. split; [exact B|].
  destruct ph; cbn in HI; try (left; apply HI). right; apply HI.
Qed.

Lemma last_phase_P5 q : disc k P5 q = true -> last_phase P5 q = P5.
Proof.
  induction q as [|[e g] q IH]; cbn; auto.
  destruct (next k P5 e) as [p'|] eqn:E; [|discriminate].
  apply next_from_P5 in E. destruct E as [_ ->]. exact IH.
Qed.

Lemma io_step e g r F : io_faults_only ((e, g) :: r) F = true ->
  (forall x fl, hd_fault F = FRaise x fl -> is_mem e = false) /\ io_faults_only r (tl_fault F) = true.
Proof.
  destruct F as [|f F']; cbn.
  - intros _. split; [discriminate|]. destruct r as [|[? ?] ?]; reflexivity.
  - intros H. apply andb_prop in H. destruct H as [H1 H2]. split; [|exact H2].
    intros x fl ->. destruct (is_mem e); [discriminate|reflexivity].
Qed.

(* main lemma: induction over the effect list *)
Lemma run_inv p : forall ph F fc s, disc k ph p = true -> Inv ph s ->
  let r := run p (cleanup_of k) pl F fc s in
  Safe0 (disk (fin r)) /\ out r <> OStuck /\
  (out r = ODone -> Inv (last_phase ph p) (fin r)) /\
  (forall x, out r = ORaised x -> io_faults_only p F = true -> ph <> P5 /\ Before (fin r)).
Proof.
  induction p as [|[e g] r IH]; intros ph F fc s Hd HI.
  - cbn. split; [eapply Inv_Safe0; eauto|]. split; [discriminate|]. split; [auto|discriminate].
  - cbn in Hd. destruct (next k ph e) as [ph'|] eqn:Hn; [|discriminate].
    assert (HP5 : ph = P5 -> ph' = P5) by (intros ->; apply next_from_P5 in Hn; tauto).
    cbn [run last_phase]. rewrite Hn.
    destruct (hd_fault F) as [|x fl|fl] eqn:HF.
    + (* no injected fault *)
      pose proof (step_natural ph e ph' s Hn HI) as Hnat.
      destruct (natural e pl s) as [s'|x s'|]; [| |contradiction].
      * specialize (IH ph' (tl_fault F) fc s' Hd Hnat). cbn zeta in IH.
        destruct IH as (I1 & I2 & I3 & I4).
        rewrite out_push, fin_push. split; [exact I1|]. split; [exact I2|]. split; [exact I3|].
        intros x Hx Hio. apply io_step in Hio. destruct Hio as [_ Hio].
        destruct (I4 x Hx Hio) as [Hne HB]. split; [|exact HB]. intros E. apply Hne, HP5, E.
      * destruct Hnat as [HB Hne]. fold (handler g fc x s').
        destruct (handler_Before g fc x s' HB) as (H1 & H2 & H3).
        rewrite out_push, fin_push. split; [apply Before_Safe0, H1|]. split; [exact H2|].
        split; [intros E; contradiction|]. intros x0 _ _. split; [|exact H1]. intros E. apply Hne, HP5, E.
    + (* the effect raises an injected exception *)
      destruct (step_injected ph e ph' s fl Hn HI) as [HS HB].
      fold (handler g fc x (injected e fl s)). rewrite out_push, fin_push.
      destruct (handler_Safe g fc x _ HS) as (H1 & H2 & H3).
      split; [apply Safe_Safe0, H1|]. split; [exact H2|]. split; [intros E; contradiction|].
      intros x0 _ Hio. apply io_step in Hio. destruct Hio as [Hm _]. specialize (Hm x fl HF).
      assert (Hne : ph <> P5).
      { intros ->. apply next_from_P5 in Hn. destruct Hn as [Hm' _]. congruence. }
      split; [exact Hne|]. apply handler_Before. apply HB.
      destruct ph'; try (left; discriminate). apply next_P5 in Hn.
      destruct Hn as [->|[E _]]; [right; reflexivity|contradiction].
    + (* the process dies *)
      destruct (step_crash ph e ph' s fl Hn HI) as [HS HB]. cbn.
      split; [apply Safe_Safe0, HS|]. split; [discriminate|]. split; discriminate.
Qed.

End Safety.

(* ---------- exported lemmas ------------------------------------------------ *)

Lemma fresh_Inv k d0 pl : NoDup (map fst d0) -> Inv k d0 pl false false P0 (fresh_st d0).
Proof.
  intros H. split; [exact H|]. split; [intros f _ _; reflexivity|]. cbn. repeat split.
Qed.

Lemma Safe0_wf k d0 pl d : wf d0 -> Safe0 k d0 pl d -> wf d.
Proof.
  intros [_ Hfull] (A & B & C). split; [exact A|]. intros k' c Hc.
  destruct (Nat.eq_dec k' k) as [->|Hn].
  - destruct C as [C|[v [_ C]]].
    + unfold doc_old in C. rewrite C in Hc. eauto.
    + rewrite C in Hc. inversion Hc. eauto.
  - rewrite B in Hc; [eauto|congruence|discriminate].
Qed.

Lemma safe_generic k p pl F fc d0 : disc k P0 p = true -> wf d0 ->
  let r := run p (cleanup_of k) pl F fc (fresh_st d0) in
  let d := disk (fin r) in
  out r <> OStuck /\
  (forall f, f <> FDoc k -> f <> FTmp k -> lookup f d = lookup f d0) /\
  (lookup (FDoc k) d = lookup (FDoc k) d0 \/ exists v, pl = Good v /\ lookup (FDoc k) d = Some (Full v)) /\
  wf d /\ answers_ok d.
Proof.
  intros Hd Hwf r d.
  destruct (run_inv k d0 pl false false p P0 F fc (fresh_st d0) Hd (fresh_Inv k d0 pl (proj1 Hwf)))
    as (HS & Hst & _ & _).
  fold r in HS, Hst. fold d in HS.
  assert (Hw : wf d) by (eapply Safe0_wf; eauto).
  destruct HS as (A & B & C).
  split; [exact Hst|]. split; [exact B|]. split; [exact C|]. split; [exact Hw|]. apply wf_answers, Hw.
Qed.

Lemma disc_write_document k : disc k P0 (write_document k) = true.
Proof. cbn. now rewrite Nat.eqb_refl. Qed.
Lemma disc_add k : disc k P0 (add_proc k) = true.
Proof. cbn. now rewrite Nat.eqb_refl. Qed.
Lemma disc_commit k : disc k P0 (commit_proc k) = true.
Proof. apply disc_write_document. Qed.
Lemma last_phase_add k : last_phase k P0 (add_proc k) = P5.
Proof. cbn. now rewrite Nat.eqb_refl. Qed.
Lemma last_phase_commit k : last_phase k P0 (commit_proc k) = P5.
Proof. cbn. now rewrite Nat.eqb_refl. Qed.

(* a failed write: nothing happened to the document and the object is not marked as stored *)
Lemma raised_reports k p pl F fc d0 x : disc k P0 p = true -> NoDup (map fst d0) ->
  let r := run p (cleanup_of k) pl F fc (fresh_st d0) in
  out r = ORaised x -> io_faults_only p F = true ->
  lookup (FDoc k) (disk (fin r)) = lookup (FDoc k) d0 /\ cached (fin r) = false /\ sourced (fin r) = false /\
  wr (fin r) = None.
Proof.
  intros Hd Hnd r Hx Hio.
  destruct (run_inv k d0 pl false false p P0 F fc (fresh_st d0) Hd (fresh_Inv k d0 pl Hnd)) as (_ & _ & _ & H).
  destruct (H x Hx Hio) as [_ (A & B & C & D & U1 & U2)]. auto.
Qed.

(* a completed write *)
Definition is_ci (e : eff) : bool := match e with ECacheInsert => true | _ => false end.
Definition is_ss (e : eff) : bool := match e with ESetSource => true | _ => false end.
Lemma natural_marks e pl s s' : natural e pl s = SOk s' ->
  cached s' = cached s || is_ci e /\ sourced s' = sourced s || is_ss e.
Proof.
  destruct e; cbn.
  - destruct (mem f (disk s)); [discriminate|]. intros H; inversion H; subst. now rewrite !orb_false_r.
  - destruct pl; [|discriminate]. intros H; inversion H; subst. cbn. now rewrite !orb_false_r.
  - destruct (wr s); [discriminate|]. intros H; inversion H; subst. cbn. now rewrite !orb_false_r.
  - destruct (wr s) as [[g w]|]; [|discriminate]. destruct (data s); [|discriminate].
    destruct (fname_eqb f g); [|discriminate]. intros H; inversion H; subst. cbn. now rewrite !orb_false_r.
  - destruct (wr s) as [[g w]|]; [|discriminate].
    destruct (fname_eqb f g); [|discriminate]. intros H; inversion H; subst. cbn. now rewrite !orb_false_r.
  - destruct (lookup a (disk s)); [|discriminate]. intros H; inversion H; subst. cbn. now rewrite !orb_false_r.
  - destruct (mem f (disk s)); [|discriminate]. intros H; inversion H; subst. cbn. now rewrite !orb_false_r.
  - intros H; inversion H; subst. cbn. now rewrite orb_true_r, orb_false_r.
  - intros H; inversion H; subst. cbn. now rewrite orb_true_r, orb_false_r.
Qed.
Lemma cleanup_not_done c pl fc x s : out (cleanup_run c pl fc x s) <> ODone.
Proof.
  unfold cleanup_run. destruct fc; cbn; try discriminate. destruct (natural c pl s); cbn; discriminate.
Qed.
Lemma done_marks p : forall c pl F fc s, out (run p c pl F fc s) = ODone ->
  cached (fin (run p c pl F fc s)) = cached s || existsb (fun eg => is_ci (fst eg)) p /\
  sourced (fin (run p c pl F fc s)) = sourced s || existsb (fun eg => is_ss (fst eg)) p.
Proof.
  induction p as [|[e g] r IH]; intros c pl F fc s; cbn [run].
  - cbn. now rewrite !orb_false_r.
  - destruct (hd_fault F); [| |cbn; discriminate].
    + destruct (natural e pl s) as [s'|x s'|] eqn:E; [| |cbn; discriminate].
      * rewrite out_push, fin_push. intros H. destruct (IH c pl (tl_fault F) fc s' H) as [H1 H2].
        destruct (natural_marks e pl s s' E) as [M1 M2]. cbn [existsb fst].
        rewrite H1, H2, M1, M2, !orb_assoc. auto.
      * rewrite out_push. destruct g; cbn; [|discriminate]. intros H. now apply cleanup_not_done in H.
    + rewrite out_push. destruct g; cbn; [|discriminate]. intros H. now apply cleanup_not_done in H.
Qed.

Lemma add_done k pl F fc d0 : wf d0 ->
  let r := run (add_proc k) (cleanup_of k) pl F fc (fresh_st d0) in
  out r = ODone ->
  lookup (FDoc k) d0 = None /\
  (exists v, pl = Good v /\ lookup (FDoc k) (disk (fin r)) = Some (Full v)) /\
  cached (fin r) = true /\ sourced (fin r) = true.
Proof.
  intros Hwf r Hdone.
  destruct (run_inv k d0 pl false false (add_proc k) P0 F fc (fresh_st d0) (disc_add k)
                    (fresh_Inv k d0 pl (proj1 Hwf))) as (_ & _ & H & _).
  fold r in H. specialize (H Hdone). rewrite last_phase_add in H. destruct H as (_ & _ & Hnew & _).
  destruct (done_marks (add_proc k) (cleanup_of k) pl F fc (fresh_st d0) Hdone) as [M1 M2].
  fold r in M1, M2. split; [|split; [exact Hnew|split; [exact M1|exact M2]]].
  (* the exists check passed *)
  unfold r in Hdone. unfold add_proc in Hdone. cbn [run] in Hdone.
  destruct (hd_fault F); [| cbn in Hdone; discriminate | cbn in Hdone; discriminate].
  unfold natural in Hdone. cbn [disk fresh_st] in Hdone. unfold mem in Hdone.
  destruct (lookup (FDoc k) d0); [cbn in Hdone; discriminate|reflexivity].
Qed.
Lemma commit_done k pl F fc d0 : wf d0 ->
  let r := run (commit_proc k) (cleanup_of k) pl F fc (fresh_st d0) in
  out r = ODone -> exists v, pl = Good v /\ lookup (FDoc k) (disk (fin r)) = Some (Full v).
Proof.
  intros Hwf r Hdone.
  destruct (run_inv k d0 pl false false (commit_proc k) P0 F fc (fresh_st d0) (disc_commit k)
                    (fresh_Inv k d0 pl (proj1 Hwf))) as (_ & _ & H & _).
  fold r in H. specialize (H Hdone). rewrite last_phase_commit in H. apply H.
Qed.

(* ---------- histories -------------------------------------------------------- *)

Lemma disc_wproc o : disc (wkey o) P0 (wproc o) = true.
Proof. destruct o; cbn [wkey wproc]; [apply disc_add|apply disc_commit]. Qed.

Lemma exec_op_atomic o F fc d : wf d ->
  let d' := disk (fin (exec_op o F fc d)) in
  wf d' /\
  (forall f, f <> FDoc (wkey o) -> f <> FTmp (wkey o) -> lookup f d' = lookup f d) /\
  exists took, forall k, vmap d' k = spec_step (vmap d) o took k.
Proof.
  intros Hwf d'.
  destruct (safe_generic (wkey o) (wproc o) (wpl o) F fc d (disc_wproc o) Hwf) as (_ & B & C & W & _).
  fold (exec_op o F fc d) in B, C, W. fold d' in B, C, W.
  split; [exact W|]. split; [exact B|].
  assert (Hoth : forall k, k <> wkey o -> vmap d' k = vmap d k).
  { intros k Hk. unfold vmap. rewrite B; [reflexivity|congruence|discriminate]. }
  destruct C as [C|[v [Ep C]]].
  - exists false. intros k. unfold spec_step. destruct (wpl o); cbn.
    + destruct (Nat.eq_dec k (wkey o)) as [->|Hn]; [unfold vmap; now rewrite C|auto].
    + destruct (Nat.eq_dec k (wkey o)) as [->|Hn]; [unfold vmap; now rewrite C|auto].
  - exists true. intros k. unfold spec_step. rewrite Ep.
    destruct (Nat.eqb_spec k (wkey o)) as [->|Hn]; [unfold vmap; now rewrite C|auto].
Qed.

Lemma spec_hist_ext h : forall m1 m2, (forall k, m1 k = m2 k) -> forall k, spec_hist m1 h k = spec_hist m2 h k.
Proof.
  induction h as [|[o t] r IH]; cbn; auto.
  intros m1 m2 H. apply IH. intros k. unfold spec_step. destruct (wpl o); auto.
  destruct t; auto. destruct (Nat.eqb k (wkey o)); auto.
Qed.

Lemma hist_atomic h : forall d0, wf d0 ->
  wf (exec_hist h d0) /\
  (forall n, lookup (FOther n) (exec_hist h d0) = lookup (FOther n) d0) /\
  exists tk, List.length tk = List.length h /\
             forall k, vmap (exec_hist h d0) k = spec_hist (vmap d0) (combine (map fst h) tk) k.
Proof.
  induction h as [|[o [F fc]] r IH]; intros d0 Hwf.
  - cbn. split; [exact Hwf|]. split; [auto|]. exists []. auto.
  - cbn [exec_hist]. destruct (exec_op_atomic o F fc d0 Hwf) as (W & B & [t Ht]).
    destruct (IH _ W) as (W' & B' & [tk [Hl Hk]]).
    split; [exact W'|]. split.
    + intros n. rewrite B'. apply B; discriminate.
    + exists (t :: tk). split; [cbn; congruence|]. intros k. rewrite Hk. cbn.
      apply spec_hist_ext. exact Ht.
Qed.

(* ---------- the procedures before the repair are unsafe ----------------------- *)

Lemma pinned_add_unsafe :
  let d0 := [(FDoc 1, Full 7)] in
  let r := run (pinned_add 0) (cleanup_of 0) (Bad 3) [] FNone (fresh_st d0) in
  wf d0 /\ out r = ORaised 3 /\ r_contains (disk (fin r)) 0 = true /\ r_len (disk (fin r)) = 2 /\
  r_get (disk (fin r)) 0 = ADecodeError /\ r_iter (disk (fin r)) = None.
Proof.
  split.
  - split; [repeat constructor; cbn; intuition discriminate|].
    intros k c. cbn. destruct k as [|[|k]]; cbn; intros H; inversion H; eauto.
  - vm_compute. repeat split; reflexivity.
Qed.
Lemma pinned_commit_unsafe :
  let d0 := [(FDoc 0, Full 1)] in
  let r := run (pinned_commit 0) (cleanup_of 0) (Bad 3) [] FNone (fresh_st d0) in
  wf d0 /\ out r = ORaised 3 /\ lookup (FDoc 0) (disk (fin r)) = Some (Trunc 0%Z) /\
  r_get (disk (fin r)) 0 = ADecodeError /\ r_iter (disk (fin r)) = None.
Proof.
  split.
  - split; [repeat constructor; cbn; intuition discriminate|].
    intros k c. cbn. destruct k as [|k]; cbn; intros H; inversion H; eauto.
  - vm_compute. repeat split; reflexivity.
Qed.
Lemma pinned_add_crash_unsafe :
  let r := run (pinned_add 0) (cleanup_of 0) (Good 5) [FNone; FNone; FNone; FCrash (Some 10%Z)] FNone (fresh_st []) in
  out r = OCrashed /\ r_contains (disk (fin r)) 0 = true /\ r_get (disk (fin r)) 0 = ADecodeError.
Proof. vm_compute. repeat split; reflexivity. Qed.

(* ---------- what a concurrent reader finds while a write is in progress ---------- *)

(* The directory at the moment the writer is inside its (n+1)-th effect, with whatever part [fl]
   of the buffered data has reached the temporary file, is the directory found after the process
   died there: [run] with n fault-free effects followed by FCrash. *)
Definition paused_at (n : nat) (fl : option Z) : list fk := repeat FNone n ++ [FCrash fl].

Lemma observer_view k p pl n fl d0 : disc k P0 p = true -> wf d0 ->
  let d := disk (fin (run p (cleanup_of k) pl (paused_at n fl) FNone (fresh_st d0))) in
  (forall f, f <> FDoc k -> f <> FTmp k -> lookup f d = lookup f d0) /\
  (lookup (FDoc k) d = lookup (FDoc k) d0 \/ exists v, pl = Good v /\ lookup (FDoc k) d = Some (Full v)) /\
  answers_ok d.
Proof.
  intros Hd Hwf d.
  destruct (safe_generic k p pl (paused_at n fl) FNone d0 Hd Hwf) as (_ & A & B & _ & C).
  auto.
Qed.
