(* Observation function for the correspondence check of model/Namespace.v against the SDK:
   what a client sees through the public API after each call (tools/c01.py computes the same
   rows on the real objects). *)
From Coq Require Import List ZArith Bool String Ascii Arith.
From Basyx Require Import model.Corr model.Namespace.
Import ListNotations.
Local Open Scope Z_scope.

Definition zn (n : nat) : Z := Z.of_nat n.

Definition enc_err (x : err) : list Z :=
  match x with
  | EValue => [1] | EKey => [2] | EIndex => [3] | EType => [4]
  | EAasd n => [100 + zn n]
  | ENoMethod => [9]
  | EIter => [5]
  | EInternal => [99]
  end.
Definition enc_out (o : outcome) : list Z :=
  match o with Ok => [0] | OkV e => [0; zn e] | Err x => enc_err x end.

Fixpoint name_index (k : string) (names : list string) (i : Z) : Z :=
  match names with
  | [] => -9
  | n :: r => if String.eqb k n then i else name_index k r (i + 1)
  end.
Definition enc_key (k : option key) (names : list string) : Z :=
  match k with
  | None => -1
  | Some (KGen _) => -2
  | Some (KName s) => name_index s names 0
  end.
Definition enc_onat (o : option nat) : Z := match o with None => -1 | Some n => zn n end.

(* one collection: len(), iteration, "x in set" for every pool element, get(attr, name) for
   every pool name *)
Definition obs_set (c : cfg) (s : state) (o : nat) (i : nat) (n : nat) (names : list string) : list Z :=
  match nth_error (sets s) i with
  | None => [20; zn o; -7]
  | Some st =>
      [20; zn o; zn (List.length (s_backend st)); zb (is_some (s_order st))]
      ++ map zn (iter_set st) ++ [-5]
      ++ map (fun e => zb (contains c s i e)) (seq 0 n) ++ [-5]
      ++ map (fun nm => enc_onat (dget (norm c (KName nm)) (s_backend st))) names
  end.

(* Namespace._get_object: first set of the owner that knows the key *)
Fixpoint owner_lookup (c : cfg) (s : state) (idxs : list nat) (k : key) : option nat :=
  match idxs with
  | [] => None
  | i :: r => match nth_error (sets s) i with
              | Some st => match dget (norm c k) (s_backend st) with
                           | Some e => Some e
                           | None => owner_lookup c s r k
                           end
              | None => owner_lookup c s r k
              end
  end.
Definition first_hook_set (s : state) (o : nat) : option nset :=
  find (fun st => Nat.eqb (s_owner st) o && is_some (s_hooks st)) (sets s).
(* get_referable / get_qualifier_by_type / get_extension_by_name for every pool name; for a
   SubmodelElementList get_referable(str(j)) for j < n *)
Definition obs_owner (c : cfg) (s : state) (o : nat) (n : nat) (names : list string) : list Z :=
  if owner_is_list s o then
    31 :: zn o :: match first_hook_set s o with
                  | Some st => map (fun j => enc_onat (nth_error (iter_set st) j)) (seq 0 n)
                  | None => []
                  end
  else 30 :: zn o :: map (fun nm => enc_onat (owner_lookup c s (owner_sets s o) (KName nm))) names.

Definition obs_elem (s : state) (e : nat) (names : list string) : list Z :=
  let el := elems s e in
  [40; enc_onat (e_parent el); enc_key (e_key el) names; enc_onat (e_sem el)].

Definition observe (c : cfg) (s : state) (out : outcome) (live : list nat) (n : nat)
           (names : list string) : list (list Z) :=
  enc_out out
  :: flat_map (fun o => map (fun i => obs_set c s o i n names) (owner_sets s o) ++ [obs_owner c s o n names]) live
  ++ map (fun e => obs_elem s e names) (seq 0 n).

(* owners whose constructor returned are visible to the client *)
Definition live_after (live : list nat) (p : op) (out : outcome) : list nat :=
  match p, out with
  | Construct o _ _ _, Ok => if existsb (Nat.eqb o) live then live else live ++ [o]
  | _, _ => live
  end.

Fixpoint trace (c : cfg) (s : state) (live : list nat) (ops : list op) (n : nat)
         (names : list string) : list (list (list Z)) :=
  match ops with
  | [] => []
  | p :: r => let '(s', out) := step c s p in
              let live' := live_after live p out in
              observe c s' out live' n names :: trace c s' live' r n names
  end.

Definition pool_fun (pool : list elem) : nat -> elem :=
  fun e => nth e pool (mkelem None None 0 0 None).

Definition check_case (cs : cfg * list elem * list string * list op * Z) : bool :=
  let '(c, pool, names, ops, expected) := cs in
  Z.eqb (hash_zlll 0 (trace c (init (pool_fun pool)) [] ops (List.length pool) names)) expected.
