(* Executable model of the reference machinery of basyx.aas.model (C07), definitions only.

   Sources (sdk/basyx/aas/model):
     base.py  Key.from_referable, ModelReference.__init__ / from_referable / resolve,
              UniqueIdShortNamespace.get_referable, Namespace._get_object
     provider.py  DictObjectStore.get_identifiable, ObjectProviderMultiplexer.get_identifiable
   Class-dependent tables (key type of a class, instance checks, which classes are namespaces / lists /
   identifiables, KeyTypes predicates) are NOT written here: they are regenerated from the source into
   gen/Gen_RefKeys.v on every run.

   A tree node is one Referable: its class, its id (meaningful for Identifiables only), its id_short, its
   `source` (used by model/Dispatch.v, C17) and its children in the iteration order of the id_short-keyed
   NamespaceSets (all sets of the node concatenated; for a SubmodelElementList the list order).
   Children of a SubmodelElementList carry a generated id_short in the SDK; this model never reads the
   key of a list child here, the harness writes None for it.
   Object identity is position: (store index, root index in that store, child positions from the root). *)
From Coq Require Import List ZArith Bool String Ascii Decimal DecimalString.
From Basyx Require Import gen.Gen_RefKeys.
Import ListNotations.
Local Open Scope string_scope.

Inductive tree : Type :=
  Node (c : cls) (ident : string) (k : option string) (src : string) (ch : list tree).

Definition t_cls (t : tree) : cls := match t with Node c _ _ _ _ => c end.
Definition t_id (t : tree) : string := match t with Node _ i _ _ _ => i end.
Definition t_key (t : tree) : option string := match t with Node _ _ k _ _ => k end.
Definition t_src (t : tree) : string := match t with Node _ _ _ s _ => s end.
Definition t_ch (t : tree) : list tree := match t with Node _ _ _ _ ch => ch end.

Definition path := list nat.

Fixpoint addr (t : tree) (p : path) : option tree :=
  match p with
  | [] => Some t
  | i :: r => match nth_error (t_ch t) i with Some c => addr c r | None => None end
  end.

(* Python exception classes that the modelled functions raise *)
Inductive exn : Set :=
  | KeyError | TypeError | ValueError | IndexError | AssertionError | UnexpectedTypeError
  | AASd (n : nat).

Inductive result (A : Type) : Type := Ok (a : A) | Err (e : exn).
Arguments Ok {A} a.
Arguments Err {A} e.

(* ---- int(str) and str(int) on ASCII strings ------------------------------------------------ *)

(* Py_ISSPACE: \t \n \v \f \r and space (int() on an ASCII str strips exactly these) *)
Definition is_space (a : ascii) : bool :=
  let n := nat_of_ascii a in ((9 <=? n)%nat && (n <=? 13)%nat) || (n =? 32)%nat.
Definition is_digit (a : ascii) : bool :=
  let n := nat_of_ascii a in (48 <=? n)%nat && (n <=? 57)%nat.

Fixpoint lstrip (s : string) : string :=
  match s with
  | String a r => if is_space a then lstrip r else s
  | EmptyString => EmptyString
  end.
Fixpoint rstrip (s : string) : string :=
  match s with
  | EmptyString => EmptyString
  | String a r => match rstrip r with
                  | EmptyString => if is_space a then EmptyString else String a EmptyString
                  | r' => String a r'
                  end
  end.

(* digits with single underscores between digits ("1_000"); result = the digits *)
Fixpoint digits_us (s : string) (prev_digit : bool) : option string :=
  match s with
  | EmptyString => if prev_digit then Some EmptyString else None
  | String a r =>
      if is_digit a then match digits_us r true with Some d => Some (String a d) | None => None end
      else if Ascii.eqb a "_"%char then (if prev_digit then digits_us r false else None)
      else None
  end.

(* int(s) for an ASCII str s: None = ValueError *)
Definition py_int (s : string) : option Z :=
  let s1 := rstrip (lstrip s) in
  let '(neg, body) := match s1 with
                      | String a r => if Ascii.eqb a "-"%char then (true, r)
                                      else if Ascii.eqb a "+"%char then (false, r)
                                      else (false, s1)
                      | EmptyString => (false, s1)
                      end in
  match digits_us body false with
  | None => None
  | Some d => match NilEmpty.uint_of_string d with
              | Some u => Some (if neg then (- Z.of_uint u)%Z else Z.of_uint u)
              | None => None
              end
  end.

(* str(i) for a list position i *)
Definition index_str (i : nat) : string := NilEmpty.string_of_uint (N.to_uint (N.of_nat i)).

(* str.isnumeric() on ASCII strings: non-empty, digits only *)
Fixpoint all_digits (s : string) : bool :=
  match s with EmptyString => true | String a r => is_digit a && all_digits r end.
Definition isnumeric (s : string) : bool :=
  match s with EmptyString => false | _ => all_digits s end.

(* ---- keys and the ModelReference constructor ------------------------------------------------ *)

Definition key := (keytype * string)%type.

(* for pk, k in zip(key, key[1:]): AASd-127, AASd-128 (in this order per pair) *)
Fixpoint check_pairs (ks : list key) : option exn :=
  match ks with
  | pk :: ((k :: _) as r) =>
      if keytype_eqb (fst k) KT_FRAGMENT_REFERENCE
         && negb (keytype_eqb (fst pk) KT_BLOB || keytype_eqb (fst pk) KT_FILE) then Some (AASd 127)
      else if keytype_eqb (fst pk) KT_SUBMODEL_ELEMENT_LIST && negb (isnumeric (snd k)) then Some (AASd 128)
      else check_pairs r
  | _ => None
  end.

(* ModelReference.__init__ (base.py:998-1019): None = constructed, Some e = raised *)
Definition model_ref_check (ks : list key) : option exn :=
  match ks with
  | [] => Some ValueError
  | k0 :: rest =>
      if negb (is_aas_identifiable (fst k0)) then Some (AASd 123)
      else if existsb (fun k => negb (is_fragment_key_element (fst k))) rest then Some (AASd 125)
      else if negb (is_generic_fragment_key (fst (last ks k0)))
              && existsb (fun k => is_generic_fragment_key (fst k)) (removelast ks) then Some (AASd 126)
      else check_pairs ks
  end.

(* ---- Key.from_referable / ModelReference.from_referable -------------------------------------- *)

(* a Referable together with its parent and its position among the parent's children *)
Definition frame := (tree * option (tree * nat))%type.

(* the chain node, parent, grandparent, ... root (what the `ref = ref.parent` loop visits) *)
Fixpoint spine (t : tree) (par : option (tree * nat)) (p : path) (acc : list frame) : option (list frame) :=
  match p with
  | [] => Some ((t, par) :: acc)
  | i :: r => match nth_error (t_ch t) i with
              | Some c => spine c (Some (t, i)) r ((t, par) :: acc)
              | None => None
              end
  end.

(* Key.from_referable (base.py:448-475) *)
Definition key_from_referable (f : frame) : result key :=
  let '(n, par) := f in
  let kt := key_type_of (t_cls n) in
  if is_identifiable (t_cls n) then Ok (kt, t_id n)
  else
    let by_id_short := match t_key n with
                       | None => Err ValueError
                       | Some s => Ok (kt, s)
                       end in
    match par with
    | Some (pt, i) => if is_list (t_cls pt) then Ok (kt, index_str i) else by_id_short
    | None => by_id_short
    end.

(* the while-loop of ModelReference.from_referable (base.py:1106-1115); frames: node first.
   [] = `ref.parent is None` was reached without meeting an Identifiable *)
Fixpoint from_ref_up (frames : list frame) (keys : list key) : result (list key) :=
  match frames with
  | [] => Err ValueError
  | f :: up =>
      match key_from_referable f with
      | Err e => Err e
      | Ok k => if is_identifiable (t_cls (fst f)) then Ok (k :: keys) else from_ref_up up (k :: keys)
      end
  end.

(* ModelReference.from_referable for the node at path p below root t (a root has no parent) *)
Definition from_referable (t : tree) (p : path) : option (result (list key * rtype)) :=
  match spine t None p [], addr t p with
  | Some frames, Some n =>
      Some match from_ref_up frames [] with
           | Err e => Err e
           | Ok ks => match model_ref_check ks with
                      | Some e => Err e
                      | None => Ok (ks, ref_type_of (t_cls n))
                      end
           end
  | _, _ => None      (* p is not a position of t: there is no such object *)
  end.

(* ---- get_referable ---------------------------------------------------------------------------- *)

Definition key_is (id : string) (c : tree) : bool :=
  match t_key c with Some s => String.eqb s id | None => false end.

(* Namespace._get_object over the id_short-keyed sets: first child carrying that id_short *)
Fixpoint find_key (id : string) (l : list tree) (i : nat) : option (nat * tree) :=
  match l with
  | [] => None
  | c :: r => if key_is id c then Some (i, c) else find_key id r (S i)
  end.

(* item.value[index] after the `index < 0 -> IndexError` guard: None = IndexError
   (list.__getitem__ raises IndexError for index >= len; the bound is compared in Z so that huge
   indices are not converted to unary numbers) *)
Definition list_index (l : list tree) (z : Z) : option (nat * tree) :=
  if ((z <? 0) || (Z.of_nat (List.length l) <=? z))%Z then None
  else match nth_error l (Z.to_nat z) with Some c => Some (Z.to_nat z, c) | None => None end.

(* UniqueIdShortNamespace.get_referable (base.py:1723-1761) started at node t *)
Fixpoint get_ref (t : tree) (ids : list string) : result (path * tree) :=
  match ids with
  | [] => Ok ([], t)
  | id :: r =>
      if negb (is_namespace (t_cls t)) then Err TypeError
      else
        let step : result (nat * tree) :=
          if is_list (t_cls t) then
            match py_int id with
            | None => Err ValueError
            | Some z => match list_index (t_ch t) z with Some ic => Ok ic | None => Err KeyError end
            end
          else match find_key id (t_ch t) 0 with Some ic => Ok ic | None => Err KeyError end in
        match step with
        | Err e => Err e
        | Ok (i, c) => match get_ref c r with
                       | Ok (p, n) => Ok (i :: p, n)
                       | Err e => Err e
                       end
        end
  end.

(* ---- providers and resolve ------------------------------------------------------------------------ *)

Definition store := list tree.     (* DictObjectStore: id -> Identifiable, ids distinct *)

Fixpoint store_lookup (s : store) (id : string) (i : nat) : option (nat * tree) :=
  match s with
  | [] => None
  | t :: r => if String.eqb (t_id t) id then Some (i, t) else store_lookup r id (S i)
  end.

(* ObjectProviderMultiplexer.get_identifiable: first provider that does not raise KeyError.
   A single DictObjectStore behaves as the multiplexer over [store]. *)
Fixpoint mux_lookup (prov : list store) (id : string) (si : nat) : option (nat * nat * tree) :=
  match prov with
  | [] => None
  | s :: r => match store_lookup s id 0 with
              | Some (ri, t) => Some (si, ri, t)
              | None => mux_lookup r id (S si)
              end
  end.

(* ModelReference.resolve (base.py:1024-1061) *)
Definition resolve (prov : list store) (ks : list key) (ty : rtype) : result (nat * nat * path) :=
  match ks with
  | [] => Err IndexError
  | (kt, v) :: rest =>
      if negb (is_aas_identifiable kt) then Err AssertionError
      else match mux_lookup prov v 0 with
           | None => Err KeyError
           | Some (si, ri, t) =>
               match get_ref t (map snd rest) with
               | Err e => Err e
               | Ok (p, n) => if instance_of (t_cls n) ty then Ok (si, ri, p) else Err UnexpectedTypeError
               end
           end
  end.

(* ---- specification side: what a key chain / id_short path denotes ----------------------------------- *)

(* the keys below the root for the element at position p: type from the class, value = id_short, or the
   decimal position when the parent is a SubmodelElementList *)
Fixpoint key_chain (t : tree) (p : path) : option (list key) :=
  match p with
  | [] => Some []
  | i :: r =>
      match nth_error (t_ch t) i with
      | None => None
      | Some c =>
          match (if is_list (t_cls t) then Some (index_str i) else t_key c), key_chain c r with
          | Some v, Some ks => Some ((key_type_of (t_cls c), v) :: ks)
          | _, _ => None
          end
      end
  end.

Definition id_short_path (t : tree) (p : path) : option (list string) :=
  match key_chain t p with Some ks => Some (map snd ks) | None => None end.

(* `follows t ids p n`: read as an id_short/index path, ids leads from t along positions p to n.
   An index string denotes position i iff int() reads it as the non-negative number i. *)
Inductive follows : tree -> list string -> path -> tree -> Prop :=
  | F_nil : forall t, follows t [] [] t
  | F_key : forall t id r i c p n,
      is_namespace (t_cls t) = true -> is_list (t_cls t) = false ->
      nth_error (t_ch t) i = Some c -> t_key c = Some id ->
      follows c r p n -> follows t (id :: r) (i :: p) n
  | F_idx : forall t id r i c p n,
      is_namespace (t_cls t) = true -> is_list (t_cls t) = true ->
      py_int id = Some (Z.of_nat i) -> nth_error (t_ch t) i = Some c ->
      follows c r p n -> follows t (id :: r) (i :: p) n.

(* ---- well-formed trees (what C01 guarantees for trees built through the public API) ---------------- *)

Definition keys_of (l : list tree) : list (option string) := map t_key l.

(* local condition at one node *)
Definition node_ok (t : tree) : Prop :=
  (t_ch t <> [] -> is_namespace (t_cls t) = true) /\
  (is_list (t_cls t) = false -> NoDup (keys_of (t_ch t)) /\ ~ In None (keys_of (t_ch t))) /\
  (forall c, In c (t_ch t) -> is_identifiable (t_cls c) = false).

Fixpoint wf_tree (t : tree) : Prop :=
  match t with
  | Node c i k s ch =>
      node_ok (Node c i k s ch) /\
      (fix all (l : list tree) : Prop := match l with [] => True | x :: r => wf_tree x /\ all r end) ch
  end.

Definition ids_of (s : store) : list string := map t_id s.

(* decidable version of wf_tree (used for the Examples and by the correspondence run to confirm that the
   generated trees satisfy the hypotheses of the theorems) *)
Definition okey_eqb (a b : option string) : bool :=
  match a, b with
  | Some x, Some y => String.eqb x y
  | None, None => true
  | _, _ => false
  end.
Fixpoint nodupb (l : list (option string)) : bool :=
  match l with [] => true | x :: r => negb (existsb (okey_eqb x) r) && nodupb r end.
Definition node_okb (t : tree) : bool :=
  (match t_ch t with [] => true | _ => is_namespace (t_cls t) end)
  && (is_list (t_cls t) || (nodupb (keys_of (t_ch t)) && negb (existsb (okey_eqb None) (keys_of (t_ch t)))))
  && forallb (fun c => negb (is_identifiable (t_cls c))) (t_ch t).
Fixpoint wf_treeb (t : tree) : bool :=
  match t with
  | Node c i k s ch =>
      node_okb (Node c i k s ch) &&
      (fix all (l : list tree) : bool := match l with [] => true | x :: r => wf_treeb x && all r end) ch
  end.
Fixpoint nodup_strb (l : list string) : bool :=
  match l with [] => true | x :: r => negb (existsb (String.eqb x) r) && nodup_strb r end.

(* ---- mutation of a tree (C07 over histories): the subtree at position p replaced by n' ------------------- *)
Fixpoint upd_nth {A : Type} (i : nat) (g : A -> A) (l : list A) : list A :=
  match l, i with
  | [], _ => []
  | x :: r, O => g x :: r
  | x :: r, S j => x :: upd_nth j g r
  end.
Definition set_ch (t : tree) (ch : list tree) : tree :=
  match t with Node c i k s _ => Node c i k s ch end.
Fixpoint replace_at (t : tree) (p : path) (n' : tree) : tree :=
  match p with
  | [] => n'
  | i :: r => set_ch t (upd_nth i (fun x => replace_at x r n') (t_ch t))
  end.
