(* Observation encoding for the fault-injection correspondence of model/Crash.v against
   sdk/basyx/aas/backend/local_file.py (tools/c15.py). *)
From Coq Require Import List ZArith Bool.
From Basyx Require Import model.Corr model.Crash.
Import ListNotations.
Local Open Scope Z_scope.

Definition zn (n : nat) : Z := Z.of_nat n.
Definition enc_fname (f : fname) : list Z :=
  match f with FDoc k => [1; zn k] | FTmp k => [2; zn k] | FOther n => [3; zn n] end.
Definition enc_eff (e : eff) : list Z :=
  match e with
  | EExists f => 1 :: enc_fname f
  | EEncode => [2]
  | EOpenW f => 3 :: enc_fname f
  | EWrite f => 4 :: enc_fname f
  | EClose f => 5 :: enc_fname f
  | EReplace a b => 6 :: enc_fname a ++ enc_fname b
  | ERemove f => 7 :: enc_fname f
  | ECacheInsert => [8]
  | ESetSource => [9]
  end.
Definition enc_out (o : outcome) : list Z :=
  match o with ODone => [0] | ORaised x => [1; zn x] | OCrashed => [2] | OStuck => [3] end.
Definition enc_content (c : option content) : list Z :=
  match c with None => [0] | Some (Full v) => [1; zn v] | Some (Trunc n) => [2; n] end.
Definition enc_ans (a : ans) : list Z :=
  match a with AObj v => [1; zn v] | AKeyError => [2] | ADecodeError => [3] end.

(* iteration over the queried keys (ascending, a superset of the stored ones): the directory
   order of os.listdir is not part of the observation *)
Definition obs_iter (d : fs) (keys : list key) : list Z :=
  match r_iter_from d (filter (r_contains d) keys) with
  | None => [0]
  | Some l => 1 :: flat_map (fun kv => [zn (fst kv); zn (snd kv)]) l
  end.

Definition observe (r : result) (names : list fname) (keys : list key) : list (list Z) :=
  let d := disk (fin r) in
  [ enc_out (out r);
    flat_map (fun e => enc_eff e ++ [-1]) (trace r);
    (match out r with OCrashed => [2; 2] | _ => [zb (cached (fin r)); zb (sourced (fin r))] end);
    flat_map (fun f => enc_content (lookup f d) ++ [-1]) names;
    flat_map (fun k => zb (r_contains d k) :: enc_ans (r_get d k) ++ [-1]) keys;
    [zn (r_len d)];
    obs_iter d keys ].

Inductive wkind := KAdd | KCommit.
Definition proc_of (w : wkind) (k : key) : list (eff * bool) :=
  match w with KAdd => add_proc k | KCommit => commit_proc k end.

Record case := mkcase {
  c_kind : wkind; c_key : key; c_pl : payload; c_F : list fk; c_fc : fk; c_d0 : fs;
  c_names : list fname; c_keys : list key; c_retry : bool; c_expected : Z }.

Definition first_run (c : case) : result :=
  run (proc_of (c_kind c) (c_key c)) (cleanup_of (c_key c)) (c_pl c) (c_F c) (c_fc c) (fresh_st (c_d0 c)).

(* the same operation with the same content retried without fault on the directory the first attempt
   left (by the same process or, if it died, by a restarted one: the temporary-file name of the retrying
   process is not part of the observation) *)
Definition is_tmp (f : fname) : bool := match f with FTmp _ => true | _ => false end.
Definition retry_obs (c : case) : list (list Z) :=
  let r2 := run (proc_of (c_kind c) (c_key c)) (cleanup_of (c_key c)) (c_pl c) [] FNone
                (fresh_st (disk (fin (first_run c)))) in
  let d := disk (fin r2) in
  [ enc_out (out r2);
    flat_map (fun f => enc_content (lookup f d) ++ [-1]) (filter (fun f => negb (is_tmp f)) (c_names c));
    flat_map (fun k => zb (r_contains d k) :: enc_ans (r_get d k) ++ [-1]) (c_keys c);
    [zn (r_len d)];
    obs_iter d (c_keys c) ].

Definition model_obs (c : case) : list (list Z) :=
  observe (first_run c) (c_names c) (c_keys c) ++ (if c_retry c then retry_obs c else []).
Definition check_case (c : case) : bool := Z.eqb (hash_zll 0 (model_obs c)) (c_expected c).
