(* C06 - observation encoding for the correspondence run of model/Xsd*.v against datatypes.py
   (tools/c06.py).  A case is (mode, type id, text, integer arguments, hash of the expected
   observation computed on the SDK).  Definitions only. *)
From Coq Require Import List ZArith Bool Ascii String.
From Basyx Require Import model.Corr model.XsdBase model.XsdRe model.XsdLex model.Xsd model.XsdBin model.XsdDur
  model.XsdNum model.XsdOldUs gen.Gen_XsdTables.
Import ListNotations.
Local Open Scope Z_scope.

Definition enc_exc (e : exc) : list Z := match e with ValueError => [1] | TypeError => [2] end.
Definition obs {A} (f : A -> list Z) (r : res A) : list Z :=
  match r with Ok a => 0 :: f a | Err e => enc_exc e end.
Definition enc_tz (t : tz) : list Z := match t with None => [0; 0] | Some m => [1; m] end.
Definition enc_str (s : str) : list Z := map code s.
Definition dec_str (l : list Z) : str := map chr l.
Definition dec_tz (a b : Z) : tz := if a =? 0 then None else Some b.

Definition enc_date (v : date) := [d_y v; d_m v; d_d v] ++ enc_tz (d_tz v).
Definition enc_time (v : time) := [t_h v; t_mi v; t_s v; t_us v] ++ enc_tz (t_tz v).
Definition enc_datetime (v : datetime) :=
  [dt_y v; dt_m v; dt_d v; dt_h v; dt_mi v; dt_s v; dt_us v] ++ enc_tz (dt_tz v).
Definition enc_dur (v : duration) := [du_y v; du_mo v; du_d v; du_h v; du_mi v; du_s v; du_us v].
Definition enc_dec (v : pydec) := [zb (dec_neg v); dec_coef v; dec_exp v].

Definition int_rng (tid : Z) : Z -> bool :=
  match tid with
  | 0 => rng_Integer | 1 => in_range_Long | 2 => in_range_Int | 3 => in_range_Short | 4 => in_range_Byte
  | 5 => in_range_NonPositiveInteger | 6 => in_range_NegativeInteger | 7 => in_range_NonNegativeInteger
  | 8 => in_range_PositiveInteger | 9 => in_range_UnsignedLong | 10 => in_range_UnsignedInt
  | 11 => in_range_UnsignedShort | _ => in_range_UnsignedByte
  end.
Definition int_ty (tid : Z) : int_type :=
  match tid with
  | 0 => TInteger | 1 => TLong | 2 => TInt | 3 => TShort | 4 => TByte | 5 => TNonPositiveInteger
  | 6 => TNegativeInteger | 7 => TNonNegativeInteger | 8 => TPositiveInteger | 9 => TUnsignedLong
  | 10 => TUnsignedInt | 11 => TUnsignedShort | _ => TUnsignedByte
  end.

(* from_xsd(text, T) *)
Definition run_parse (tid : Z) (s : str) : list Z :=
  if tid <=? 12 then obs (fun z => [z]) (parse_int (int_rng tid) s) else
  match tid with
  | 13 => obs (fun b => [zb b]) (parse_bool s)
  | 14 => obs enc_date (parse_date s)
  | 15 => obs enc_time (parse_time s)
  | 16 => obs enc_datetime (parse_datetime s)
  | 17 => obs (fun v => [gym_y v; gym_m v] ++ enc_tz (gym_tz v)) (parse_gyearmonth s)
  | 18 => obs (fun v => [gy_y v] ++ enc_tz (gy_tz v)) (parse_gyear s)
  | 19 => obs (fun v => [gmd_m v; gmd_d v] ++ enc_tz (gmd_tz v)) (parse_gmonthday s)
  | 20 => obs (fun v => [gd_d v] ++ enc_tz (gd_tz v)) (parse_gday s)
  | 21 => obs (fun v => [gm_m v] ++ enc_tz (gm_tz v)) (parse_gmonth s)
  | 22 | 23 => obs enc_str (parse_string s)
  | 24 => obs enc_str (parse_normalizedstring s)
  | 25 => obs enc_str (parse_hex s)
  | 26 => obs enc_str (parse_base64 s)
  | 27 => obs enc_dur (parse_duration s)
  | 28 => obs enc_dec (parse_decimal s)
  | _ => obs (fun c => [c]) (parse_float_class s)
  end.

(* the independent recogniser on the same text (compared with the Python validator of the oracle) *)
Definition run_valid (tid : Z) (s : str) : list Z :=
  [zb (if tid <=? 12 then valid_xsd_int (int_ty tid) s else
       match tid with
       | 13 => valid_xsd_boolean s | 14 => valid_xsd_date s | 15 => valid_xsd_time s | 16 => valid_xsd_datetime s
       | 17 => valid_xsd_gyearmonth s | 18 => valid_xsd_gyear s | 19 => valid_xsd_gmonthday s
       | 20 => valid_xsd_gday s | 21 => valid_xsd_gmonth s | 22 => valid_xsd_string s | 23 => valid_xsd_anyuri s
       | 24 => valid_xsd_normalizedstring s | 25 => valid_xsd_hexbinary s | 26 => valid_xsd_base64 s
       | 27 => valid_xsd_duration s | 28 => valid_xsd_decimal s | _ => valid_xsd_float s
       end)].

Definition nthz (l : list Z) (i : nat) : Z := nth i l 0.
(* xsd_repr(value); the value is given by its fields *)
Definition run_print (tid : Z) (a : list Z) : list Z :=
  let g := nthz a in
  if tid <=? 12 then obs enc_str (Ok (print_int (g 0%nat))) else
  match tid with
  | 13 => obs enc_str (Ok (print_bool (negb (g 0%nat =? 0))))
  | 14 => obs enc_str (print_date (mkDate (g 0%nat) (g 1%nat) (g 2%nat) (dec_tz (g 3%nat) (g 4%nat))))
  | 15 => obs enc_str (print_time (mkTime (g 0%nat) (g 1%nat) (g 2%nat) (g 3%nat) (dec_tz (g 4%nat) (g 5%nat))))
  | 16 => obs enc_str (print_datetime (mkDT (g 0%nat) (g 1%nat) (g 2%nat) (g 3%nat) (g 4%nat) (g 5%nat) (g 6%nat)
                                            (dec_tz (g 7%nat) (g 8%nat))))
  | 17 => obs enc_str (print_gyearmonth (mkGYM (g 0%nat) (g 1%nat) (dec_tz (g 2%nat) (g 3%nat))))
  | 18 => obs enc_str (print_gyear (mkGY (g 0%nat) (dec_tz (g 1%nat) (g 2%nat))))
  | 19 => obs enc_str (print_gmonthday (mkGMD (g 0%nat) (g 1%nat) (dec_tz (g 2%nat) (g 3%nat))))
  | 20 => obs enc_str (print_gday (mkGD (g 0%nat) (dec_tz (g 1%nat) (g 2%nat))))
  | 21 => obs enc_str (print_gmonth (mkGM (g 0%nat) (dec_tz (g 1%nat) (g 2%nat))))
  | 22 | 23 | 24 => obs enc_str (Ok (print_string (dec_str a)))
  | 25 => obs enc_str (Ok (print_hex (dec_str a)))
  | 26 => obs enc_str (Ok (print_base64 (dec_str a)))
  | 27 => obs enc_str (print_duration (mkDur (g 0%nat) (g 1%nat) (g 2%nat) (g 3%nat) (g 4%nat) (g 5%nat) (g 6%nat)))
  | 28 => obs enc_str (print_decimal (mkDec (negb (g 0%nat =? 0)) (g 1%nat) (g 2%nat)))
  | _ => [99]
  end.
(* xsd_repr of a value whose zone offset is given in microseconds: a = fields ++ [flag; offset] *)
Definition run_print_us (tid : Z) (a : list Z) : list Z :=
  let n := (List.length a - 2)%nat in
  let o := if nthz a n =? 0 then None else Some (nthz a (S n)) in
  match tz_of_us o with
  | Err e => enc_exc e
  | Ok t => run_print tid (firstn n a ++ enc_tz t)
  end.
(* constructors called with Python ints / str: T(z), GDay(d), NormalizedString(s), ... *)
Definition run_ctor (tid : Z) (a : list Z) : list Z :=
  let g := nthz a in
  if tid <=? 12 then obs (fun z => [z]) (ctor_int (int_rng tid) (g 0%nat)) else
  match tid with
  | 17 => obs (fun _ => []) (new_gyearmonth (g 0%nat) (g 1%nat) None)
  | 18 => obs (fun _ => []) (new_gyear (g 0%nat) None)
  | 19 => obs (fun _ => []) (new_gmonthday (g 0%nat) (g 1%nat) None)
  | 20 => obs (fun _ => []) (new_gday (g 0%nat) None)
  | 21 => obs (fun _ => []) (new_gmonth (g 0%nat) None)
  | 24 => obs (fun _ => []) (new_normalizedstring (dec_str a))
  | 14 => obs (fun _ => []) (new_date (g 0%nat) (g 1%nat) (g 2%nat) None)
  | 15 => obs (fun _ => []) (new_time (g 0%nat) (g 1%nat) (g 2%nat) (g 3%nat) None)
  | _ => [99]
  end.
(* mode 0: parse text; 1: print args; 2: ctor args; 3: parse bytes given in args; 4: recogniser on text;
   5: recogniser on bytes; 6: the pre-repair float expression on the digits of the text (XsdOldUs.us_float);
   7: print with the zone offset in microseconds *)
Definition run_case (mode tid : Z) (txt : string) (a : list Z) : list Z :=
  match mode with
  | 0 => run_parse tid (L txt)
  | 1 => run_print tid a
  | 2 => run_ctor tid a
  | 3 => run_parse tid (dec_str a)
  | 4 => run_valid tid (L txt)
  | 5 => run_valid tid (dec_str a)
  | 7 => run_print_us tid a
  | _ => [us_float (L txt)]
  end.
Definition check_case (c : Z * Z * string * list Z * Z) : bool :=
  let '(mode, tid, txt, a, h) := c in Z.eqb (hash_zl 0 (run_case mode tid txt a)) h.
