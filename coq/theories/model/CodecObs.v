(* Observation helpers for the correspondence checks of the codec model (C03/C18): a hash of a [doc] that does
   not depend on member order (JSON objects are unordered), and the per-case check functions evaluated by
   vm_compute in generated cases files.  Transport/diagnostics only; no theorem depends on this file. *)
From Coq Require Import List ZArith Bool String Ascii.
From Basyx Require Import model.Corr model.Codec.
Import ListNotations.
Local Open Scope Z_scope.

Definition key_hash (s : string) : Z := hash_zl 17 (codes s).

Fixpoint insert_by_key (x : Z * (string * doc)) (l : list (Z * (string * doc))) : list (Z * (string * doc)) :=
  match l with
  | [] => [x]
  | y :: r => if Z.leb (fst x) (fst y) then x :: l else y :: insert_by_key x r
  end.

Fixpoint hdoc (h : Z) (d : doc) {struct d} : Z :=
  match d with
  | DNull => hmix h 0
  | DStr s => hash_zl (hmix h 1) (codes s)
  | DBool b => hmix (hmix h 2) (zb b)
  | DRaw => hmix h 3
  | DList l => hmix ((fix go (l : list doc) (h : Z) : Z :=
                        match l with [] => h | x :: r => go r (hdoc h x) end) l (hmix h 4)) (-5)
  | DObj ms =>
    (* hash every member independently, then combine in key-hash order *)
    let hs := (fix go (l : list (string * doc)) : list (Z * Z) :=
                 match l with
                 | [] => []
                 | (k, v) :: r => (key_hash k, hdoc (key_hash k) v) :: go r
                 end) ms in
    let sorted := fold_right (fun x acc =>
                    (fix ins (l : list (Z * Z)) : list (Z * Z) :=
                       match l with
                       | [] => [x]
                       | y :: r => if Z.leb (fst x) (fst y) then x :: l else y :: ins r
                       end) acc) [] hs in
    hmix (fold_left (fun h p => hmix (hmix h (fst p)) (snd p)) sorted (hmix h 6)) (-7)
  end.

Fixpoint value_eqb (a b : value) {struct a} : bool :=
  match a, b with
  | VNone, VNone => true
  | VStr s, VStr s' => String.eqb s s'
  | VBool x, VBool y => Bool.eqb x y
  | VLeaf s, VLeaf s' => String.eqb s s'
  | VList l, VList l' =>
    (fix go (l l' : list value) : bool :=
       match l, l' with [], [] => true | x :: r, y :: r' => value_eqb x y && go r r' | _, _ => false end) l l'
  | VObj c fs, VObj c' fs' =>
    String.eqb c c' &&
    (fix go (l l' : list (string * value)) : bool :=
       match l, l' with
       | [], [] => true
       | (k, x) :: r, (k', y) :: r' => String.eqb k k' && value_eqb x y && go r r'
       | _, _ => false end) fs fs'
  | _, _ => false
  end.

(* truthiness oracle for typed literals, given per case as the list of falsy literals *)
Definition lt_of (falsy : list string) (lex : string) : bool := negb (existsb (String.eqb lex) falsy).

(* case = (class, value, falsy literals, stripped?, expected hash of the SDK's JSON value) *)
Definition check_enc (T : tables) (c : string * value * list string * bool * Z) : bool :=
  let '(cls, v, falsy, stripped, expected) := c in
  Z.eqb (hdoc 0 (enc_auto T (lt_of falsy) stripped v)) expected.

(* model reader applied to the model writer's output reproduces the value (what the SDK's strict reader did, too) *)
Definition check_rt (T : tables) (M : meta) (c : string * value * list string * bool * Z) : bool :=
  let '(cls, v, falsy, stripped, _) := c in
  match dec T M false (DcObj cls) (enc_auto T (lt_of falsy) false v) with
  | Some v' => value_eqb v v'
  | None => false
  end.

(* order-insensitive hash of a value (sets read back by the SDK have no defined order) *)
Fixpoint hval (v : value) {struct v} : Z :=
  match v with
  | VNone => hmix 11 0
  | VStr s => hash_zl (hmix 11 1) (codes s)
  | VBool b => hmix (hmix 11 2) (zb b)
  | VLeaf s => hash_zl (hmix 11 3) (codes s)
  | VList l =>
    let hs := (fix go (l : list value) : list Z := match l with [] => [] | x :: r => hval x :: go r end) l in
    let sorted := fold_right (fun x acc =>
                    (fix ins (l : list Z) : list Z :=
                       match l with [] => [x] | y :: r => if Z.leb x y then x :: l else y :: ins r end) acc) [] hs in
    hmix (fold_left hmix sorted (hmix 11 4)) (-5)
  | VObj c fs =>
    hmix ((fix go (l : list (string * value)) (h : Z) : Z :=
             match l with [] => h | (k, x) :: r => go r (hmix (hash_zl h (codes k)) (hval x)) end)
            fs (hash_zl (hmix 11 6) (codes c))) (-7)
  end.

(* stripped reader applied to the full rendering: what the SDK's strict stripped reader returned (hash) *)
Definition check_strip_read (T : tables) (M : meta) (c : string * value * list string * bool * Z) : bool :=
  let '(cls, v, falsy, _, expected) := c in
  match dec T M true (DcObj cls) (enc_auto T (lt_of falsy) false v) with
  | Some v' => Z.eqb (hval v') expected
  | None => false
  end.

(* whole stores: (objects in store iteration order, falsy literals, expected hash of the SDK's document) *)
From Basyx Require Import model.JsonStore.
Fixpoint values_eqb (a b : list value) : bool :=
  match a, b with [], [] => true | x :: r, y :: r' => value_eqb x y && values_eqb r r' | _, _ => false end.
Definition check_store (T : tables) (M : meta) (c : list value * list string * Z) : bool :=
  let '(objs, falsy, expected) := c in
  Z.eqb (hdoc 0 (write_store T (lt_of falsy) objs)) expected &&
  match read_store T M (write_store T (lt_of falsy) objs) with
  | inl vs => values_eqb vs (part "AssetAdministrationShell" objs ++ part "Submodel" objs ++
                             part "ConceptDescription" objs)
  | inr _ => false
  end.
