(* C05 - observation encoding for the correspondence of the XML schema validator with lxml.etree.XMLSchema. *)
From Coq Require Import List Bool String.
From Basyx Require Import model.SchemaBase model.XmlCodec model.SchemaXml gen.Gen_SchemaXml.
Import ListNotations.
Local Open Scope string_scope.

Definition pm_of (fails : list (string * string)) (p s : string) : bool :=
  negb (existsb (fun q => String.eqb (fst q) p && String.eqb (snd q) s) fails).

(* (document root, failing pattern queries, verdict of lxml) *)
Definition xcase := (xml * list (string * string) * bool)%type.
Definition check_x (c : xcase) : bool :=
  match c with
  | (x, fails, expected) =>
    Bool.eqb (String.eqb (xtag x) (fst xml_root) && xvalid (leaf_full (pm_of fails)) xml_schema (XCls (snd xml_root)) x) expected
  end.
