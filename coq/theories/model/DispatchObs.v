(* Observation encoding for the correspondence check of model/Dispatch.v against the SDK (tools/c17.py). *)
From Coq Require Import List ZArith Bool String Ascii.
From Basyx Require Import model.Corr gen.Gen_RefKeys model.Refs model.RefsObs model.Dispatch.
Import ListNotations.
Local Open Scope Z_scope.

(* compact constructor for the generated case files: class index, id, id_short ("" = None), source, children *)
Definition ns (c : nat) (id k src : string) (ch : list tree) : tree := Node (cls_of_nat c) id (okey k) src ch.

Definition enc_seg (s : seg) : list Z := match s with Some x => codes x ++ [-1] | None => [-9] end.
Definition enc_call (c : call) : list Z :=
  (match c_kind c with KCommit => 1 | KUpdate => 2 end) :: Z.of_nat (c_backend c)
  :: (-5) :: zpath (c_store c) ++ (-6) :: zpath (c_obj c) ++ (-7) :: flat_map enc_seg (c_rel c).
Definition enc_outcome (o : option outcome) : list (list Z) :=
  match o with
  | None => [[99]]
  | Some (calls, e) => map enc_call calls ++ [[match e with None => 0 | Some BValueError => 3 | Some BUnknownBackend => 7 end]]
  end.

(* the intended-call specification evaluated on the same sequence: every commit/update is `run` over its
   characterised visit list, with a registry that answers with the LAST registration per scheme (must equal the
   model: proved in proofs/DispatchProofs.v for well-formed trees; evaluated here as a cross-check) *)
Definition hist_registry (init : registry) (h : list (string * nat)) : registry :=
  map (fun k => (k, match last_registered h k (reg_lookup init k) with Some b => b | None => 0%nat end))
      (filter (fun k => match last_registered h k (reg_lookup init k) with Some _ => true | None => false end)
              (map fst h ++ map fst init)).
Fixpoint spec_exec (init : registry) (h : list (string * nat)) (root : tree) (ops : list dop) : list (option outcome) :=
  match ops with
  | [] => []
  | OClock _ :: r => spec_exec init h root r
  | ORegister s b :: r => spec_exec init (h ++ [(s, b)]) root r
  | OCommit p :: r =>
      match addr root p with
      | Some n => Some (run (hist_registry init h) KCommit (commit_visits root p n))
      | None => None
      end :: spec_exec init h root r
  | OUpdate p rc :: r =>
      match addr root p with
      | Some n => Some (run (hist_registry init h) KUpdate (update_visits root p n rc))
      | None => None
      end :: spec_exec init h root r
  end.

Definition check_case (c : registry * tree * list dop * Z) : bool :=
  let '(reg, root, ops, expected) := c in
  Z.eqb (hash_zlll 0 (map enc_outcome (exec reg root ops))) expected
  && Z.eqb (hash_zlll 0 (map enc_outcome (spec_exec reg [] root ops))) expected
  && wf_treeb root.

Definition check_scheme (c : string * list Z) : bool :=
  zl_eqb (match scheme_of (fst c) with Some s => 1 :: codes s | None => [0] end) (snd c).
