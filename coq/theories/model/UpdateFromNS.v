(* Model of Referable.update_from on objects with SEVERAL NamespaceSets of Referable children that
   share one namespace (AASd-022: an idShort is unique across all sets of the object), e.g. the
   three variable sets of an Operation.  sdk/basyx/aas/model/base.py: Referable.update_from,
   NamespaceSet._remove_objects_not_in, NamespaceSet.update_nss_from, NamespaceSet.add /
   _validate_namespace_constraints.  Definitions only.

   [MNode oid cls key pay src quals sets]: like model/UpdateFrom.v's node, but [sets] is the list
   of the object's child NamespaceSets in vars() order (one set: Submodel, collection; three:
   Operation; none: a Property).  A [node] of UpdateFrom.v is the special case of one set ([emb]).

   update_from, statement by statement ([two_phase = true], the code after the fix):
     phase 1   for every NamespaceSet of other: vars(self)[name]._remove_objects_not_in(var)
     phase 2   for every NamespaceSet of other, in order: vars(self)[name].update_nss_from(var):
                 _remove_objects_not_in (again; nothing left to remove), for every object of other
                 look up self by idShort: found -> update_from recursively (in place), not found ->
                 remembered; then every remembered object is add()ed: add() raises
                 AASConstraintViolation(22) when the idShort is present in ANY set of the object.
   [two_phase = false] is the code before the fix (no phase 1: every set removes, updates and
   adds on its own, one set after the other). *)
From Coq Require Import List ZArith Bool Arith.
From Basyx Require Import model.Corr model.UpdateFrom.
Import ListNotations.
Local Open Scope nat_scope.

Inductive mnode :=
  MNode (oid cls key pay src : nat) (quals : list (nat * (nat * nat))) (sets : list (list mnode)).

Definition m_oid (n : mnode) := match n with MNode o _ _ _ _ _ _ => o end.
Definition m_cls (n : mnode) := match n with MNode _ c _ _ _ _ _ => c end.
Definition m_key (n : mnode) := match n with MNode _ _ k _ _ _ _ => k end.
Definition m_pay (n : mnode) := match n with MNode _ _ _ p _ _ _ => p end.
Definition m_src (n : mnode) := match n with MNode _ _ _ _ s _ _ => s end.
Definition m_quals (n : mnode) := match n with MNode _ _ _ _ _ q _ => q end.
Definition m_sets (n : mnode) := match n with MNode _ _ _ _ _ _ s => s end.

(* the outcome of a call: a value, or the exception that left the call *)
Inductive res (A : Type) := Ok (a : A) | Raised (e : nat).
Arguments Ok {A} a.
Arguments Raised {A} e.
Definition AASd_022 : nat := 22.      (* AASConstraintViolation(22, ...) *)
Definition KeyError_set : nat := 1.   (* vars(self)[name]: self lacks one of other's sets *)

(* backend[id_short] *)
Fixpoint find_mkid (k : nat) (l : list mnode) : option mnode :=
  match l with
  | [] => None
  | x :: r => if Nat.eqb (m_key x) k then Some x else find_mkid k r
  end.

(* _remove_objects_not_in: an object stays iff other has an object with its key and its class *)
Definition counterpart (other : list mnode) (l : mnode) : bool :=
  match find_mkid (m_key l) other with
  | Some c => Nat.eqb (m_cls c) (m_cls l)
  | None => false
  end.
Definition remove_not_in (self other : list mnode) : list mnode := filter (counterpart other) self.

(* the loop "for other_object in other" of update_nss_from over the set [s1] (after the removal):
   table of the objects updated in place, by key; the objects not found are [to_add] below *)
Section Rec.
(* the recursive call referable.update_from(other_object, update_source=True) *)
Variable rec : mnode -> mnode -> res mnode.

Fixpoint nss_loop (s1 : list mnode) (other : list mnode) : res (list (nat * mnode)) :=
  match other with
  | [] => Ok []
  | o' :: r => match find_mkid (m_key o') s1 with
               | Some l => match rec l o' with
                           | Ok u => match nss_loop s1 r with
                                     | Ok t => Ok ((m_key o', u) :: t)
                                     | Raised e => Raised e
                                     end
                           | Raised e => Raised e
                           end
               | None => nss_loop s1 r
               end
  end.
Definition to_add (s1 other : list mnode) : list mnode :=
  filter (fun o' => match find_mkid (m_key o') s1 with Some _ => false | None => true end) other.
Definition in_place (tab : list (nat * mnode)) (s1 : list mnode) : list mnode :=
  map (fun l => match find_q (m_key l) tab with Some u => u | None => l end) s1.

(* self.add(x) for every remembered object; [before], [after]: the other sets of the namespace in
   their current state *)
Definition key_in (k : nat) (s : list mnode) : bool :=
  match find_mkid k s with Some _ => true | None => false end.
Fixpoint add_all (before after : list (list mnode)) (self adds : list mnode) : res (list mnode) :=
  match adds with
  | [] => Ok self
  | x :: r => if existsb (key_in (m_key x)) (before ++ self :: after)
              then Raised AASd_022
              else add_all before after (self ++ [x]) r
  end.

(* self.update_nss_from(other) *)
Definition update_nss (before after : list (list mnode))
           (self other : list mnode) : res (list mnode) :=
  let s1 := remove_not_in self other in
  match nss_loop s1 other with
  | Raised e => Raised e
  | Ok tab => add_all before after (in_place tab s1) (to_add s1 other)
  end.

(* phase 1: zip(vars(self), vars(other)) restricted to the NamespaceSets *)
Fixpoint phase1 (ls ns : list (list mnode)) : list (list mnode) :=
  match ls, ns with
  | s :: rl, o :: rn => remove_not_in s o :: phase1 rl rn
  | _, _ => ls
  end.

(* phase 2: the sets one after the other; [done]: the sets already updated, [ls]: the sets of self
   still to do, [ns]: the corresponding sets of other *)
Fixpoint phase2 (done : list (list mnode))
         (ls ns : list (list mnode)) {struct ns} : res (list (list mnode)) :=
  match ns with
  | [] => Ok done
  | o :: rn => match ls with
               | [] => Raised KeyError_set
               | s :: rl => match update_nss done rl s o with
                            | Ok s' => phase2 (done ++ [s']) rl rn
                            | Raised e => Raised e
                            end
               end
  end.

Definition upd_sets (two_phase : bool) (ls ns : list (list mnode))
  : res (list (list mnode)) :=
  if Nat.eqb (length ls) (length ns)
  then phase2 [] (if two_phase then phase1 ls ns else ls) ns
  else Raised KeyError_set.

End Rec.

(* live.update_from(new, update_source=us) *)
Fixpoint updm (two_phase : bool) (live new : mnode) (us : bool) {struct new} : res mnode :=
  match new with
  | MNode o' c' k' p' s' q' sets' =>
      match upd_sets (fun l n' => updm two_phase l n' true) two_phase (m_sets live) sets' with
      | Ok sets => Ok (MNode (m_oid live) (m_cls live) k' p' (if us then s' else m_src live)
                             (upd_quals (m_quals live) q') sets)
      | Raised e => Raised e
      end
  end.

(* ---- the single-set nodes of model/UpdateFrom.v ---- *)
Fixpoint emb (n : node) : mnode :=
  match n with
  | Node o c k p s q ch => MNode o c k p s q [map emb ch]
  end.

(* ---- observation: pre-order rows [depth; set index; oid; cls; key; pay; src; (qkey; qoid; qval)*]
   (set index of the root: 0); a raised exception is the single row [-1; e] ---- *)
Local Open Scope Z_scope.
Fixpoint mencode (d : nat) (si : nat) (n : mnode) : list (list Z) :=
  match n with
  | MNode o c k p s q sets =>
      ([zn d; zn si; zn o; zn c; zn k; zn p; zn s]
         ++ flat_map (fun qk => match find_q qk q with
                                | Some (qo, qv) => [zn qk; zn qo; zn qv]
                                | None => []
                                end) (seq 0 8))
      :: (fix gs (i : nat) (ss : list (list mnode)) : list (list Z) :=
            match ss with
            | [] => []
            | S0 :: rs => (fix go (l : list mnode) : list (list Z) :=
                             match l with [] => [] | x :: r => mencode (S d) i x ++ go r end) S0
                          ++ gs (S i) rs
            end) 0%nat sets
  end.
Definition mencode_res (r : res mnode) : list (list Z) :=
  match r with Ok n => mencode 0 0 n | Raised e => [[-1; zn e]] end.

Definition check_mcase (cs : mnode * mnode * bool * Z) : bool :=
  let '(live, new, us, expected) := cs in
  Z.eqb (hash_zll 0 (mencode_res (updm true live new us))) expected.
(* the order before the fix (used only to attribute an AASd-022 raised by an unrepaired SDK) *)
Definition check_mcase_old (cs : mnode * mnode * bool * Z) : bool :=
  let '(live, new, us, expected) := cs in
  Z.eqb (hash_zll 0 (mencode_res (updm false live new us))) expected.
