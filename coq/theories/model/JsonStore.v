(* Store level of the JSON adapter (C03): _create_dict / write_aas_json_file and read_aas_json_file_into in
   strict mode into an empty store (json_serialization.py:696-716, json_deserialization.py:840-879).
   Hand-written; tied by the C03 correspondence on whole stores and by the harness' fingerprint of the two functions. *)
From Coq Require Import List Bool String.
From Basyx Require Import model.Codec.
Import ListNotations.
Local Open Scope string_scope.

Definition cls_of (v : value) : string := match v with VObj c _ => c | _ => "" end.
Definition id_of (v : value) : option string :=
  match v with VObj _ fs => match sfind "id" fs with Some (VStr s) => Some s | _ => None end | _ => None end.

Definition top_lists : list (string * string) :=
  [("assetAdministrationShells", "AssetAdministrationShell"); ("submodels", "Submodel");
   ("conceptDescriptions", "ConceptDescription")].
Definition identifiable_classes : list string := map snd top_lists.

Section Store.
Variable T : tables.
Variable M : meta.
Variable lt : string -> bool.

(* _create_dict: one list per kind, in store iteration order, empty lists omitted *)
Definition part (c : string) (objs : list value) : list value :=
  filter (fun v => String.eqb (cls_of v) c) objs.
Definition write_store (objs : list value) : doc :=
  DObj (flat_map (fun nc => match part (snd nc) objs with
                            | [] => []
                            | l => [(fst nc, DList (map (enc_auto T lt false) l))]
                            end) top_lists).

Inductive rerr := ETypeError | EKeyError.

(* the item loop of read_aas_json_file_into, strict decoder, empty target store: every item has been built by
   object_hook from its modelType; a non-identifiable or an identifiable in the wrong list -> TypeError; an
   identifier seen before in this document -> KeyError *)
Fixpoint read_items (expected : string) (items : list doc) (seen : list string) (acc : list value)
  : (list value * list string) + rerr :=
  match items with
  | [] => inl (acc, seen)
  | j :: r =>
    match dec T M false (DcAuto identifiable_classes) j with
    | None => inr ETypeError
    | Some v =>
      if negb (String.eqb (cls_of v) expected) then inr ETypeError else
      match id_of v with
      | None => inr ETypeError
      | Some i => if smem i seen then inr EKeyError else read_items expected r (i :: seen) (acc ++ [v])
      end
    end
  end.

Fixpoint read_lists (lists : list (string * string)) (ms : list (string * doc)) (seen : list string) (acc : list value)
  : (list value) + rerr :=
  match lists with
  | [] => inl acc
  | (name, c) :: rest =>
    match sfind name ms with
    | Some (DList items) =>
      match read_items c items seen acc with
      | inl (acc', seen') => read_lists rest ms seen' acc'
      | inr e => inr e
      end
    | _ => read_lists rest ms seen acc          (* missing or not a list: skipped *)
    end
  end.

Definition read_store (j : doc) : (list value) + rerr :=
  match j with
  | DObj ms => read_lists top_lists ms [] []
  | _ => inl []                                 (* _get_ts raises TypeError/KeyError, which is caught: nothing read *)
  end.

End Store.
