(* The metamodel attribute table used by C04 (specification side, hand-written from "Details of the Asset
   Administration Shell, Part 1, v3.0" and the SDK docstrings; attribute names are the SDK's Python names).
   Per class: every metamodel attribute with its kind and the value-domain facts the codecs depend on
   (optional?, may be empty/falsy-but-present?, non-empty collection?).  Strings are non-empty (AASd-100).
   tools/c04.py cross-checks this table against inspect.signature of the SDK constructors and the live
   enumerations on every run, and its canonicaliser reads objects through exactly these attributes.
   Line format is parsed by tools/c04.py: one attribute per line. *)
From Coq Require Import List String.
From Basyx Require Import model.XmlCodec.
Import ListNotations.
Local Open Scope string_scope.
Local Open Scope list_scope.

Definition refs := ["ExternalReference"; "ModelReference"].
Definition data_elements := ["Property"; "MultiLanguageProperty"; "Range"; "Blob"; "File"; "ReferenceElement"].
Definition submodel_elements := data_elements ++ ["SubmodelElementCollection"; "SubmodelElementList";
  "RelationshipElement"; "AnnotatedRelationshipElement"; "Operation"; "Capability"; "Entity"; "BasicEventElement"].

Definition e_key_types := ["ASSET_ADMINISTRATION_SHELL"; "CONCEPT_DESCRIPTION"; "SUBMODEL";
  "ANNOTATED_RELATIONSHIP_ELEMENT"; "BASIC_EVENT_ELEMENT"; "BLOB"; "CAPABILITY"; "DATA_ELEMENT"; "ENTITY";
  "EVENT_ELEMENT"; "FILE"; "MULTI_LANGUAGE_PROPERTY"; "OPERATION"; "PROPERTY"; "RANGE"; "REFERENCE_ELEMENT";
  "RELATIONSHIP_ELEMENT"; "SUBMODEL_ELEMENT"; "SUBMODEL_ELEMENT_COLLECTION"; "SUBMODEL_ELEMENT_LIST";
  "GLOBAL_REFERENCE"; "FRAGMENT_REFERENCE"].
Definition e_entity_type := ["CO_MANAGED_ENTITY"; "SELF_MANAGED_ENTITY"].
Definition e_modelling_kind := ["TEMPLATE"; "INSTANCE"].
Definition e_asset_kind := ["TYPE"; "INSTANCE"; "NOT_APPLICABLE"].
Definition e_qualifier_kind := ["CONCEPT_QUALIFIER"; "TEMPLATE_QUALIFIER"; "VALUE_QUALIFIER"].
Definition e_direction := ["INPUT"; "OUTPUT"].
Definition e_state := ["ON"; "OFF"].
Definition e_iec_data_type := ["DATE"; "STRING"; "STRING_TRANSLATABLE"; "INTEGER_MEASURE"; "INTEGER_COUNT";
  "INTEGER_CURRENCY"; "REAL_MEASURE"; "REAL_COUNT"; "REAL_CURRENCY"; "BOOLEAN"; "IRI"; "IRDI"; "RATIONAL";
  "RATIONAL_MEASURE"; "TIME"; "TIMESTAMP"; "HTML"; "BLOB"; "FILE"].
Definition e_level_type := ["MIN"; "NOM"; "TYP"; "MAX"].
(* DataTypeDefXsd, by the names of basyx.aas.model.datatypes *)
Definition e_xsd := ["Duration"; "DateTime"; "Date"; "Time"; "GYearMonth"; "GYear"; "GMonthDay"; "GMonth"; "GDay";
  "Boolean"; "Base64Binary"; "HexBinary"; "Float"; "Double"; "Decimal"; "Integer"; "Long"; "Int"; "Short"; "Byte";
  "NonPositiveInteger"; "NegativeInteger"; "NonNegativeInteger"; "PositiveInteger"; "UnsignedLong";
  "UnsignedShort"; "UnsignedInt"; "UnsignedByte"; "AnyURI"; "String"; "NormalizedString"].
(* AasSubmodelElements, by the SDK class standing for each literal *)
Definition e_sme_class := ["Entity"; "BasicEventElement"; "EventElement"; "Blob"; "File"; "Operation"; "Capability";
  "Property"; "MultiLanguageProperty"; "Range"; "ReferenceElement"; "DataElement"; "SubmodelElementCollection";
  "SubmodelElementList"; "AnnotatedRelationshipElement"; "RelationshipElement"; "SubmodelElement"].

Definition a_extension := [("extension", KList ["Extension"] false)].
Definition a_referable := a_extension ++ [
  ("category", KStr true);
  ("id_short", KStr true);
  ("display_name", KObj ["MultiLanguageNameType"] true);
  ("description", KObj ["MultiLanguageTextType"] true)].
Definition a_identifiable := a_referable ++ [
  ("administration", KObj ["AdministrativeInformation"] true);
  ("id", KStr false)].
Definition a_semantics := [
  ("semantic_id", KObj refs true);
  ("supplemental_semantic_id", KList refs false)].
Definition a_qualifiable := [("qualifier", KList ["Qualifier"] false)].
Definition a_dataspec := [("embedded_data_specifications", KList ["EmbeddedDataSpecification"] false)].
Definition a_sme := a_referable ++ a_semantics ++ a_qualifiable ++ a_dataspec.
Definition a_lss := [("items", KList ["LangString"] true)].

Definition xml_meta : meta := [
 ("Key", [
   ("type", KEnum e_key_types false);
   ("value", KStr false)]);
 ("ExternalReference", [
   ("key", KList ["Key"] true);
   ("referred_semantic_id", KObj refs true)]);
 ("ModelReference", [
   ("key", KList ["Key"] true);
   ("referred_semantic_id", KObj refs true)]);
 ("LangString", [
   ("language", KStr false);
   ("text", KStr false)]);
 ("MultiLanguageNameType", a_lss);
 ("MultiLanguageTextType", a_lss);
 ("DefinitionTypeIEC61360", a_lss);
 ("PreferredNameTypeIEC61360", a_lss);
 ("ShortNameTypeIEC61360", a_lss);
 ("AdministrativeInformation", a_dataspec ++ [
   ("version", KStr true);
   ("revision", KStr true);
   ("creator", KObj refs true);
   ("template_id", KStr true)]);
 ("Qualifier", a_semantics ++ [
   ("kind", KEnum e_qualifier_kind false);
   ("type", KStr false);
   ("value_type", KEnum e_xsd false);
   ("value", KXsd "value_type");
   ("value_id", KObj refs true)]);
 ("Extension", a_semantics ++ [
   ("name", KStr false);
   ("value_type", KEnum e_xsd true);
   ("value", KXsd "value_type");
   ("refers_to", KList ["ModelReference"] false)]);
 ("ValueReferencePair", [
   ("value", KStr false);
   ("value_id", KObj refs false)]);
 ("ValueList", [
   ("items", KList ["ValueReferencePair"] true)]);
 ("SpecificAssetId", a_semantics ++ [
   ("name", KStr false);
   ("value", KStr false);
   ("external_subject_id", KObj ["ExternalReference"] true)]);
 ("Resource", [
   ("path", KStr false);
   ("content_type", KStr true)]);
 ("AssetInformation", [
   ("asset_kind", KEnum e_asset_kind false);
   ("global_asset_id", KStr true);
   ("specific_asset_id", KList ["SpecificAssetId"] false);
   ("asset_type", KStr true);
   ("default_thumbnail", KObj ["Resource"] true)]);
 ("EmbeddedDataSpecification", [
   ("data_specification", KObj ["ExternalReference"] false);
   ("data_specification_content", KObj ["DataSpecificationIEC61360"] false)]);
 ("DataSpecificationIEC61360", [
   ("preferred_name", KObj ["PreferredNameTypeIEC61360"] false);
   ("short_name", KObj ["ShortNameTypeIEC61360"] true);
   ("unit", KStr true);
   ("unit_id", KObj refs true);
   ("source_of_definition", KStr true);
   ("symbol", KStr true);
   ("data_type", KEnum e_iec_data_type true);
   ("definition", KObj ["DefinitionTypeIEC61360"] true);
   ("value_format", KStr true);
   ("value_list", KObj ["ValueList"] true);
   ("value", KStr true);
   ("level_types", KLevel e_level_type)]);
 ("ConceptDescription", a_identifiable ++ a_dataspec ++ [
   ("is_case_of", KList refs false)]);
 ("AssetAdministrationShell", a_identifiable ++ a_dataspec ++ [
   ("derived_from", KObj ["ModelReference"] true);
   ("asset_information", KObj ["AssetInformation"] false);
   ("submodel", KList ["ModelReference"] false)]);
 ("Submodel", a_identifiable ++ [("kind", KEnum e_modelling_kind false)] ++ a_semantics ++ a_qualifiable ++ a_dataspec ++ [
   ("submodel_element", KList submodel_elements false)]);
 ("Property", a_sme ++ [
   ("value_type", KEnum e_xsd false);
   ("value", KXsd "value_type");
   ("value_id", KObj refs true)]);
 ("MultiLanguageProperty", a_sme ++ [
   ("value", KObj ["MultiLanguageTextType"] true);
   ("value_id", KObj refs true)]);
 ("Range", a_sme ++ [
   ("value_type", KEnum e_xsd false);
   ("min", KXsd "value_type");
   ("max", KXsd "value_type")]);
 ("Blob", a_sme ++ [
   ("value", KBytes);
   ("content_type", KStr false)]);
 ("File", a_sme ++ [
   ("value", KStr true);
   ("content_type", KStr false)]);
 ("ReferenceElement", a_sme ++ [
   ("value", KObj refs true)]);
 ("SubmodelElementCollection", a_sme ++ [
   ("value", KList submodel_elements false)]);
 ("SubmodelElementList", a_sme ++ [
   ("order_relevant", KBool);
   ("semantic_id_list_element", KObj refs true);
   ("type_value_list_element", KEnum e_sme_class false);
   ("value_type_list_element", KEnum e_xsd true);
   ("value", KList submodel_elements false)]);
 ("RelationshipElement", a_sme ++ [
   ("first", KObj refs false);
   ("second", KObj refs false)]);
 ("AnnotatedRelationshipElement", a_sme ++ [
   ("first", KObj refs false);
   ("second", KObj refs false);
   ("annotation", KList data_elements false)]);
 ("Operation", a_sme ++ [
   ("input_variable", KList submodel_elements false);
   ("output_variable", KList submodel_elements false);
   ("in_output_variable", KList submodel_elements false)]);
 ("Capability", a_sme);
 ("Entity", a_sme ++ [
   ("statement", KList submodel_elements false);
   ("entity_type", KEnum e_entity_type false);
   ("global_asset_id", KStr true);
   ("specific_asset_id", KList ["SpecificAssetId"] false)]);
 ("BasicEventElement", a_sme ++ [
   ("observed", KObj ["ModelReference"] false);
   ("direction", KEnum e_direction false);
   ("state", KEnum e_state false);
   ("message_topic", KStr true);
   ("message_broker", KObj refs true);
   ("last_update", KXsdFixed "DateTime");
   ("min_interval", KXsdFixed "Duration");
   ("max_interval", KXsdFixed "Duration")])
].

(* top-level lists of an environment (class of each list, in the writer's order) *)
Definition xml_top_classes := ["AssetAdministrationShell"; "Submodel"; "ConceptDescription"].
