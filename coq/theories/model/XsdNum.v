(* C06 - model of xsd_repr / from_xsd for Decimal, and of the lexical guard and the special
   values of Float/Double (datatypes.py).  decimal.Decimal's constructor and 'f' formatting are
   modelled from _pydecimal's source (finite values: sign, integer coefficient, exponent).
   Binary floating point itself (repr(float), float(str)) is NOT modelled: it enters the float
   theorems as Section variables (proofs/XsdNumProofs.v).  Definitions only. *)
From Coq Require Import List ZArith Bool Ascii String.
From Basyx Require Import model.XsdBase model.Xsd.
Import ListNotations.
Local Open Scope Z_scope.

(* ================================================================ decimal *)
(* a finite decimal.Decimal: (-1)^neg * coef * 10^exp, coef >= 0 *)
Record pydec := mkDec { dec_neg : bool; dec_coef : Z; dec_exp : Z }.

(* xsd_repr (repaired): "{:f}".format(value) for finite values (non-finite values raise ValueError
   and are outside this value type).  Decimal.__format__ with type 'f' and no precision:
   a zero with positive exponent is rescaled to exponent 0; dotplace = exp + len(digits). *)
Definition print_decimal (v : pydec) : res str :=
  let exp := if (dec_coef v =? 0) && (0 <? dec_exp v) then 0 else dec_exp v in
  let ds := str_nat (dec_coef v) in
  let n := Z.of_nat (List.length ds) in
  let dotplace := exp + n in
  let '(intpart, fracpart) :=
      if dotplace <? 0 then (L "0", repeat "0"%char (Z.to_nat (- dotplace)) ++ ds)
      else if dotplace >? n then (ds ++ repeat "0"%char (Z.to_nat (dotplace - n)), [])
      else (let i := firstn (Z.to_nat dotplace) ds in if is_nil i then L "0" else i, skipn (Z.to_nat dotplace) ds) in
  Ok ((if dec_neg v then ["-"%char] else []) ++ intpart ++ (if is_nil fracpart then [] else "."%char :: fracpart)).

(* DECIMAL_RE = ^[ \t\n\r]* [+\-]?([0-9]+(\.[0-9]* )?|\.[0-9]+)[ \t\n\r]* $ (blanks after each star added: comment syntax); returns sign, integer digits, fraction digits *)
Definition decimal_guard (s : str) : option (bool * str * str) :=
  let s1 := lstrip is_xsd_ws s in
  let '(neg, s2) := match s1 with
                    | c :: r => if ceq c "-" then (true, r) else if ceq c "+" then (false, r) else (false, s1)
                    | [] => (false, s1)
                    end in
  let '(ip, r) := span is_digit s2 in
  let '(fp, r') := match r with
                   | c :: r1 => if ceq c "." then (let '(f, r2) := span is_digit r1 in (Some f, r2)) else (None, r)
                   | [] => (None, r)
                   end in
  let ok := match fp with
            | None => negb (is_nil ip)
            | Some f => negb (is_nil ip) || negb (is_nil f)
            end in
  if ok && forallb is_xsd_ws r' then Some (neg, ip, match fp with Some f => f | None => [] end) else None.
(* from_xsd: the guard, then decimal.Decimal(value): coefficient = int(intpart + fracpart), exponent = -len(fracpart) *)
Definition parse_decimal (s : str) : res pydec :=
  match decimal_guard s with
  | Some (neg, ip, fp) => Ok (mkDec neg (int_dec (ip ++ fp)) (- Z.of_nat (List.length fp)))
  | None => Err ValueError
  end.

(* ================================================================ float, double *)
(* FLOAT_RE = ^[ \t\n\r]* ([+\-]?([0-9]+(\.[0-9]* )?|\.[0-9]+)([Ee][+\-]?[0-9]+)?|[+\-]?INF|NaN)[ \t\n\r]* $
   classes: 0 = a finite-number literal, 1 = NaN, 2 = +INF, 3 = -INF *)
Definition opt_sign (s : str) : bool * str :=
  match s with
  | c :: r => if ceq c "-" then (true, r) else if ceq c "+" then (false, r) else (false, s)
  | [] => (false, s)
  end.
(* ([0-9]+(\.[0-9]* )?|\.[0-9]+) : integer digits, optional fraction digits, rest *)
Definition scan_mantissa (u : str) : str * option str * str :=
  let '(ip, r) := span is_digit u in
  let '(fp, r1) := match r with
                   | c :: t => if ceq c "." then (let '(f, t') := span is_digit t in (Some f, t')) else (None, r)
                   | [] => (None, r)
                   end in
  (ip, fp, r1).
Definition mant_ok (ip : str) (fp : option str) : bool :=
  match fp with None => negb (is_nil ip) | Some f => negb (is_nil ip) || negb (is_nil f) end.
(* ([Ee][+\-]?[0-9]+)? up to the end *)
Definition exp_ok (r1 : str) : bool :=
  match r1 with
  | [] => true
  | c :: t => (ceq c "E" || ceq c "e") &&
              (let '(_, t1) := opt_sign t in let '(ds, t2) := span is_digit t1 in negb (is_nil ds) && is_nil t2)
  end.
Definition float_guard (s : str) : option Z :=
  let core := strip is_xsd_ws s in
  if str_eqb core (L "NaN") then Some 1 else
  let '(neg, u) := opt_sign core in
  if str_eqb u (L "INF") then Some (if neg then 3 else 2) else
  let '(ip, fp, r1) := scan_mantissa u in
  if mant_ok ip fp && exp_ok r1 then Some 0 else None.
(* from_xsd(value, Float/Double): the guard, then float(value); only the class of the result is modelled *)
Definition parse_float_class (s : str) : res Z :=
  match float_guard s with Some c => Ok c | None => Err ValueError end.
(* xsd_repr of the special values: repr(value).translate({e->E, f->F, i->I, n->N}) *)
Definition translate_float (s : str) : str :=
  map (fun c => if ceq c "e" then "E" else if ceq c "f" then "F" else if ceq c "i" then "I"
                else if ceq c "n" then "N" else c)%char s.
