(* Observation encoding for the C04 correspondence (tie C): XML trees and values are flattened to lists of Z
   and hashed (Corr.hash_zl) so that a generated cases file carries one number per expectation.
   tools/c04.py computes the same flattening on lxml trees / canonicalised SDK objects. *)
From Coq Require Import List Bool String Ascii ZArith.
From Basyx Require Import model.Corr model.XmlCodec model.XmlCompat model.XmlMeta gen.Gen_XmlWriter gen.Gen_XmlReader
  model.XmlEntry.
Import ListNotations.
Local Open Scope Z_scope.

(* strings with arbitrary bytes in generated case files *)
Fixpoint sb (l : list Z) : string :=
  match l with
  | [] => EmptyString
  | z :: r => String (ascii_of_N (Z.to_N z)) (sb r)
  end.

Fixpoint flat_xml (x : xml) : list Z :=
  match x with
  | XE t txt kids =>
      [1] ++ codes t ++ [-1] ++
      match txt with Some s => [2] ++ codes s ++ [-1] | None => [3] end ++
      (fix go (l : list xml) : list Z := match l with [] => [] | k :: r => flat_xml k ++ go r end) kids ++ [-2]
  end.

Fixpoint flat_val (v : value) : list Z :=
  match v with
  | VNone => [0]
  | VStr s => [1] ++ codes s ++ [-1]
  | VBool b => [2; zb b]
  | VEnum m => [3] ++ codes m ++ [-1]
  | VLeaf ty lit => [4] ++ codes ty ++ [-1] ++ codes lit ++ [-1]
  | VBytes b => [5] ++ codes b ++ [-1]
  | VList l => [6] ++ (fix go (l : list value) : list Z := match l with [] => [] | k :: r => flat_val k ++ go r end) l ++ [-2]
  | VObj c fs => [7] ++ codes c ++ [-1] ++
      (fix go (l : list (string * value)) : list Z :=
         match l with [] => [] | (a, k) :: r => codes a ++ [-1] ++ flat_val k ++ go r end) fs ++ [-2]
  end.

Definition fuel : nat := 40%nat.

Definition falsy_of (tbl : list (string * string)) (ty lit : string) : bool :=
  existsb (fun p => String.eqb (fst p) ty && String.eqb (snd p) lit) tbl.

(* result codes: hash of the flattened result, -1 = Err, -2 = Fuel *)
Definition enc_hash (fn tag : string) (v : value) (falsy : list (string * string)) : Z :=
  match enc_obj (falsy_of falsy) gen_xml_w fuel fn tag v with
  | Ok x => hash_zl 0 (flat_xml x) | Err => -1 | Fuel => -2 end.
Definition dec_hash (ctor : string) (x : xml) : Z :=
  match dec_obj gen_xml_r xml_meta fuel ctor x with
  | Ok v => hash_zl 0 (flat_val v) | Err => -1 | Fuel => -2 end.

(* one case: writer side and reader side on the same object *)
Definition check_enc (c : string * string * value * list (string * string) * Z) : bool :=
  match c with (fn, tag, v, falsy, h) => Z.eqb (enc_hash fn tag v falsy) h end.
Definition check_dec (c : string * xml * Z) : bool :=
  match c with (ctor, x, h) => Z.eqb (dec_hash ctor x) h end.
Definition check_wf (v : value) : bool := wfb xml_meta fuel v.

(* store level *)
Definition store_hash (vs : list value) (falsy : list (string * string)) : Z :=
  match write_store (falsy_of falsy) gen_xml_w xml_tops fuel vs with
  | Ok x => hash_zl 0 (flat_xml x) | Err => -1 | Fuel => -2 end.
Definition check_store (c : list value * list (string * string) * Z) : bool :=
  match c with (vs, falsy, h) => Z.eqb (store_hash vs falsy) h end.
Definition read_hash (x : xml) : Z :=
  match read_store gen_xml_r xml_meta xml_tops fuel x with
  | Ok vs => hash_zl 0 (flat_val (VList vs)) | Err => -1 | Fuel => -2 end.
Definition check_read (c : xml * Z) : bool := match c with (x, h) => Z.eqb (read_hash x) h end.

(* diagnostics for a failed compat: the (triple, attributes) that are not compatible *)
Definition compat_failures : list (triple * list string) :=
  flat_map (fun p : triple =>
    if pair_ok xml_meta gen_xml_w gen_xml_r xml_pairs p then [] else
    match p with (fn, c, ctor) =>
      match wrules_of gen_xml_w fn c, sfind ctor (rt_ctor gen_xml_r), sfind c xml_meta with
      | Some wrules, Some (_, rrules), Some attrs =>
          [(p, map fst (filter (fun ak => negb (attr_ok xml_meta gen_xml_w gen_xml_r xml_pairs attrs wrules rrules ak)) attrs))]
      | _, _, _ => [(p, ["<missing table>"%string])] end end) xml_pairs.
