(* Observation encoding for the correspondence check of the state manager model (property C20). *)
From Coq Require Import List ZArith Bool String.
From Basyx Require Import model.Corr model.Compliance.
Import ListNotations.
Local Open Scope Z_scope.

Definition zrank (s : status) : Z := Z.of_nat (rank s).
Definition enc_mgr (m : manager) : list Z :=
  zrank (overall m) :: flat_map (fun s => [zrank (s_status s); Z.of_nat (s_logs s)]) m.
Fixpoint mtrace (m : manager) (ops : list mop) : list (list Z) :=
  match ops with
  | [] => []
  | o :: r => let '(m', out) := mstep m o in
              ((match out with MOk => 0 | MIndexError => 1 end) :: enc_mgr m') :: mtrace m' r
  end.
Definition check_mgr (c : list mop * Z) : bool :=
  let '(ops, expected) := c in Z.eqb (hash_zll 0 (mtrace [] ops)) expected.

Definition exc_code (e : exc) : Z :=
  match e with
  | EOSError => 0 | EFileNotFound => 1 | EValueError => 2 | EUnicodeDecode => 3 | EJSONDecode => 4
  | EKeyError => 5 | EIndexError => 6 | EAssertion => 7 | ETypeError => 8 | EAttribute => 9
  | ENotImplemented => 10 | EImportError => 11 | EXMLSyntax => 12 | EParseError => 13
  | EValidation => 14 | EException => 15 | ERecursion => 16 | EBadZip => 17 | EZlib => 18
  end.
Definition all_exc : list exc :=
  [EOSError; EFileNotFound; EValueError; EUnicodeDecode; EJSONDecode; EKeyError; EIndexError; EAssertion;
   ETypeError; EAttribute; ENotImplemented; EImportError; EXMLSyntax; EParseError; EValidation; EException;
   ERecursion; EBadZip; EZlib].
Definition subclass_table : list (list Z) :=
  map (fun a => map (fun b => zb (subclass a b)) all_exc) all_exc.
Definition enc_esc (r : esc) : list Z :=
  match r with EscOk l => 0 :: map exc_code l | EscUnknown _ => [1] | EscOutOfFuel => [2] end.
