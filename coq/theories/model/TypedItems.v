(* Typed values, items of a SubmodelElementList of Properties / Ranges: assignment to value_type through the setters
   translated from submodel.py (gen/Gen_TypedSetters.v), with the AASd-109 guard evaluated against the list's
   value_type_list_element.  Definitions only. *)
From Coq Require Import List ZArith Bool.
From Basyx Require Import model.ConstraintsBase model.TypedBase gen.Gen_TypedValues model.TypedValue gen.Gen_TypedSetters.
Import ListNotations.

(* the item of a list announcing vtle is re-typed to t *)
Definition retype_property_item (vtle : pcls) (ty : option pcls) (a : option pyval) (t : pcls) :=
  set_Property_value_type ty a None (negb (pcls_beq t vtle)) (Some t).
Definition retype_range_item (vtle : pcls) (ty : option pcls) (a b : option pyval) (t : pcls) :=
  set_Range_value_type ty a b (negb (pcls_beq t vtle)) (Some t).

(* a history of re-typings of one item: fields after each call, with the exception raised (fields untouched) *)
Fixpoint item_run (is_range : bool) (vtle : pcls) (ty : option pcls) (a b : option pyval) (ts : list pcls)
  : list (option err * (option pcls * option pyval * option pyval)) :=
  match ts with
  | [] => []
  | t :: r =>
      match (if is_range then retype_range_item vtle ty a b t else retype_property_item vtle ty a t) with
      | inl (ty', a', b') => (None, (ty', a', b')) :: item_run is_range vtle ty' a' b' r
      | inr e => (Some e, (ty, a, b)) :: item_run is_range vtle ty a b r
      end
  end.
