(* Observation encoding for the correspondence check of model/Refs.v against the SDK (tools/c07.py). *)
From Coq Require Import List ZArith Bool String Ascii.
From Basyx Require Import model.Corr gen.Gen_RefKeys model.Refs.
Import ListNotations.
Local Open Scope Z_scope.

Definition cls_of_nat (n : nat) : cls := nth n all_cls C_Property.
Definition rtype_of_nat (n : nat) : rtype := nth n all_rtypes RT_Referable.
Definition kt_of_code (z : Z) : keytype :=
  match find (fun k => Z.eqb (keytype_code k) z) all_keytypes with Some k => k | None => KT_PROPERTY end.
Definition okey (s : string) : option string := if String.eqb s "" then None else Some s.

(* compact constructors used by the generated case files: "" stands for id_short None *)
Definition nd (c : nat) (k : string) (ch : list tree) : tree := Node (cls_of_nat c) "" (okey k) "" ch.
Definition rt (c : nat) (id k : string) (ch : list tree) : tree := Node (cls_of_nat c) id (okey k) "" ch.

Definition enc_exn (e : exn) : Z :=
  match e with
  | KeyError => 1 | TypeError => 2 | ValueError => 3 | IndexError => 4 | AssertionError => 5
  | UnexpectedTypeError => 6 | AASd n => 100 + Z.of_nat n
  end.

Definition zpath (p : path) : list Z := map Z.of_nat p.

Definition enc_res (r : result (nat * nat * path)) : list Z :=
  match r with
  | Ok (si, ri, p) => 0 :: Z.of_nat si :: Z.of_nat ri :: zpath p
  | Err e => [1; enc_exn e]
  end.

Definition enc_keys (ks : list key) : list Z :=
  flat_map (fun k => keytype_code (fst k) :: codes (snd k) ++ [-1]) ks.

Inductive query :=
  | QFrom (si ri : nat) (p : path)                            (* from_referable(x), then .resolve(provider) *)
  | QResolve (ks : list (Z * string)) (ty : nat)              (* ModelReference(keys, type).resolve(provider) *)
  | QGet (si ri : nat) (p : path) (ids : list string).        (* x.get_referable(ids) *)

Definition root_at (prov : list store) (si ri : nat) : option tree :=
  match nth_error prov si with Some s => nth_error s ri | None => None end.

Definition obs (prov : list store) (q : query) : list Z :=
  match q with
  | QFrom si ri p =>
      match root_at prov si ri with
      | None => [9]
      | Some t =>
          match from_referable t p with
          | None => [9]
          | Some (Err e) => [1; enc_exn e]
          | Some (Ok (ks, ty)) =>
              0 :: Z.of_nat (rtype_index ty) :: enc_keys ks ++ (-2) :: enc_res (resolve prov ks ty)
          end
      end
  | QResolve zks ty =>
      let ks := map (fun k => (kt_of_code (fst k), snd k)) zks in
      match model_ref_check ks with
      | Some e => [2; enc_exn e]
      | None => enc_res (resolve prov ks (rtype_of_nat ty))
      end
  | QGet si ri p ids =>
      match root_at prov si ri with
      | None => [9]
      | Some t => match addr t p with
                  | None => [9]
                  | Some n => match get_ref n ids with
                              | Ok (q, _) => 0 :: zpath q
                              | Err e => [1; enc_exn e]
                              end
                  end
      end
  end.

(* true iff the model reproduces the SDK's observations AND the case meets the hypotheses of the C07 theorems
   (every root well-formed, ids distinct inside each store) *)
Definition check_case (c : list store * list query * Z) : bool :=
  let '(prov, qs, expected) := c in
  Z.eqb (hash_zll 0 (map (obs prov) qs)) expected
  && forallb (fun s => forallb wf_treeb s && nodup_strb (ids_of s)) prov.

(* translator validation: the generated class tables evaluated for every class *)
Definition class_table : list (list Z) :=
  map (fun c => [Z.of_nat (cls_index c); keytype_code (key_type_of c); Z.of_nat (rtype_index (ref_type_of c));
                 zb (is_identifiable c); zb (is_namespace c); zb (is_list c); Z.of_nat (n_idshort_sets c)]
                ++ map (fun t => zb (instance_of c t)) all_rtypes) all_cls.
Definition keytype_table : list (list Z) :=
  map (fun k => [keytype_code k; zb (is_aas_identifiable k); zb (is_generic_globally_identifiable k);
                 zb (is_generic_fragment_key k); zb (is_aas_submodel_element k);
                 zb (is_aas_referable_non_identifiable k); zb (is_fragment_key_element k);
                 zb (is_globally_identifiable k)]) all_keytypes.
Definition check_tables (c : Z * Z) : bool :=
  Z.eqb (hash_zll 0 class_table) (fst c) && Z.eqb (hash_zll 0 keytype_table) (snd c).

(* int() / str() / isnumeric() alone *)
Definition check_int (c : string * list Z) : bool :=
  zl_eqb (match py_int (fst c) with Some z => [1; z] | None => [0] end ++ [zb (isnumeric (fst c))]) (snd c).
Definition check_str (c : nat * list Z) : bool := zl_eqb (codes (index_str (fst c))) (snd c).
