(* The decidable compatibility predicate between writer rule tables, reader rule tables and the metamodel
   table.  [compat M W R pairs = true] is what proofs/XmlCodecProofs.v needs to conclude
   dec (enc v) = Ok v for every well-formed value; C04 evaluates it on the generated tables.
   Definitions only. *)
From Coq Require Import List Bool String Arith.
From Basyx Require Import model.XmlCodec.
Import ListNotations.
Local Open Scope string_scope.
Local Open Scope list_scope.

Definition triple := (string * string * string)%type.       (* writer function, class, constructor *)
Definition triple_eqb (a b : triple) : bool :=
  match a, b with (f, c, k), (f', c', k') => String.eqb f f' && String.eqb c c' && String.eqb k k' end.
Definition tmem (t : triple) (l : list triple) : bool := existsb (triple_eqb t) l.

Definition value_eqb_flat (a b : value) : bool :=     (* only the shapes that occur as defaults *)
  match a, b with
  | VNone, VNone => true
  | VBool x, VBool y => Bool.eqb x y
  | VEnum x, VEnum y => String.eqb x y
  | VList [], VList [] => true
  | _, _ => false
  end.

Definition wrules_of (W : wtables) (fn c : string) : option (list wrule) :=
  match sfind fn (wt_rules W) with Some byc => sfind c byc | None => None end.
Definition class_of_ctor (R : rtables) (ctor : string) : option string :=
  match sfind ctor (rt_ctor R) with Some (c, _) => Some c | None => None end.

Definition fixed_tag (e : wenc) : bool := match e with WDisp _ => false | _ => true end.

Section Compat.
Variable M : meta.
Variable W : wtables.
Variable R : rtables.
Variable pairs : list triple.

Definition ctor_for (fn c ctor : string) : bool :=
  match class_of_ctor R ctor with
  | Some c' => String.eqb c' c && tmem (fn, c, ctor) pairs
  | None => false end.

(* a single object of a class in cs *)
Fixpoint site_ok (cs : list string) (e : wenc) (d : rdec) {struct e} : bool :=
  match e, d with
  | WObj fn, RObj ctor => forallb (fun c => ctor_for fn c ctor) cs
  | WObj fn, RDisp dn =>
      match sfind dn (rt_disp R) with
      | Some (RDText child tbls m) =>
          forallb (fun c =>
            match wrules_of W fn c with
            | Some (mkW t a WAlways (WEnum wt) false :: _) =>
                String.eqb t child && String.eqb a class_attr &&
                match chain (wt_enum W) wt c with
                | Some txt => negb (String.eqb txt "") &&
                    match chain (rt_enum R) tbls txt with
                    | Some mem => match sfind mem m with Some ctor => ctor_for fn c ctor | None => false end
                    | None => false end
                | None => false end
            | _ => false end) cs
      | _ => false end
  | WDisp wd, RDisp dn =>
      match sfind wd (wt_disp W), sfind dn (rt_disp R) with
      | Some wm, Some (RDTag m) =>
          forallb (fun c => match sfind c wm with
                            | Some (fn, t) => match sfind t m with Some ctor => ctor_for fn c ctor | None => false end
                            | None => false end) cs
      | _, _ => false end
  | WWrap wi itag, RChild itag' di => String.eqb itag itag' && fixed_tag wi && site_ok cs wi di
  | WWrap wi _, RFirst di => site_ok cs wi di
  | _, _ => false
  end.

Definition list_site_ok (cs : list string) (e : wenc) (d : rdec) : bool :=
  match e, d with
  | WList wi itag, RList di itag' chk =>
      site_ok cs wi di && (negb chk || (fixed_tag wi && String.eqb itag itag'))
  | _, _ => false
  end.

Definition never_falsy_class (c : string) : bool :=
  match sfind c M with
  | Some [(a, KList _ ne)] => negb (String.eqb a items_attr) || ne
  | Some [(a, _)] => negb (String.eqb a items_attr)
  | Some _ => true
  | None => false end.

Definition is_truthy_cond (c : wcond) : bool :=
  match c with WTruthy | WTruthyNotInList => true | _ => false end.

(* some value of the kind's domain may be dropped by the condition *)
Definition may_drop (k : kind) (c : wcond) : bool :=
  match c with
  | WAlways => false
  | _ => match k with
         | KStr opt | KEnum _ opt | KObj _ opt => opt
         | KXsd _ | KXsdFixed _ | KBytes => true
         | KList _ ne => negb ne && (is_truthy_cond c || match c with WNonEmpty => true | _ => false end)
         | KLevel _ => is_truthy_cond c || match c with WNonEmpty => true | _ => false end
         | KBool | KClass => false end
  end.

(* the condition drops a value of the domain only if it equals dflt, and never feeds None to an encoder *)
Definition cond_ok (k : kind) (c : wcond) (dflt : value) : bool :=
  match k with
  | KStr opt | KEnum _ opt =>
      match c with
      | WAlways => negb opt
      | WTruthy | WTruthyNotInList | WNotNone => negb opt || value_eqb_flat dflt VNone
      | WNonEmpty => false end
  | KBool => match c with WAlways | WNotNone => true | _ => false end
  | KXsd _ | KXsdFixed _ | KBytes =>
      match c with WNotNone => value_eqb_flat dflt VNone | _ => false end
  | KObj cs opt =>
      match c with
      | WAlways => negb opt
      | WNotNone => negb opt || value_eqb_flat dflt VNone
      | WTruthy | WTruthyNotInList => forallb never_falsy_class cs && (negb opt || value_eqb_flat dflt VNone)
      | WNonEmpty => false end
  | KList _ ne =>
      match c with
      | WAlways | WNotNone => true
      | _ => ne || value_eqb_flat dflt (VList []) end
  | KLevel _ =>
      match c with
      | WAlways | WNotNone => true
      | _ => value_eqb_flat dflt (VList []) end
  | KClass => false
  end.

Definition enum_ok (ms : list string) (wt rt : list string) : bool :=
  forallb (fun m => match chain (wt_enum W) wt m with
                    | Some t => negb (String.eqb t "") &&
                                match chain (rt_enum R) rt t with Some m' => String.eqb m' m | None => false end
                    | None => false end) ms.

Fixpoint nodup_s (l : list string) : bool :=
  match l with [] => true | x :: r => negb (smem x r) && nodup_s r end.

Definition level_ok (ms : list string) (wt rt : string) : bool :=
  match sfind wt (wt_enum W), sfind rt (rt_enum R) with
  | Some wtb, Some rtb =>
      (fix eq (a b : list string) := match a, b with
                                     | [], [] => true
                                     | x :: a', y :: b' => String.eqb x y && eq a' b'
                                     | _, _ => false end) (map fst wtb) ms
      && nodup_s ms
      && forallb (fun kv => match sfind (snd kv) rtb with Some m => String.eqb m (fst kv) | None => false end) wtb
  | _, _ => false end.

(* codec of one non-inline attribute *)
Definition codec_ok (attrs : list (string * kind)) (rrules : list rrule) (k : kind) (w : wrule) (r : rrule) : bool :=
  match k with
  | KStr _ => match w_enc w, r_dec r with WText, RText => true | _, _ => false end
  | KBool => match w_enc w, r_dec r with WBool, RBool => true | _, _ => false end
  | KEnum ms _ => match w_enc w, r_dec r with WEnum wt, REnum rt _ => enum_ok ms wt rt | _, _ => false end
  | KXsd tattr =>
      match w_enc w, r_dec r, r_tmode r with
      | WXsd, RXsd tattr', TOrEmpty =>
          String.eqb tattr tattr' &&
          match sfind tattr attrs, find_rule tattr rrules with
          | Some (KEnum _ _), Some rt => match r_dec rt with REnum _ _ => true | _ => false end
          | _, _ => false end
      | _, _, _ => false end
  | KXsdFixed ty => match w_enc w, r_dec r with WXsd, RXsdFixed ty' => String.eqb ty ty' | _, _ => false end
  | KBytes => match w_enc w, r_dec r, r_tmode r with WB64, RB64, TOrEmpty => true | _, _, _ => false end
  | KLevel ms => match w_enc w, r_dec r with WLevel wt, RLevel rt => level_ok ms wt rt | _, _ => false end
  | KObj cs _ => site_ok cs (w_enc w) (r_dec r)
  | KList cs _ => list_site_ok cs (w_enc w) (r_dec r) &&
                  (negb (r_nonempty r) ||
                   value_eqb_flat (match r_default r with Some d => d | None => default_of k end) (VList []))
  | KClass => false
  end.

Fixpoint find_wrule (a : string) (ws : list wrule) : option wrule :=
  match ws with
  | [] => None
  | w :: r => if String.eqb a (w_attr w) then Some w else find_wrule a r
  end.

Definition attr_ok (attrs : list (string * kind)) (wrules : list wrule) (rrules : list rrule)
           (ak : string * kind) : bool :=
  let (a, k) := ak in
  match find_wrule a wrules, find_rule a rrules with
  | Some w, Some r =>
      let dflt := match r_default r with Some d => d | None => default_of k end in
      match r_requires r with [] => true | _ => false end &&
      match k with KList _ _ => true | _ => negb (r_nonempty r) end &&
      cond_ok k (w_cond w) dflt &&
      (negb (may_drop k (w_cond w)) || negb (r_mand r)) &&
      if w_inline w then
        r_inline r && match wrules with [_] => true | _ => false end &&
        match w_cond w with WAlways => true | _ => false end &&
        match k with KList cs _ => list_site_ok cs (w_enc w) (r_dec r) | _ => false end
      else
        negb (r_inline r) && String.eqb (w_tag w) (r_tag r) && codec_ok attrs rrules k w r
  | _, _ => false
  end.

(* reader rules on the pseudo attribute __class__ (e.g. _expect_reference_type) *)
Definition class_rule_ok (c : string) (wrules : list wrule) (r : rrule) : bool :=
  negb (String.eqb (r_attr r) class_attr) ||
  match find_wrule class_attr wrules with
  | Some (mkW t _ WAlways (WEnum wt) false) =>
      String.eqb t (r_tag r) && negb (r_inline r) &&
      match r_requires r with [] => true | _ => false end &&
      match r_dec r with
      | REnum rt _ => match chain (wt_enum W) wt c with
                      | Some txt => negb (String.eqb txt "") &&
                                    match chain (rt_enum R) rt txt with Some m => String.eqb m c | None => false end
                      | None => false end
      | _ => false end
  | _ => false end.

Definition wrule_shape_ok (c : string) (attrs : list (string * kind)) (w : wrule) : bool :=
  fixed_tag (w_enc w) &&
  if String.eqb (w_attr w) class_attr then
    match w_cond w, w_enc w, w_inline w with
    | WAlways, WEnum wt, false => match chain (wt_enum W) wt c with Some _ => true | None => false end
    | _, _, _ => false end
  else match sfind (w_attr w) attrs with Some _ => true | None => false end.

Definition pair_ok (p : triple) : bool :=
  match p with (fn, c, ctor) =>
    match wrules_of W fn c, sfind ctor (rt_ctor R), sfind c M with
    | Some wrules, Some (c', rrules), Some attrs =>
        String.eqb c' c &&
        nodup_s (map w_tag wrules) && nodup_s (map w_attr wrules) &&
        forallb (wrule_shape_ok c attrs) wrules &&
        forallb (fun r => String.eqb (r_attr r) class_attr ||
                          match sfind (r_attr r) attrs with Some _ => true | None => false end) rrules &&
        forallb (class_rule_ok c wrules) rrules &&
        nodup_s (map fst attrs) && negb (smem class_attr (map fst attrs)) &&
        forallb (attr_ok attrs wrules rrules) attrs
    | _, _, _ => false end
  end.

Definition compat : bool := forallb pair_ok pairs.

End Compat.

(* ---------- the set of (writer function, class, constructor) triples demanded from the roots ---------- *)
Section Closure.
Variable M : meta.
Variable W : wtables.
Variable R : rtables.

Definition ctor_triples (fn c ctor : string) : list triple :=
  match class_of_ctor R ctor with
  | Some c' => if String.eqb c' c then [(fn, c, ctor)] else []
  | None => [] end.

Fixpoint site_demands (cs : list string) (e : wenc) (d : rdec) {struct e} : list triple :=
  match e, d with
  | WObj fn, RObj ctor => flat_map (fun c => ctor_triples fn c ctor) cs
  | WObj fn, RDisp dn =>
      match sfind dn (rt_disp R) with
      | Some (RDText child tbls m) =>
          flat_map (fun c => flat_map (fun mc => ctor_triples fn c (snd mc)) m) cs
      | _ => [] end
  | WDisp wd, RDisp dn =>
      match sfind wd (wt_disp W), sfind dn (rt_disp R) with
      | Some wm, Some (RDTag m) =>
          flat_map (fun c => match sfind c wm with
                             | Some (fn, t) => match sfind t m with Some ctor => ctor_triples fn c ctor | None => [] end
                             | None => [] end) cs
      | _, _ => [] end
  | WWrap wi _, RChild _ di => site_demands cs wi di
  | WWrap wi _, RFirst di => site_demands cs wi di
  | WList wi _, RList di _ _ => site_demands cs wi di
  | _, _ => []
  end.

Definition pair_demands (p : triple) : list triple :=
  match p with (fn, c, ctor) =>
    match wrules_of W fn c, sfind ctor (rt_ctor R), sfind c M with
    | Some wrules, Some (_, rrules), Some attrs =>
        flat_map (fun ak => match snd ak, find_wrule (fst ak) wrules, find_rule (fst ak) rrules with
                            | KObj cs _, Some w, Some r => site_demands cs (w_enc w) (r_dec r)
                            | KList cs _, Some w, Some r => site_demands cs (w_enc w) (r_dec r)
                            | _, _, _ => [] end) attrs
    | _, _, _ => [] end
  end.

Definition add_new (acc : list triple) (ts : list triple) : list triple :=
  fold_left (fun a t => if tmem t a then a else a ++ [t]) ts acc.

Fixpoint closure (n : nat) (acc : list triple) : list triple :=
  match n with
  | O => acc
  | S n' => closure n' (add_new acc (flat_map pair_demands acc))
  end.
End Closure.
