(* Observation encoding for the correspondence check of model/Aasx.v against AASXWriter/AASXReader.
   The instance evaluated is the reference OPC semantics [ref_opc] with the identity payload codec. *)
From Coq Require Import List ZArith Bool String Ascii.
From Basyx Require Import model.Corr model.Files model.Aasx.
Import ListNotations.
Local Open Scope Z_scope.

Definition zn (n : nat) : Z := Z.of_nat n.

Definition enc_err (e : err) : Z :=
  match e with
  | EKeyError => 1 | ETypeError => 2 | EUnexpectedType => 3 | EValueError => 4
  | EIndexError => 5 | ERuntimeError => 6 | EParse => 7
  end.

Fixpoint insert_nat (x : nat) (l : list nat) : list nat :=
  match l with
  | [] => [x]
  | y :: r => if Nat.leb x y then x :: l else y :: insert_nat x r
  end.
Definition sort_nat (l : list nat) : list nat := fold_right insert_nat [] l.

Definition enc_node (n : node) : list Z :=
  match n_file n with
  | None => [0]
  | Some None => [1]
  | Some (Some v) => 2 :: codes v ++ [-1]
  end.
Definition enc_obj (o : obj) : list Z :=
  match o with
  | Shell i tok subs => [31; zn i; 0; zn tok]
  | Subm i tok _ nodes => [31; zn i; 1; zn tok] ++ flat_map enc_node nodes
  | CD i tok => [31; zn i; 2; zn tok]
  end.
Definition enc_file (e : string * (content * ctype)) : list Z :=
  32 :: codes (fst e) ++ [-1; zn (fst (snd e)); zn (snd (snd e))].
Definition enc_optnat (k : Z) (o : option nat) : list Z :=
  match o with Some n => [k; 1; zn n] | None => [k; 0] end.

Definition the_opc := ref_opc id_payload.

(* what the harness looks at in the written package: the aas-spec parts and their aas-suppl targets *)
Definition enc_parts (p : rpkg id_payload) : list (list Z) :=
  match rp_rel _ p "/" ROrigin with
  | [] => [[20; -2]]
  | origin :: _ =>
    map (fun pn => 20 :: codes pn ++ [-1] ++ flat_map (fun t => codes t ++ [-1]) (rp_rel _ p pn RSuppl))
        (rp_rel _ p origin RSpec)
  end.

Definition observe (S : ostore) (F : Files.st) (cs : list wcall) (S0 : ostore) (F0 : Files.st)
           (override : bool) : list (list Z) :=
  match write_package id_payload id_encode S F cs with
  | Err e => [[1; enc_err e]]
  | Ok log =>
    let p := the_opc log in
    [0] :: enc_parts p ++
    enc_optnat 33 (get_core_properties _ p) :: enc_optnat 34 (get_thumbnail _ p) ::
    match read_into id_payload id_decode p S0 F0 override with
    | Err e => [[1; enc_err e]]
    | Ok s =>
      [0] :: (30 :: map zn (sort_nat (r_ids s))) :: map enc_obj (r_store s) ++ map enc_file (names (r_files s))
    end
  end.

(* a case: source store, file container history, writer calls, receiving store, receiving
   container history, override flag, hash of the SDK's observation *)
Definition check_case (c : ostore * list op * list wcall * ostore * list op * bool * Z) : bool :=
  let '(St, fops, cs, S0, f0ops, override, expected) := c in
  Z.eqb (hash_zll 0 (observe St (run fops) cs S0 (run f0ops) override)) expected.

(* string helpers alone *)
Definition check_str (c : string * string * list Z) : bool :=
  let '(v, src, expected) := c in
  zl_eqb ((match realpath v src with Some s => 1 :: codes s | None => [0] end)
          ++ [-1; zb (nonlocal v); zb (valid_part_name v); -1] ++ codes (norm v) ++ [-1] ++ codes (extension v))
         expected.
