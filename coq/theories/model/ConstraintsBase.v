(* C02 - shared definitions used by the generated files gen/Gen_RefChecks.v,
   gen/Gen_IntRanges.v, gen/Gen_StrConstraints.v and by the hand-written C02 models.
   Definitions only.

   Python values are modelled as follows:
     str                 list Z   (the sequence of code points; Python strings may hold any
                                   code point 0..0x10FFFF including lone surrogates)
     exception classes   [err]
     a block of `if c: raise E` statements
                         option err  (None = fell through), sequenced by [orelse]
     for x in L: <block> [first_some (fun x => block) L]  (the first raise aborts the loop)
     re.Pattern          [re] with Brzozowski-derivative matcher [matchb]; fullmatch of a
                         true regular expression decides language membership            *)
From Coq Require Import List ZArith Bool.
Import ListNotations.
Local Open Scope Z_scope.

(* exception classes observable at the public API; EAASd n = AASConstraintViolation with
   constraint_id n *)
Inductive err : Type :=
| EValue | EType | EKey | EIndex | EAttr | EAASd (n : Z).

Definition err_eqb (a b : err) : bool :=
  match a, b with
  | EValue, EValue | EType, EType | EKey, EKey | EIndex, EIndex | EAttr, EAttr => true
  | EAASd n, EAASd m => Z.eqb n m
  | _, _ => false
  end.

Definition orelse {A} (a b : option A) : option A :=
  match a with Some x => Some x | None => b end.

Fixpoint first_some {A B} (f : A -> option B) (l : list A) : option B :=
  match l with
  | [] => None
  | x :: r => orelse (f x) (first_some f r)
  end.

(* a statement sequence: the first statement that raises decides *)
Fixpoint seqs {A} (l : list (option A)) : option A :=
  match l with
  | [] => None
  | s :: r => orelse s (seqs r)
  end.

Definition when {A} (c : bool) (body : option A) : option A := if c then body else None.

(* key[0] / key[-1]: IndexError on an empty sequence, as in Python *)
Definition with_first {A B} (l : list A) (e : B) (f : A -> option B) : option B :=
  match l with [] => Some e | x :: _ => f x end.
Definition with_last {A B} (l : list A) (e : B) (f : A -> option B) : option B :=
  match rev l with [] => Some e | x :: _ => f x end.

Definition len {A} (l : list A) : Z := Z.of_nat (List.length l).

(* ---- regular expressions over code points ------------------------------------------- *)

Definition cls := list (Z * Z).           (* inclusive code-point ranges *)
Definition in_cls (c : Z) (k : cls) : bool :=
  existsb (fun r => (fst r <=? c) && (c <=? snd r)) k.

Inductive re : Type :=
| RNone | REps | RCls (k : cls) | RAlt (a b : re) | RCat (a b : re) | RStar (a : re).

Fixpoint nullable (r : re) : bool :=
  match r with
  | RNone => false
  | REps => true
  | RCls _ => false
  | RAlt a b => nullable a || nullable b
  | RCat a b => nullable a && nullable b
  | RStar _ => true
  end.

(* Brzozowski derivative with cheap simplification (smart constructors), so that derivatives
   of the generated patterns stay small when [matchb] runs on strings of 2000 code points *)
Definition salt (a b : re) : re :=
  match a, b with
  | RNone, _ => b
  | _, RNone => a
  | _, _ => RAlt a b
  end.
Definition scat (a b : re) : re :=
  match a, b with
  | RNone, _ => RNone
  | _, RNone => RNone
  | REps, _ => b
  | _, _ => RCat a b
  end.
Fixpoint sderiv (c : Z) (r : re) : re :=
  match r with
  | RNone => RNone
  | REps => RNone
  | RCls k => if in_cls c k then REps else RNone
  | RAlt a b => salt (sderiv c a) (sderiv c b)
  | RCat a b => if nullable a then salt (scat (sderiv c a) b) (sderiv c b)
                else scat (sderiv c a) b
  | RStar a => scat (sderiv c a) (RStar a)
  end.

Fixpoint matchb (r : re) (s : list Z) : bool :=
  match s with
  | [] => nullable r
  | c :: t => matchb (sderiv c r) t
  end.

(* ---- reference keys ------------------------------------------------------------------ *)
(* A key as far as the reference constructors look at it: its type (an index into the
   generated [keytype] enumeration is not available here, so the record is parametric) and
   whether its value passes the SDK's numeric test. *)
Record key (T : Type) : Type := mkKey { ktype : T; knum : bool }.
Arguments mkKey {T} _ _.
Arguments ktype {T} _.
Arguments knum {T} _.

(* ---- "X is set" premises -------------------------------------------------------------- *)
(* A Python value as far as `X is None`, `X is not None` and the truthiness test `if X:` can
   tell: None, present but falsy (0, "", b"", False, a zero-length Duration, an empty
   collection), present and truthy.  The translators keep the two tests apart. *)
Inductive pv : Type := PNone | PFalsy | PTruthy.
Definition pv_none (v : pv) : bool := match v with PNone => true | _ => false end.
Definition pv_truthy (v : pv) : bool := match v with PTruthy => true | _ => false end.

(* a last_update argument: None, a datetime whose tzname() is "UTC", any other datetime (naive
   or another zone); datetime objects are always truthy *)
Inductive upd : Type := UNone | UUtc | UOther.
Definition upd_none (u : upd) : bool := match u with UNone => true | _ => false end.
Definition upd_truthy (u : upd) : bool := negb (upd_none u).
Definition upd_utc (u : upd) : bool := match u with UUtc => true | _ => false end.

(* ---- control flow of a setter with early returns ---------------------------------------- *)
Inductive flow : Type := FNext | FRaise (e : err) | FReturn.
Fixpoint fseqs (l : list flow) : flow :=
  match l with
  | [] => FNext
  | s :: r => match s with FNext => fseqs r | x => x end
  end.
Definition fwhen (c : bool) (b : flow) : flow := if c then b else FNext.
Definition flow_err (f : flow) : option err := match f with FRaise e => Some e | _ => None end.
