(* Model for property C20 (compliance tool).  Definitions only; proofs in proofs/ComplianceProofs.v.

   1. ComplianceToolStateManager (compliance_tool/aas_compliance_tool/state_manager.py:18-141): steps with a
      status and a log; the overall status is the largest step status (IntEnum order).
   2. Exception flow of the check functions: gen/Gen_Compliance.v (translated from the three
      compliance_check_* modules on every run) lists, per function, every call / assert / raise site with the
      exception classes caught around it; [raises] below says what each callee can raise (hand-written from
      reading the callees, validated by the correspondence run on bad inputs); [escapes] computes the classes
      that can leave a function.
   3. AASDataChecker (sdk/basyx/aas/examples/data/_helper.py): gen/Gen_Compliance.v lists per method the
      attributes compared and the methods both objects are delegated to; [compared] closes that under
      delegation. *)
From Coq Require Import List Arith Bool String.
Import ListNotations.
Local Open Scope string_scope.
Local Open Scope list_scope.

(* ---- 1. state manager ------------------------------------------------------------------------ *)

Inductive status := SUCCESS | SUCCESS_WITH_WARNINGS | FAILED | NOT_EXECUTED.
Definition rank (s : status) : nat :=
  match s with SUCCESS => 0 | SUCCESS_WITH_WARNINGS => 1 | FAILED => 2 | NOT_EXECUTED => 3 end.

Record step := mk_step { s_status : status; s_logs : nat }.   (* number of log records *)
Definition manager := list step.                              (* oldest first *)

(* the property `status`: status = SUCCESS; for step in steps: if status < step.status: status = step.status *)
Definition overall (m : manager) : status :=
  fold_left (fun acc st => if Nat.ltb (rank acc) (rank (s_status st)) then s_status st else acc) m SUCCESS.

Inductive mop :=
| AddStep                         (* add_step(name) *)
| AddLog                          (* add_log_record / a logging call reaching the handler *)
| SetStatus (s : status)          (* set_step_status *)
| SetFromLog                      (* set_step_status_from_log *)
| FromChecker (failed passed : nat).  (* add_log_records_from_data_checker *)

Inductive mout := MOk | MIndexError.   (* steps[-1] on an empty list *)

Definition on_last (m : manager) (f : step -> step) : manager * mout :=
  match rev m with
  | [] => (m, MIndexError)
  | l :: r => (rev r ++ [f l], MOk)
  end.

Definition mstep (m : manager) (o : mop) : manager * mout :=
  match o with
  | AddStep => (m ++ [mk_step NOT_EXECUTED 0], MOk)
  | AddLog => on_last m (fun s => mk_step (s_status s) (S (s_logs s)))
  | SetStatus st => on_last m (fun s => mk_step st (s_logs s))
  | SetFromLog => on_last m (fun s => mk_step (if Nat.ltb 0 (s_logs s) then FAILED else SUCCESS) (s_logs s))
  | FromChecker failed passed =>
    on_last m (fun s => mk_step (if Nat.ltb 0 failed then FAILED else SUCCESS) (s_logs s + failed + passed))
  end.
Definition mrun (ops : list mop) : manager := fold_left (fun m o => fst (mstep m o)) ops [].

(* ---- 2. exception flow ---------------------------------------------------------------------------- *)

Inductive exc :=
| EOSError | EFileNotFound | EValueError | EUnicodeDecode | EJSONDecode | EKeyError | EIndexError
| EAssertion | ETypeError | EAttribute | ENotImplemented | EImportError | EXMLSyntax | EParseError
| EValidation | EException | ERecursion | EBadZip | EZlib.

Definition exc_eqb (a b : exc) : bool :=
  match a, b with
  | EOSError, EOSError | EFileNotFound, EFileNotFound | EValueError, EValueError
  | EUnicodeDecode, EUnicodeDecode | EJSONDecode, EJSONDecode | EKeyError, EKeyError
  | EIndexError, EIndexError | EAssertion, EAssertion | ETypeError, ETypeError | EAttribute, EAttribute
  | ENotImplemented, ENotImplemented | EImportError, EImportError | EXMLSyntax, EXMLSyntax
  | EParseError, EParseError | EValidation, EValidation | EException, EException
  | ERecursion, ERecursion | EBadZip, EBadZip | EZlib, EZlib => true
  | _, _ => false
  end.

(* issubclass(a, b) for the classes above (validated against Python by the harness) *)
Definition subclass (a b : exc) : bool :=
  exc_eqb a b ||
  match a, b with
  | _, EException => true
  | EFileNotFound, EOSError => true
  | EUnicodeDecode, EValueError => true
  | EJSONDecode, EValueError => true
  | EXMLSyntax, EParseError => true
  | _, _ => false
  end.

Record site := mk_site { callee : string; handlers : list (list exc) }.

Definition caught (e : exc) (hs : list (list exc)) : bool :=
  existsb (fun h => existsb (subclass e) h) hs.

(* What a callee can raise, whatever the file holds.  None = callee not known: the totality theorem then
   fails to check, so a new call in the source is never silently ignored. *)
Definition raises (c : string) : option (list exc) :=
  let pure := Some [] in
  match c with
  | "open(file_path)" => Some [EOSError]
  | "json.load(file_to_be_checked)" => Some [EJSONDecode; EUnicodeDecode; ERecursion; EValueError]   (* int digit limit *)
  (* the tool's own schema file, shipped with the package *)
  | "open(JSON_SCHEMA_FILE)" | "json.load(json_file)" => pure
  | "jsonschema.validate" => Some [EValidation]
  | "etree.parse" => Some [EXMLSyntax; EOSError]        (* lxml: undecodable bytes from a file object *)
  | "etree.XMLSchema" | "etree.XMLParser" => pure
  | "json_deserialization.read_aas_json_file" => Some [EJSONDecode; EUnicodeDecode; ERecursion; EValueError]
  | "xml_deserialization.read_aas_xml_file" => Some [EOSError]   (* failsafe logs syntax errors; lxml I/O errors pass *)
  | "aasx.AASXReader" => Some [EFileNotFound; EValueError]
  (* damaged zip members surface as BadZipFile / zlib.error / OSError / NotImplementedError (unsupported
     compression method or flag) wherever a part is read *)
  | "reader.read_into" =>
    Some [EValueError; EKeyError; EIndexError; EXMLSyntax; EBadZip; EZlib; EOSError; ENotImplemented]
  | "reader.get_core_properties" => Some [EKeyError; EXMLSyntax; EBadZip; EZlib; EOSError; ENotImplemented]
  | "reader.reader.get_related_parts_by_type" => Some [EXMLSyntax; EBadZip; EZlib; EOSError; ENotImplemented]
  | "reader.reader.get_content_type" => Some [EKeyError]
  | "reader.reader.open_part" => Some [EKeyError; EBadZip; EOSError; ENotImplemented]
  | "checker.check_object_store" => Some []    (* overridden by the generated [checker_raises], see [escapes] *)
  | "files.get_sha256(obj.value)" => Some [EKeyError]
  (* reached only after AASDataChecker found the store equal to the example data, whose submodel holds
     ExampleSubmodelCollection/ExampleFile, and after get_sha256 of the same value succeeded *)
  | "files.get_sha256(obj2.value)" | "obj.get_referable" | "obj2.get_referable"
  | "example_data.get_identifiable" | "obj_store.get_identifiable" => pure
  | "<assert>" => Some [EAssertion]
  | "<subscript 0>" => Some [EIndexError]
  | "<raise ValueError>" => Some [EValueError]
  | "<datetime subtraction>" => Some [ETypeError]   (* naive minus aware datetime *)
  | "value.astimezone" | "value.astimezone(datetime.timezone.utc).replace"   (* _naive_utc *)
  | "logging.getLogger('compliance_check').error"
  | "<str method>" | "AASDataChecker" | "DataChecker" | "aasx.DictSupplementaryFileContainer"
  | "checker2.check" | "create_example" | "create_example_aas_binding" | "datetime.datetime"
  | "file_to_be_checked.close" | "file_to_be_checked.seek" | "io.TextIOWrapper" | "isinstance"
  | "logger.addHandler" | "logger.debug" | "logger.error" | "logger.setLevel"
  | "logger_deserialization.addHandler" | "logger_deserialization.setLevel"
  | "logger_example.addHandler" | "logger_example.setLevel" | "logging.getLogger"
  | "model.DictObjectStore" | "pyecma376_2.OPCCoreProperties" | "reader.close"
  | "state_manager.add_log_records_from_data_checker" | "state_manager.add_step"
  | "state_manager.set_step_status" | "state_manager.set_step_status_from_log" | "type" | "len" => pure
  | _ => None
  end.

Fixpoint fassoc {B} (k : string) (l : list (string * B)) : option B :=
  match l with
  | [] => None
  | (k', v) :: r => if String.eqb k k' then Some v else fassoc k r
  end.

Inductive esc := EscOk (l : list exc) | EscUnknown (c : string) | EscOutOfFuel.

Section Escapes.
Variable functions : list (string * list site).
(* what AASDataChecker.check_object_store can raise: generated from _helper.py (NotImplementedError for unordered
   lists; AttributeError if `.__name__` is taken of a value that may be None) *)
Variable checker_raises : list exc.

Fixpoint escapes (fuel : nat) (f : string) : esc :=
  match fuel with
  | 0 => EscOutOfFuel
  | S n =>
    match fassoc f functions with
    | None => EscUnknown f
    | Some sites =>
      fold_left (fun acc s =>
        match acc with
        | EscOk l =>
          let r := match fassoc (callee s) functions with
                   | Some _ => escapes n (callee s)
                   | None => if String.eqb (callee s) "checker.check_object_store" then EscOk checker_raises
                             else match raises (callee s) with Some l' => EscOk l' | None => EscUnknown (callee s) end
                   end in
          match r with
          | EscOk l' => EscOk (l ++ filter (fun e => negb (caught e (handlers s))) l')
          | other => other
          end
        | other => other
        end) sites (EscOk [])
    end
  end.
End Escapes.

(* ---- 3. data checker ---------------------------------------------------------------------------------- *)

Section Checker.
Variable methods : list (string * (list string * list string)).

Fixpoint compared (fuel : nat) (m : string) : list string :=
  match fuel with
  | 0 => []
  | S n => match fassoc m methods with
           | None => []
           | Some (attrs, delegates) => attrs ++ flat_map (compared n) delegates
           end
  end.
End Checker.

Definition mem_str (x : string) (l : list string) : bool := existsb (String.eqb x) l.

(* attributes of the class that the checker method for it never compares *)
Definition missing (methods : list (string * (list string * list string)))
           (row : string * string * list string) : list (string * string) :=
  let '(cls, m, attrs) := row in
  map (fun a => (cls, a)) (filter (fun a => negb (mem_str a (compared methods 6 m))) attrs).

(* the comparison of two objects of one class, as the checker performs it: attribute by attribute *)
Definition record := string -> nat.      (* attribute -> (token of its) value *)
Definition compare_by (attrs : list string) (a b : record) : bool :=
  forallb (fun x => Nat.eqb (a x) (b x)) attrs.

(* AASDataChecker refuses to compare two SubmodelElementLists unless both are ordered: the methods listed in
   the generated [unordered_raises] raise NotImplementedError then (before looking at the elements) *)
Inductive cmp := CmpEqual | CmpDifferent | CmpNotImplemented.
Definition compare_obj (unordered_raises : list string) (m : string) (ordered_a ordered_b : bool)
           (attrs : list string) (a b : record) : cmp :=
  if mem_str m unordered_raises && (negb ordered_a || negb ordered_b) then CmpNotImplemented
  else if compare_by attrs a b then CmpEqual else CmpDifferent.

(* status of the comparing step of a check function, given whether the handlers around its call of
   check_object_store catch NotImplementedError (and then set FAILED: checked by the translator);
   None = the exception leaves the check function *)
Definition compare_step (catches : bool) (r : cmp) : option status :=
  match r with
  | CmpEqual => Some SUCCESS
  | CmpDifferent => Some FAILED
  | CmpNotImplemented => if catches then Some FAILED else None
  end.

(* the handlers around the call of check_object_store in a translated function *)
Definition compare_handlers (functions : list (string * list site)) (f : string) : option (list (list exc)) :=
  match fassoc f functions with
  | None => None
  | Some sites => option_map handlers (find (fun s => String.eqb (callee s) "checker.check_object_store") sites)
  end.

(* what a comparing function does to the report when the data checker refuses (an exception caught by the handlers
   around check_object_store): the handler sets the current step to FAILED and logs the error; if it does not end
   the function there, add_log_records_from_data_checker() follows and derives the status anew from the checks
   collected so far ([failed] of them failed) *)
Definition refusal_flow (returns : bool) (failed passed : nat) (m : manager) : manager :=
  let m1 := fst (mstep (fst (mstep m (SetStatus FAILED))) AddLog) in
  if returns then m1 else fst (mstep m1 (FromChecker failed passed)).
Definition last_status (m : manager) : option status :=
  match rev m with [] => None | s :: _ => Some (s_status s) end.
