(* C06 - independent recognisers of the XSD lexical spaces, transcribed from
   "W3C XML Schema Definition Language (XSD) 1.1 Part 2: Datatypes" (the regular expressions
   printed in sections 3.3.x "Lexical Mapping", plus the day-of-month constraints stated there in
   prose).  A literal is valid iff, after the type's whiteSpace facet has been applied
   (collapse for every type except string and normalizedString), it matches the expression and
   meets the constraints; for the types derived from xs:integer by restriction the denoted
   integer must also lie in the value space.  Nothing here is derived from the SDK's code.
   Definitions only. *)
From Coq Require Import List ZArith Bool Ascii String.
From Basyx Require Import model.XsdBase model.XsdRe.
Import ListNotations.
Local Open Scope Z_scope.

(* 3.3.13 integer: [\-+]?[0-9]+ *)
Definition integer_re : re := Cat (opt (oneof "-+")) (plus dig).
Definition integer_value (t : str) : Z :=
  match t with
  | c :: r => if ceq c "-" then - int_dec r else if ceq c "+" then int_dec r else int_dec t
  | [] => 0
  end.
(* value-space bounds of the derived integer types (3.4.x), as literals *)
Inductive int_type :=
| TInteger | TLong | TInt | TShort | TByte | TNonPositiveInteger | TNegativeInteger
| TNonNegativeInteger | TPositiveInteger | TUnsignedLong | TUnsignedInt | TUnsignedShort | TUnsignedByte.
Definition int_space (T : int_type) (z : Z) : bool :=
  match T with
  | TInteger => true
  | TLong => (-9223372036854775808 <=? z) && (z <=? 9223372036854775807)
  | TInt => (-2147483648 <=? z) && (z <=? 2147483647)
  | TShort => (-32768 <=? z) && (z <=? 32767)
  | TByte => (-128 <=? z) && (z <=? 127)
  | TNonPositiveInteger => z <=? 0
  | TNegativeInteger => z <=? -1
  | TNonNegativeInteger => 0 <=? z
  | TPositiveInteger => 1 <=? z
  | TUnsignedLong => (0 <=? z) && (z <=? 18446744073709551615)
  | TUnsignedInt => (0 <=? z) && (z <=? 4294967295)
  | TUnsignedShort => (0 <=? z) && (z <=? 65535)
  | TUnsignedByte => (0 <=? z) && (z <=? 255)
  end.
Definition valid_xsd_int (T : int_type) (s : str) : bool :=
  let t := ws_collapse s in matches integer_re t && int_space T (integer_value t).

(* 3.3.2 boolean: 'true' | 'false' | '1' | '0' *)
Definition boolean_re : re := alts [lit "true"; lit "false"; lit "1"; lit "0"].
Definition valid_xsd_boolean (s : str) : bool := matches boolean_re (ws_collapse s).

(* time zone: (Z|(\+|-)((0[0-9]|1[0-3]):[0-5][0-9]|14:00)) *)
Definition tz_re : re :=
  Alt (ch "Z")
      (Cat (oneof "+-")
           (Alt (cats [Alt (Cat (ch "0") dig) (Cat (ch "1") (range "0" "3")); ch ":"; range "0" "5"; dig])
                (lit "14:00"))).
(* year: -?([1-9][0-9]{3,}|0[0-9]{3}) *)
Definition year_re : re :=
  Cat (opt (ch "-")) (Alt (cats [range "1" "9"; rep 3 dig; Star dig]) (Cat (ch "0") (rep 3 dig))).
Definition month_re : re := Alt (Cat (ch "0") (range "1" "9")) (Cat (ch "1") (range "0" "2")).
Definition day_re : re :=
  alts [Cat (ch "0") (range "1" "9"); Cat (oneof "12") dig; Cat (ch "3") (oneof "01")].
(* (([01][0-9]|2[0-3]):[0-5][0-9]:[0-5][0-9](\.[0-9]+)?|(24:00:00(\.0+)?)) *)
Definition hour_re : re := Alt (Cat (oneof "01") dig) (Cat (ch "2") (range "0" "3")).   (* [01][0-9]|2[0-3] *)
Definition minsec_re : re := Cat (range "0" "5") dig.                                     (* [0-5][0-9] *)
Definition frac_re : re := Cat (ch ".") (plus dig).                                       (* \.[0-9]+ *)
Definition timeofday_re : re :=
  Alt (cats [hour_re; ch ":"; minsec_re; ch ":"; minsec_re; opt frac_re])
      (Cat (lit "24:00:00") (opt (Cat (ch ".") (plus (ch "0"))))).

Definition date_re : re := cats [year_re; ch "-"; month_re; ch "-"; day_re; opt tz_re].          (* 3.3.9 *)
Definition time_re : re := Cat timeofday_re (opt tz_re).                                          (* 3.3.8 *)
Definition datetime_re : re :=                                                                     (* 3.3.7 *)
  cats [year_re; ch "-"; month_re; ch "-"; day_re; ch "T"; timeofday_re; opt tz_re].
Definition gyearmonth_re : re := cats [year_re; ch "-"; month_re; opt tz_re].                     (* 3.3.10 *)
Definition gyear_re : re := Cat year_re (opt tz_re).                                               (* 3.3.11 *)
Definition gmonthday_re : re := cats [lit "--"; month_re; ch "-"; day_re; opt tz_re].             (* 3.3.12 *)
Definition gday_re : re := cats [lit "---"; day_re; opt tz_re].                                   (* 3.3.13 *)
Definition gmonth_re : re := cats [lit "--"; month_re; opt tz_re].                                (* 3.3.14 *)

(* day-of-month constraint of date and dateTime (3.3.7.1 / 3.3.9.1): day <= 30 in months 4,6,9,11;
   <= 28 in month 2 of a non-leap year; <= 29 in month 2 of a leap year.  gMonthDay: <= 29 in month 2. *)
Definition leap_year (y : Z) : bool := ((y mod 4 =? 0) && negb (y mod 100 =? 0)) || (y mod 400 =? 0).
Definition day_ok (y m d : Z) : bool :=
  if (m =? 4) || (m =? 6) || (m =? 9) || (m =? 11) then d <=? 30
  else if m =? 2 then (if leap_year y then d <=? 29 else d <=? 28) else true.
Definition monthday_ok (m d : Z) : bool :=
  if (m =? 4) || (m =? 6) || (m =? 9) || (m =? 11) then d <=? 30 else if m =? 2 then d <=? 29 else true.
(* numeric fields of a literal that already matched: year digits up to the first '-' after an
   optional sign, then -MM-DD *)
Definition ymd_of (t : str) : Z * Z * Z :=
  let body := match t with c :: r => if ceq c "-" then r else t | [] => t end in
  let '(yd, r) := span is_digit body in
  (int_dec yd, int_dec (firstn 2 (skipn 1 r)), int_dec (firstn 2 (skipn 4 r))).
Definition valid_xsd_date (s : str) : bool :=
  let t := ws_collapse s in
  matches date_re t && (let '(y, m, d) := ymd_of t in day_ok y m d).
Definition valid_xsd_datetime (s : str) : bool :=
  let t := ws_collapse s in
  matches datetime_re t && (let '(y, m, d) := ymd_of t in day_ok y m d).
Definition valid_xsd_time (s : str) : bool := matches time_re (ws_collapse s).
Definition valid_xsd_gyearmonth (s : str) : bool := matches gyearmonth_re (ws_collapse s).
Definition valid_xsd_gyear (s : str) : bool := matches gyear_re (ws_collapse s).
Definition valid_xsd_gmonthday (s : str) : bool :=
  let t := ws_collapse s in
  matches gmonthday_re t && monthday_ok (int_dec (firstn 2 (skipn 2 t))) (int_dec (firstn 2 (skipn 5 t))).
Definition valid_xsd_gday (s : str) : bool := matches gday_re (ws_collapse s).
Definition valid_xsd_gmonth (s : str) : bool := matches gmonth_re (ws_collapse s).

(* 3.3.6 duration *)
Definition du_n (c : ascii) : re := Cat (plus dig) (ch c).                         (* [0-9]+Y *)
Definition du_sec : re := cats [plus dig; opt (Cat (ch ".") (plus dig)); ch "S"]. (* [0-9]+(\.[0-9]+)?S *)
Definition du_time : re :=
  Cat (ch "T") (alts [cats [du_n "H"; opt (du_n "M"); opt du_sec]; Cat (du_n "M") (opt du_sec); du_sec]).
Definition du_ymd : re :=
  alts [cats [du_n "Y"; opt (du_n "M"); opt (du_n "D")]; Cat (du_n "M") (opt (du_n "D")); du_n "D"].
Definition duration_re : re :=
  cats [opt (ch "-"); ch "P"; Alt (Cat du_ymd (opt du_time)) du_time].
Definition valid_xsd_duration (s : str) : bool := matches duration_re (ws_collapse s).

(* 3.3.15 hexBinary: ([0-9a-fA-F]{2})* *)
Definition hexdig : re := alts [dig; range "a" "f"; range "A" "F"].
Definition hexbinary_re : re := Star (Cat hexdig hexdig).
Definition valid_xsd_hexbinary (s : str) : bool := matches hexbinary_re (ws_collapse s).

(* 3.3.16 base64Binary:
   ((([A-Za-z0-9+/] ?){4})*(([A-Za-z0-9+/] ?){3}[A-Za-z0-9+/]|([A-Za-z0-9+/] ?){2}[AEIMQUYcgkosw048] ?=|[A-Za-z0-9+/] ?[AQgw] ?= ?=))? *)
Definition b64 : re := alts [range "A" "Z"; range "a" "z"; dig; oneof "+/"].
Definition sp : re := opt (ch " ").
Definition b64s : re := Cat b64 sp.
Definition base64_re : re :=
  opt (Cat (Star (rep 4 b64s))
           (alts [Cat (rep 3 b64s) b64;
                  cats [rep 2 b64s; oneof "AEIMQUYcgkosw048"; sp; ch "="];
                  cats [b64s; oneof "AQgw"; sp; ch "="; sp; ch "="]])).
Definition valid_xsd_base64 (s : str) : bool := matches base64_re (ws_collapse s).

(* 3.3.3 decimal: (\+|-)?([0-9]+(\.[0-9]* )?|\.[0-9]+)   [blank inserted after the star: comment syntax] *)
Definition unsigned_dec_re : re := Alt (Cat (plus dig) (opt (Cat (ch ".") (Star dig)))) (Cat (ch ".") (plus dig)).
Definition decimal_re : re := Cat (opt (oneof "+-")) unsigned_dec_re.
Definition valid_xsd_decimal (s : str) : bool := matches decimal_re (ws_collapse s).
(* 3.3.4/3.3.5 float, double: (\+|-)?([0-9]+(\.[0-9]* )?|\.[0-9]+)([Ee](\+|-)?[0-9]+)?|(\+|-)?INF|NaN *)
Definition float_re : re :=
  alts [cats [opt (oneof "+-"); unsigned_dec_re; opt (cats [oneof "Ee"; opt (oneof "+-"); plus dig])];
        Cat (opt (oneof "+-")) (lit "INF"); lit "NaN"].
Definition valid_xsd_float (s : str) : bool := matches float_re (ws_collapse s).

(* 3.3.1 string: every sequence of characters (whiteSpace preserve); anyURI (3.3.17): XSD 1.1
   puts no constraint on the lexical space.  normalizedString (3.4.1): the value space excludes
   #xD #xA #x9; the recogniser below checks the value, i.e. the text as it is. *)
Definition valid_xsd_string (s : str) : bool := true.
Definition valid_xsd_anyuri (s : str) : bool := true.
Definition valid_xsd_normalizedstring (s : str) : bool :=
  forallb (fun c => negb ((code c =? 13) || (code c =? 10) || (code c =? 9))) s.
