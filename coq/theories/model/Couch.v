(* Model of sdk/basyx/aas/backend/couchdb.py (CouchDBBackend, CouchDBObjectStore, the module-global
   revision store) talking to a CouchDB server, plus Referable.commit()/update() as far as they
   reach this backend (an Identifiable without parent: base.py:740-859).
   Definitions only; proofs are in proofs/CouchProofs.v.

   The server is the *specification assumed*: CouchDB's documented MVCC rules for documents
   (api/document: PUT/GET/HEAD/DELETE with revisions, _all_docs, db info).  It is implemented a
   second time, independently, in tools/fakes/couchdb_server.py, against which this model is run.
   Identifiers / URLs are byte strings (UTF-8).  An object's payload is abstracted to a token
   (val); revisions to their generation number (one linear history per document). *)
From Coq Require Import List Arith Bool String Ascii.
From Basyx Require Import model.Files.
Import ListNotations.
Local Open Scope string_scope.

Definition ident := string.
Definition val := nat.
Definition rev := nat.

(* ---- urllib.parse.quote(s, safe='') and the server's percent-decoding ----------------------- *)

Definition unreserved (c : ascii) : bool :=
  let n := nat_of_ascii c in
  (((48 <=? n) && (n <=? 57)) || ((65 <=? n) && (n <=? 90)) || ((97 <=? n) && (n <=? 122))
  || (n =? 95) || (n =? 46) || (n =? 45) || (n =? 126))%nat.            (* 0-9 A-Z a-z _ . - ~ *)
Definition hexd (n : nat) : ascii :=
  match n with
  | 0 => "0" | 1 => "1" | 2 => "2" | 3 => "3" | 4 => "4" | 5 => "5" | 6 => "6" | 7 => "7"
  | 8 => "8" | 9 => "9" | 10 => "A" | 11 => "B" | 12 => "C" | 13 => "D" | 14 => "E" | _ => "F"
  end%char.
Definition quote_char (c : ascii) : string :=
  if unreserved c then String c ""
  else let n := nat_of_ascii c in String "%" (String (hexd (n / 16)) (String (hexd (n mod 16)) "")).
Fixpoint quote (s : string) : string :=
  match s with
  | EmptyString => ""
  | String c r => quote_char c ++ quote r
  end.

Definition unhex (c : ascii) : option nat :=
  let n := nat_of_ascii c in
  (if (48 <=? n) && (n <=? 57) then Some (n - 48)
   else if (65 <=? n) && (n <=? 70) then Some (n - 55)
   else if (97 <=? n) && (n <=? 102) then Some (n - 87)
   else None)%nat.
Fixpoint unquote (s : string) : string :=
  match s with
  | EmptyString => ""
  | String c r =>
    if Ascii.eqb c "%" then
      match r with
      | String h (String l r') =>
        match unhex h, unhex l with
        | Some a, Some b => String (ascii_of_nat (16 * a + b)) (unquote r')
        | _, _ => String c (unquote r)
        end
      | _ => String c (unquote r)
      end
    else String c (unquote r)
  end.

(* CouchDBObjectStore._transform_id(identifier, url_quote=True): a quoted "." / ".." would be removed from
   the URL as a dot segment, so it is percent-encoded *)
Definition transform_id (i : string) : string :=
  let q := quote i in
  if String.eqb q "." then "%2E" else if String.eqb q ".." then "%2E%2E" else q.

Fixpoint skip (n : nat) (s : string) : string :=
  match n, s with
  | S m, String _ r => skip m r
  | _, _ => s
  end.

(* ---- store configuration, URLs, sources ------------------------------------------------------- *)

(* CouchDBObjectStore(url, database): url = scheme ++ host part; [c_rest] = host part ++ "/" ++ database *)
Record cfg := mkCfg { c_secure : bool; c_rest : string }.
Definition http_scheme (c : cfg) : string := if c_secure c then "https://" else "http://".
Definition couch_scheme (c : cfg) : string := if c_secure c then "couchdbs://" else "couchdb://".
Definition base_url (c : cfg) : string := http_scheme c ++ c_rest c.
(* "{}/{}/{}".format(self.url, self.database_name, self._transform_id(id)) *)
Definition doc_url (c : cfg) (i : ident) : string := base_url c ++ "/" ++ transform_id i.
(* generate_source: url.replace("https://","couchdbs://").replace("http://","couchdb://") + "/" + db + "/" + quote(id)
   (the replacements are assumed to hit the scheme only) *)
Definition generate_source (c : cfg) (i : ident) : string := couch_scheme c ++ c_rest c ++ "/" ++ transform_id i.
(* CouchDBBackend._parse_source *)
Definition parse_source (s : string) : option string :=
  if prefix "couchdbs://" s then Some ("https://" ++ skip 11 s)
  else if prefix "couchdb://" s then Some ("http://" ++ skip 10 s)
  else None.

(* ---- the server: CouchDB document API with MVCC --------------------------------------------- *)

Record sdoc := mkDoc { d_rev : rev; d_val : option val }.     (* d_val = None: deleted (tombstone) *)
Definition server := list (ident * sdoc).

Fixpoint aset {B} (k : string) (v : B) (l : list (string * B)) : list (string * B) :=
  match l with
  | [] => [(k, v)]
  | (k', v') :: r => if String.eqb k k' then (k, v) :: r else (k', v') :: aset k v r
  end.

Definition sget (sv : server) (i : ident) : option sdoc := sassoc i sv.
Definition live (sv : server) (i : ident) : option (rev * val) :=
  match sget sv i with
  | Some (mkDoc r (Some v)) => Some (r, v)
  | _ => None
  end.
Definition is_live (p : ident * sdoc) : bool := match d_val (snd p) with Some _ => true | None => false end.
Definition live_ids (sv : server) : list ident := map fst (filter is_live sv).

(* _all_docs lists the documents by ascending id *)
Fixpoint insert_sorted (x : string) (l : list string) : list string :=
  match l with
  | [] => [x]
  | y :: r => if String.leb x y then x :: l else y :: insert_sorted x r
  end.
Fixpoint isort (l : list string) : list string :=
  match l with [] => [] | x :: r => insert_sorted x (isort r) end.

Inductive meth := GET | HEAD | PUT | DELETE.
Record request := mkReq { rq_meth : meth; rq_url : string; rq_rev : option rev; rq_body : option val }.

Inductive payload :=
| PNone
| PInfo (doc_count : nat)                      (* GET /db *)
| PRows (ids : list ident)                     (* GET /db/_all_docs *)
| PDoc (i : ident) (r : rev) (v : val)         (* GET doc: {"_id","_rev","data"} *)
| POk (r : rev)                                (* PUT/DELETE doc: {"ok","id","rev"} *)
| PErrJson                                     (* {"error","reason"} *)
| PGarbage.                                    (* a body that is not JSON *)
Record response := mkResp { rs_status : nat; rs_json : bool; rs_etag : option rev; rs_body : payload }.

Inductive target := TBad | TDb | TAllDocs | TDoc (seg : string).
Definition url_target (c : cfg) (url : string) : target :=
  if prefix (base_url c) url then
    match skip (String.length (base_url c)) url with
    | EmptyString => TDb
    | String a seg =>
      if Ascii.eqb a "/" then
        if String.eqb seg "" then TDb else if String.eqb seg "_all_docs" then TAllDocs else TDoc seg
      else TBad
    end
  else TBad.

(* ids starting with an underscore are reserved by CouchDB (illegal_docid) *)
Definition reserved (i : ident) : bool :=
  match i with String c _ => Ascii.eqb c "_" | EmptyString => false end.
Definition legal (i : ident) : bool :=
  match i with String c _ => negb (Ascii.eqb c "_") | EmptyString => false end.

Definition jerr (code : nat) : response := mkResp code true None PErrJson.
Definition opt_rev_eqb (a b : option rev) : bool :=
  match a, b with
  | Some x, Some y => Nat.eqb x y
  | None, None => true
  | _, _ => false
  end.
(* may a PUT carrying revision [given] replace document state [d]? *)
Definition accepts (d : sdoc) (given : option rev) : bool :=
  match d_val d with
  | Some _ => opt_rev_eqb given (Some (d_rev d))
  | None => opt_rev_eqb given None || opt_rev_eqb given (Some (d_rev d))
  end.

Definition serve (c : cfg) (sv : server) (rq : request) : server * response :=
  match url_target c (rq_url rq) with
  | TBad => (sv, jerr 404)
  | TDb =>
    match rq_meth rq with
    | GET | HEAD => (sv, mkResp 200 true None (PInfo (List.length (live_ids sv))))
    | PUT => (sv, jerr 412)
    | DELETE => (sv, jerr 405)
    end
  | TAllDocs =>
    match rq_meth rq with
    | GET => (sv, mkResp 200 true None (PRows (isort (live_ids sv))))
    | _ => (sv, jerr 405)
    end
  | TDoc seg =>
    let i := unquote seg in
    match rq_meth rq with
    | GET | HEAD =>
      match live sv i with
      | Some (r, v) => (sv, mkResp 200 true (Some r) (PDoc i r v))
      | None => (sv, jerr 404)
      end
    | PUT =>
      if reserved i then (sv, jerr 400) else
      match rq_body rq with
      | None => (sv, jerr 400)
      | Some v =>
        match sget sv i with
        | None =>
          match rq_rev rq with
          | None => (aset i (mkDoc 1 (Some v)) sv, mkResp 201 true (Some 1) (POk 1))
          | Some _ => (sv, jerr 409)
          end
        | Some d =>
          if accepts d (rq_rev rq)
          then (aset i (mkDoc (S (d_rev d)) (Some v)) sv, mkResp 201 true (Some (S (d_rev d))) (POk (S (d_rev d))))
          else (sv, jerr 409)
        end
      end
    | DELETE =>
      match live sv i with
      | None => (sv, jerr 404)
      | Some (r, _) =>
        if opt_rev_eqb (rq_rev rq) (Some r)
        then (aset i (mkDoc (S r) None) sv, mkResp 200 true (Some (S r)) (POk (S r)))
        else (sv, jerr 409)
      end
    end
  end.

(* ---- the network with fault injection ----------------------------------------------------------- *)

Inductive transport := TProto | TOther.   (* urllib3 Timeout/SSL/ProtocolError | any other urllib3 HTTPError *)
Inductive netresult := Resp (r : response) | Fail (t : transport).

Inductive fault :=
| FStatus (code : nat)      (* answered with this status and a CouchDB error document *)
| FGarbage                  (* answered 200 with a body that is not JSON *)
| FDrop (t : transport)     (* no answer; the request is not processed *)
| FLost (t : transport)     (* the request IS processed by the server, the answer is lost on the wire *)
(* the same two events seen through the module's connection pool, urllib3.PoolManager(retries=Retry(3,
   allowed_methods=["GET", "HEAD"])): after a read error a lookup (GET / HEAD) is sent again, up to 3 times, and the
   pool gives up with MaxRetryError; PUT / DELETE are not sent again, their ProtocolError reaches do_request *)
| FDropPool                 (* every attempt dropped before processing *)
| FLostPool.                (* first attempt processed and its answer lost; a repetition is served normally *)
Definition is_read (m : meth) : bool := match m with GET | HEAD => true | _ => false end.
Definition fault_result (m : meth) (ft : fault) : netresult :=
  match ft with
  | FStatus code => Resp (jerr code)
  | FGarbage => Resp (mkResp 200 true None PGarbage)
  | FDrop t => Fail t
  | FLost t => Fail t
  | FDropPool => Fail (if is_read m then TOther else TProto)
  | FLostPool => Fail TProto
  end.
Definition processed (ft : fault) : bool := match ft with FLost _ | FLostPool => true | _ => false end.
(* the pool repeats the request and the repetition gets through *)
Definition repeated (ft : fault) (m : meth) : bool := match ft with FLostPool => is_read m | _ => false end.
(* at most one fault per operation: (index of the request within the operation, fault) *)
Definition fspec := option (nat * fault).
Definition send (c : cfg) (f : fspec) (n : nat) (sv : server) (rq : request) : server * netresult :=
  match f with
  | Some (k, ft) => if Nat.eqb k n
                    then if repeated ft (rq_meth rq) then let '(sv', r) := serve c sv rq in (sv', Resp r)
                         else ((if processed ft then fst (serve c sv rq) else sv), fault_result (rq_meth rq) ft)
                    else let '(sv', r) := serve c sv rq in (sv', Resp r)
  | None => let '(sv', r) := serve c sv rq in (sv', Resp r)
  end.

(* ---- CouchDBBackend.do_request ---------------------------------------------------------------- *)

Inductive exn :=
| XKey                   (* KeyError *)
| XConn                  (* CouchDBConnectionError *)
| XResp                  (* CouchDBResponseError *)
| XServer (code : nat)   (* CouchDBServerError *)
| XConflict              (* CouchDBConflictError *)
| XSource                (* CouchDBSourceError *)
| XBadArg.               (* not Python: an operation of the model applied to a non-existent cell *)
Inductive reply := RHeaders (etag : option rev) | RData (p : payload).

Definition is_2xx (n : nat) : bool := ((200 <=? n) && (n <? 300))%nat.
Definition do_request (m : meth) (nr : netresult) : exn + reply :=
  match nr with
  | Fail TProto => inl XConn
  | Fail TOther => inl XResp
  | Resp r =>
    if negb (is_2xx (rs_status r)) then
      if negb (rs_json r) then inl XResp
      else match m with
           | HEAD => inl (XServer (rs_status r))
           | _ => match rs_body r with
                  | PGarbage => inl XResp
                  | PErrJson => inl (XServer (rs_status r))
                  | _ => inl XKey               (* data['error'] on a JSON body of another shape *)
                  end
           end
    else match m with
         | HEAD => inr (RHeaders (rs_etag r))
         | _ => if negb (rs_json r) then inl XResp
                else match rs_body r with
                     | PGarbage => inl XResp
                     | p => inr (RData p)
                     end
         end
  end.
Definition is_code (e : exn) (n : nat) : bool := match e with XServer k => Nat.eqb k n | _ => false end.
Definition reply_rev (rp : reply) : option rev :=                    (* response["rev"] *)
  match rp with RData (POk r) => Some r | _ => None end.

(* ---- the client process ---------------------------------------------------------------------- *)

(* a local Identifiable object: its id, its payload, its `source` attribute ("" = none) *)
Record cell := mkCell { c_id : ident; c_val : val; c_src : string }.
Record client := mkClient {
  heap : list cell;                 (* the Python objects, by identity token *)
  revs : list (string * rev);       (* module-global _revision_store: document URL -> last seen _rev *)
  cache : list (ident * nat)        (* CouchDBObjectStore._object_cache: id -> object (kept alive by the caller) *)
}.
Record world := mkWorld { w_sv : server; w_cl : client }.

Fixpoint upd_cell (h : list cell) (x : nat) (f : cell -> cell) : list cell :=
  match h, x with
  | [], _ => []
  | a :: r, O => f a :: r
  | a :: r, S m => a :: upd_cell r m f
  end.
Definition set_val (v : val) (ce : cell) : cell := mkCell (c_id ce) v (c_src ce).
Definition set_src (s : string) (ce : cell) : cell := mkCell (c_id ce) (c_val ce) s.

Inductive outcome :=
| ODone | OCell (x : nat) | OBool (b : bool) | ONat (n : nat) | OCells (l : list nat) | OErr (e : exn).

(* every operation also reports how many requests it sent *)
Definition res := (world * outcome * nat)%type.

(* CouchDBObjectStore.add *)
Definition op_add (c : cfg) (f : fspec) (w : world) (x : nat) : res :=
  let cl := w_cl w in
  match nth_error (heap cl) x with
  | None => (w, OErr XBadArg, 0)
  | Some ce =>
    let url := doc_url c (c_id ce) in
    let '(sv', nr) := send c f 0 (w_sv w) (mkReq PUT url None (Some (c_val ce))) in
    match do_request PUT nr with
    | inl e => (mkWorld sv' cl, OErr (if is_code e 409 then XKey else e), 1)
    | inr rp =>
      match reply_rev rp with
      | None => (mkWorld sv' cl, OErr XKey, 1)
      | Some r =>
        (mkWorld sv' (mkClient (upd_cell (heap cl) x (set_src (generate_source c (c_id ce))))
                               (aset url r (revs cl)) (aset (c_id ce) x (cache cl))), ODone, 1)
      end
    end
  end.

(* CouchDBObjectStore.get_identifiable_by_couchdb_id, as the n-th request of an operation *)
Definition get_doc (c : cfg) (f : fspec) (n : nat) (w : world) (docid : string) : world * (exn + nat) :=
  let cl := w_cl w in
  let url := doc_url c docid in
  let '(sv', nr) := send c f n (w_sv w) (mkReq GET url None None) in
  match do_request GET nr with
  | inl e => (mkWorld sv' cl, inl (if is_code e 404 then XKey else e))
  | inr (RData (PDoc i r v)) =>
    let src := generate_source c i in
    let revs' := aset url r (revs cl) in
    let fresh := (mkWorld sv' (mkClient (heap cl ++ [mkCell i v src]) revs'
                                        (aset i (List.length (heap cl)) (cache cl))),
                  inr (List.length (heap cl))) in
    match sassoc i (cache cl) with
    | Some old =>
      match nth_error (heap cl) old with
      | Some oc =>
        if String.eqb (c_src oc) src
        then (mkWorld sv' (mkClient (upd_cell (heap cl) old (fun ce => mkCell i v (c_src ce))) revs' (cache cl)),
              inr old)
        else fresh
      | None => fresh
      end
    | None => fresh
    end
  | inr _ => (mkWorld sv' cl, inl XKey)          (* data['data'] *)
  end.

Definition op_get (c : cfg) (f : fspec) (w : world) (i : ident) : res :=
  match get_doc c f 0 w i with
  | (w', inl e) => (w', OErr e, 1)
  | (w', inr y) => (w', OCell y, 1)
  end.

(* Referable.commit() of a parentless Identifiable -> CouchDBBackend.commit_object *)
Definition op_commit (c : cfg) (f : fspec) (w : world) (x : nat) : res :=
  let cl := w_cl w in
  match nth_error (heap cl) x with
  | None => (w, OErr XBadArg, 0)
  | Some ce =>
    if String.eqb (c_src ce) "" then (w, ODone, 0) else
    match parse_source (c_src ce) with
    | None => (w, OErr XSource, 0)
    | Some url =>
      match sassoc url (revs cl) with
      | None => (w, OErr XConflict, 0)
      | Some r =>
        let '(sv', nr) := send c f 0 (w_sv w) (mkReq PUT url (Some r) (Some (c_val ce))) in
        match do_request PUT nr with
        | inl e => (mkWorld sv' cl, OErr (if is_code e 409 then XConflict else if is_code e 404 then XKey else e), 1)
        | inr rp =>
          match reply_rev rp with
          | None => (mkWorld sv' cl, OErr XKey, 1)
          | Some r' => (mkWorld sv' (mkClient (heap cl) (aset url r' (revs cl)) (cache cl)), ODone, 1)
          end
        end
      end
    end
  end.

(* Referable.update() -> CouchDBBackend.update_object *)
Definition op_update (c : cfg) (f : fspec) (w : world) (x : nat) : res :=
  let cl := w_cl w in
  match nth_error (heap cl) x with
  | None => (w, OErr XBadArg, 0)
  | Some ce =>
    if String.eqb (c_src ce) "" then (w, ODone, 0) else
    match parse_source (c_src ce) with
    | None => (w, OErr XSource, 0)
    | Some url =>
      let '(sv', nr) := send c f 0 (w_sv w) (mkReq GET url None None) in
      match do_request GET nr with
      | inl e => (mkWorld sv' cl, OErr (if is_code e 404 then XKey else e), 1)
      | inr (RData (PDoc i r v)) =>
        (mkWorld sv' (mkClient (upd_cell (heap cl) x (fun ce => mkCell i v (c_src ce)))
                               (aset url r (revs cl)) (cache cl)), ODone, 1)
      | inr _ => (mkWorld sv' cl, OErr XKey, 1)
      end
    end
  end.

(* CouchDBObjectStore.discard(x, safe_delete)   [with the repaired tail: unknown revision / cache
   entries are skipped instead of raising KeyError after the document has been deleted] *)
Definition delete_phase (c : cfg) (f : fspec) (n : nat) (w : world) (x : nat) (i : ident) (url : string) (r : rev) : res :=
  let cl := w_cl w in
  let '(sv', nr) := send c f n (w_sv w) (mkReq DELETE url (Some r) None) in
  match do_request DELETE nr with
  | inl e => (mkWorld sv' cl, OErr (if is_code e 404 then XKey else if is_code e 409 then XConflict else e), S n)
  | inr _ =>
    (mkWorld sv' (mkClient (upd_cell (heap cl) x (set_src "")) (sremove url (revs cl)) (sremove i (cache cl))),
     ODone, S n)
  end.
Definition op_discard (c : cfg) (f : fspec) (w : world) (x : nat) (safe : bool) : res :=
  let cl := w_cl w in
  match nth_error (heap cl) x with
  | None => (w, OErr XBadArg, 0)
  | Some ce =>
    let url := doc_url c (c_id ce) in
    match sassoc url (revs cl), safe with
    | Some r, true => delete_phase c f 0 w x (c_id ce) url r
    | None, true => (w, OErr XConflict, 0)
    | _, false =>
      let '(sv', nr) := send c f 0 (w_sv w) (mkReq HEAD url None None) in
      match do_request HEAD nr with
      | inl e => (mkWorld sv' cl, OErr (if is_code e 404 then XKey else e), 1)
      | inr (RHeaders (Some r)) => delete_phase c f 1 (mkWorld sv' cl) x (c_id ce) url r
      | inr _ => (mkWorld sv' cl, OErr XKey, 1)       (* headers['ETag'] *)
      end
    end
  end.

(* CouchDBObjectStore.__contains__ (an Identifier, or an Identifiable: by its id) *)
Definition op_contains (c : cfg) (f : fspec) (w : world) (i : ident) : res :=
  let '(sv', nr) := send c f 0 (w_sv w) (mkReq HEAD (doc_url c i) None None) in
  match do_request HEAD nr with
  | inl e => if is_code e 404 then (mkWorld sv' (w_cl w), OBool false, 1) else (mkWorld sv' (w_cl w), OErr e, 1)
  | inr _ => (mkWorld sv' (w_cl w), OBool true, 1)
  end.

(* CouchDBObjectStore.__len__ *)
Definition op_len (c : cfg) (f : fspec) (w : world) : res :=
  let '(sv', nr) := send c f 0 (w_sv w) (mkReq GET (base_url c) None None) in
  match do_request GET nr with
  | inl e => (mkWorld sv' (w_cl w), OErr e, 1)
  | inr (RData (PInfo n)) => (mkWorld sv' (w_cl w), ONat n, 1)
  | inr _ => (mkWorld sv' (w_cl w), OErr XKey, 1)      (* data['doc_count'] *)
  end.

(* list(iter(store)): _all_docs, then one GET per row *)
Fixpoint fetch_all (c : cfg) (f : fspec) (n : nat) (w : world) (ids : list ident) (acc : list nat) : res :=
  match ids with
  | [] => (w, OCells (List.rev acc), n)
  | i :: r =>
    match get_doc c f n w i with
    | (w', inl e) => (w', OErr e, S n)
    | (w', inr y) => fetch_all c f (S n) w' r (y :: acc)
    end
  end.
(* list(store) raised: the objects created for the rows fetched so far are unreachable, the weak
   object cache forgets them *)
Definition gc (n : nat) (cl : client) : client :=
  mkClient (firstn n (heap cl)) (revs cl) (filter (fun p => Nat.ltb (snd p) n) (cache cl)).
Definition op_iter (c : cfg) (f : fspec) (w : world) : res :=
  let '(sv', nr) := send c f 0 (w_sv w) (mkReq GET (base_url c ++ "/_all_docs") None None) in
  match do_request GET nr with
  | inl e => (mkWorld sv' (w_cl w), OErr e, 1)
  | inr (RData (PRows ids)) =>
    match fetch_all c f 1 (mkWorld sv' (w_cl w)) ids [] with
    | (w', OErr e, n) => (mkWorld (w_sv w') (gc (List.length (heap (w_cl w))) (w_cl w')), OErr e, n)
    | r => r
    end
  | inr _ => (mkWorld sv' (w_cl w), OErr XKey, 1)      (* data['rows'] *)
  end.

(* the second actor: an external writer that follows the MVCC rules (reads the revision, writes) *)
Definition ext_put (c : cfg) (sv : server) (i : ident) (v : val) : server :=
  let given := match live sv i with Some (r, _) => Some r | None => None end in
  fst (serve c sv (mkReq PUT (doc_url c i) given (Some v))).
Definition ext_del (c : cfg) (sv : server) (i : ident) : server :=
  match live sv i with
  | Some (r, _) => fst (serve c sv (mkReq DELETE (doc_url c i) (Some r) None))
  | None => sv
  end.

Inductive op :=
| Add (x : nat) | GetId (i : ident) | Modify (x : nat) (v : val) | Commit (x : nat) | Update (x : nat)
| Discard (x : nat) (safe : bool) | ContainsId (i : ident) | ContainsObj (x : nat) | Len | Iter
| ExtPut (i : ident) (v : val) | ExtDel (i : ident)
| UpdateChild (x : nat) | CommitChild (x : nat).
(* UpdateChild x / CommitChild x: update() / commit() called on an element NESTED in the Identifiable x (e.g. a
   Property of a Submodel).  base.py: the child has no source of its own, so update() walks up with find_source()
   and calls update_object(updated_object=child, store_object=x, ...), which fetches the document, records its
   _rev and refreshes the WHOLE store_object (store_object.update_from(document)); commit() calls commit_object
   for every ancestor with a source, which PUTs the whole store_object.  Towards this backend they are therefore
   the same calls as x.update() / x.commit(): one request, the whole replica (the payload token stands for all
   parts of the Identifiable). *)

Definition step (c : cfg) (f : fspec) (w : world) (o : op) : res :=
  match o with
  | Add x => op_add c f w x
  | GetId i => op_get c f w i
  | Modify x v =>
    match nth_error (heap (w_cl w)) x with
    | Some _ =>
      (mkWorld (w_sv w) (mkClient (upd_cell (heap (w_cl w)) x (set_val v)) (revs (w_cl w)) (cache (w_cl w))), ODone, 0)
    | None => (w, OErr XBadArg, 0)
    end
  | Commit x => op_commit c f w x
  | Update x => op_update c f w x
  | Discard x safe => op_discard c f w x safe
  | ContainsId i => op_contains c f w i
  | ContainsObj x =>
    match nth_error (heap (w_cl w)) x with
    | Some ce => op_contains c f w (c_id ce)
    | None => (w, OErr XBadArg, 0)
    end
  | Len => op_len c f w
  | Iter => op_iter c f w
  | ExtPut i v => (mkWorld (ext_put c (w_sv w) i v) (w_cl w), ODone, 0)
  | ExtDel i => (mkWorld (ext_del c (w_sv w) i) (w_cl w), ODone, 0)
  | UpdateChild x => op_update c f w x
  | CommitChild x => op_commit c f w x
  end.

Definition world_of (r : res) : world := fst (fst r).
Definition outcome_of (r : res) : outcome := snd (fst r).
Definition sent_of (r : res) : nat := snd r.

(* a history: operations with their (optional) fault *)
Definition run_from (c : cfg) (w : world) (h : list (op * fspec)) : world :=
  fold_left (fun w p => world_of (step c (snd p) w (fst p))) h w.
Definition init (pool : list (ident * val)) : world :=
  mkWorld [] (mkClient (map (fun p => mkCell (fst p) (snd p) "") pool) [] []).
