(* Model of DictSupplementaryFileContainer (sdk/basyx/aas/adapter/aasx.py:755-820).
   Definitions only; proofs are in proofs/FilesProofs.v.

   Names are strings; file contents are abstract tokens (nat).  The container keys
   its content store by sha256(data); the model keys it by the token itself, i.e.
   it assumes sha256 is injective on the contents used (trusted base). *)
From Coq Require Import List Arith Bool String Ascii DecimalString Decimal DecimalNat.
Import ListNotations.
Local Open Scope string_scope.

(* ---- string helpers -------------------------------------------------- *)

Definition slash : ascii := "/"%char.
Definition dot : ascii := "."%char.

(* index of the last occurrence of c in s (0-based), if any *)
Fixpoint last_index_from (c : ascii) (s : string) (pos : nat) (acc : option nat) : option nat :=
  match s with
  | EmptyString => acc
  | String a r => last_index_from c r (S pos) (if Ascii.eqb a c then Some pos else acc)
  end.
Definition last_index (c : ascii) (s : string) : option nat := last_index_from c s 0 None.

Definition take (n : nat) (s : string) : string := substring 0 n s.
Definition drop (n : nat) (s : string) : string := substring n (String.length s - n) s.

(* '{:04d}'.format(i) for i >= 0 *)
Fixpoint zeros (n : nat) : string := match n with 0 => "" | S k => String "0" (zeros k) end.
Definition dec (i : nat) : string := NilEmpty.string_of_uint (Nat.to_uint i).
Definition pad4 (i : nat) : string := zeros (4 - String.length (dec i)) ++ dec i.

(* Where _append_counter inserts "_%04d": name = pre ++ post, the counter goes between.
     split1 = name.split('/'); split2 = split1[-1].split('.')
     index = -2 if len(split2) > 1 else -1
   i.e. in the basename (after the last '/'), before the last '.', or at the end. *)
Definition cut_point (name : string) : nat :=
  let base_start := match last_index slash name with Some p => S p | None => 0 end in
  match last_index dot (drop base_start name) with
  | Some p => base_start + p
  | None => String.length name
  end.
Definition pre (name : string) : string := take (cut_point name) name.
Definition post (name : string) : string := drop (cut_point name) name.
Definition append_counter (name : string) (i : nat) : string :=
  pre name ++ "_" ++ pad4 i ++ post name.

(* ---- container state ------------------------------------------------- *)

Definition content := nat.   (* token standing for a byte string; key of _store is its hash *)
Definition ctype := nat.     (* token standing for a content-type string *)

Record st := mk {
  store : list (content * content);          (* _store: hash -> data, insertion ordered *)
  names : list (string * (content * ctype)); (* _name_map *)
  refc  : list (content * nat)               (* _store_refcount *)
}.
Definition init : st := mk [] [] [].

Fixpoint sassoc {B} (k : string) (l : list (string * B)) : option B :=
  match l with
  | [] => None
  | (k', v) :: r => if String.eqb k k' then Some v else sassoc k r
  end.
(* del d[k]: keys are unique in a dict, so removing every entry for k is the same thing *)
Fixpoint sremove {B} (k : string) (l : list (string * B)) : list (string * B) :=
  match l with
  | [] => []
  | (k', v) :: r => if String.eqb k k' then sremove k r else (k', v) :: sremove k r
  end.
Fixpoint nassoc {B} (k : nat) (l : list (nat * B)) : option B :=
  match l with
  | [] => None
  | (k', v) :: r => if Nat.eqb k k' then Some v else nassoc k r
  end.
Fixpoint nremove {B} (k : nat) (l : list (nat * B)) : list (nat * B) :=
  match l with
  | [] => []
  | (k', v) :: r => if Nat.eqb k k' then nremove k r else (k', v) :: nremove k r
  end.
(* dict[k] = v: replace in place when present, else append *)
Fixpoint nset {B} (k : nat) (v : B) (l : list (nat * B)) : list (nat * B) :=
  match l with
  | [] => [(k, v)]
  | (k', v') :: r => if Nat.eqb k k' then (k, v) :: r else (k', v') :: nset k v r
  end.

Definition pair_eqb (a b : content * ctype) : bool :=
  Nat.eqb (fst a) (fst b) && Nat.eqb (snd a) (snd b).

Inductive out :=
| OName (n : string)          (* add_file result *)
| OData (c : content)         (* write_file *)
| OCtype (t : ctype)          (* get_content_type *)
| OHash (c : content)         (* get_sha256 *)
| OBool (b : bool)            (* __contains__ *)
| OUnit                       (* delete_file *)
| OKeyError
| OOutOfFuel.                 (* never produced for fuel > |names| : see add_file_fuel_enough *)

(* the `while True` loop of add_file, with explicit fuel *)
Fixpoint add_loop (fuel : nat) (s : st) (name : string) (d : content * ctype)
         (new_name : string) (i : nat) : st * out :=
  match fuel with
  | 0 => (s, OOutOfFuel)
  | S f =>
    match sassoc new_name (names s) with
    | None =>
      let rc := match nassoc (fst d) (refc s) with Some n => n | None => 0 end in
      (mk (store s) (names s ++ [(new_name, d)]) (nset (fst d) (S rc) (refc s)), OName new_name)
    | Some d' =>
      if pair_eqb d' d then (s, OName new_name)
      else add_loop f s name d (append_counter name i) (S i)
    end
  end.

Definition add_file_fuel (fuel : nat) (s : st) (name : string) (c : content) (t : ctype) : st * out :=
  let s1 := match nassoc c (store s) with
            | Some _ => s
            | None => mk (store s ++ [(c, c)]) (names s) (nset c 0 (refc s))
            end in
  add_loop fuel s1 name (c, t) name 1.

Definition add_file (s : st) (name : string) (c : content) (t : ctype) : st * out :=
  add_file_fuel (S (S (List.length (names s)))) s name c t.

Definition delete_file (s : st) (name : string) : st * out :=
  match sassoc name (names s) with
  | None => (s, OKeyError)
  | Some (h, _) =>
    match nassoc h (refc s) with
    | None => (s, OKeyError)   (* unreachable under Inv *)
    | Some n =>
      let n' := n - 1 in
      if Nat.eqb n' 0
      then (mk (nremove h (store s)) (sremove name (names s)) (nremove h (refc s)), OUnit)
      else (mk (store s) (sremove name (names s)) (nset h n' (refc s)), OUnit)
    end
  end.

Definition write_file (s : st) (name : string) : out :=
  match sassoc name (names s) with
  | None => OKeyError
  | Some (h, _) => match nassoc h (store s) with Some d => OData d | None => OKeyError end
  end.
Definition get_content_type (s : st) (name : string) : out :=
  match sassoc name (names s) with None => OKeyError | Some (_, t) => OCtype t end.
Definition get_sha256 (s : st) (name : string) : out :=
  match sassoc name (names s) with None => OKeyError | Some (h, _) => OHash h end.
Definition contains (s : st) (name : string) : out :=
  OBool (match sassoc name (names s) with None => false | Some _ => true end).
Definition iter_names (s : st) : list string := map fst (names s).

Inductive op :=
| Add (name : string) (c : content) (t : ctype)
| Del (name : string).

Definition step (s : st) (o : op) : st * out :=
  match o with
  | Add n c t => add_file s n c t
  | Del n => delete_file s n
  end.

Definition run (ops : list op) : st := fold_left (fun s o => fst (step s o)) ops init.

(* ---- abstract specification: a map name -> (content, ctype) ---------- *)

Definition spec := list (string * (content * ctype)).
