(* Observation encoding for the correspondence check of model/Http.v against WSGIApp
   (tools/httpcorr.py computes the same rows from the real responses and store). *)
From Coq Require Import List ZArith Bool String Ascii.
From Basyx Require Import model.Corr model.Files model.Http gen.Gen_HttpRoutes.
Import ListNotations.
Local Open Scope Z_scope.
Local Open Scope list_scope.

Definition zn (n : nat) : Z := Z.of_nat n.
Definition enc_on (o : option name) : list Z := match o with None => [0] | Some n => [1; n] end.
Definition enc_quals (q : list (name * Z)) : list Z :=
  zn (List.length q) :: flat_map (fun x => [fst x; snd x]) q.
Definition enc_mt (m : mt) : Z :=
  match m with MProp => 1 | MRange => 2 | MColl => 3 | MList => 4 | MFile => 5 | MBlob => 6 | MRel => 7 | MARel => 8 end.
Definition enc_val (v : attv) : list Z :=
  match v with ANone => [0] | APath p => 1 :: zn (String.length p) :: codes p | AData c => [2; zn c] end.
Fixpoint enc_elem (e : elem) : list Z :=
  let 'Elem m ids tok q ct v ch := e in
  enc_mt m :: enc_on ids ++ tok :: enc_quals q ++ zn ct :: enc_val v
    ++ zn (List.length ch) :: (fix go (l : list (option name * elem)) : list Z :=
                           match l with [] => [] | (_, c) :: r => enc_elem c ++ go r end) ch.

Fixpoint insert_z (x : Z) (l : list Z) : list Z :=
  match l with [] => [x] | y :: r => if x <=? y then x :: l else y :: insert_z x r end.
Definition sort_z (l : list Z) : list Z := fold_right insert_z [] l.

Definition enc_keys (p : list (mt * option name)) : list Z :=
  zn (List.length p) :: flat_map (fun x => enc_mt (fst x) :: enc_on (snd x)) p.
Definition enc_value (v : value) : list Z :=
  match v with
  | VShell s => 1 :: sh_id s :: enc_on (sh_ids s) ++ sh_tok s :: zn (List.length (sh_refs s)) :: sort_z (sh_refs s)
  | VSm s => 2 :: sm_id s :: enc_on (sm_ids s) ++ sm_tok s :: enc_quals (sm_quals s)
               ++ zn (List.length (sm_ch s)) :: flat_map (fun c => enc_elem (snd c)) (sm_ch s)
  | VCd c => 3 :: cd_id c :: enc_on (cd_ids c) ++ [cd_tok c]
  | VElem e => 4 :: enc_elem e
  | VQual t x => [5; t; x]
  | VRef i => [8; 1; i; 0]
  | VAsset t => [7; t]
  | VKeys root i p => 8 :: root :: i :: enc_keys p
  end.
Definition enc_loc (l : option loc) : list Z :=
  match l with
  | None => [0]
  | Some (LShell i) => [1; i]
  | Some (LSm i) => [2; i]
  | Some (LCd i) => [3; i]
  | Some (LElem i p) => 4 :: i :: zn (List.length p) :: flat_map enc_on p
  | Some (LQual i p t) => 5 :: i :: t :: zn (List.length p) :: p
  | Some (LRedirect i) => [6; i]
  end.
Definition enc_accept (a : accept) : Z :=
  match a with AccJson => 1 | AccXml => 2 | AccTextXml => 3 | AccNone => 4 end.
(* listings: [sorted] = compare as a multiset (hash-ordered reference sets, directory-ordered local-file
   stores); rows are sorted by their first differing number *)
Fixpoint zl_leb (a b : list Z) : bool :=
  match a, b with
  | [], _ => true
  | _, [] => false
  | x :: a', y :: b' => if x <? y then true else if y <? x then false else zl_leb a' b'
  end.
Fixpoint insert_zl (x : list Z) (l : list (list Z)) : list (list Z) :=
  match l with [] => [x] | y :: r => if zl_leb x y then x :: l else y :: insert_zl x r end.
Definition sort_zl (l : list (list Z)) : list (list Z) := fold_right insert_zl [] l.

(* XML responses of a single object are flattened into <response>: the class of a submodel
   element is not visible there (encoded as 0 on both sides) *)
Definition enc_top_elem (a : accept) (e : elem) : list Z :=
  match a, enc_elem e with
  | AccJson, l => l
  | _, _ :: l => 0 :: l
  | _, [] => []
  end.
Definition enc_payload (sorted : bool) (a : accept) (p : payload) : list Z :=
  match p with
  | PEmpty => [0; enc_accept a]
  | PResult code => 1 :: enc_accept a :: codes code
  | PVal (VElem e) => 2 :: enc_accept a :: 4 :: enc_top_elem a e
  | PVal v => 2 :: enc_accept a :: enc_value v
  | PList cur vs =>
    let rows := map enc_value vs in
    3 :: enc_accept a :: (match cur with None => [0] | Some c => [1; zn c] end) ++ zn (List.length vs)
      :: List.concat (if sorted then sort_zl rows else rows)
  | PFile ct c => [4; zn ct; zn c]
  | PPlain => [5]
  | PCrash _ => [6]
  end.
(* flags: bit 0 = compare the listing as a multiset, bit 1 = HEAD (status only) *)
Definition enc_response (sorted head : bool) (r : response) : list Z :=
  if head then [status r]
  else status r :: enc_loc (location r) ++ enc_payload sorted (rtype r) (pay r).

Definition enc_obj (o : obj) : list Z :=
  enc_value (match o with OShell s => VShell s | OSm s => VSm s | OCd c => VCd c end).
Definition enc_files (f : Files.st) : list Z :=
  flat_map (fun n => zn (String.length (fst n)) :: codes (fst n) ++ [zn (fst (snd n)); zn (snd (snd n))]) (Files.names f).
Definition enc_state (sorted : bool) (s : state) : list Z :=
  let rows := map (fun kv => enc_obj (snd kv)) (st_objs s) in
  zn (List.length rows) :: List.concat (if sorted then sort_zl rows else rows) ++ (-1) :: enc_files (st_files s).

(* per request: the response row and the store row.  [flags]: per request, whether the listing
   in the response is compared as a multiset *)
Fixpoint trace (s : state) (rs : list (request * Z)) : list (list Z) :=
  match rs with
  | [] => []
  | (r, fl) :: t =>
    let '(s', resp) := handle s r in
    enc_response (Z.odd fl || st_backed s) (2 <=? fl) resp :: enc_state (st_backed s) s' :: trace s' t
  end.

Definition check_case (c : state * list (request * Z) * Z) : bool :=
  let '(s, rs, expected) := c in Z.eqb (hash_zll 0 (trace s rs)) expected.

(* short constructors for the generated case files *)
Definition Q0 : query := {| q_limit := QAbsent; q_cursor := QAbsent; q_core := false; q_idshort := None;
                            q_assetids := []; q_semid := None |}.
Definition mkq (l c : qint) (core : bool) (i : option name) (a : list qdec) (sid : option qdec) : query :=
  {| q_limit := l; q_cursor := c; q_core := core; q_idshort := i; q_assetids := a; q_semid := sid |}.
Definition mkr (rule : string) (m : meth) (a : accept) (aas sm cd qt : idarg) (p : patharg) (q : query) (b : body) (bh : bool) : request :=
  {| r_rule := rule; r_meth := m; r_accept := a; r_aas := aas; r_sm := sm; r_cd := cd; r_qt := qt;
     r_path := p; r_query := q; r_body := b; r_badhost := bh |}.
Definition mksh (i : ident) (ids : option name) (tok : Z) (refs : list ident) : shell :=
  {| sh_id := i; sh_ids := ids; sh_tok := tok; sh_refs := refs |}.
Definition mksm (i : ident) (ids : option name) (tok : Z) (q : list (name * Z)) (ch : children) : submodel :=
  {| sm_id := i; sm_ids := ids; sm_tok := tok; sm_quals := q; sm_ch := ch |}.
Definition mkcd (i : ident) (ids : option name) (tok : Z) : cdesc := {| cd_id := i; cd_ids := ids; cd_tok := tok |}.
Definition mkst (objs : list (ident * obj)) (f : Files.st) (backed : bool) : state :=
  {| st_objs := objs; st_files := f; st_backed := backed |}.
(* a file container holding the given (name, content, ctype) files, built through add_file *)
Definition mkfiles (l : list (string * nat * nat)) : Files.st :=
  fold_left (fun f x => fst (Files.add_file f (fst (fst x)) (snd (fst x)) (snd x))) l Files.init.
