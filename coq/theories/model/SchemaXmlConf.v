(* C05, XML writing direction: the decidable table-level predicate [xconforms] between the writer rule tables generated
   from xml_serialization.py (gen/Gen_XmlWriter.v, types of model/XmlCodec.v), the metamodel table of C04
   (model/XmlMeta.v) and the XML schema tables (gen/Gen_SchemaXml.v).  Definitions only; the lemma
   [xconforms -> every element the interpreted writer produces has the shape the schema prescribes] is in
   proofs/SchemaXmlProofs.v. *)
From Coq Require Import List Bool String.
From Basyx Require Import model.SchemaBase model.XmlCodec model.SchemaXml.
Import ListNotations.
Local Open Scope string_scope.
Local Open Scope list_scope.

(* what a writer function produces for an object: an element of an XSD class, or (language string sets, whose items
   are appended to the caller's element) a wrapper holding one or more <itag> elements of class g *)
Inductive otarget := TCls (g : string) | TItems (itag g : string).
Definition xtriple := (string * string * otarget)%type.           (* writer function, class, target *)

Definition otarget_eqb (a b : otarget) : bool :=
  match a, b with
  | TCls g, TCls g' => String.eqb g g'
  | TItems i g, TItems i' g' => String.eqb i i' && String.eqb g g'
  | _, _ => false
  end.
Definition xtriple_eqb (a b : xtriple) : bool :=
  match a, b with (f, c, t), (f', c', t') => String.eqb f f' && String.eqb c c' && otarget_eqb t t' end.
Definition xtmem (t : xtriple) (l : list xtriple) : bool := existsb (xtriple_eqb t) l.

Fixpoint nodup_tags (l : list string) : bool :=
  match l with [] => true | x :: r => negb (smem x r) && nodup_tags r end.

Definition wrules_of (W : wtables) (fn c : string) : option (list wrule) :=
  match sfind fn (wt_rules W) with Some byc => sfind c byc | None => None end.

Section XConf.
Variable M : meta.
Variable W : wtables.
Variable XS : xschema.
Variable XT : list xtriple.

Definition parts_of (g : string) : option (list xpart) := sfind g (xs_classes XS).

(* every object of a class in cs written through dispatcher d lands on an alternative of the choice group *)
Definition disp_ok (cs : list string) (d choice : string) : bool :=
  match sfind d (wt_disp W), sfind choice (xs_choices XS) with
  | Some wm, Some alts =>
    forallb (fun c => match sfind c wm with
                      | Some (fn, t) => match sfind t alts with
                                        | Some g => xtmem (fn, c, TCls g) XT
                                        | None => false end
                      | None => false end) cs
  | _, _ => false
  end.

(* the element produced by encoder e (with a fixed tag) for one object of a class in cs is valid for type t *)
Fixpoint site_conf (cs : list string) (e : wenc) (t : xty) {struct e} : bool :=
  match e, t with
  | WObj fn, XCls g => forallb (fun c => xtmem (fn, c, TCls g) XT) cs
  | WObj fn, XList itag (XCls g) => forallb (fun c => xtmem (fn, c, TItems itag g) XT) cs
  | WWrap (WDisp d) _, XOne choice => disp_ok cs d choice
  | WWrap inner itag, XCls g =>
    match parts_of g with
    | Some [p] => String.eqb (x_tag p) itag && site_conf cs inner (x_ty p)
    | _ => false end
  | _, _ => false
  end.

Definition list_conf (cs : list string) (e : wenc) (t : xty) : bool :=
  match e, t with
  | WList (WDisp d) _, XMany choice => disp_ok cs d choice
  | WList (WDisp _) _, _ => false
  | WList item itag, XList itag' it => String.eqb itag itag' && site_conf cs item it
  | _, _ => false
  end.

Definition level_conf (E : tables) (tbl g : string) : bool :=
  match sfind tbl E, parts_of g with
  | Some tb, Some parts =>
    (fix go (tb : table) (parts : list xpart) : bool :=
       match tb, parts with
       | [], [] => true
       | kv :: tb', p :: parts' =>
         String.eqb (snd kv) (x_tag p) && match x_ty p with XBool => true | _ => false end && go tb' parts'
       | _, _ => false
       end) tb parts
  | _, _ => false
  end.

(* the value of an attribute of kind k, encoded by e, is valid for t (cls: the class of the object, for __class__) *)
Definition enc_conf (cls : string) (k : kind) (e : wenc) (t : xty) : bool :=
  match k, e, t with
  | KStr _, WText, XStr _ => true
  | KBool, WBool, XBool => true
  | KEnum ms _, WEnum tbls, XEnum lits =>
    forallb (fun m => match chain (wt_enum W) tbls m with Some s => smem s lits | None => false end) ms
  | KClass, WEnum tbls, XEnum lits =>
    match chain (wt_enum W) tbls cls with Some s => smem s lits | None => false end
  | KXsd _, WXsd, XStr _ => true
  | KXsdFixed _, WXsd, XStr _ => true
  | KBytes, WB64, XB64 => true
  | KBytes, WB64Raw, XB64 => true
  | KLevel _, WLevel tbl, XCls g => level_conf (wt_enum W) tbl g
  | KObj cs _, _, _ => site_conf cs e t
  | KList cs _, _, _ => list_conf cs e t
  | _, _, _ => false
  end.

(* the wrapper types need at least one child: the condition (or the metamodel) excludes the empty collection *)
Definition needs_items (t : xty) : bool := match t with XList _ _ | XMany _ => true | _ => false end.
Definition cond_nonempty (c : wcond) : bool :=
  match c with WTruthy | WTruthyNotInList | WNonEmpty => true | _ => false end.
(* KObj: a language string set written through a TItems target is non-empty by its own table row *)
Definition kind_nonempty (k : kind) : bool := match k with KList _ ne => ne | KObj _ _ => true | _ => false end.

(* every well-formed value of the kind passes the condition *)
Definition always_emits (k : kind) (c : wcond) : bool :=
  match c with
  | WAlways => true
  | WNotNone => match k with KStr false | KEnum _ false | KObj _ false | KBool | KList _ _ | KLevel _ | KClass => true | _ => false end
  | WTruthy => match k with KStr false | KEnum _ false | KList _ true => true | _ => false end
  | _ => false
  end.

Definition kind_of (attrs : list (string * kind)) (a : string) : option kind :=
  if String.eqb a class_attr then Some KClass else sfind a attrs.

(* the rules of one writer function, in emission order, against the parts of the XSD sequence *)
Fixpoint align (cls : string) (attrs : list (string * kind)) (rules : list wrule) (parts : list xpart) : bool :=
  match rules with
  | [] => forallb x_opt parts
  | r :: rs =>
    negb (w_inline r) &&
    match kind_of attrs (w_attr r), drop_until (w_tag r) parts with
    | Some k, Some (p, rest) =>
      (x_opt p || always_emits k (w_cond r)) &&
      (negb (needs_items (x_ty p)) || cond_nonempty (w_cond r) || kind_nonempty k) &&
      enc_conf cls k (w_enc r) (x_ty p) &&
      align cls attrs rs rest
    | _, _ => false
    end
  end.

Definition xtriple_ok (t : xtriple) : bool :=
  match t with
  | (fn, c, tgt) =>
    match wrules_of W fn c, sfind c M with
    | Some rules, Some attrs =>
      match tgt with
      | TCls g => match parts_of g with
                  | Some parts => nodup_tags (map x_tag parts) && align c attrs rules parts
                  | None => false end
      | TItems itag g =>
        match rules, attrs with
        | [r], [(a, KList cs true)] =>
          w_inline r && String.eqb (w_attr r) a && negb (String.eqb a class_attr) &&
          match w_cond r with WAlways => true | _ => false end &&
          match w_enc r with
          | WList (WObj fn') itag' => String.eqb itag itag' && forallb (fun c' => xtmem (fn', c', TCls g) XT) cs
          | _ => false end
        | _, _ => false
        end
      end
    | _, _ => false
    end
  end.

Definition xconforms : bool := forallb xtriple_ok XT.
Definition xnonconforming : list xtriple := filter (fun t => negb (xtriple_ok t)) XT.

(* the environment: every top-level list of the writer is an optional list part of the root class, in order *)
Fixpoint tops_align (tops : list toplist) (parts : list xpart) : bool :=
  match tops with
  | [] => forallb x_opt parts
  | t :: tops' =>
    match drop_until (tl_list t) parts with
    | Some (p, rest) =>
      x_opt p &&
      match x_ty p with
      | XList itag (XCls g) => String.eqb itag (tl_item t) && xtmem (tl_fn t, tl_cls t, TCls g) XT
      | _ => false end && tops_align tops' rest
    | None => false end
  end.
Definition xenv_ok (root : string) (tops : list toplist) : bool :=
  match parts_of root with
  | Some parts => nodup_tags (map x_tag parts) && tops_align tops parts
  | None => false
  end.
End XConf.

(* ---------- the candidate set of triples: greatest set closed under [xtriple_ok] ---------- *)
Definition list_parts (XS : xschema) : list (string * string) :=
  fold_right (fun ig acc => if existsb (fun x => String.eqb (fst x) (fst ig) && String.eqb (snd x) (snd ig)) acc
                            then acc else ig :: acc) []
    (flat_map (fun row => flat_map (fun p => match x_ty p with
                                             | XList i (XCls g) => [(i, g)]
                                             | _ => [] end) (snd row)) (xs_classes XS)).

Definition xcandidates (W : wtables) (XS : xschema) : list xtriple :=
  flat_map (fun fnrow =>
    flat_map (fun crow =>
      map (fun g => (fst fnrow, fst crow, TCls (fst g))) (xs_classes XS) ++
      map (fun ig => (fst fnrow, fst crow, TItems (fst ig) (snd ig))) (list_parts XS))
    (snd fnrow)) (wt_rules W).

Fixpoint xgfp (M : meta) (W : wtables) (XS : xschema) (n : nat) (xt : list xtriple) : list xtriple :=
  match n with
  | O => xt
  | S n' =>
    let xt' := filter (xtriple_ok M W XS xt) xt in
    if Nat.eqb (List.length xt') (List.length xt) then xt else xgfp M W XS n' xt'
  end.

(* members of the SDK's value universe that are no values of the metamodel (DataTypeDefXsd has no normalizedString):
   the metamodel table with these enum members removed *)
Definition restrict_kind (excl : list string) (k : kind) : kind :=
  match k with
  | KEnum ms opt => KEnum (filter (fun m => negb (smem m excl)) ms) opt
  | _ => k
  end.
Definition restrict (excl : list string) (M : meta) : meta :=
  map (fun row => (fst row, map (fun ak => (fst ak, restrict_kind excl (snd ak))) (snd row))) M.
