(* Generic executable model of the JSON adapter (C03, C18): an interpreter of per-class *rule tables*.
   The tables themselves (Gen_JsonRules.v) are regenerated from
   sdk/basyx/aas/adapter/json/json_serialization.py / json_deserialization.py / _generic.py on every run by
   tools/py2coq/jsonrules.py; the metamodel attribute table [Meta] is the specification side
   (emitted from tools/aasgen.py META).  Definitions only; proofs in proofs/CodecProofs.v.

   Abstractions (trusted, see DESIGN.md): a typed XSD value / byte string is a leaf identified by its canonical
   literal (xsd_repr / base64 text), i.e. from_xsd (xsd_repr v) = v is property C06; JSON text <-> [doc] is the
   json module's; idShorts generated for SubmodelElementList children are canonicalised to VNone. *)
From Coq Require Import List Bool String.
Import ListNotations.
Local Open Scope string_scope.

(* ---------- values (metamodel objects) and documents (JSON values) ---------- *)

Inductive value :=
| VNone
| VStr (s : string)                      (* strings, and enum members by their Python member name *)
| VBool (b : bool)
| VLeaf (lex : string)                   (* typed value / bytes, by canonical literal *)
| VList (l : list value)                 (* lists, sets (canonically sorted by the harness), lang string sets *)
| VObj (cls : string) (fs : list (string * value)).

Inductive doc :=
| DNull
| DStr (s : string)
| DBool (b : bool)
| DRaw                                   (* a JSON number or other non-string scalar *)
| DList (l : list doc)
| DObj (ms : list (string * doc)).

(* ---------- rule tables ---------- *)

Definition table := list (string * string).   (* enum member name -> JSON string *)

Inductive wcond :=
| WAlways                                (* data['m'] = ... *)
| WTruthy                                (* if obj.a: *)
| WNotNone                               (* if obj.a is not None: *)
| WNonEmpty                              (* if len(obj.a) > 0 / obj.a != set() *)
| WTruthyUnder (other : string)          (* nested: if obj.other: ... if obj.a: *)
| WEquals (member : string).             (* if obj.kind is ModellingKind.TEMPLATE *)

Inductive venc :=
| EAuto                                  (* obj.a / list(obj.a): the encoder's default() dispatch *)
| ELeaf                                  (* xsd_repr(obj.a) / base64.b64encode(obj.a).decode() *)
| EEnum (t : table)                      (* _generic.T[obj.a], XSD_TYPE_NAMES[obj.a], KEY_TYPES[KEY_TYPES_CLASSES[obj.a]] *)
| EListWrap (member : string)            (* [{'value': x} for x in obj.a] *)
| EObjWrap (member : string)             (* {'valueReferencePairs': list(obj.a)} *)
| ELevel (t : table).                    (* {v: k in obj.a for k, v in T.items()} *)

Record wrule := mkW {
  w_member : string; w_attr : string; w_cond : wcond; w_enc : venc;
  w_unstripped_only : bool               (* under `not cls.stripped` *)
}.

Inductive rcond :=
| RMandatory                             (* _get_ts(dct, 'm', T) unconditionally: KeyError when absent *)
| RIfPresent                             (* if 'm' in dct: *)
| RIfPresentNotNull                      (* if 'm' in dct and dct['m'] is not None: *)
| RIfPresentUnder (other_member : string)(* if 'o' in dct: ... if 'm' in dct: *)
| RDefault (d : value).                  (* X if 'm' in dct else <default> *)

Inductive vdec :=
| DcStr                                  (* _get_ts(.., str) *)
| DcBool                                 (* _get_ts(.., bool) *)
| DcLeaf                                 (* from_xsd(_get_ts(.., str), T) / base64.b64decode *)
| DcEnum (t : table)                     (* T_INVERSE[_get_ts(.., str)] *)
| DcObj (cls : string)                   (* cls._construct_<cls>(_get_ts(.., dict)) *)
| DcRef (classes : list string)          (* _construct_reference: class chosen by the 'type' member, must be in classes *)
| DcAuto (classes : list string)         (* object already built by object_hook from its modelType, then isinstance filter *)
| DcList (d : vdec)                      (* for x in _get_ts(.., list): ... *)
| DcListUnwrap (member : string) (d : vdec)  (* operation variables: _get_ts(x, 'value', SubmodelElement) *)
| DcObjUnwrap (member : string) (d : vdec)   (* value list *)
| DcLevel (t : table).

Record rrule := mkR {
  r_attr : string; r_member : string; r_cond : rcond; r_dec : vdec;
  r_unstripped_only : bool
}.

(* a class: its document constants (modelType, reference 'type'), writer rules in emission order,
   reader rules *)
Record crules := mkC {
  c_consts : list (string * string);
  c_w : list wrule;
  c_r : list rrule
}.

Definition tables := list (string * crules).

Fixpoint sfind {B} (k : string) (l : list (string * B)) : option B :=
  match l with
  | [] => None
  | (k', v) :: r => if String.eqb k k' then Some v else sfind k r
  end.
Fixpoint rfind (v : string) (t : table) : option string :=      (* inverse table lookup *)
  match t with
  | [] => None
  | (k, v') :: r => if String.eqb v v' then Some k else rfind v r
  end.
Definition smem (s : string) (l : list string) : bool := existsb (String.eqb s) l.

(* ---------- metamodel attribute table (specification side) ---------- *)

Inductive bkind :=
| BStr (nonempty : bool)
| BBool
| BEnum (members : list string)
| BLeaf
| BObj (classes : list string)
| BList (b : bkind) (nonempty : bool)
| BEnumSet (members : list string).       (* a set of enum members, canonically in member order *)
Record kind := mkK { k_opt : bool; k_base : bkind }.

Definition meta := list (string * list (string * kind)).   (* class -> attributes in canonical order *)

(* what an absent member leaves in the attribute: None, or the empty collection *)
Definition absent_value (k : kind) : value :=
  if k_opt k then VNone else
  match k_base k with BList _ _ => VList [] | BEnumSet _ => VList [] | _ => VNone end.

Section Interp.
Variable T : tables.
Variable M : meta.
Variable leaf_truthy : string -> bool.    (* Python truthiness of a typed value, by literal (oracle) *)
Variable stripped : bool.

(* ---------- Python truthiness ---------- *)
Definition truthy (v : value) : bool :=
  match v with
  | VNone => false
  | VStr s => negb (String.eqb s "")
  | VBool b => b
  | VLeaf lex => leaf_truthy lex
  | VList l => match l with [] => false | _ => true end
  | VObj _ _ => true
  end.

Definition cond_holds (c : wcond) (fs : list (string * value)) (v : value) : bool :=
  match c with
  | WAlways => true
  | WTruthy => truthy v
  | WNotNone => match v with VNone => false | _ => true end
  | WNonEmpty => match v with VList [] => false | _ => true end
  | WTruthyUnder o => match sfind o fs with Some ov => truthy ov && truthy v | None => false end
  | WEquals m => match v with VStr s => String.eqb s m | _ => false end
  end.

(* ---------- encoder ---------- *)

Definition enc_enum (t : table) (v : value) : doc :=
  match v with
  | VStr s => match sfind s t with Some j => DStr j | None => DNull end   (* KeyError in Python *)
  | _ => DNull
  end.

Definition enc_level (t : table) (v : value) : doc :=
  match v with
  | VList l => DObj (map (fun kv => (snd kv, DBool (existsb (fun x => match x with VStr s => String.eqb s (fst kv) | _ => false end) l))) t)
  | _ => DNull
  end.

(* how one attribute value is rendered, given the default dispatch [ea] for nested values *)
Definition enc_with (ea : value -> doc) (e : venc) (x : value) : doc :=
  match e with
  | EAuto => ea x
  | ELeaf => match x with VLeaf lex => DStr lex | VStr s => DStr s (* xsd_repr(str) is the str *) | _ => DNull end
  | EEnum t => enc_enum t x
  | EListWrap m => match x with
                   | VList xs => DList (map (fun y => DObj [(m, ea y)]) xs)
                   | _ => DNull end
  | EObjWrap m => DObj [(m, ea x)]
  | ELevel t => enc_level t x
  end.

Definition find_w (a : string) (ws : list wrule) : option wrule :=
  find (fun r => String.eqb (w_attr r) a) ws.
Definition find_r (a : string) (rs : list rrule) : option rrule :=
  find (fun r => String.eqb (r_attr r) a) rs.
Definition find_r_member (m : string) (rs : list rrule) : option rrule :=
  find (fun r => String.eqb (r_member r) m) rs.

(* JSON objects are unordered; the model lists members in attribute order (constants first) *)
Fixpoint enc_auto (v : value) : doc :=
  match v with
  | VNone => DNull
  | VStr s => DStr s
  | VBool b => DBool b
  | VLeaf _ => DRaw
  | VList l => DList (map enc_auto l)
  | VObj cls fs =>
    match sfind cls T with
    | None => DNull                     (* TypeError: not serialisable *)
    | Some c =>
      DObj (map (fun kv => (fst kv, DStr (snd kv))) (c_consts c) ++
            (fix fields (l : list (string * value)) : list (string * doc) :=
               match l with
               | [] => []
               | (a, x) :: l' =>
                 match find_w a (c_w c) with
                 | Some r =>
                   if (w_unstripped_only r && stripped) || negb (cond_holds (w_cond r) fs x)
                   then fields l'
                   else (w_member r, enc_with enc_auto (w_enc r) x) :: fields l'
                 | None => fields l'
                 end
               end) fs)
    end
  end.

(* ---------- decoder ---------- *)

Definition dec_level (t : table) (j : doc) : option value :=
  match j with
  | DObj ms =>
    (* for k, v in dct.items(): if v: add(INVERSE[k]) ; canonical order = table order *)
    if forallb (fun kv => match rfind (fst kv) t with Some _ => true | None => false end) ms
    then Some (VList (flat_map (fun kv => match sfind (snd kv) ms with
                                          | Some (DBool true) => [VStr (fst kv)]
                                          | _ => [] end) t))
    else None
  | _ => None
  end.

Fixpoint all_some {A} (l : list (option A)) : option (list A) :=
  match l with
  | [] => Some []
  | Some x :: r => match all_some r with Some xs => Some (x :: xs) | None => None end
  | None :: _ => None
  end.

Definition class_of_const (member : string) (classes : list string) (ms : list (string * doc)) : option string :=
  match sfind member ms with
  | Some (DStr s) =>
    find (fun cls => match sfind cls T with
                     | Some c => match sfind member (c_consts c) with Some s' => String.eqb s s' | None => false end
                     | None => false end) classes
  | _ => None
  end.

Definition dec_field (c : crules) (ms : list (string * doc)) (decoded : list (string * option value))
           (ak : string * kind) : option (string * value) :=
  match find_r (fst ak) (c_r c) with
  | None => Some (fst ak, absent_value (snd ak))          (* attribute never set by the reader *)
  | Some r =>
    if r_unstripped_only r && stripped then Some (fst ak, absent_value (snd ak)) else
    let present := sfind (r_member r) decoded in
    let isnull := match sfind (r_member r) ms with Some DNull => true | _ => false end in
    match r_cond r, present with
    | RMandatory, None => None                              (* KeyError *)
    | RMandatory, Some None => None
    | RMandatory, Some (Some v) => Some (fst ak, v)
    | RIfPresent, None => Some (fst ak, absent_value (snd ak))
    | RIfPresent, Some None => None
    | RIfPresent, Some (Some v) => Some (fst ak, v)
    | RIfPresentNotNull, None => Some (fst ak, absent_value (snd ak))
    | RIfPresentNotNull, Some ov =>
      if isnull then Some (fst ak, absent_value (snd ak))
      else match ov with Some v => Some (fst ak, v) | None => None end
    | RIfPresentUnder o, _ =>
      match sfind o ms with
      | None => Some (fst ak, absent_value (snd ak))
      | Some _ => match present with
                  | None => Some (fst ak, absent_value (snd ak))
                  | Some (Some v) => Some (fst ak, v)
                  | Some None => None
                  end
      end
    | RDefault dv, None => Some (fst ak, dv)
    | RDefault dv, Some (Some v) => Some (fst ak, v)
    | RDefault dv, Some None => None
    end
  end.

Fixpoint dec (d : vdec) (j : doc) {struct j} : option value :=
  let dec_obj := fun (cls : string) (ms : list (string * doc)) =>
    match sfind cls T, sfind cls M with
    | Some c, Some attrs =>
      (* decode every member that some rule reads, in document order *)
      let decoded :=
        (fix go (l : list (string * doc)) : list (string * option value) :=
           match l with
           | [] => []
           | (m, dj) :: l' =>
             match find_r_member m (c_r c) with
             | Some r => (m, dec (r_dec r) dj) :: go l'
             | None => go l'
             end
           end) ms in
      match all_some (map (dec_field c ms decoded) attrs) with
      | Some fs => Some (VObj cls fs)
      | None => None
      end
    | _, _ => None
    end in
  match d, j with
  | DcStr, DStr s => Some (VStr s)
  | DcBool, DBool b => Some (VBool b)
  | DcLeaf, DStr s => Some (VLeaf s)
  | DcEnum t, DStr s => match rfind s t with Some k => Some (VStr k) | None => None end
  | DcObj cls, DObj ms => dec_obj cls ms
  | DcRef classes, DObj ms =>
    match class_of_const "type" classes ms with Some cls => dec_obj cls ms | None => None end
  | DcAuto classes, DObj ms =>
    match class_of_const "modelType" classes ms with Some cls => dec_obj cls ms | None => None end
  | DcList d', DList l =>
    match all_some (map (dec d') l) with Some vs => Some (VList vs) | None => None end
  | DcListUnwrap m d', DList l =>
    match all_some (map (fun x => match x with
                                  | DObj [(m', y)] => if String.eqb m m' then dec d' y else None
                                  | _ => None end) l) with
    | Some vs => Some (VList vs) | None => None end
  | DcObjUnwrap m d', DObj [(m', y)] => if String.eqb m m' then dec d' y else None
  | DcLevel t, _ => dec_level t j
  | _, _ => None
  end.

End Interp.
