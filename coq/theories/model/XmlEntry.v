(* Entry points of the XML adapter over the generated tables: the three top-level lists of an environment
   (object_store_to_xml_element / read_aas_xml_file_into) and the single-object API
   (object_to_xml_element / read_aas_xml_element).  Definitions only. *)
From Coq Require Import List Bool String.
From Basyx Require Import model.XmlCodec model.XmlCompat model.XmlMeta gen.Gen_XmlWriter gen.Gen_XmlReader.
Import ListNotations.
Local Open Scope string_scope.
Local Open Scope list_scope.

(* writer (list tag, item tag, function, class) joined with the reader's item tag -> constructor *)
Definition xml_tops : list toplist :=
  flat_map (fun t : string * string * string * string => match t with (lt, it, fn, cls) =>
              match sfind it xml_r_tops with
              | Some ctor => [mkTop lt it fn cls ctor]
              | None => [] end end) xml_w_tops.

(* the reader recognises a list element as item tag ++ "s" *)
Definition xml_tops_ok : bool :=
  Nat.eqb (List.length xml_tops) 3 &&
  forallb (fun t => String.eqb (tl_list t) (tl_item t ++ "s")%string) xml_tops &&
  nodup_s (map tl_list xml_tops) && nodup_s (map tl_cls xml_tops) &&
  forallb (fun c => smem c (map tl_cls xml_tops)) xml_top_classes.

Definition top_triples : list triple := map (fun t => (tl_fn t, tl_cls t, tl_ctor t)) xml_tops.

(* single-object API: a constructable member and a class belong together when the member's constructor
   (or, for the tag/text dispatching constructors, the dispatch target for the writer's tag/class) builds
   that class *)
Definition ctors_for_member (ctor : string) (isdisp : bool) (cls fn tag : string) : list string :=
  if isdisp then
    match sfind ctor (rt_disp gen_xml_r) with
    | Some (RDTag m) => match sfind tag m with Some k => [k] | None => [] end
    | Some (RDText _ _ m) => match sfind cls m with Some k => [k] | None => [] end
    | None => [] end
  else [ctor].

Definition single_triples : list (string * triple) :=
  flat_map (fun mc : string * (string * bool) => match mc with (member, (ctor, isdisp)) =>
    flat_map (fun cw : string * (string * string * bool) => match cw with (cls, (fn, tag, needs_tag)) =>
      if needs_tag then [] else
      flat_map (fun k => match class_of_ctor gen_xml_r k with
                         | Some c' => if String.eqb c' cls then [(member, (fn, cls, k))] else []
                         | None => [] end) (ctors_for_member ctor isdisp cls fn tag) end) xml_w_single
    end) xml_r_single.

(* members of XMLConstructables without any class that the single-object writer can produce for them *)
Definition single_unsupported : list string :=
  map fst (filter (fun mc : string * (string * bool) => negb (smem (fst mc) (map fst single_triples))) xml_r_single).

Definition xml_roots : list triple := top_triples ++ map snd single_triples.
Definition xml_pairs : list triple := closure xml_meta gen_xml_w gen_xml_r 16 xml_roots.
