(* Observation encoding for the correspondence check of model/Couch.v against CouchDBObjectStore /
   CouchDBBackend talking to tools/fakes/couchdb_server.py (tools/c16.py). *)
From Coq Require Import List ZArith Bool String Ascii Arith.
From Basyx Require Import model.Corr model.Files model.Couch.
Import ListNotations.
Local Open Scope Z_scope.

Fixpoint sofz (l : list Z) : string :=
  match l with
  | [] => EmptyString
  | x :: r => String (ascii_of_nat (Z.to_nat x)) (sofz r)
  end.
Definition zn (n : nat) : Z := Z.of_nat n.

Definition enc_exn (e : exn) : list Z :=
  match e with
  | XKey => [1] | XConn => [2] | XResp => [3] | XServer k => [4; zn k] | XConflict => [5]
  | XSource => [6] | XBadArg => [9]
  end.
Definition enc_outcome (o : outcome) : list Z :=
  match o with
  | ODone => [0]
  | OCell x => [1; zn x]
  | OBool b => [3; zb b]
  | ONat n => [4; zn n]
  | OCells l => 5 :: map zn l
  | OErr e => 6 :: enc_exn e
  end.

Definition the_cfg : cfg := mkCfg false "127.0.0.1:5984/db".

(* after each call: outcome and number of requests; per pool id the server document (generation, live,
   payload) and the revision the client has recorded; per object its payload and whether it has a source *)
Definition observe (ids : list ident) (w : world) (out : outcome) (sent : nat) : list (list Z) :=
  (enc_outcome out ++ [-1; zn sent])
  :: (map (fun i => match sget (w_sv w) i with
                    | Some (mkDoc r (Some v)) => [20; zn r; 1; zn v]
                    | Some (mkDoc r None) => [20; zn r; 0; 0]
                    | None => [20; 0; 0; 0]
                    end ++ match sassoc (doc_url the_cfg i) (revs (w_cl w)) with
                           | Some r => [zn r]
                           | None => [-1]
                           end) ids
   ++ map (fun ce => [24; zn (c_val ce); zb (negb (String.eqb (c_src ce) ""))]) (heap (w_cl w)))%list.

Fixpoint trace (ids : list ident) (w : world) (ops : list (op * fspec)) : list (list (list Z)) :=
  match ops with
  | [] => []
  | (o, f) :: r => let '(w', out, sent) := step the_cfg f w o in observe ids w' out sent :: trace ids w' r
  end.

Definition check_case (c : list (ident * val) * list (op * fspec) * Z) : bool :=
  let '(pool, ops, expected) := c in
  Z.eqb (hash_zlll 0 (trace (map fst pool) (init pool) ops)) expected.

(* CouchDBObjectStore._transform_id alone *)
Definition check_quote (c : list Z * list Z) : bool :=
  let '(inp, expected) := c in zl_eqb (codes (transform_id (sofz inp))) expected.
