(* Executable model of the HTTP repository server  sdk/basyx/aas/adapter/http.py  (C10, C11).
   Definitions only; lemmas are in proofs/HttpProofs.v.

   What is generated (gen/Gen_HttpRoutes.v, tie T): the route table, every try/except block
   (caught classes -> action), the request_body / response_t call shapes, the calls made by each
   function (commit() presence), type_constructables_map.  This file consults those tables at
   every call site ([H_...] constants below), so an edit of an except clause, of a route, of a
   status code or a dropped commit() changes what the model computes.

   What is hand-written (tie C, differential runs by tools/c10.py / tools/c11.py): the sequence of
   operations of each handler, which exception class each operation raises in which situation,
   update_from / update_nss_from, paging, Location construction.

   Not modelled (trusted / correspondence only): werkzeug's URL matching and converters (a
   request arrives as: route pattern + decoded arguments or "decoding failed"), Accept
   negotiation (arrives as the negotiated class), JSON/XML/multipart parsing (a body arrives as
   the abstract value it denotes, or as "unprocessable" / "unsupported media type").

   Identifiers, idShorts and qualifier types are opaque numbers (only equality is used by the
   server); [tok] stands for "all other attributes" of an object. *)
From Coq Require Import List ZArith Bool String Ascii Arith.
From Basyx Require Import gen.Gen_HttpRoutes model.Files.
Import ListNotations.
Local Open Scope string_scope.
Local Open Scope Z_scope.
Local Open Scope list_scope.

(* ------------------------------------------------------------------ exceptions *)

Inductive exc :=
| EKey | EValue | EType | EUnexpectedType | EIndex | EAttr | EConstraint (n : Z)
| EBinascii | EUnicodeDecode | EJsonDecode | EXmlSyntax | EFileNotFound
| EHttp (cls : string).

(* Python's class hierarchy, as far as except clauses of http.py can tell *)
Definition exc_classes (e : exc) : list string :=
  match e with
  | EKey => ["KeyError"; "LookupError"; "Exception"]
  | EIndex => ["IndexError"; "LookupError"; "Exception"]
  | EValue => ["ValueError"; "Exception"]
  | EBinascii => ["binascii.Error"; "ValueError"; "Exception"]
  | EUnicodeDecode => ["UnicodeDecodeError"; "UnicodeError"; "ValueError"; "Exception"]
  | EJsonDecode => ["JSONDecodeError"; "ValueError"; "Exception"]
  | EType => ["TypeError"; "Exception"]
  | EUnexpectedType => ["UnexpectedTypeError"; "TypeError"; "Exception"]
  | EAttr => ["AttributeError"; "Exception"]
  | EConstraint _ => ["AASConstraintViolation"; "Exception"]
  | EXmlSyntax => ["XMLSyntaxError"; "SyntaxError"; "Exception"]
  | EFileNotFound => ["FileNotFoundError"; "OSError"; "Exception"]
  | EHttp cls => [cls; "HTTPException"; "Exception"]
  end.
Definition isa (e : exc) (cls : string) : bool := existsb (String.eqb cls) (exc_classes e).

Inductive result (A : Type) := Ok (a : A) | Exc (e : exc).
Arguments Ok {A} a.
Arguments Exc {A} e.
Definition bind {A B} (r : result A) (f : A -> result B) : result B :=
  match r with Ok a => f a | Exc e => Exc e end.
Notation "'do' x <- r ; k" := (bind r (fun x => k)) (at level 200, x pattern, r at level 100, k at level 200).

Fixpoint run_action (a : action) (e : exc) : option exc :=
  match a with
  | ARaise c => Some (EHttp c)
  | AReraise => Some e
  | ASwallow => None
  | AIfConstraintNe n a1 a2 =>
    match e with
    | EConstraint m => if m =? n then run_action a2 e else run_action a1 e
    | _ => run_action a1 e
    end
  end.

Definition handlers := list (list string * action).
Inductive caught := Propagate (e : exc) | Swallowed.
Fixpoint catch (hs : handlers) (e : exc) : caught :=
  match hs with
  | [] => Propagate e
  | (cls, a) :: r =>
    if existsb (isa e) cls
    then match run_action a e with Some e' => Propagate e' | None => Swallowed end
    else catch r e
  end.
(* an operation result seen through the try statement around its call site; [dflt] is what the
   code continues with when the except-body swallows the exception *)
Definition guard {A} (hs : handlers) (r : result A) (dflt : result A) : result A :=
  match r with
  | Ok _ => r
  | Exc e => match catch hs e with Propagate e' => Exc e' | Swallowed => dflt end
  end.

Fixpoint slookup {B} (k : string) (l : list (string * B)) : option B :=
  match l with [] => None | (k', v) :: r => if String.eqb k k' then Some v else slookup k r end.
Definition mem_s (k : string) (l : list string) : bool := existsb (String.eqb k) l.

(* the except clauses around the call of [op] inside function [fn] ([] if it is in no try body) *)
Definition handlers_of (fn op : string) : handlers :=
  match slookup fn try_table with
  | None => []
  | Some ts => match find (fun t => mem_s op (fst t)) ts with Some t => snd t | None => [] end
  end.
Definition calls_of (fn : string) : list string :=
  match slookup fn call_table with Some l => l | None => [] end.
Definition commits_direct (fn : string) : bool :=
  existsb (fun c => String.eqb (substring (String.length c - 7) 7 c) ".commit") (calls_of fn).
(* a handler commits itself or through WSGIApp._update_identifiable *)
Definition commits (fn : string) : bool :=
  commits_direct fn || (mem_s "self._update_identifiable" (calls_of fn) && commits_direct "_update_identifiable").
(* the calls of the finally block of the try/finally statement (no except clauses) around the call of [op] in [fn] *)
Definition finally_of (fn op : string) : list string :=
  match slookup fn finally_table with
  | None => []
  | Some ts => match find (fun t => mem_s op (fst t)) ts with Some t => snd t | None => [] end
  end.
Definition raises (fn cls : string) : bool :=
  match slookup fn raise_table with Some l => mem_s cls l | None => false end.

(* call sites (evaluated once from the generated tables) *)
Definition H_b64_decode := Eval vm_compute in handlers_of "base64url_decode" "base64.urlsafe_b64decode".
Definition H_json_list := Eval vm_compute in handlers_of "HTTPApiDecoder.json_list" "json.loads".
Definition H_xml := Eval vm_compute in handlers_of "HTTPApiDecoder.xml" "read_aas_xml_element".
Definition H_idshort_conv := Eval vm_compute in handlers_of "IdShortPathConverter.to_python" "model.Referable.validate_id_short".
Definition H_resolve := Eval vm_compute in handlers_of "_resolve_reference" "reference.resolve".
Definition H_get_referable := Eval vm_compute in handlers_of "_get_nested_submodel_element" "namespace.get_referable".
Definition H_sm_or_nested := Eval vm_compute in handlers_of "_get_submodel_or_nested_submodel_element" "self._get_nested_submodel_element".
Definition H_ns_op := Eval vm_compute in handlers_of "_namespace_submodel_element_op" "op".
Definition H_qual_op := Eval vm_compute in handlers_of "_qualifiable_qualifier_op" "op".
Definition H_slice := Eval vm_compute in handlers_of "_get_slice" "int".
Definition H_slice_islice := Eval vm_compute in handlers_of "_get_slice" "itertools.islice".
Definition H_post_aas_add := Eval vm_compute in handlers_of "post_aas" "self.object_store.add".
Definition H_post_sm_add := Eval vm_compute in handlers_of "post_submodel" "self.object_store.add".
Definition H_post_cd_add := Eval vm_compute in handlers_of "post_concept_description" "self.object_store.add".
Definition H_post_elem_add := Eval vm_compute in handlers_of "post_submodel_submodel_elements_id_short_path" "parent.add_referable".
Definition H_att_write := Eval vm_compute in handlers_of "get_submodel_submodel_element_attachment" "self.file_store.write_file".
Definition H_att_name := Eval vm_compute in handlers_of "put_submodel_submodel_element_attachment" "model.File".
Definition H_att_resp := Eval vm_compute in handlers_of "get_submodel_submodel_element_attachment" "Response".
Definition H_bind := Eval vm_compute in handlers_of "handle_request" "self.url_map.bind_to_environ".
Definition H_put_elem_update := Eval vm_compute in handlers_of "put_submodel_submodel_elements_id_short_path" "submodel_element.update_from".
Definition H_att_assign := Eval vm_compute in handlers_of "put_submodel_submodel_element_attachment" "set:submodel_element.value".
Definition H_att_delete := Eval vm_compute in handlers_of "delete_submodel_submodel_element_attachment" "self.file_store.delete_file".
Definition H_delete_aas_remove := Eval vm_compute in handlers_of "delete_aas" "self.object_store.remove".
Definition H_delete_sm_remove := Eval vm_compute in handlers_of "delete_submodel" "self.object_store.remove".
Definition H_delete_cd_remove := Eval vm_compute in handlers_of "delete_concept_description" "self.object_store.remove".
Definition H_delete_ref_sm_remove := Eval vm_compute in handlers_of "delete_aas_submodel_refs_submodel" "self.object_store.remove".
Definition H_dispatch := Eval vm_compute in handlers_of "handle_request" "endpoint".
Definition converted : list string := Eval vm_compute in
  match H_dispatch with (cls, ASwallow) :: _ => cls | _ => [] end.

Definition C_commit (fn : string) : bool := commits fn.
(* WSGIApp._update_identifiable: refuses an id that belongs to another object, takes the object out of the store before
   update_from and files it again in the finally block *)
Definition U_conflict : bool := Eval vm_compute in raises "_update_identifiable" "Conflict".
Definition U_discards : bool := Eval vm_compute in mem_s "self.object_store.discard" (calls_of "_update_identifiable").
Definition U_readds : bool := Eval vm_compute in mem_s "self.object_store.add" (finally_of "_update_identifiable" "identifiable.update_from").

(* status codes of werkzeug.exceptions (hand-written, tied by the correspondence) *)
Definition http_code (cls : string) : Z :=
  if String.eqb cls "BadRequest" then 400 else
  if String.eqb cls "BadHost" then 400 else
  if String.eqb cls "NotFound" then 404 else
  if String.eqb cls "MethodNotAllowed" then 405 else
  if String.eqb cls "NotAcceptable" then 406 else
  if String.eqb cls "Conflict" then 409 else
  if String.eqb cls "UnsupportedMediaType" then 415 else
  if String.eqb cls "UnprocessableEntity" then 422 else
  if String.eqb cls "NotImplemented" then 501 else
  500. (* InternalServerError and anything unknown *)

(* ------------------------------------------------------------------ data *)

Definition ident := Z.
Definition name := Z.
Inductive mt := MProp | MRange | MColl | MList | MFile | MBlob | MRel | MARel.
Definition mt_eqb (a b : mt) : bool :=
  match a, b with
  | MProp, MProp | MRange, MRange | MColl, MColl | MList, MList | MFile, MFile | MBlob, MBlob
  | MRel, MRel | MARel, MARel => true
  | _, _ => false
  end.
(* File.value : None | path string;  Blob.value : None | bytes (token) *)
Inductive attv := ANone | APath (p : string) | AData (c : nat).

(* children are filed under a key: the idShort they had when they were added (Some k), or a
   generated name nobody can address for the items of a SubmodelElementList (None) *)
Inductive elem :=
  Elem (m : mt) (ids : option name) (tok : Z) (quals : list (name * Z)) (ctype : nat) (val : attv)
       (ch : list (option name * elem)).
Definition children := list (option name * elem).
Definition e_mt (e : elem) := let 'Elem m _ _ _ _ _ _ := e in m.
Definition e_ids (e : elem) := let 'Elem _ i _ _ _ _ _ := e in i.
Definition e_tok (e : elem) := let 'Elem _ _ t _ _ _ _ := e in t.
Definition e_quals (e : elem) := let 'Elem _ _ _ q _ _ _ := e in q.
Definition e_ctype (e : elem) := let 'Elem _ _ _ _ c _ _ := e in c.
Definition e_val (e : elem) := let 'Elem _ _ _ _ _ v _ := e in v.
Definition e_ch (e : elem) : children := let 'Elem _ _ _ _ _ _ c := e in c.
Definition set_quals (e : elem) (q : list (name * Z)) := let 'Elem m i t _ c v ch := e in Elem m i t q c v ch.
Definition set_ch (e : elem) (ch : children) := let 'Elem m i t q c v _ := e in Elem m i t q c v ch.
Definition set_val (e : elem) (v : attv) := let 'Elem m i t q c _ ch := e in Elem m i t q c v ch.
Definition is_namespace (m : mt) : bool := match m with MColl | MList => true | _ => false end.

Record shell := { sh_id : ident; sh_ids : option name; sh_tok : Z; sh_refs : list ident }.
Record submodel := { sm_id : ident; sm_ids : option name; sm_tok : Z; sm_quals : list (name * Z); sm_ch : children }.
Record cdesc := { cd_id : ident; cd_ids : option name; cd_tok : Z }.
Inductive obj := OShell (s : shell) | OSm (s : submodel) | OCd (c : cdesc).
Definition obj_id (o : obj) : ident :=
  match o with OShell s => sh_id s | OSm s => sm_id s | OCd c => cd_id c end.
Definition obj_ids (o : obj) : option name :=
  match o with OShell s => sh_ids s | OSm s => sm_ids s | OCd c => cd_ids c end.

(* objects are filed under a key: the id they had when they were added (a PUT that changes the id files the object anew) *)
(* st_backed: the object store is a LocalFileObjectStore: objects are re-read from their
   documents at every request, so a change that was not commit()ted is gone afterwards *)
Record state := { st_objs : list (ident * obj); st_files : Files.st; st_backed : bool }.

Fixpoint zlookup {B} (k : Z) (l : list (Z * B)) : option B :=
  match l with [] => None | (k', v) :: r => if k =? k' then Some v else zlookup k r end.
Fixpoint zremove {B} (k : Z) (l : list (Z * B)) : list (Z * B) :=
  match l with [] => [] | (k', v) :: r => if k =? k' then r else (k', v) :: zremove k r end.
Fixpoint zreplace {B} (k : Z) (v : B) (l : list (Z * B)) : list (Z * B) :=
  match l with [] => [] | (k', v') :: r => if k =? k' then (k, v) :: r else (k', v') :: zreplace k v r end.
Definition zmem (k : Z) (l : list Z) : bool := existsb (Z.eqb k) l.

Definition okey_eqb (a b : option name) : bool :=
  match a, b with Some x, Some y => x =? y | _, _ => false end.   (* generated names never match *)
Fixpoint clookup (k : name) (l : children) : option elem :=
  match l with [] => None | (k', v) :: r => if okey_eqb (Some k) k' then Some v else clookup k r end.
Fixpoint creplace (k : name) (v : elem) (l : children) : children :=
  match l with [] => [] | (k', v') :: r => if okey_eqb (Some k) k' then (k', v) :: r else (k', v') :: creplace k v r end.
Fixpoint cremove (k : name) (l : children) : children :=
  match l with [] => [] | (k', v') :: r => if okey_eqb (Some k) k' then r else (k', v') :: cremove k r end.

(* ------------------------------------------------------------------ requests and responses *)

Inductive meth := MGet | MHead | MPost | MPut | MDelete | MPatch | MOptions | MOther.
Definition meth_name (m : meth) : string :=
  match m with MGet => "GET" | MHead => "HEAD" | MPost => "POST" | MPut => "PUT" | MDelete => "DELETE"
             | MPatch => "PATCH" | MOptions => "OPTIONS" | MOther => "FOO" end.
Inductive accept := AccJson | AccXml | AccTextXml | AccNone.
Inductive idarg := IdOk (i : ident) | IdBad | IdNonAscii | IdAbsent.
Inductive patharg := PathOk (p : list name) | PathBad | PathAbsent.
Inductive qint := QAbsent | QBad | QHuge | QNat (n : nat).
Inductive qdec := QdOk | QdBad400 | QdBad422.
Record query := { q_limit : qint; q_cursor : qint; q_core : bool; q_idshort : option name;
                  q_assetids : list qdec; q_semid : option qdec }.

Inductive value :=
| VShell (s : shell) | VSm (s : submodel) | VCd (c : cdesc) | VElem (e : elem)
| VQual (t : name) (v : Z) | VRef (i : ident) | VAsset (tok : Z)
| VKeys (root : Z) (i : ident) (p : list (mt * option name)).   (* ModelReference.from_referable *)

Inductive body :=
| BNoCtype                       (* mimetype not among valid_content_types *)
| BBad                           (* JSON/XML that no expected class accepts *)
| BVal (xml : bool) (v : value)  (* well-formed document describing v *)
| BUpload (fname : option string) (fname_ok : bool) (file : option (nat * nat)).
  (* multipart form: fileName, whether it satisfies the PathType constraints, (mimetype, bytes) *)

Record request := {
  r_rule : string; r_meth : meth; r_accept : accept;
  r_aas : idarg; r_sm : idarg; r_cd : idarg; r_qt : idarg; r_path : patharg;
  r_query : query; r_body : body;
  r_badhost : bool   (* the Host header is no valid host name: bind_to_environ raises BadHost *) }.

Inductive loc :=
| LShell (i : ident) | LSm (i : ident) | LCd (i : ident)
| LElem (i : ident) (p : list (option name))
| LQual (i : ident) (p : list name) (t : name)
| LRedirect (i : ident).

Inductive payload :=
| PEmpty
| PResult (code : string)                      (* Result(success=false, [Message(code, ..., Error)]) *)
| PVal (v : value)
| PList (cursor : option nat) (vs : list value)
| PFile (ctype : nat) (content : nat)
| PPlain                                       (* werkzeug's own 406 page *)
| PCrash (e : exc).                            (* the exception leaves the WSGI callable *)
Record response := { status : Z; rtype : accept; location : option loc; pay : payload }.

(* ------------------------------------------------------------------ routing (generated table) *)

Inductive routed := RNotFound | RMethodNotAllowed | REndpoint (e : endpoint).
Definition rule_allows (ms : list string) (m : meth) : bool :=
  match ms with
  | [] => true
  | _ => mem_s (meth_name m) ms || (match m with MHead => mem_s "GET" ms | _ => false end)
  end.
Fixpoint find_route (rs : list (string * list string * endpoint)) (rule : string) (m : meth) (seen : bool) : routed :=
  match rs with
  | [] => if seen then RMethodNotAllowed else RNotFound
  | (p, ms, e) :: r =>
    if String.eqb p rule
    then if rule_allows ms m then REndpoint e else find_route r rule m true
    else find_route r rule m seen
  end.

(* ------------------------------------------------------------------ store operations *)

(* DictObjectStore.get / _get_obj_ts: kind test, NotFound otherwise *)
Definition http {A} (cls : string) : result A := Exc (EHttp cls).
Definition need_id (a : idarg) : result ident :=
  match a with
  | IdOk i => Ok i
  | IdBad => guard H_b64_decode (Exc EBinascii) (Exc EBinascii)
  | IdNonAscii => guard H_b64_decode (Exc EValue) (Exc EValue)   (* urlsafe_b64decode of a non-ASCII str *)
  | IdAbsent => Ok 0
  end.
Definition get_shell (s : state) (i : ident) : result shell :=
  match zlookup i (st_objs s) with Some (OShell x) => Ok x | _ => http "NotFound" end.
Definition get_sm (s : state) (i : ident) : result submodel :=
  match zlookup i (st_objs s) with Some (OSm x) => Ok x | _ => http "NotFound" end.
Definition get_cd (s : state) (i : ident) : result cdesc :=
  match zlookup i (st_objs s) with Some (OCd x) => Ok x | _ => http "NotFound" end.
(* DictObjectStore.add: KeyError iff the new object's id is a key already *)
Definition store_add (s : state) (o : obj) : result state :=
  match zlookup (obj_id o) (st_objs s) with
  | Some _ => Exc EKey
  | None => Ok {| st_objs := st_objs s ++ [(obj_id o, o)]; st_files := st_files s; st_backed := st_backed s |}
  end.
(* MutableSet.remove(x): `x in store` is `_backend.get(x.id) is x`; the object found under key k
   is the one filed under its own id only if its id is still k *)
Definition store_remove (s : state) (k : ident) (o : obj) : result state :=
  if obj_id o =? k
  then Ok {| st_objs := zremove k (st_objs s); st_files := st_files s; st_backed := st_backed s |}
  else Exc EKey.
Definition store_set (s : state) (k : ident) (o : obj) : state :=
  {| st_objs := zreplace k o (st_objs s); st_files := st_files s; st_backed := st_backed s |}.
(* MutableSet.discard(x): removes the object filed under x.id if it is x *)
Definition store_discard (s : state) (k : ident) (o : obj) : state :=
  if obj_id o =? k
  then {| st_objs := zremove k (st_objs s); st_files := st_files s; st_backed := st_backed s |}
  else s.
(* WSGIApp._update_identifiable(identifiable, new) for the object o found under key k; o' is o after update_from(new).
   Same id: updated in place.  Another id: 409 if the store holds an object under it (nothing has changed); otherwise
   the object is discarded (filed under its old id), updated and added again (under its new id, at the end) *)
Definition update_identifiable (s : state) (k : ident) (o o' : obj) : result state :=
  if obj_id o' =? obj_id o then Ok (store_set s k o') else
  do _ <- (match zlookup (obj_id o') (st_objs s) with
           | Some _ => if U_conflict then http "Conflict" else Ok tt
           | None => Ok tt
           end);
  let s1 := if U_discards then store_discard s k o else s in
  if U_readds then store_add s1 o' else Ok s1.
(* a PUT handler of an Identifiable: through _update_identifiable, or update_from + commit in place *)
Definition put_identifiable (fn : string) (s : state) (k : ident) (o o' : obj) : result state :=
  if mem_s "self._update_identifiable" (calls_of fn) then update_identifiable s k o o' else Ok (store_set s k o').
Definition set_files (s : state) (f : Files.st) : state := {| st_objs := st_objs s; st_files := f; st_backed := st_backed s |}.
(* a handler that changed live objects: kept only if it commit()s when the store is backed *)
Definition persist (fn : string) (s s' : state) : state :=
  if st_backed s && negb (commits fn) then set_files s (st_files s') else s'.

(* ------------------------------------------------------------------ namespaces *)

(* UniqueIdShortNamespace.get_referable below a node with children [ch] whose class is [m]
   (None = the submodel itself).  URL path segments are valid idShorts, so an index into a
   SubmodelElementList can never be given: int(id_) raises ValueError there. *)
Fixpoint get_referable (m : option mt) (ch : children) (p : list name) : result (option elem) :=
  match p with
  | [] => Ok None
  | k :: r =>
    match m with
    | Some MList => Exc EValue
    | Some MColl | None =>
      match clookup k ch with
      | None => Exc EKey
      | Some e =>
        match r with
        | [] => Ok (Some e)
        | _ => if is_namespace (e_mt e)
               then get_referable (Some (e_mt e)) (e_ch e) r
               else Exc EType
        end
      end
    | Some _ => Exc EType
    end
  end.
(* _get_nested_submodel_element: ValueError("No id_shorts specified!") for an empty path *)
Definition get_nested (sm : submodel) (p : list name) : result elem :=
  match p with
  | [] => Exc EValue
  | _ => do r <- guard H_get_referable (get_referable None (sm_ch sm) p) (Exc EValue);
         match r with Some e => Ok e | None => Exc EValue end
  end.

(* rebuild the tree with the element at path p replaced by (f e), or removed when f says so *)
Inductive edit := Keep (e : elem) | Drop.
Fixpoint edit_children (ch : children) (p : list name) (f : elem -> edit) : children :=
  match p with
  | [] => ch
  | k :: r =>
    match clookup k ch with
    | None => ch
    | Some e =>
      match r with
      | [] => match f e with Keep e' => creplace k e' ch | Drop => cremove k ch end
      | _ => creplace k (set_ch e (edit_children (e_ch e) r f)) ch
      end
    end
  end.

(* NamespaceSet.add of a Referable into the children of a node of class m:
   AASd-117 (no idShort outside a list), AASd-022 (idShort taken), and for lists AASd-120 (idShort
   given) / AASd-108,109 (the lists of the pool hold Property items) *)
(* for a SubmodelElementList the [ctype] field of [Elem] holds its typing: 0 = Property / xs:string items,
   1 = Range / xs:int items, 2 = Property / xs:string items with a semanticIdListElement (the items of the
   pool carry no semanticId of their own, so AASd-107/114 never strike) *)
Definition list_accepts (lt : nat) (m : mt) : bool :=
  match lt, m with
  | 1%nat, MRange => true
  | 1%nat, _ => false
  | _, MProp => true
  | _, _ => false
  end.
Definition add_referable (m : option mt) (lt : nat) (ch : children) (e : elem) : result children :=
  match m with
  | Some MList =>
    match e_ids e with
    | Some _ => Exc (EConstraint 120)
    | None => if list_accepts lt (e_mt e) then Ok (ch ++ [(None, e)]) else Exc (EConstraint 108)
    end
  | _ =>
    match e_ids e with
    | None => Exc (EConstraint 117)
    | Some k => match clookup k ch with Some _ => Exc (EConstraint 22) | None => Ok (ch ++ [(Some k, e)]) end
    end
  end.
(* remove_referable(id_short): the entry filed under id_short, provided it still carries it *)
Definition remove_referable (ch : children) (k : name) : result children :=
  match clookup k ch with
  | Some e => if okey_eqb (e_ids e) (Some k) then Ok (cremove k ch) else Exc EKey
  | None => Exc EKey
  end.

(* ------------------------------------------------------------------ update_from *)

Definition qmem (t : name) (q : list (name * Z)) : bool := existsb (fun x => fst x =? t) q.
(* update_nss_from on qualifiers: a qualifier of the same type is updated in place, new types are
   appended, types missing in the new set are removed *)
Definition merge_quals (old new : list (name * Z)) : list (name * Z) :=
  flat_map (fun x => match zlookup (fst x) new with Some v => [(fst x, v)] | None => [] end) old
  ++ filter (fun x => negb (qmem (fst x) old)) new.

Inductive upd := UMatched (k : name) (e : elem) | UAdded (k : option name) (e : elem) | UReplaced (k : name) (e : elem).

(* Referable.update_from(other) on an element of the same class: every plain attribute is copied
   (idShort too, without re-filing), NamespaceSets are merged by update_nss_from: a child filed
   under the idShort of a new child is updated in place if it has the same class and replaced
   (removed, the new one appended) otherwise; children whose idShort does not occur in the new
   set are removed; the other new children are appended.  The items of a SubmodelElementList
   carry generated names, so they are always replaced as a whole. *)
Fixpoint update_elem (new old : elem) {struct new} : elem :=
  let 'Elem m' ids' tok' q' ct' v' ch' := new in
  let 'Elem m ids tok q ct v ch := old in
  match m with
  | MList => Elem m ids' tok' (merge_quals q q') ct' v' ch'
  | _ =>
    let fix go (news : children) : list upd :=
      match news with
      | [] => []
      | (_, n) :: r =>
        (match e_ids n with
         | None => UAdded None n
         | Some k => match clookup k ch with
                     | Some o => if mt_eqb (e_mt n) (e_mt o) then UMatched k (update_elem n o) else UReplaced k n
                     | None => UAdded (Some k) n
                     end
         end) :: go r
      end in
    let us := go ch' in
    let upd_of k := find (fun u => match u with UMatched k' _ | UReplaced k' _ => k =? k' | _ => false end) us in
    let new_ids := flat_map (fun u => match u with UMatched k _ | UReplaced k _ => [k] | UAdded (Some k) _ => [k] | _ => [] end) us in
    let kept := flat_map (fun ke : option name * elem =>
                  match fst ke with
                  | Some k => match upd_of k with
                              | Some (UMatched _ o') => [(Some k, o')]
                              | Some (UReplaced _ _) => []
                              | _ => match e_ids (snd ke) with
                                     | Some i => if zmem i new_ids then [ke] else []
                                     | None => []
                                     end
                              end
                  | None => []
                  end) ch in
    let added := flat_map (fun u => match u with UAdded k n => [(k, n)] | UReplaced k n => [(Some k, n)] | _ => [] end) us in
    Elem m ids' tok' (merge_quals q q') ct' v' (kept ++ added)
  end.

(* update_from on an element that sits in its parent's children under key k: another idShort goes through
   the id_short setter first, which refuses a missing (AASd-117) or taken (AASd-022) idShort before anything
   changed and otherwise re-keys the element (discard + add: it moves to the end) *)
Definition rekey_update (pch : children) (k : name) (e e' : elem) : result children :=
  if okey_eqb (e_ids e') (Some k)
  then Ok (creplace k (update_elem e' e) pch)
  else match e_ids e' with
       | None => Exc (EConstraint 117)
       | Some k' => match clookup k' pch with
                    | Some _ => Exc (EConstraint 22)
                    | None => Ok (cremove k pch ++ [(Some k', update_elem e' e)])
                    end
       end.

(* the same merge for the submodel_element set of a Submodel *)
Definition update_children (ch ch' : children) : children :=
  e_ch (update_elem (Elem MColl None 0 [] 0%nat ANone ch') (Elem MColl None 0 [] 0%nat ANone ch)).

(* ------------------------------------------------------------------ bodies *)

Definition strip_elem (e : elem) : elem :=
  let 'Elem m i t _ c v _ := e in Elem m i t [] c v [].
Definition strip_value (v : value) : value :=
  match v with
  | VShell s => VShell {| sh_id := sh_id s; sh_ids := sh_ids s; sh_tok := sh_tok s; sh_refs := [] |}
  | VSm s => VSm {| sm_id := sm_id s; sm_ids := sm_ids s; sm_tok := sm_tok s; sm_quals := []; sm_ch := [] |}
  | VElem e => VElem (strip_elem e)
  | _ => v
  end.
Definition value_class (v : value) : string :=
  match v with
  | VShell _ => "AssetAdministrationShell" | VSm _ => "Submodel" | VCd _ => "ConceptDescription"
  | VElem _ => "SubmodelElement" | VQual _ _ => "Qualifier" | VRef _ => "ModelReference"
  | VAsset _ => "AssetInformation" | VKeys _ _ _ => ""   (* only occurs in responses *)
  end.
Definition smode_on (mode : string) (q : query) : bool :=
  if String.eqb mode "always" then true else if String.eqb mode "level" then q_core q else false.
(* the k-th request_body(...) call of function fn: (expected class, stripped mode) *)
Definition body_spec (fn : string) : string * string :=
  match slookup fn body_table with Some (x :: _) => x | _ => ("", "") end.
(* HTTPApiDecoder.request_body *)
Definition request_body (fn : string) (r : request) : result value :=
  let '(cls, mode) := body_spec fn in
  match r_body r with
  | BNoCtype | BUpload _ _ _ => http "UnsupportedMediaType"
  | BBad =>
    if mem_s cls constructables
    then guard H_json_list (Exc EValue) (Exc EValue)
    else Exc EType                                  (* check_type_supportance *)
  | BVal xml v =>
    if negb (mem_s cls constructables) then Exc EType else
    if String.eqb (value_class v) cls
    then Ok (if smode_on mode (r_query r) then strip_value v else v)
    else if xml then guard H_xml (Exc EKey) (Exc EKey)
         else guard H_json_list (Exc EType) (http "UnprocessableEntity")
  end.

(* the k-th response_t(...) call of fn *)
Definition resp_spec (fn : string) (k : nat) : Z * bool * string * bool :=
  match slookup fn response_table with Some l => nth k l (0, false, "", false) | None => (0, false, "", false) end.
Definition render (r : request) (mode : string) (v : value) : value :=
  match r_accept r with
  | AccJson => if smode_on mode (r_query r) then strip_value v else v
  | _ => v                                          (* XmlResponse.serialize ignores `stripped` *)
  end.
Definition respond (fn : string) (k : nat) (r : request) (l : option loc) (v : option value) : response :=
  let '(st, _, mode, _) := resp_spec fn k in
  {| status := st; rtype := r_accept r; location := l;
     pay := match v with Some x => PVal (render r mode x) | None => PEmpty end |}.
Definition respond_list (fn : string) (k : nat) (r : request) (cur : nat) (vs : list value) : response :=
  let '(st, has_cur, mode, _) := resp_spec fn k in
  {| status := st; rtype := r_accept r; location := None;
     pay := PList (if has_cur then Some cur else None) (map (render r mode) vs) |}.

(* _get_slice *)
Definition get_slice {A} (q : query) (l : list A) : result (list A * nat) :=
  let bad : result (list A * nat) := guard H_slice (Exc EValue) (Exc EValue) in
  let num x dflt := match x with QAbsent => Some (Ok dflt) | QBad => None | QHuge => Some (Exc EValue) | QNat n => Some (Ok n) end in
  match num (q_limit q) 10%nat, num (q_cursor q) 0%nat with
  | None, _ | _, None => bad
  | Some (Ok lim), Some (Ok cur) => Ok (firstn lim (skipn cur l), (cur + lim)%nat)
  | _, _ => guard H_slice_islice (Exc EValue) (Exc EValue)
  end.
Definition dec_q (d : qdec) : result unit :=
  match d with
  | QdOk => Ok tt
  | QdBad400 => guard H_b64_decode (Exc EBinascii) (Exc EBinascii)
  | QdBad422 => guard H_json_list (Exc EValue) (Exc EValue)
  end.
Fixpoint dec_all (l : list qdec) : result unit :=
  match l with [] => Ok tt | d :: r => do _ <- dec_q d; dec_all r end.

Definition shells_of (s : state) : list shell :=
  flat_map (fun kv => match snd kv with OShell x => [x] | _ => [] end) (st_objs s).
Definition sms_of (s : state) : list submodel :=
  flat_map (fun kv => match snd kv with OSm x => [x] | _ => [] end) (st_objs s).
Definition cds_of (s : state) : list cdesc :=
  flat_map (fun kv => match snd kv with OCd x => [x] | _ => [] end) (st_objs s).
Definition ids_match (f : option name) (i : option name) : bool :=
  match f with None => true | Some n => match i with Some m => n =? m | None => false end end.
(* _get_shells: idShort filter, assetIds filter (the shells of the pool carry no specificAssetIds, so
   any decodable assetIds value filters everything out), paging *)
Definition get_shells (s : state) (q : query) : result (list shell * nat) :=
  do _ <- dec_all (q_assetids q);
  let l := filter (fun x => ids_match (q_idshort q) (sh_ids x)) (shells_of s) in
  get_slice q (match q_assetids q with [] => l | _ => [] end).
Definition get_submodels (s : state) (q : query) : result (list submodel * nat) :=
  do _ <- match q_semid q with Some d => dec_q d | None => Ok tt end;
  let l := filter (fun x => ids_match (q_idshort q) (sm_ids x)) (sms_of s) in
  get_slice q (match q_semid q with None => l | Some _ => [] end).

(* ModelReference.from_referable walks the parents upwards and uses their current idShorts *)
Fixpoint keys_path (ch : children) (p : list name) : list (mt * option name) :=
  match p with
  | [] => []
  | k :: r => match clookup k ch with
              | Some e => (e_mt e, e_ids e) :: keys_path (e_ch e) r
              | None => []
              end
  end.

(* ------------------------------------------------------------------ handlers *)

Definition HR := result (state * response).
Definition ok (s : state) (r : response) : HR := Ok (s, r).
Definition need_path (a : patharg) : result (list name) :=
  match a with
  | PathOk p => Ok p
  | PathBad => guard H_idshort_conv (Exc (EConstraint 2)) (Exc (EConstraint 2))
  | PathAbsent => Ok []
  end.
(* url_args: all converters of the matched rule run before the handler *)
Definition conv_id (a : idarg) : result unit :=
  match a with IdBad | IdNonAscii => do _ <- need_id a; Ok tt | _ => Ok tt end.
Definition convert_args (r : request) : result unit :=
  do _ <- conv_id (r_aas r); do _ <- conv_id (r_sm r); do _ <- conv_id (r_cd r);
  do _ <- need_path (r_path r); do _ <- conv_id (r_qt r); Ok tt.

Definition the_path (r : request) : list name := match r_path r with PathOk p => p | _ => [] end.
Definition the_id (a : idarg) : ident := match a with IdOk i => i | _ => 0 end.

(* _get_submodel_or_nested_submodel_element: (submodel key, submodel, Some element | None) *)
Definition sm_or_nested (s : state) (r : request) : result (submodel * option elem) :=
  do sm <- get_sm s (the_id (r_sm r));
  guard H_sm_or_nested (do e <- get_nested sm (the_path r); Ok (sm, Some e)) (Ok (sm, None)).

Definition put_sm_back (s : state) (k : ident) (sm : submodel) (ch : children) : state :=
  store_set s k (OSm {| sm_id := sm_id sm; sm_ids := sm_ids sm; sm_tok := sm_tok sm; sm_quals := sm_quals sm; sm_ch := ch |}).
Definition edit_sm (s : state) (k : ident) (sm : submodel) (p : list name) (f : elem -> edit) : state :=
  put_sm_back s k sm (edit_children (sm_ch sm) p f).
Definition set_sm_quals (s : state) (k : ident) (sm : submodel) (q : list (name * Z)) : state :=
  store_set s k (OSm {| sm_id := sm_id sm; sm_ids := sm_ids sm; sm_tok := sm_tok sm; sm_quals := q; sm_ch := sm_ch sm |}).
(* write the qualifiers of the submodel (p = []) or of the element at p *)
Definition set_quals_at (s : state) (k : ident) (sm : submodel) (p : list name) (q : list (name * Z)) : state :=
  match p with [] => set_sm_quals s k sm q | _ => edit_sm s k sm p (fun e => Keep (set_quals e q)) end.
Definition quals_of (sm : submodel) (e : option elem) : list (name * Z) :=
  match e with Some x => e_quals x | None => sm_quals sm end.

Definition shell_with_refs (a : shell) (refs : list ident) : shell :=
  {| sh_id := sh_id a; sh_ids := sh_ids a; sh_tok := sh_tok a; sh_refs := refs |}.
Definition zremove1 (k : Z) : list Z -> list Z :=
  fix go l := match l with [] => [] | x :: r => if x =? k then r else x :: go r end.

(* ModelReference.resolve(store) for a one-key reference to a Submodel *)
Definition resolve_sm (s : state) (i : ident) : result submodel :=
  guard H_resolve
    (match zlookup i (st_objs s) with
     | None => Exc EKey
     | Some (OSm x) => Ok x
     | Some _ => Exc EUnexpectedType
     end) (Exc EKey).
(* _get_submodel_reference: the reference of the shell whose identifier is i *)
Definition get_sm_ref (a : shell) (i : ident) : result ident :=
  if zmem i (sh_refs a) then Ok i else http "NotFound".

(* content-type tokens >= 2 stand for ContentType strings with a line break: accepted by the model's
   constraint, refused by werkzeug as a header value (ValueError in Response(...)) *)
Definition sendable (ct : nat) : bool := Nat.ltb ct 2.
Definition send_file (s : state) (r : request) (ct c : nat) : result (state * response) :=
  if sendable ct
  then Ok (s, {| status := 200; rtype := r_accept r; location := None; pay := PFile ct c |})
  else guard H_att_resp (Exc EValue) (Exc EValue).
Definition starts_with_slash (p : string) : bool :=
  match p with String c _ => Ascii.eqb c "/"%char | EmptyString => false end.

Definition files_add (f : Files.st) (nm : string) (c t : nat) : Files.st * string :=
  match Files.add_file f nm c t with (f', OName n) => (f', n) | (f', _) => (f', nm) end.

Definition handler (ep : endpoint) (s : state) (r : request) : HR :=
  let fn := endpoint_name ep in
  match ep with
  | ep_not_implemented => if raises fn "NotImplemented" then http "NotImplemented" else Exc EAttr
  (* ---- shells *)
  | ep_get_aas_all =>
    do (l, cur) <- get_shells s (r_query r);
    ok s (respond_list fn 0 r cur (map VShell l))
  | ep_get_aas_all_reference =>
    do (l, cur) <- get_shells s (r_query r);
    ok s (respond_list fn 0 r cur (map (fun a => VKeys 0 (sh_id a) []) l))
  | ep_post_aas =>
    do v <- request_body fn r;
    match v with
    | VShell a =>
      do s' <- guard H_post_aas_add (store_add s (OShell a)) (Ok s);
      ok s' (respond fn 0 r (Some (LShell (sh_id a))) (Some v))
    | _ => Exc EAttr
    end
  | ep_get_aas => do a <- get_shell s (the_id (r_aas r)); ok s (respond fn 0 r None (Some (VShell a)))
  | ep_get_aas_reference =>
    do a <- get_shell s (the_id (r_aas r)); ok s (respond fn 0 r None (Some (VKeys 0 (sh_id a) [])))
  | ep_put_aas =>
    do a <- get_shell s (the_id (r_aas r));
    do v <- request_body fn r;
    match v with
    | VShell a' =>
      do s' <- put_identifiable fn s (the_id (r_aas r)) (OShell a) (OShell a');
      ok s' (respond fn 0 r None None)
    | _ => Exc EAttr
    end
  | ep_delete_aas =>
    do a <- get_shell s (the_id (r_aas r));
    do s' <- guard H_delete_aas_remove (store_remove s (the_id (r_aas r)) (OShell a)) (Ok s);
    ok s' (respond fn 0 r None None)
  | ep_get_aas_asset_information =>
    do a <- get_shell s (the_id (r_aas r)); ok s (respond fn 0 r None (Some (VAsset (sh_tok a))))
  | ep_put_aas_asset_information =>
    do a <- get_shell s (the_id (r_aas r));
    do v <- request_body fn r;
    match v with
    | VAsset t => ok (store_set s (the_id (r_aas r))
                        (OShell {| sh_id := sh_id a; sh_ids := sh_ids a; sh_tok := t; sh_refs := sh_refs a |}))
                     (respond fn 0 r None None)
    | _ => Exc EAttr
    end
  | ep_get_aas_submodel_refs =>
    do a <- get_shell s (the_id (r_aas r));
    do (l, cur) <- get_slice (r_query r) (sh_refs a);
    ok s (respond_list fn 0 r cur (map VRef l))
  | ep_post_aas_submodel_refs =>
    do a <- get_shell s (the_id (r_aas r));
    do v <- request_body fn r;
    match v with
    | VRef i =>
      if zmem i (sh_refs a) then http "Conflict" else
      ok (store_set s (the_id (r_aas r)) (OShell (shell_with_refs a (sh_refs a ++ [i]))))
         (respond fn 0 r None (Some v))
    | _ => Exc EAttr
    end
  | ep_delete_aas_submodel_refs_specific =>
    do a <- get_shell s (the_id (r_aas r));
    do i <- get_sm_ref a (the_id (r_sm r));
    ok (store_set s (the_id (r_aas r)) (OShell (shell_with_refs a (zremove1 i (sh_refs a)))))
       (respond fn 0 r None None)
  | ep_put_aas_submodel_refs_submodel =>
    do a <- get_shell s (the_id (r_aas r));
    do i <- get_sm_ref a (the_id (r_sm r));
    do sm <- resolve_sm s i;
    do v <- request_body fn r;
    match v with
    | VSm sm' =>
      let ch := update_children (sm_ch sm) (sm_ch sm') in
      let new := {| sm_id := sm_id sm'; sm_ids := sm_ids sm'; sm_tok := sm_tok sm';
                    sm_quals := merge_quals (sm_quals sm) (sm_quals sm'); sm_ch := ch |} in
      do s1 <- put_identifiable fn s i (OSm sm) (OSm new);
      let s2 := if sm_id sm =? sm_id sm' then s1
                else store_set s1 (the_id (r_aas r))
                       (OShell (shell_with_refs a (zremove1 i (sh_refs a) ++ [sm_id sm']))) in
      ok s2 (respond fn 0 r None None)
    | _ => Exc EAttr
    end
  | ep_delete_aas_submodel_refs_submodel =>
    do a <- get_shell s (the_id (r_aas r));
    do i <- get_sm_ref a (the_id (r_sm r));
    do sm <- resolve_sm s i;
    do s1 <- guard H_delete_ref_sm_remove (store_remove s i (OSm sm)) (Ok s);
    let s2 := store_set s1 (the_id (r_aas r)) (OShell (shell_with_refs a (zremove1 i (sh_refs a)))) in
    (* the removal of the document is persistent by itself; handle applies [persist] relative to s *)
    ok (if st_backed s && negb (commits fn) then s1 else s2) (respond fn 0 r None None)
  | ep_aas_submodel_refs_redirect =>
    do a <- get_shell s (the_id (r_aas r));
    do i <- get_sm_ref a (the_id (r_sm r));
    ok s {| status := 307; rtype := r_accept r; location := Some (LRedirect i); pay := PPlain |}
  (* ---- submodels *)
  | ep_get_submodel_all | ep_get_submodel_all_metadata =>
    do (l, cur) <- get_submodels s (r_query r);
    ok s (respond_list fn 0 r cur (map VSm l))
  | ep_get_submodel_all_reference =>
    do (l, cur) <- get_submodels s (r_query r);
    ok s (respond_list fn 0 r cur (map (fun x => VKeys 1 (sm_id x) []) l))
  | ep_post_submodel =>
    do v <- request_body fn r;
    match v with
    | VSm x =>
      do s' <- guard H_post_sm_add (store_add s (OSm x)) (Ok s);
      ok s' (respond fn 0 r (Some (LSm (sm_id x))) (Some v))
    | _ => Exc EAttr
    end
  | ep_delete_submodel =>
    do x <- get_sm s (the_id (r_sm r));
    do s' <- guard H_delete_sm_remove (store_remove s (the_id (r_sm r)) (OSm x)) (Ok s);
    ok s' (respond fn 0 r None None)
  | ep_get_submodel | ep_get_submodels_metadata =>
    do x <- get_sm s (the_id (r_sm r)); ok s (respond fn 0 r None (Some (VSm x)))
  | ep_get_submodels_reference =>
    do x <- get_sm s (the_id (r_sm r)); ok s (respond fn 0 r None (Some (VKeys 1 (sm_id x) [])))
  | ep_put_submodel =>
    do sm <- get_sm s (the_id (r_sm r));
    do v <- request_body fn r;
    match v with
    | VSm sm' =>
      let ch := update_children (sm_ch sm) (sm_ch sm') in
      do s' <- put_identifiable fn s (the_id (r_sm r)) (OSm sm)
                 (OSm {| sm_id := sm_id sm'; sm_ids := sm_ids sm'; sm_tok := sm_tok sm';
                         sm_quals := merge_quals (sm_quals sm) (sm_quals sm'); sm_ch := ch |});
      ok s' (respond fn 0 r None None)
    | _ => Exc EAttr
    end
  (* ---- submodel elements *)
  | ep_get_submodel_submodel_elements | ep_get_submodel_submodel_elements_metadata =>
    do sm <- get_sm s (the_id (r_sm r));
    do (l, cur) <- get_slice (r_query r) (map snd (sm_ch sm));
    ok s (respond_list fn 0 r cur (map VElem l))
  | ep_get_submodel_submodel_elements_reference =>
    do sm <- get_sm s (the_id (r_sm r));
    do (l, cur) <- get_slice (r_query r) (map snd (sm_ch sm));
    ok s (respond_list fn 0 r cur (map (fun e => VKeys 1 (sm_id sm) [(e_mt e, e_ids e)]) l))
  | ep_get_submodel_submodel_elements_id_short_path
  | ep_get_submodel_submodel_elements_id_short_path_metadata =>
    do sm <- get_sm s (the_id (r_sm r));
    do e <- get_nested sm (the_path r);
    ok s (respond fn 0 r None (Some (VElem e)))
  | ep_get_submodel_submodel_elements_id_short_path_reference =>
    do sm <- get_sm s (the_id (r_sm r));
    do e <- get_nested sm (the_path r);
    ok s (respond fn 0 r None (Some (VKeys 1 (sm_id sm) (keys_path (sm_ch sm) (the_path r)))))
  | ep_post_submodel_submodel_elements_id_short_path =>
    do (sm, parent) <- sm_or_nested s r;
    let pm := match parent with Some e => Some (e_mt e) | None => None end in
    if match parent with Some e => negb (is_namespace (e_mt e)) | None => false end then http "BadRequest" else
    do v <- request_body fn r;
    match v with
    | VElem e =>
      let pch := match parent with Some x => e_ch x | None => sm_ch sm end in
      let plt := match parent with Some x => e_ctype x | None => 0%nat end in
      do ch' <- guard H_post_elem_add (add_referable pm plt pch e) (Ok pch);
      let s' := match the_path r with
                | [] => put_sm_back s (the_id (r_sm r)) sm ch'
                | p => edit_sm s (the_id (r_sm r)) sm p (fun x => Keep (set_ch x ch'))
                end in
      ok s' (respond fn 0 r (Some (LElem (sm_id sm) (map Some (the_path r) ++ [e_ids e]))) (Some v))
    | _ => Exc EAttr
    end
  | ep_put_submodel_submodel_elements_id_short_path =>
    do sm <- get_sm s (the_id (r_sm r));
    do e <- get_nested sm (the_path r);
    do v <- request_body fn r;
    match v with
    | VElem e' =>
      if raises fn "BadRequest" && negb (mt_eqb (e_mt e) (e_mt e')) then http "BadRequest" else
      (* without the class check of the handler update_from would stop half-way (not modelled) *)
      let pp := removelast (the_path r) in
      do pch <- (match pp with
                 | [] => Ok (sm_ch sm)
                 | _ => do pe <- get_nested sm pp; Ok (e_ch pe)
                 end);
      do ch' <- guard H_put_elem_update (rekey_update pch (last (the_path r) 0) e e') (Ok pch);
      let s' := match pp with
                | [] => put_sm_back s (the_id (r_sm r)) sm ch'
                | _ => edit_sm s (the_id (r_sm r)) sm pp (fun x => Keep (set_ch x ch'))
                end in
      ok s' (respond fn 0 r None None)
    | _ => Exc EAttr
    end
  | ep_delete_submodel_submodel_elements_id_short_path =>
    do (sm, target) <- sm_or_nested s r;
    match target, the_path r with
    | Some e, k :: _ =>
      (* parent.remove_referable(element.id_short) on the parent's children *)
      let pp := removelast (the_path r) in
      do pch <- (match pp with
                 | [] => Ok (sm_ch sm)
                 | _ => do pe <- get_nested sm pp; Ok (e_ch pe)
                 end);
      do ch' <- guard H_ns_op (match e_ids e with
                                | Some i => remove_referable pch i
                                | None => Exc EKey          (* no such key in the parent's index *)
                                end) (Ok pch);
      let s' := match pp with
                | [] => put_sm_back s (the_id (r_sm r)) sm ch'
                | _ => edit_sm s (the_id (r_sm r)) sm pp (fun x => Keep (set_ch x ch'))
                end in
      ok s' (respond fn 0 r None None)
    | _, _ => http "BadRequest"   (* _expect_namespace(None): a Submodel has no parent *)
    end
  (* ---- attachments *)
  | ep_get_submodel_submodel_element_attachment =>
    do sm <- get_sm s (the_id (r_sm r));
    do e <- get_nested sm (the_path r);
    match e_mt e, e_val e with
    | MBlob, AData c | MFile, AData c => send_file s r (e_ctype e) c
    | MBlob, _ => http "NotFound"
    | MFile, ANone => http "NotFound"
    | MFile, APath p =>
      if negb (starts_with_slash p) then http "BadRequest" else
      match Files.write_file (st_files s) p with
      | OData c => send_file s r (e_ctype e) c
      | _ => guard H_att_write (Exc EKey) (Exc EKey)
      end
    | _, _ => http "BadRequest"
    end
  | ep_put_submodel_submodel_element_attachment =>
    do sm <- get_sm s (the_id (r_sm r));
    do e <- get_nested sm (the_path r);
    match e_mt e, e_val e with
    | MFile, ANone =>
      match r_body r with
      | BUpload (Some nm) nm_ok f =>
        if negb (starts_with_slash nm) then http "BadRequest" else
        if negb nm_ok then guard H_att_name (Exc EValue) (Exc EValue) else      (* model.File(..., value=fileName) *)
        match f with
        | None => http "BadRequest"
        | Some (mime, c) =>
          if negb (Nat.eqb mime (e_ctype e)) then http "UnsupportedMediaType" else
          let '(f', n) := files_add (st_files s) nm c (e_ctype e) in
          (* File.value = <name returned by add_file>: PathType allows 2000 characters; the except-body takes the
             file out again (add_file then delete_file of a fresh name: the container is as before) *)
          if Nat.ltb 2000 (String.length n) then guard H_att_assign (Exc EValue) (Exc EValue) else
          ok (set_files (edit_sm s (the_id (r_sm r)) sm (the_path r) (fun x => Keep (set_val x (APath n)))) f')
             (respond fn 0 r None None)
        end
      | _ => http "BadRequest"
      end
    | MFile, _ => http "Conflict"
    | _, _ => http "BadRequest"
    end
  | ep_delete_submodel_submodel_element_attachment =>
    do sm <- get_sm s (the_id (r_sm r));
    do e <- get_nested sm (the_path r);
    let clear f := ok (set_files (edit_sm s (the_id (r_sm r)) sm (the_path r) (fun x => Keep (set_val x ANone))) f)
                      (respond fn 0 r None None) in
    match e_mt e, e_val e with
    | MBlob, ANone | MFile, ANone => http "NotFound"
    | MBlob, _ => clear (st_files s)
    | MFile, APath p =>
      if negb (starts_with_slash p) then http "BadRequest" else
      match Files.delete_file (st_files s) p with
      | (f', OUnit) => clear f'
      | _ => do _ <- guard H_att_delete (Exc EKey : result unit) (Ok tt); clear (st_files s)
      end
    | MFile, _ => clear (st_files s)
    | _, _ => http "BadRequest"
    end
  (* ---- qualifiers *)
  | ep_get_submodel_submodel_element_qualifiers =>
    do (sm, e) <- sm_or_nested s r;
    match r_qt r with
    | IdOk t =>
      match zlookup t (quals_of sm e) with
      | Some v => ok s (respond fn 1 r None (Some (VQual t v)))
      | None => guard H_qual_op (Exc EKey) (Exc EKey)
      end
    | _ => ok s (respond_list fn 0 r 0%nat (map (fun x => VQual (fst x) (snd x)) (quals_of sm e)))
    end
  | ep_post_submodel_submodel_element_qualifiers =>
    do (sm, e) <- sm_or_nested s r;
    do v <- request_body fn r;
    match v with
    | VQual t x =>
      if qmem t (quals_of sm e) then http "Conflict" else
      ok (set_quals_at s (the_id (r_sm r)) sm (the_path r) (quals_of sm e ++ [(t, x)]))
         (respond fn 0 r (Some (LQual (the_id (r_sm r)) (the_path r) t)) (Some v))
    | _ => Exc EAttr
    end
  | ep_put_submodel_submodel_element_qualifiers =>
    do (sm, e) <- sm_or_nested s r;
    do v <- request_body fn r;
    match v with
    | VQual t x =>
      let t0 := the_id (r_qt r) in
      match zlookup t0 (quals_of sm e) with
      | None => guard H_qual_op (Exc EKey) (Exc EKey)
      | Some _ =>
        if negb (t0 =? t) && qmem t (quals_of sm e) then http "Conflict" else
        let s' := set_quals_at s (the_id (r_sm r)) sm (the_path r) (zremove t0 (quals_of sm e) ++ [(t, x)]) in
        if negb (t0 =? t)
        then ok s' (respond fn 0 r (Some (LQual (the_id (r_sm r)) (the_path r) t)) (Some v))
        else ok s' (respond fn 1 r None (Some v))
      end
    | _ => Exc EAttr
    end
  | ep_delete_submodel_submodel_element_qualifiers =>
    do (sm, e) <- sm_or_nested s r;
    let t0 := the_id (r_qt r) in
    match zlookup t0 (quals_of sm e) with
    | None => guard H_qual_op (Exc EKey) (Exc EKey)
    | Some _ => ok (set_quals_at s (the_id (r_sm r)) sm (the_path r) (zremove t0 (quals_of sm e)))
                   (respond fn 0 r None None)
    end
  (* ---- concept descriptions *)
  | ep_get_concept_description_all =>
    do (l, cur) <- get_slice (r_query r) (cds_of s);
    ok s (respond_list fn 0 r cur (map VCd l))
  | ep_post_concept_description =>
    do v <- request_body fn r;
    match v with
    | VCd c =>
      do s' <- guard H_post_cd_add (store_add s (OCd c)) (Ok s);
      ok s' (respond fn 0 r (Some (LCd (cd_id c))) (Some v))
    | _ => Exc EAttr
    end
  | ep_get_concept_description =>
    do c <- get_cd s (the_id (r_cd r)); ok s (respond fn 0 r None (Some (VCd c)))
  | ep_put_concept_description =>
    do c <- get_cd s (the_id (r_cd r));
    do v <- request_body fn r;
    match v with
    | VCd c' =>
      do s' <- put_identifiable fn s (the_id (r_cd r)) (OCd c) (OCd c');
      ok s' (respond fn 0 r None None)
    | _ => Exc EAttr
    end
  | ep_delete_concept_description =>
    do c <- get_cd s (the_id (r_cd r));
    do s' <- guard H_delete_cd_remove (store_remove s (the_id (r_cd r)) (OCd c)) (Ok s);
    ok s' (respond fn 0 r None None)
  end.

(* object_store.add / remove write resp. delete the document themselves *)
Definition self_persisting (ep : endpoint) : bool :=
  match ep with
  | ep_post_aas | ep_post_submodel | ep_post_concept_description
  | ep_delete_aas | ep_delete_submodel | ep_delete_concept_description
  | ep_delete_aas_submodel_refs_submodel => true
  | _ => false
  end.

(* http_exception_to_response / an exception leaving handle_request *)
Definition error_response (r : request) (e : exc) : response :=
  match e with
  | EHttp cls =>
    if existsb (isa e) converted
    then {| status := http_code cls; rtype := r_accept r; location := None; pay := PResult cls |}
    else {| status := 500; rtype := r_accept r; location := None; pay := PCrash e |}
  | _ => {| status := 500; rtype := r_accept r; location := None; pay := PCrash e |}
  end.

(* WSGIApp.handle_request *)
Definition handle (s : state) (r : request) : state * response :=
  match r_accept r with
  | AccNone => (s, {| status := 406; rtype := AccNone; location := None; pay := PPlain |})
  | _ =>
    if r_badhost r
    then match catch H_bind (EHttp "BadHost") with
         | Swallowed => (s, error_response r (EHttp "BadHost"))
         | Propagate e => (s, {| status := 500; rtype := r_accept r; location := None; pay := PCrash e |})
         end
    else
    let res : HR :=
      match find_route routes (r_rule r) (r_meth r) false with
      | RNotFound => http "NotFound"
      | RMethodNotAllowed => http "MethodNotAllowed"
      | REndpoint ep =>
        do _ <- convert_args r;
        do (s', resp) <- handler ep s r;
        Ok (if self_persisting ep then s' else persist (endpoint_name ep) s s', resp)
      end in
    match res with
    | Ok (s', resp) => (s', resp)
    | Exc e => (s, error_response r e)
    end
  end.

Definition unimplemented (rule : string) (m : meth) : bool :=
  match find_route routes rule m false with REndpoint ep_not_implemented => true | _ => false end.

Fixpoint run (s : state) (rs : list request) : state :=
  match rs with [] => s | r :: t => run (fst (handle s r)) t end.
Definition empty (backed : bool) : state := {| st_objs := []; st_files := Files.init; st_backed := backed |}.
