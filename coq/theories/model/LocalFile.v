(* Model of LocalFileObjectStore / LocalFileBackend (sdk/basyx/aas/backend/local_file.py) together
   with the part of Referable.update()/commit() that dispatches to it (model/base.py:736-859):
   several store instances on one directory, the client's live objects, weak caches.
   Definitions only; proofs are in proofs/LocalFileProofs.v.

   Abstractions (trusted, see tools/c14.py for what is checked against the SDK on every run):
   - an identifier is a [key]; sha256 is injective, so the document name is the key itself;
   - the attribute content of an object is a token [val]; the JSON adapter writes and reads it back
     unchanged (that is C03) and update_from copies it (that is C12);
   - an object lives while the client references it; [Drop] models "last reference dropped and
     garbage collected" (the harness calls gc.collect() after every step, CPython's own GC timing is
     not modelled); a cache entry whose object is gone is absent (WeakValueDictionary);
   - identifiers of stored objects are not reassigned by the client. *)
From Coq Require Import List Arith Bool.
Import ListNotations.

Definition key := nat.
Definition val := nat.
Definition oid := nat.   (* identity of a Python object, numbered in order of creation *)
Definition iid := nat.   (* store instance *)

Inductive src := SNone | SFile (k : key).   (* Referable.source: "" or file://localhost/<dir>/<hash k>.json *)
Definition src_eqb (a b : src) : bool :=
  match a, b with
  | SNone, SNone => true
  | SFile x, SFile y => Nat.eqb x y
  | _, _ => false
  end.

Record obj := mkobj { okey : key; oval : val; osrc : src }.

Fixpoint alookup {B} (k : nat) (l : list (nat * B)) : option B :=
  match l with
  | [] => None
  | (k', v) :: r => if Nat.eqb k k' then Some v else alookup k r
  end.
Fixpoint aremove {B} (k : nat) (l : list (nat * B)) : list (nat * B) :=
  match l with
  | [] => []
  | (k', v) :: r => if Nat.eqb k k' then aremove k r else (k', v) :: aremove k r
  end.
Fixpoint aset {B} (k : nat) (v : B) (l : list (nat * B)) : list (nat * B) :=
  match l with
  | [] => [(k, v)]
  | (k', v') :: r => if Nat.eqb k k' then (k, v) :: r else (k', v') :: aset k v r
  end.
Definition amem {B} (k : nat) (l : list (nat * B)) : bool :=
  match alookup k l with Some _ => true | None => false end.

Record st := mkst {
  fs : list (key * val);                      (* the directory: document per key *)
  heap : list (oid * obj);                    (* the client's live objects *)
  caches : list (iid * list (key * oid));     (* _object_cache per instance; entries may dangle *)
  next : oid
}.
Definition init : st := mkst [] [] [] 0.

Definition cache_of (s : st) (i : iid) : list (key * oid) :=
  match alookup i (caches s) with Some c => c | None => [] end.
(* weak lookup: only live objects are found *)
Definition cache_get (s : st) (i : iid) (k : key) : option (oid * obj) :=
  match alookup k (cache_of s i) with
  | Some o => match alookup o (heap s) with Some ob => Some (o, ob) | None => None end
  | None => None
  end.
Definition cache_put (s : st) (i : iid) (k : key) (o : oid) : st :=
  mkst (fs s) (heap s) (aset i (aset k o (cache_of s i)) (caches s)) (next s).
Definition cache_del (s : st) (i : iid) (k : key) : st :=
  mkst (fs s) (heap s) (aset i (aremove k (cache_of s i)) (caches s)) (next s).
Definition set_obj (s : st) (o : oid) (ob : obj) : st :=
  mkst (fs s) (aset o ob (heap s)) (caches s) (next s).
Definition set_fs (s : st) (f : list (key * val)) : st := mkst f (heap s) (caches s) (next s).

Inductive out :=
| OUnit                                   (* nothing to do (object without source) *)
| OAdded (k : key) (v : val)
| ODup (k : key)                          (* KeyError: id already stored *)
| OObj (k : key) (o : oid) (v : val)      (* get: the object returned and its attribute content *)
| OSeen (k : key) (v : val)               (* iteration: an object the client does not keep *)
| OMissing (k : key)                      (* KeyError of get/discard; FileNotFoundError of update *)
| OBool (k : key) (b : bool)
| ONat (n : nat)
| OList (l : list (key * val * option oid))   (* iteration: per document the content and, if it is one, the live replica *)
| ODiscarded (k : key)
| OCommitted (k : key) (v : val)
| OUpdated (k : key) (v : val)
| OInvalid                                (* the op names an object the client does not hold *)
| OFault (k : key).                       (* OSError: the file system refused the write of k's document (injected fault) *)

(* get_identifiable_by_hash, the part under _object_cache_lock.  [v] is the content loaded from the
   document before the lock was taken.  retain = false: the caller drops a new object at once (iteration). *)
Definition insert_new (s : st) (i : iid) (k : key) (v : val) : st * out :=
  let o := next s in
  (mkst (fs s) (heap s ++ [(o, mkobj k v (SFile k))]) (aset i (aset k o (cache_of s i)) (caches s)) (S o),
   OObj k o v).
Definition locked_get (s : st) (i : iid) (k : key) (v : val) (retain : bool) : st * out :=
  match cache_get s i k with
  | Some (o, ob) =>
    if src_eqb (osrc ob) (SFile k)
    then (set_obj s o (mkobj k v (osrc ob)), OObj k o v)      (* old_obj.update_from(obj); return old_obj *)
    else if retain then insert_new s i k v else (cache_del s i k, OSeen k v)
  | None => if retain then insert_new s i k v else (cache_del s i k, OSeen k v)
  end.
Definition get (s : st) (i : iid) (k : key) (retain : bool) : st * out :=
  match alookup k (fs s) with
  | None => (s, OMissing k)
  | Some v => locked_get s i k v retain
  end.

Definition add (s : st) (i : iid) (x : oid) : st * out :=
  match alookup x (heap s) with
  | None => (s, OInvalid)
  | Some ob =>
    let k := okey ob in
    if amem k (fs s) then (s, ODup k)
    else (mkst (aset k (oval ob) (fs s)) (aset x (mkobj k (oval ob) (SFile k)) (heap s))
               (aset i (aset k x (cache_of s i)) (caches s)) (next s),
          OAdded k (oval ob))
  end.

(* add() while the file system refuses the write (open of the temporary file, write, or os.replace
   raises OSError; which one is [p], the model does not distinguish them): the existence check comes
   first (KeyError as usual); otherwise _write_document raises after removing its temporary file, and
   the statements after it - cache insertion, generate_source - are never reached. *)
Definition add_fault (s : st) (i : iid) (x : oid) (p : nat) : st * out :=
  match alookup x (heap s) with
  | None => (s, OInvalid)
  | Some ob =>
    let k := okey ob in
    if amem k (fs s) then (s, ODup k) else (s, OFault k)
  end.

Definition discard (s : st) (i : iid) (x : oid) : st * out :=
  match alookup x (heap s) with
  | None => (s, OInvalid)
  | Some ob =>
    let k := okey ob in
    if amem k (fs s)
    then (mkst (aremove k (fs s)) (aset x (mkobj k (oval ob) SNone) (heap s))
               (aset i (aremove k (cache_of s i)) (caches s)) (next s),
          ODiscarded k)
    else (s, OMissing k)
  end.

Fixpoint iter_keys (s : st) (i : iid) (ks : list key) : st * list (key * val * option oid) :=
  match ks with
  | [] => (s, [])
  | k :: r =>
    match get s i k false with
    | (s', OObj _ o v) => let '(s'', l) := iter_keys s' i r in (s'', (k, v, Some o) :: l)
    | (s', OSeen _ v) => let '(s'', l) := iter_keys s' i r in (s'', (k, v, None) :: l)
    | (s', _) => iter_keys s' i r
    end
  end.

Inductive op :=
| New (k : key) (v : val)          (* the client builds an object; it becomes oid [next] *)
| Add (i : iid) (x : oid)
| Get (i : iid) (k : key)          (* the client keeps the result *)
| Contains (i : iid) (k : key)
| Len (i : iid)
| Iter (i : iid)                   (* the client does not keep the results *)
| Discard (i : iid) (x : oid)
| SetVal (x : oid) (v : val)       (* local modification of a live object *)
| Commit (x : oid)
| Update (x : oid)
| ClearSource (x : oid)            (* x.source = "" *)
| Drop (x : oid)                   (* last reference dropped, object collected *)
| Reopen (i : iid)                 (* instance i replaced by a freshly opened one *)
| AddFault (i : iid) (x : oid) (p : nat).   (* add() with an OSError injected at point p of the document write *)

Definition step (s : st) (o : op) : st * out :=
  match o with
  | New k v => (mkst (fs s) (heap s ++ [(next s, mkobj k v SNone)]) (caches s) (S (next s)), OUnit)
  | Add i x => add s i x
  | Get i k => get s i k true
  | Contains _ k => (s, OBool k (amem k (fs s)))
  | Len _ => (s, ONat (List.length (fs s)))
  | Iter i => let '(s', l) := iter_keys s i (map fst (fs s)) in (s', OList l)
  | Discard i x => discard s i x
  | SetVal x v => match alookup x (heap s) with
                  | Some ob => (set_obj s x (mkobj (okey ob) v (osrc ob)), OUnit)
                  | None => (s, OInvalid)
                  end
  | Commit x => match alookup x (heap s) with
                | Some ob => match osrc ob with
                             | SFile k => (set_fs s (aset k (oval ob) (fs s)), OCommitted k (oval ob))
                             | SNone => (s, OUnit)
                             end
                | None => (s, OInvalid)
                end
  | Update x => match alookup x (heap s) with
                | Some ob => match osrc ob with
                             | SFile k => match alookup k (fs s) with
                                          | Some v => (set_obj s x (mkobj k v (osrc ob)), OUpdated k v)
                                          | None => (s, OMissing k)
                                          end
                             | SNone => (s, OUnit)
                             end
                | None => (s, OInvalid)
                end
  | ClearSource x => match alookup x (heap s) with
                     | Some ob => (set_obj s x (mkobj (okey ob) (oval ob) SNone), OUnit)
                     | None => (s, OInvalid)
                     end
  | Drop x => (mkst (fs s) (aremove x (heap s)) (caches s) (next s), OUnit)
  | Reopen i => (mkst (fs s) (heap s) (aset i [] (caches s)) (next s), OUnit)
  | AddFault i x p => add_fault s i x p
  end.

Fixpoint exec (s : st) (ops : list op) : st :=
  match ops with [] => s | o :: r => exec (fst (step s o)) r end.
Fixpoint outs (s : st) (ops : list op) : list out :=
  match ops with [] => [] | o :: r => snd (step s o) :: outs (fst (step s o)) r end.
Definition run (ops : list op) : st := exec init ops.

(* ---- specification: a persistent map that the answers must be consistent with ------------- *)

Definition pmap := list (key * val).
Definition strip (l : list (key * val * option oid)) : list (key * val) := map (fun x => fst x) l.
Fixpoint kv_eqb (a b : list (key * val)) : bool :=
  match a, b with
  | [], [] => true
  | (k, v) :: a', (k', v') :: b' => Nat.eqb k k' && Nat.eqb v v' && kv_eqb a' b'
  | _, _ => false
  end.
Definition oval_eqb (a : option val) (v : val) : bool :=
  match a with Some w => Nat.eqb w v | None => false end.
(* one answer against the map: None = the answer contradicts a persistent map *)
Definition pstep (m : pmap) (r : out) : option pmap :=
  match r with
  | OAdded k v => if amem k m then None else Some (aset k v m)
  | ODup k => if amem k m then Some m else None
  | OCommitted k v => Some (aset k v m)
  | ODiscarded k => if amem k m then Some (aremove k m) else None
  | OMissing k => if amem k m then None else Some m
  | OObj k _ v => if oval_eqb (alookup k m) v then Some m else None
  | OSeen k v => if oval_eqb (alookup k m) v then Some m else None
  | OUpdated k v => if oval_eqb (alookup k m) v then Some m else None
  | OBool k b => if Bool.eqb b (amem k m) then Some m else None
  | ONat n => if Nat.eqb n (List.length m) then Some m else None
  | OList l => if kv_eqb (strip l) m then Some m else None
  | OUnit | OInvalid => Some m
  | OFault k => if amem k m then None else Some m     (* a refused write: the id was free and stays free *)
  end.
Fixpoint replay (m : pmap) (rs : list out) : option pmap :=
  match rs with
  | [] => Some m
  | r :: t => match pstep m r with Some m' => replay m' t | None => None end
  end.

(* ---- identity: what keeps a replica the one the instance hands out ------------------------- *)

(* o is the live replica of k in instance i *)
Definition replica (s : st) (i : iid) (k : key) (o : oid) : Prop :=
  exists ob, cache_get s i k = Some (o, ob) /\ osrc ob = SFile k /\ okey ob = k.

(* while running ops from s the document of k exists after every step, and the client neither
   drops o, clears its source, nor replaces instance i *)
Definition keeps (i : iid) (o : oid) (a : op) : bool :=
  match a with
  | Drop x => negb (Nat.eqb x o)
  | ClearSource x => negb (Nat.eqb x o)
  | Reopen j => negb (Nat.eqb j i)
  | _ => true
  end.
Fixpoint undisturbed (i : iid) (k : key) (o : oid) (s : st) (ops : list op) : Prop :=
  match ops with
  | [] => True
  | a :: r => keeps i o a = true /\ amem k (fs (fst (step s a))) = true /\ undisturbed i k o (fst (step s a)) r
  end.

(* ---- threads: the operations split at their yield points ------------------------------------ *)

Inductive tprog :=
| TGetPinned            (* get_identifiable_by_hash before "look up and insert ... in one critical section" *)
| TGet                  (* get_identifiable_by_hash now *)
| TAddSplit (x : oid)   (* add before "add(): check, write, cache and mark ... in one critical section" *)
| TAdd (x : oid).       (* add now *)

Record pc := mkpc {
  at_ : nat;                 (* number of yield points passed *)
  loaded : option val;       (* content read from the document *)
  pend : bool;               (* pinned get: lookup missed, insert still to come *)
  res : option out           (* Some: the call has returned / raised *)
}.
Definition pc0 : pc := mkpc 0 None false None.
Definition fin_pc (c : pc) (r : out) : pc := mkpc (S (at_ c)) (loaded c) false (Some r).
Definition adv (c : pc) : pc := mkpc (S (at_ c)) (loaded c) (pend c) (res c).

(* lookup part of the pinned critical section: refresh a live replica or report a miss *)
Definition locked_lookup (s : st) (i : iid) (k : key) (v : val) : st * option out :=
  match cache_get s i k with
  | Some (o, ob) => if src_eqb (osrc ob) (SFile k)
                    then (set_obj s o (mkobj k v (osrc ob)), Some (OObj k o v))
                    else (s, None)
  | None => (s, None)
  end.

(* one scheduling step of a thread: from the yield point it is parked at to the next one.
   Yield points of get: start | after json.load | before taking the lock | after releasing it;
   of the split add: start | before os.path.exists | before os.replace | after os.replace | before
   the lock | after the lock; of add now: start | before the lock | after the lock. *)
Definition tstep (p : tprog) (i : iid) (k : key) (s : st) (c : pc) : st * pc :=
  match res c with
  | Some _ => (s, c)
  | None =>
    match p, at_ c with
    | (TGet | TGetPinned), 0 =>
      match alookup k (fs s) with
      | Some v => (s, mkpc 1 (Some v) false None)
      | None => (s, fin_pc c (OMissing k))
      end
    | (TGet | TGetPinned), 1 => (s, adv c)
    | TGet, 2 => match loaded c with
                 | Some v => let '(s', r) := locked_get s i k v true in (s', mkpc 3 (loaded c) false (Some r))
                 | None => (s, fin_pc c OInvalid)
                 end
    | TGetPinned, 2 => match loaded c with
                       | Some v => match locked_lookup s i k v with
                                   | (s', Some r) => (s', mkpc 3 (loaded c) false (Some r))
                                   | (s', None) => (s', mkpc 3 (loaded c) true None)
                                   end
                       | None => (s, fin_pc c OInvalid)
                       end
    | TGetPinned, _ => match loaded c with
                       | Some v => let '(s', r) := insert_new s i k v in (s', fin_pc c r)
                       | None => (s, fin_pc c OInvalid)
                       end
    | TGet, _ => (s, fin_pc c OInvalid)
    | TAdd x, 0 => (s, adv c)
    | TAdd x, _ => let '(s', r) := add s i x in (s', fin_pc c r)
    | TAddSplit x, 0 => (s, adv c)
    | TAddSplit x, 1 =>
      match alookup x (heap s) with
      | Some ob => if amem (okey ob) (fs s) then (s, fin_pc c (ODup (okey ob))) else (s, adv c)
      | None => (s, fin_pc c OInvalid)
      end
    | TAddSplit x, 2 =>
      match alookup x (heap s) with
      | Some ob => (set_fs s (aset (okey ob) (oval ob) (fs s)), adv c)
      | None => (s, fin_pc c OInvalid)
      end
    | TAddSplit x, 3 => (s, adv c)
    | TAddSplit x, 4 =>
      match alookup x (heap s) with
      | Some ob => (cache_put s i (okey ob) x, adv c)
      | None => (s, fin_pc c OInvalid)
      end
    | TAddSplit x, _ =>
      match alookup x (heap s) with
      | Some ob => (set_obj s x (mkobj (okey ob) (oval ob) (SFile (okey ob))), fin_pc c (OAdded (okey ob) (oval ob)))
      | None => (s, fin_pc c OInvalid)
      end
    end
  end.

(* a schedule: which of the two threads makes the next step (a finished thread's step is idle) *)
Fixpoint run_sched (p1 p2 : tprog) (i : iid) (k : key) (sched : list bool) (s : st) (c1 c2 : pc) : st * pc * pc :=
  match sched with
  | [] => (s, c1, c2)
  | false :: r => let '(s', c1') := tstep p1 i k s c1 in run_sched p1 p2 i k r s' c1' c2
  | true :: r => let '(s', c2') := tstep p2 i k s c2 in run_sched p1 p2 i k r s' c1 c2'
  end.

(* the object a finished call handed to / registered for its caller *)
Definition tobj (p : tprog) (c : pc) : option oid :=
  match res c with
  | Some (OObj _ o _) => Some o
  | Some (OAdded _ _) => match p with TAdd x | TAddSplit x => Some x | _ => None end
  | _ => None
  end.
(* an add thread adds a live object whose id is k *)
Definition targets (k : key) (s : st) (p : tprog) : Prop :=
  match p with
  | TAdd x | TAddSplit x => exists ob, alookup x (heap s) = Some ob /\ okey ob = k
  | _ => True
  end.
Definition is_now (p : tprog) : bool := match p with TGet | TAdd _ => true | _ => false end.
