(* C02 - evaluation entry points for the tie checks of tools/c02.py: the generated
   definitions (tie T validation) are run on the same inputs as the Python originals. *)
From Coq Require Import List ZArith Bool.
From Basyx Require Import model.Corr model.ConstraintsBase gen.Gen_RefChecks gen.Gen_IntRanges
  gen.Gen_StrConstraints model.ConstraintsSpec.
Import ListNotations.
Local Open Scope Z_scope.

Definition enc_err (e : option err) : Z :=
  match e with
  | None => 0
  | Some EValue => 1 | Some EType => 2 | Some EKey => 3 | Some EIndex => 4 | Some EAttr => 5
  | Some (EAASd n) => 1000 + n
  end.

(* ---- references: one explicit case = (model?, [(key type index, numeric?)], expected) ---- *)
Definition mk_keys (l : list (nat * bool)) : option (list K) :=
  fold_right (fun p acc =>
    match nth_error all_keytypes (fst p), acc with
    | Some t, Some r => Some (mkKey t (snd p) :: r)
    | _, _ => None
    end) (Some []) l.

Definition ref_check (model : bool) (ks : list K) : option err :=
  if model then model_ref_check ks else ext_ref_check ks.

Definition check_ref_case (c : bool * list (nat * bool) * Z) : bool :=
  let '(model, l, expected) := c in
  match mk_keys l with
  | Some ks => Z.eqb (enc_err (ref_check model ks)) expected
  | None => false
  end.

(* ---- references: whole tables.  All key-type sequences of length n (lexicographic in the
   declaration order of KeyTypes), all keys with the same numeric flag; the result codes are
   hashed so that one number per table crosses the Python/Coq boundary. *)
Fixpoint all_seqs (n : nat) (num : bool) : list (list K) :=
  match n with
  | O => [[]]
  | S m => flat_map (fun t => map (fun r => mkKey t num :: r) (all_seqs m num)) all_keytypes
  end.

Definition ref_table_hash (model : bool) (n : nat) (num : bool) : Z :=
  hash_zl 0 (map (fun ks => enc_err (ref_check model ks)) (all_seqs n num)).

Definition check_ref_table (c : bool * nat * bool * Z) : bool :=
  let '(model, n, num, expected) := c in Z.eqb (ref_table_hash model n num) expected.

(* ---- integers: (type index, value, expected accepted?) ------------------------------------ *)
Definition check_int_case (c : nat * Z * bool) : bool :=
  let '(i, z, expected) := c in
  match nth_error int_checks i with
  | Some f => Bool.eqb (f z) expected
  | None => false
  end.

(* ---- strings: run-length encoded code points ------------------------------------------------ *)
Definition expand (l : list (Z * nat)) : list Z := flat_map (fun p => repeat (fst p) (snd p)) l.

Definition check_str_case (c : nat * list (Z * nat) * Z) : bool :=
  let '(i, l, expected) := c in
  match nth_error string_checks i with
  | Some f => Z.eqb (enc_err (f (expand l))) expected
  | None => false
  end.

Definition check_idshort_case (c : list (Z * nat) * Z) : bool :=
  let '(l, expected) := c in
  Z.eqb (enc_err (validate_id_short ascii_letter_b (expand l))) expected.

Definition check_isalpha_case (c : Z * bool) : bool :=
  Bool.eqb (ascii_letter_b (fst c)) (snd c).

(* ---- ConstrainedList / Entity / AssetInformation state machine (tie C) ------------------- *)
From Basyx Require Import model.ConstraintsModel.

Definition enc_out (v : out) : list Z :=
  match v with
  | OK => [0]
  | OVal x => [0; Z.of_nat x]
  | Err e => [enc_err (Some e)]
  end.
Definition enc_g (g : garg) : Z := match g with GNone => 0 | GOk n => 1 + Z.of_nat n | GBad => -1 end.
Definition observe_st (s : st) (v : out) : list (list Z) :=
  [enc_out v; [zb (etype s); enc_g (gaid s)]; map Z.of_nat (items s)].

Fixpoint ltrace (o : owner) (s : st) (ops : list op) : list (list (list Z)) :=
  match ops with
  | [] => []
  | p :: r => let '(s', v) := step o s p in observe_st s' v :: ltrace o s' r
  end.

Definition list_case_trace (o : owner) (t : bool) (g : garg) (xs : list nat) (ops : list op)
  : list (list (list Z)) :=
  match ctor o t g xs with
  | (Some s, _) => observe_st s OK :: ltrace o s ops
  | (None, Some e) => [[[enc_err (Some e)]]]
  | (None, None) => [[[-99]]]
  end.

Definition check_list_case (c : owner * bool * garg * list nat * list op * Z) : bool :=
  let '(o, t, g, xs, ops, expected) := c in
  Z.eqb (hash_zlll 0 (list_case_trace o t g xs ops)) expected.

(* ---- part B state machines -------------------------------------------------------------------- *)
Definition enc_s (a : sarg) : Z := match a with SNone => 0 | SOk n => 1 + Z.of_nat n | SBad => -1 | SEmpty => -2 end.
Fixpoint atrace (s : adm) (ops : list aop) : list (list Z) :=
  match ops with
  | [] => []
  | p :: r => let '(s', e) := astep s p in [enc_err e; enc_s (aver s'); enc_s (arev s')] :: atrace s' r
  end.
Definition adm_case_trace (v r : sarg) (ops : list aop) : list (list Z) :=
  match actor v r with
  | (Some s, _) => [0; enc_s (aver s); enc_s (arev s)] :: atrace s ops
  | (None, e) => [[enc_err e]]
  end.
Definition check_adm_case (c : sarg * sarg * list aop * Z) : bool :=
  let '(v, r, ops, expected) := c in Z.eqb (hash_zll 0 (adm_case_trace v r ops)) expected.

Definition enc_u (u : upd) : Z := match u with UNone => 0 | UUtc => 1 | UOther => 2 end.
Definition enc_pv (v : pv) : Z := match v with PNone => 0 | PFalsy => 1 | PTruthy => 2 end.
Fixpoint btrace (s : bee) (ops : list bop) : list (list Z) :=
  match ops with
  | [] => []
  | p :: r => let '(s', e) := bstep s p in [enc_err e; zb (bin s'); enc_pv (bmax s'); enc_u (blast s')] :: btrace s' r
  end.
Definition bee_case_trace (d : bool) (u : upd) (m : pv) (ops : list bop) : list (list Z) :=
  match bctor d u m with
  | (Some s, _) => [0; zb (bin s); enc_pv (bmax s); enc_u (blast s)] :: btrace s ops
  | (None, e) => [[enc_err e]]
  end.
Definition check_bee_case (c : bool * upd * pv * list bop * Z) : bool :=
  let '(d, u, m, ops, expected) := c in Z.eqb (hash_zll 0 (bee_case_trace d u m ops)) expected.

Definition check_cat_case (c : ckind * carg * Z) : bool :=
  let '(k, a, expected) := c in Z.eqb (enc_err (set_category k a)) expected.

Definition enc_lss (l : lss) : list Z := flat_map (fun e => [Z.of_nat (fst e); zb (snd e)]) l.
Fixpoint ltrace_lss (c : bool) (l : lss) (ops : list lop) : list (list Z) :=
  match ops with
  | [] => []
  | p :: r => let '(l', e) := lstep c l p in (enc_err e :: enc_lss l') :: ltrace_lss c l' r
  end.
Definition lss_case_trace (c : bool) (kvs : list (nat * bool)) (ops : list lop) : list (list Z) :=
  match lctor c kvs with
  | (Some l, _) => (0 :: enc_lss l) :: ltrace_lss c l ops
  | (None, e) => [[enc_err e]]
  end.
Definition check_lss_case (x : bool * list (nat * bool) * list lop * Z) : bool :=
  let '(c, kvs, ops, expected) := x in Z.eqb (hash_zll 0 (lss_case_trace c kvs ops)) expected.

(* ---- SubmodelElementList._check_constraints: a history of single additions -------------------- *)
Definition check_sml_case (x : lcfg * list elem * list Z * Z) : bool :=
  let '(c, es, expected, n) := x in
  match cfg_check c with
  | Some e => zl_eqb [enc_err (Some e)] expected
  | None => let '(l, o) := sml_adds c [] es in
            zl_eqb (map enc_err o) expected && Z.eqb (len l) n
  end.

Definition check_sml_ops_case (x : lcfg * list sop * list Z * Z) : bool :=
  let '(c, ops, expected, n) := x in
  match cfg_check c with
  | Some e => zl_eqb [enc_err (Some e)] expected
  | None => let '(l, o) := sml_run c [] ops in
            zl_eqb (map enc_err o) expected && Z.eqb (len l) n
  end.
