(* Model of the selection / merge / renaming logic of AASXWriter and AASXReader
   (sdk/basyx/aas/adapter/aasx.py:48-664, sdk/basyx/aas/util/traversal.py).  Definitions only;
   proofs are in proofs/AasxProofs.v.

   Abstractions (all stated again in the check's trusted base):
   * An Identifiable is a shell (with the ids its submodel references point to), a submodel (a flat
     list of its submodel elements in document order, each with the kinds of the containers above
     it, its own + its qualifiers' semantic ids, and - for a File element - its value), or a concept
     description.  Everything else an object holds is the opaque token [tok].
   * The JSON/XML payload codec is the pair [encode]/[decode] (Section variables).
   * The OPC/zip layer (pyecma376_2) is the function [opc] from the log of writer calls
     (open_part / write_relationships) to what a reader sees (Section variable); [ref_opc] below is
     the reference semantics the correspondence run uses (parts found by normalised name, the last
     one written wins - what pyecma376_2 does on the pinned environment).
   * The file container is model/Files.v (property C19). *)
From Coq Require Import List Arith Bool String Ascii.
From Basyx Require Import model.Files.
Import ListNotations.
Local Open Scope string_scope.
Local Open Scope list_scope.

(* ---- string helpers ----------------------------------------------------------------- *)

(* str.split('/') *)
Fixpoint split_on (c : ascii) (s : string) (cur : string) : list string :=
  match s with
  | EmptyString => [cur]
  | String a r => if Ascii.eqb a c then cur :: split_on c r "" else split_on c r (cur ++ String a "")%string
  end.
Definition split_slash (s : string) : list string := split_on slash s "".
Fixpoint join_slash (l : list string) : string :=
  match l with
  | [] => ""
  | [x] => x
  | x :: r => (x ++ "/" ++ join_slash r)%string
  end.

Fixpoint has_char (c : ascii) (s : string) : bool :=
  match s with EmptyString => false | String a r => Ascii.eqb a c || has_char c r end.

(* value.startswith('//') or ':' in value.split('/')[0] *)
Definition nonlocal (v : string) : bool :=
  prefix "//" v || has_char ":"%char (hd "" (split_slash v)).

(* pyecma376_2.package_model.part_realpath; None = IndexError (list.pop() on an empty list).
   Not called with the empty string (File.value has a minimum length of 1). *)
Fixpoint resolve_segments (segs : list string) (result : list string) : option (list string) :=
  match segs with
  | [] => Some result
  | seg :: r =>
    if String.eqb seg "." || String.eqb seg "" then resolve_segments r result
    else if String.eqb seg ".." then
      match result with
      | [] => None
      | _ => resolve_segments r (removelast result)
      end
    else resolve_segments r (result ++ [seg])
  end.
Definition realpath (name source : string) : option string :=
  match name with
  | String a _ => if Ascii.eqb a slash then Some name
                  else option_map join_slash (resolve_segments (split_slash name) (removelast (split_slash source)))
  | EmptyString => None
  end.

(* character classes of RE_PART_NAME:  [A-Za-z0-9\-\._~%:@!$&'()*+,;= ] *)
Definition in_range (a : ascii) (lo hi : nat) : bool :=
  let n := nat_of_ascii a in Nat.leb lo n && Nat.leb n hi.
Definition is_alnum (a : ascii) : bool := in_range a 48 57 || in_range a 65 90 || in_range a 97 122.
Definition seg_char (a : ascii) : bool :=
  is_alnum a || has_char a "-._~%:@!$&'()*+,;= ".
Fixpoint all_chars (p : ascii -> bool) (s : string) : bool :=
  match s with EmptyString => true | String a r => p a && all_chars p r end.
Fixpoint last_char (s : string) : option ascii :=
  match s with EmptyString => None | String a EmptyString => Some a | String _ r => last_char r end.
Definition seg_ok (s : string) : bool :=
  all_chars seg_char s &&
  match last_char s with Some a => negb (Ascii.eqb a dot) | None => false end.
(* RE_PART_NAME_FORBIDDEN = %5c | %2f, case-insensitive *)
Fixpoint has_forbidden (s : string) : bool :=
  match s with
  | String a ((String b (String c _)) as r) =>
    (Ascii.eqb a "%"%char &&
     ((Ascii.eqb b "5"%char && (Ascii.eqb c "c"%char || Ascii.eqb c "C"%char)) ||
      (Ascii.eqb b "2"%char && (Ascii.eqb c "f"%char || Ascii.eqb c "F"%char)))) || has_forbidden r
  | String _ r => has_forbidden r
  | EmptyString => false
  end.
(* check_part_name does not raise *)
Definition valid_part_name (s : string) : bool :=
  match split_slash s with
  | "" :: ((_ :: _) as segs) => forallb seg_ok segs && negb (has_forbidden s)
  | _ => false
  end.

(* normalize_part_name = urllib.parse.quote(name, safe="/#%[]=:;$&()+,!?*@'~").lower(), on ASCII *)
Definition hex_digit (n : nat) : ascii :=
  ascii_of_nat (if Nat.ltb n 10 then 48 + n else 87 + n).
Definition quote_safe (a : ascii) : bool :=
  is_alnum a || has_char a "_.-~/#%[]=:;$&()+,!?*@'".
Definition lower (a : ascii) : ascii :=
  if in_range a 65 90 then ascii_of_nat (nat_of_ascii a + 32) else a.
Fixpoint norm (s : string) : string :=
  match s with
  | EmptyString => EmptyString
  | String a r =>
    if quote_safe a then String (lower a) (norm r)
    else let n := nat_of_ascii a in
         String "%" (String (hex_digit (n / 16)) (String (hex_digit (n mod 16)) (norm r)))
  end.

(* extension = part_name.split("/")[-1].split(".")[-1] *)
Definition extension (s : string) : string :=
  last (split_on dot (last (split_slash s) "") "") "".

(* ---- objects -------------------------------------------------------------------------- *)

Definition ident := nat.

(* a semantic id: [r_cd] = it is a ModelReference whose type is ConceptDescription; [r_id] = the
   identifier in its first (only) key *)
Record sref := mk_sref { r_cd : bool; r_id : ident }.

(* kinds of containers a submodel element can sit in *)
Inductive ckind := CColl | CList | CEntity | COpIn | COpOut | COpInOut | CAnnot.

Record node := mk_node {
  n_path : list ckind;              (* containers from the submodel down to this element *)
  n_file : option (option string);  (* Some v: a File element with value v *)
  n_sems : list sref;               (* own semanticId (if any) followed by the qualifiers' *)
  n_tok  : nat                      (* everything else *)
}.

Inductive obj :=
| Shell (i : ident) (tok : nat) (subs : list ident)
| Subm (i : ident) (tok : nat) (sems : list sref) (nodes : list node)
| CD (i : ident) (tok : nat).

Definition oid (o : obj) : ident :=
  match o with Shell i _ _ => i | Subm i _ _ _ => i | CD i _ => i end.

(* DictObjectStore: insertion-ordered, ids unique *)
Definition ostore := list obj.
Fixpoint ofind (i : ident) (s : ostore) : option obj :=
  match s with
  | [] => None
  | o :: r => if Nat.eqb (oid o) i then Some o else ofind i r
  end.
Definition omem (i : ident) (s : ostore) : bool :=
  match ofind i s with Some _ => true | None => false end.
Fixpoint oremove (i : ident) (s : ostore) : ostore :=
  match s with
  | [] => []
  | o :: r => if Nat.eqb (oid o) i then oremove i r else o :: oremove i r
  end.
(* add() of an object obtained from the same provider: the same id means the same object, for
   which add() is a no-op; otherwise append *)
Definition oadd (o : obj) (s : ostore) : ostore := if omem (oid o) s then s else s ++ [o].

(* traversal.walk_submodel descends into these containers *)
Definition descends (k : ckind) : bool :=
  match k with
  | CColl | CList | CEntity | COpIn | COpOut | COpInOut | CAnnot => true
  end.
Definition walkable (n : node) : bool := forallb descends (n_path n).

(* traversal.walk_semantic_ids_recursive: pre-order over every namespace (all container kinds) *)
Definition obj_sems (o : obj) : list sref :=
  match o with
  | Subm _ _ sems nodes => sems ++ flat_map n_sems nodes
  | _ => []
  end.

(* write_json_file / write_aas_xml_file sort the objects into shells, submodels, concept
   descriptions; the readers return them in document order *)
Definition is_shell o := match o with Shell _ _ _ => true | _ => false end.
Definition is_subm o := match o with Subm _ _ _ _ => true | _ => false end.
Definition is_cd o := match o with CD _ _ => true | _ => false end.
Definition by_kind (l : list obj) : list obj := filter is_shell l ++ filter is_subm l ++ filter is_cd l.

(* ---- OPC layer -------------------------------------------------------------------------- *)

Inductive reltype := ROrigin | RSpec | RSplit | RSuppl | RCore | RThumb.
Definition reltype_eqb (a b : reltype) : bool :=
  match a, b with
  | ROrigin, ROrigin | RSpec, RSpec | RSplit, RSplit | RSuppl, RSuppl | RCore, RCore | RThumb, RThumb => true
  | _, _ => false
  end.

(* content-type tokens with a meaning for the reader; all others are opaque *)
Definition CT_NONE : ctype := 0.   (* "" *)
Definition CT_XML : ctype := 1.    (* application/xml *)
Definition CT_JSON : ctype := 2.   (* application/json *)
Definition CT_TEXT : ctype := 3.   (* text/plain *)

Definition ORIGIN_PART := "/aasx/aasx-origin".
Definition CORE_PART := "/docProps/core.xml".

Section WithCodec.
Variable payload : Type.
Variable encode : bool -> list obj -> payload.
Variable decode : payload -> list obj.

Inductive body :=
| BEmpty                       (* the aasx-origin part *)
| BPayload (p : payload)
| BBytes (c : content)
| BCore (tok : nat).

Inductive lentry :=
| LPart (name : string) (ct : ctype) (b : body)            (* open_part + write + close *)
| LRels (src : string) (rels : list (reltype * string)).  (* write_relationships *)

(* what a package reader offers *)
Record rpkg := mk_rpkg {
  rp_part : string -> option (ctype * body);   (* get_content_type + open_part; None = KeyError *)
  rp_rel : string -> reltype -> list string    (* get_related_parts_by_type(src)[type] *)
}.

(* reference semantics of pyecma376_2: parts are found by normalised name and the last item of
   that name wins; content types come from the override table, a Python dict keyed by the raw
   name and written only when the normalised name does not already yield the right type *)
Fixpoint ref_body (l : list lentry) (n : string) (acc : option body) : option body :=
  match l with
  | [] => acc
  | LPart name _ b :: r => ref_body r n (if String.eqb (norm name) n then Some b else acc)
  | _ :: r => ref_body r n acc
  end.
Fixpoint dict_set (k : string) (v : ctype) (d : list (string * ctype)) : list (string * ctype) :=
  match d with
  | [] => [(k, v)]
  | (k', v') :: r => if String.eqb k k' then (k, v) :: r else (k', v') :: dict_set k v r
  end.
Fixpoint overrides (l : list lentry) (d : list (string * ctype)) : list (string * ctype) :=
  match l with
  | [] => d
  | LPart name ct _ :: r =>
    overrides r (match sassoc (norm name) d with
                 | Some ct' => if Nat.eqb ct' ct then d else dict_set name ct d
                 | None => dict_set name ct d
                 end)
  | _ :: r => overrides r d
  end.
Fixpoint ref_ctype (d : list (string * ctype)) (n : string) (acc : ctype) : ctype :=
  match d with
  | [] => acc
  | (k, v) :: r => ref_ctype r n (if String.eqb (norm k) n then v else acc)
  end.
Fixpoint ref_rels (l : list lentry) (n : string) (acc : list (reltype * string)) : list (reltype * string) :=
  match l with
  | [] => acc
  | LRels src rels :: r => ref_rels r n (if String.eqb (norm src) n then rels else acc)
  | _ :: r => ref_rels r n acc
  end.
Definition ref_opc (l : list lentry) : rpkg :=
  mk_rpkg
    (fun n => match ref_body l (norm n) None with
              | Some b => Some (ref_ctype (overrides l []) (norm n) CT_NONE, b)
              | None => None
              end)
    (fun src t => map snd (filter (fun p => reltype_eqb (fst p) t) (ref_rels l (norm src) []))).

Variable opc : list lentry -> rpkg.

(* ---- writer ----------------------------------------------------------------------------- *)

Inductive err :=
| EKeyError | ETypeError | EUnexpectedType | EValueError | EIndexError | ERuntimeError
| EParse.   (* a payload part that does not hold a payload: outside the modelled input class *)

Inductive res (A : Type) := Ok (a : A) | Err (e : err).
Arguments Ok {A} a.
Arguments Err {A} e.

Record wstate := mk_w {
  w_log : list lentry;                    (* calls made on the pyecma376_2 writer so far *)
  w_aas_parts : list string;              (* _aas_part_names *)
  w_suppl : list (string * content);      (* _supplementary_part_names: name -> hash *)
  w_core : bool;                          (* _properties_part is not None *)
  w_thumb : option string                 (* _thumbnail_part *)
}.

(* AASXWriter.__init__ *)
Definition w_init : wstate := mk_w [LPart ORIGIN_PART CT_TEXT BEmpty] [] [] false None.

(* writer.open_part: check_part_name, then the item is created *)
Definition w_open (w : wstate) (name : string) (ct : ctype) (b : body) : res wstate :=
  if valid_part_name name
  then Ok (mk_w (w_log w ++ [LPart name ct b]) (w_aas_parts w) (w_suppl w) (w_core w) (w_thumb w))
  else Err EValueError.

(* File values scanned by write_all_aas_objects *)
Definition node_file_names (n : node) : list string :=
  if walkable n then
    match n_file n with
    | Some (Some v) => if nonlocal v then [] else [v]
    | _ => []
    end
  else [].
Definition obj_file_names (o : obj) : list string :=
  match o with Subm _ _ _ nodes => flat_map node_file_names nodes | _ => [] end.

(* the loop "for file_name in supplementary_files"; returns the new state and the targets of the
   aas-suppl relationships *)
Fixpoint write_files (part_name : string) (F : Files.st) (files : list string) (w : wstate)
         (targets : list string) : res (wstate * list string) :=
  match files with
  | [] => Ok (w, targets)
  | v :: r =>
    match sassoc v (names F) with
    | None => write_files part_name F r w targets                  (* KeyError: warning, skip *)
    | Some (h, ct) =>
      match realpath v part_name with
      | None => Err EIndexError
      | Some sp =>
        if match sassoc sp (w_suppl w) with Some h' => Nat.eqb h' h | None => false end
        then write_files part_name F r w targets                  (* already written *)
        else
          let data := match nassoc h (store F) with Some d => d | None => h end in
          match w_open w sp ct (BBytes data) with
          | Err e => Err e
          | Ok w1 =>
            write_files part_name F r
              (mk_w (w_log w1) (w_aas_parts w1)
                    (match sassoc sp (w_suppl w1) with
                     | Some _ => map (fun p => if String.eqb (fst p) sp then (sp, h) else p) (w_suppl w1)
                     | None => w_suppl w1 ++ [(sp, h)]
                     end)
                    (w_core w1) (w_thumb w1))
              (targets ++ [norm sp])
          end
      end
    end
  end.

(* write_relationships(rels, part_name): check_part_name(part_name) unless "/" *)
Definition w_rels (w : wstate) (src : string) (rels : list (reltype * string)) : res wstate :=
  if String.eqb src "/" || valid_part_name src
  then Ok (mk_w (w_log w ++ [LRels src rels]) (w_aas_parts w) (w_suppl w) (w_core w) (w_thumb w))
  else Err EValueError.

(* [extra]: the additional_relationships argument (here: aas-spec-split relationships to split parts) *)
Definition write_all_aas_objects (part_name : string) (objs : ostore) (F : Files.st) (json split : bool)
           (extra : list (reltype * string)) (w : wstate) : res wstate :=
  let files := flat_map obj_file_names objs in
  let w0 := mk_w (w_log w) (if split then w_aas_parts w else w_aas_parts w ++ [part_name])
                 (w_suppl w) (w_core w) (w_thumb w) in
  match w_open w0 part_name (if json then CT_JSON else CT_XML) (BPayload (encode json objs)) with
  | Err e => Err e
  | Ok w1 =>
    match write_files part_name F files w1 [] with
    | Err e => Err e
    | Ok (w2, targets) => w_rels w2 part_name (map (fun t => (RSuppl, t)) targets ++ extra)
    end
  end.

(* write_aas_objects: ids not found are skipped *)
Fixpoint pick (S : ostore) (ids : list ident) (acc : ostore) : ostore :=
  match ids with
  | [] => acc
  | i :: r => match ofind i S with
              | Some o => pick S r (oadd o acc)
              | None => pick S r acc
              end
  end.
Definition write_aas_objects (part_name : string) (ids : list ident) (S : ostore) (F : Files.st)
           (json split : bool) (extra : list (reltype * string)) (w : wstate) : res wstate :=
  write_all_aas_objects part_name (pick S ids []) F json split extra w.

(* write_aas, first loop: the shells and the submodels their references resolve to *)
Fixpoint add_submodels (S : ostore) (subs : list ident) (acc : ostore) : res ostore :=
  match subs with
  | [] => Ok acc
  | i :: r =>
    match ofind i S with
    | None => add_submodels S r acc                      (* KeyError: warning, skip *)
    | Some ((Subm _ _ _ _) as o) => add_submodels S r (oadd o acc)
    | Some _ => Err EUnexpectedType                      (* not caught by write_aas *)
    end
  end.
Fixpoint add_shells (S : ostore) (ids : list ident) (acc : ostore) : res ostore :=
  match ids with
  | [] => Ok acc
  | i :: r =>
    match ofind i S with
    | None => Err EKeyError
    | Some ((Shell _ _ subs) as o) =>
      match add_submodels S subs (oadd o acc) with
      | Err e => Err e
      | Ok acc' => add_shells S r acc'
      end
    | Some _ => Err ETypeError
    end
  end.
(* second loop: concept descriptions referenced by semantic ids *)
Definition cd_of (S : ostore) (r : sref) : list obj :=
  if r_cd r then
    match ofind (r_id r) S with
    | Some ((CD _ _) as o) => [o]
    | _ => []                       (* KeyError / UnexpectedTypeError: logged, skipped *)
    end
  else [].
Definition concept_descriptions (S : ostore) (objs : ostore) : list obj :=
  flat_map (fun o => flat_map (cd_of S) (obj_sems o)) objs.
Definition closure (S : ostore) (ids : list ident) : res ostore :=
  match add_shells S ids [] with
  | Err e => Err e
  | Ok objs => Ok (fold_left (fun acc o => oadd o acc) (concept_descriptions S objs) objs)
  end.
Definition write_aas (ids : list ident) (S : ostore) (F : Files.st) (json : bool) (w : wstate) : res wstate :=
  match closure S ids with
  | Err e => Err e
  | Ok objs => write_all_aas_objects (if json then "/aasx/data.json" else "/aasx/data.xml") objs F json false [] w
  end.

Definition write_core_properties (tok : nat) (w : wstate) : res wstate :=
  if w_core w then Err ERuntimeError
  else match w_open w CORE_PART CT_XML (BCore tok) with
       | Err e => Err e
       | Ok w1 => Ok (mk_w (w_log w1) (w_aas_parts w1) (w_suppl w1) true (w_thumb w1))
       end.
Definition write_thumbnail (name : string) (data : content) (ct : ctype) (w : wstate) : res wstate :=
  match w_thumb w with
  | Some _ => Err ERuntimeError
  | None => match w_open w name ct (BBytes data) with
            | Err e => Err e
            | Ok w1 => Ok (mk_w (w_log w1) (w_aas_parts w1) (w_suppl w1) (w_core w1) (Some name))
            end
  end.
(* close(): aasx-origin relationships, package relationships *)
Definition w_close (w : wstate) : res (list lentry) :=
  match w_rels w ORIGIN_PART (map (fun p => (RSpec, p)) (w_aas_parts w)) with
  | Err e => Err e
  | Ok w1 =>
    match w_rels w1 "/" ([(ROrigin, ORIGIN_PART)]
                         ++ (if w_core w1 then [(RCore, CORE_PART)] else [])
                         ++ (match w_thumb w1 with Some t => [(RThumb, t)] | None => [] end)) with
    | Err e => Err e
    | Ok w2 => Ok (w_log w2)
    end
  end.

(* one call on an open AASXWriter *)
Inductive wcall :=
| WAas (ids : list ident) (json : bool)
| WObjs (part_name : string) (ids : list ident) (json split : bool) (splits : list string)
| WCore (tok : nat)
| WThumb (name : string) (data : content) (ct : ctype).

Definition wstep (S : ostore) (F : Files.st) (w : wstate) (c : wcall) : res wstate :=
  match c with
  | WAas ids json => write_aas ids S F json w
  | WObjs pn ids json split splits => write_aas_objects pn ids S F json split (map (fun p => (RSplit, p)) splits) w
  | WCore tok => write_core_properties tok w
  | WThumb n d ct => write_thumbnail n d ct w
  end.
Fixpoint wsession (S : ostore) (F : Files.st) (w : wstate) (cs : list wcall) : res (list lentry) :=
  match cs with
  | [] => w_close w
  | c :: r => match wstep S F w c with
              | Err e => Err e
              | Ok w' => wsession S F w' r
              end
  end.
Definition write_package (S : ostore) (F : Files.st) (cs : list wcall) : res (list lentry) :=
  wsession S F w_init cs.

(* ---- reader ----------------------------------------------------------------------------- *)

(* _parse_aas_part *)
Definition parse_part (p : rpkg) (part_name : string) : res (list obj) :=
  match rp_part p part_name with
  | None => Err EKeyError
  | Some (ct, b) =>
    let ext := extension part_name in
    if Nat.eqb ct CT_XML || (Nat.eqb ct CT_NONE && String.eqb ext "xml")
       || Nat.eqb ct CT_JSON || (Nat.eqb ct CT_NONE && String.eqb ext "json")
    then match b with
         | BPayload pl => Ok (decode pl)
         | _ => Err EParse
         end
    else Ok []
  end.

(* _collect_supplementary_files over the elements of one submodel: returns the elements with
   rewritten File values and the new container *)
Fixpoint collect_files (p : rpkg) (part_name : string) (nodes : list node) (F : Files.st)
  : res (list node * Files.st) :=
  match nodes with
  | [] => Ok ([], F)
  | n :: r =>
    let skip := match collect_files p part_name r F with
                | Err e => Err e
                | Ok (r', F') => Ok (n :: r', F')
                end in
    if walkable n then
      match n_file n with
      | Some (Some v) =>
        if nonlocal v then skip
        else
          match realpath v part_name with
          | None => Err EIndexError
          | Some abs =>
            match rp_part p abs with
            | None => skip                                       (* not in the package: warning *)
            | Some (ct, b) =>
              let data := match b with BBytes c => c | _ => 0 end in
              match add_file F abs data ct with
              | (F1, OName final) =>
                match collect_files p part_name r F1 with
                | Err e => Err e
                | Ok (r', F') => Ok (mk_node (n_path n) (Some (Some final)) (n_sems n) (n_tok n) :: r', F')
                end
              | (_, _) => Err ERuntimeError                      (* excluded by C19: add_file returns a name *)
              end
            end
          end
      | _ => skip
      end
    else skip
  end.

Record rstate := mk_r { r_store : ostore; r_files : Files.st; r_ids : list ident }.

(* the loop body of _read_aas_part_into *)
Fixpoint read_objs (p : rpkg) (part_name : string) (override : bool) (objs : list obj) (s : rstate)
  : res rstate :=
  match objs with
  | [] => Ok s
  | o :: r =>
    if existsb (Nat.eqb (oid o)) (r_ids s) then read_objs p part_name override r s
    else if omem (oid o) (r_store s) && negb override then read_objs p part_name override r s
    else
      let S1 := if omem (oid o) (r_store s) then oremove (oid o) (r_store s) else r_store s in
      match o with
      | Subm i tok sems nodes =>
        match collect_files p part_name nodes (r_files s) with
        | Err e => Err e
        | Ok (nodes', F') =>
          read_objs p part_name override r (mk_r (S1 ++ [Subm i tok sems nodes']) F' (r_ids s ++ [i]))
        end
      | _ => read_objs p part_name override r (mk_r (S1 ++ [o]) (r_files s) (r_ids s ++ [oid o]))
      end
  end.
Definition read_part (p : rpkg) (override : bool) (part_name : string) (s : rstate) : res rstate :=
  match parse_part p part_name with
  | Err e => Err e
  | Ok objs => read_objs p part_name override objs s
  end.
Fixpoint read_parts (p : rpkg) (override : bool) (parts : list string) (s : rstate) : res rstate :=
  match parts with
  | [] => Ok s
  | pn :: r => match read_part p override pn s with
               | Err e => Err e
               | Ok s' => read_parts p override r s'
               end
  end.
Fixpoint read_spec_parts (p : rpkg) (override : bool) (parts : list string) (s : rstate) : res rstate :=
  match parts with
  | [] => Ok s
  | pn :: r =>
    match read_part p override pn s with
    | Err e => Err e
    | Ok s1 => match read_parts p override (rp_rel p pn RSplit) s1 with
               | Err e => Err e
               | Ok s2 => read_spec_parts p override r s2
               end
    end
  end.
Definition read_into (p : rpkg) (S0 : ostore) (F0 : Files.st) (override : bool) : res rstate :=
  match rp_rel p "/" ROrigin with
  | [] => Err EValueError
  | origin :: _ => read_spec_parts p override (rp_rel p origin RSpec) (mk_r S0 F0 [])
  end.

Definition get_core_properties (p : rpkg) : option nat :=
  match rp_rel p "/" RCore with
  | [] => None
  | pn :: _ => match rp_part p pn with Some (_, BCore tok) => Some tok | _ => None end
  end.
Definition get_thumbnail (p : rpkg) : option content :=
  match rp_rel p "/" RThumb with
  | [] => None
  | pn :: _ => match rp_part p pn with Some (_, BBytes c) => Some c | _ => None end
  end.

(* write a package and read it back *)
Definition roundtrip (S : ostore) (F : Files.st) (cs : list wcall) (S0 : ostore) (F0 : Files.st)
           (override : bool) : res rstate :=
  match write_package S F cs with
  | Err e => Err e
  | Ok log => read_into (opc log) S0 F0 override
  end.

End WithCodec.

Arguments Ok {A} a.
Arguments Err {A} e.

(* the instance used by the correspondence run: the payload is the sorted object list itself *)
Definition id_payload := list obj.
Definition id_encode (json : bool) (l : list obj) : id_payload := by_kind l.
Definition id_decode (p : id_payload) : list obj := p.
