(* C05 - the official schemas as tables, executable validators for exactly the schema subset they use, the
   specification-side metamodel table (attribute -> member name, kind, constraints), and the decidable table-level
   predicates [conforms] (writer rules vs schema) and [accepts] (reader rules vs schema).
   The tables (gen/Gen_Schema.v) are regenerated on every run from the two schema files shipped in the repository by
   tools/py2coq/schemas.py.  Definitions only; proofs in proofs/SchemaProofs.v.

   Strings are UTF-8 byte strings (as in model/Codec.v); lengths are counted in code points.  `pattern` facets are
   not interpreted here: a pattern is identified by an id (J<n> / X<n>, text in build/schemas.json) and decided by the
   parameter [pm] (the harness supplies Python's verdicts in the correspondence check; theorems hold for every [pm]). *)
From Coq Require Import List Bool String Ascii NArith.
From Basyx Require Import model.Codec model.CodecSpec model.SchemaBase.
Import ListNotations.
Local Open Scope string_scope.

(* ---------- JSON schema tables ---------- *)
Inductive sty :=
| SStr (f : facets)
| SBool
| SEnum (lits : list string)             (* enum; a const is a one-literal enum *)
| SArr (item : sty) (min1 : bool)        (* array, minItems 1 when min1 *)
| SObj (cls : string)                    (* $ref to an object definition (flattened over allOf) *)
| SOne (alts : list string).             (* oneOf over classes told apart by their constant modelType *)

Record sprop := mkP { p_name : string; p_req : bool; p_ty : sty }.
Definition jschema := list (string * list sprop).

Fixpoint pfind (m : string) (ps : list sprop) : option sprop :=
  match ps with
  | [] => None
  | p :: r => if String.eqb m (p_name p) then Some p else pfind m r
  end.

Definition has (m : string) (ms : list (string * doc)) : bool :=
  match sfind m ms with Some _ => true | None => false end.

(* ---------- specification-side metamodel table ---------- *)
Inductive skind :=
| KStr (f : facets)                      (* string attribute with the metamodel's constraints *)
| KBool
| KEnum (members : list string)
| KLeaf (f : facets)                     (* typed literal (xsd_repr / base64 output) *)
| KObj (classes : list string) (ctx : string)   (* ctx: "" or "@<LangStringSet class>" selecting the table row *)
| KList (k : skind) (min1 : bool)
| KEnumSet (members : list string).

Record sattr := mkA {
  a_name : string;                       (* attribute (SDK's Python name) *)
  a_member : string;                     (* member / element name prescribed by the mapping *)
  a_opt : bool;
  a_kind : skind;
  a_default : option value               (* explicit default of the metamodel *)
}.
Definition smeta := list (string * list sattr).

Definition triple := (string * string * string)%type.    (* SDK class, context, schema class *)
Definition triple_eqb (a b : triple) : bool :=
  match a, b with (a1, a2, a3), (b1, b2, b3) => String.eqb a1 b1 && String.eqb a2 b2 && String.eqb a3 b3 end.
Definition tmem3 (t : triple) (l : list triple) : bool := existsb (triple_eqb t) l.

Section Validators.
Variable pm : string -> string -> bool.          (* pattern id -> string -> matches *)

(* ---------- JSON validator ---------- *)
Section Json.
Variable S : jschema.
Variable closed : bool.      (* true: members outside `properties` are rejected (the mapping); false: the shipped
                                schema, which has no additionalProperties keyword *)

Definition mt_is (cls s : string) : bool :=     (* the class fixes modelType to the constant s *)
  match sfind cls S with
  | Some ps => match pfind "modelType" ps with
               | Some p => match p_ty p with SEnum [s'] => String.eqb s s' | _ => false end
               | None => false end
  | None => false
  end.

Fixpoint jvalid (t : sty) (d : doc) {struct d} : bool :=
  let vobj := fun (cls : string) (ms : list (string * doc)) =>
    match sfind cls S with
    | None => false
    | Some ps =>
      forallb (fun p => negb (p_req p) || has (p_name p) ms) ps &&
      (fix go (l : list (string * doc)) : bool :=
         match l with
         | [] => true
         | (m, dj) :: l' =>
           match pfind m ps with Some p => jvalid (p_ty p) dj | None => negb closed end && go l'
         end) ms
    end in
  match t, d with
  | SStr f, DStr s => facets_ok pm f s
  | SBool, DBool _ => true
  | SEnum lits, DStr s => smem s lits
  | SArr it mn, DList l => (negb mn || nonempty l) && forallb (jvalid it) l
  | SObj cls, DObj ms => vobj cls ms
  | SOne alts, DObj ms =>
    match sfind "modelType" ms with
    | Some (DStr s) => match find (fun a => mt_is a s) alts with Some a => vobj a ms | None => false end
    | _ => false
    end
  | _, _ => false
  end.
End Json.

(* ---------- well-formed values w.r.t. the specification-side table (metamodel constraints included) ---------- *)
Section Wf.
Variable SM : smeta.

Fixpoint swf (k : skind) (v : value) {struct v} : bool :=
  match k, v with
  | KStr f, VStr s => facets_ok pm f s
  | KBool, VBool _ => true
  | KEnum ms, VStr s => smem s ms
  | KLeaf f, VLeaf s => facets_ok pm f s
  | KEnumSet ms, VList l => enum_set_canon ms l
  | KList k' mn, VList l => (negb mn || nonempty l) && forallb (swf k') l
  | KObj classes ctx, VObj cls fs =>
    smem cls classes &&
    match sfind (cls ++ ctx) SM with
    | None => false
    | Some attrs =>
      (fix go (attrs : list sattr) (fs : list (string * value)) {struct fs} : bool :=
         match attrs, fs with
         | [], [] => true
         | a :: attrs', (n, x) :: fs' =>
           String.eqb (a_name a) n &&
           match x with VNone => a_opt a | _ => swf (a_kind a) x end &&
           go attrs' fs'
         | _, _ => false
         end) attrs fs
    end
  | _, _ => false
  end.

Definition saligned (attrs : list sattr) (fs : list (string * value)) : bool :=
  (fix go (attrs : list sattr) (fs : list (string * value)) {struct fs} : bool :=
     match attrs, fs with
     | [], [] => true
     | a :: attrs', (n, x) :: fs' =>
       String.eqb (a_name a) n &&
       match x with VNone => a_opt a | _ => swf (a_kind a) x end &&
       go attrs' fs'
     | _, _ => false
     end) attrs fs.
End Wf.

End Validators.

(* ---------- the mapping as writer rules, combined with the reader rules under test ---------- *)
(* SW: class -> (constants, writer rules) derived from the specification side; the reader rules stay those of T *)
Definition mix (SW : list (string * (list (string * string) * list wrule))) (T : tables) : tables :=
  map (fun p => match sfind (fst p) SW with
                | Some cw => (fst p, mkC (fst cw) (snd cw) (c_r (snd p)))
                | None => p end) T.
(* the constants the reader dispatches on are the specification's *)
Definition same_consts (SW : list (string * (list (string * string) * list wrule))) (T : tables) : bool :=
  forallb (fun p => match sfind (fst p) SW with
                    | Some cw => table_eqb (fst cw) (c_consts (snd p))
                    | None => false end) T.

(* ---------- the mapping's spelling of enumeration literals ---------- *)
(* an enum member named MODEL_REFERENCE / Input is written ModelReference / input: equal after dropping '_' and case;
   the XSD value types (named by Python classes in the value universe) are written as listed in [XN] *)
Definition lower (c : ascii) : ascii :=
  let n := nat_of_ascii c in
  if (Nat.leb 65 n && Nat.leb n 90)%bool then ascii_of_nat (n + 32) else c.
Fixpoint norm (s : string) : string :=
  match s with
  | EmptyString => EmptyString
  | String c r => if Ascii.eqb c "_"%char then norm r else String (lower c) (norm r)
  end.
Definition literal_ok (XN : table) (m lit : string) : bool :=
  match sfind m XN with
  | Some l => String.eqb l lit
  | None => String.eqb (norm m) (norm lit)
  end.

(* ---------- conformance of the writer rule tables to the JSON schema tables ---------- *)
Section Conforms.
Variable T : tables.          (* generated from the JSON adapter (gen/Gen_JsonRules.v) *)
Variable S : jschema.         (* generated from aasJSONSchema.json *)
Variable SM : smeta.          (* specification side *)
Variable TR : list triple.    (* (SDK class, context, schema class) reachable from the environment's lists *)
Variable XN : table.          (* specification side: XSD value type (by Python class name) -> literal *)

(* the condition never emits an absent (None) attribute *)
Definition cond_drops_none (c : wcond) : bool :=
  match c with WAlways | WNonEmpty => false | _ => true end.
(* when the condition holds the value is not the empty collection *)
Definition cond_nonempty (c : wcond) : bool :=
  match c with WTruthy | WNonEmpty | WTruthyUnder _ => true | _ => false end.
(* every well-formed value of the kind is truthy in Python *)
Definition kind_truthy (k : skind) : bool :=
  match k with
  | KStr f => (1 <=? f_min f)%N
  | KEnum ms => negb (smem "" ms)
  | KObj _ _ => true
  | KList _ mn => mn
  | _ => false
  end.
(* the condition holds on every present well-formed value of the kind *)
Definition always_emits (k : skind) (c : wcond) : bool :=
  match c with
  | WAlways | WNotNone => true
  | WTruthy => kind_truthy k
  | _ => false
  end.

(* the schema class [scls] is a one-member wrapper object around member [m] whose type satisfies P *)
Definition wrap_ok (scls m : string) (P : sty -> bool) : bool :=
  match sfind scls S with
  | Some ps =>
    match pfind m ps with Some p => P (p_ty p) | None => false end &&
    forallb (fun p => negb (p_req p) || String.eqb (p_name p) m) ps
  | None => false
  end.

Definition level_ok (scls : string) (tb : table) : bool :=
  match sfind scls S with
  | Some ps =>
    forallb (fun p => negb (p_req p) || smem (p_name p) (map snd tb)) ps &&
    forallb (fun kv => match pfind (snd kv) ps with
                       | Some p => match p_ty p with SBool => true | _ => false end
                       | None => false end) tb
  | None => false
  end.

(* the encoding [e] of every well-formed value of kind [k] is valid for the member type [t];
   ne0: the value is known not to be the empty collection when it is emitted *)
Fixpoint tyconf (k : skind) (ne0 : bool) (e : venc) (t : sty) {struct k} : bool :=
  match k, e, t with
  | KStr f, EAuto, SStr g => fimpl f g
  | KStr f, ELeaf, SStr g => fimpl f g
  | KBool, EAuto, SBool => true
  | KEnum ms, EEnum tb, SEnum lits =>
    forallb (fun m => match sfind m tb with Some j => smem j lits && literal_ok XN m j | None => false end) ms
  | KLeaf f, ELeaf, SStr g => fimpl f g
  | KObj classes ctx, EAuto, SObj scls => forallb (fun c => tmem3 (c, ctx, scls) TR) classes
  | KObj classes ctx, EAuto, SOne alts =>
    forallb (fun c => match const_of T "modelType" c with
                      | Some s => match find (fun a => mt_is S a s) alts with
                                  | Some a => tmem3 (c, ctx, a) TR
                                  | None => false end
                      | None => false end) classes
  | KList k' mn, EAuto, SArr it m1 => (negb m1 || mn || ne0) && tyconf k' false EAuto it
  | KList k' mn, EListWrap m, SArr (SObj scls) m1 =>
    (negb m1 || mn || ne0) && wrap_ok scls m (fun t' => tyconf k' false EAuto t')
  | KList k' mn, EObjWrap m, SObj scls =>
    wrap_ok scls m (fun t' => match t' with
                              | SArr it m1 => (negb m1 || mn || ne0) && tyconf k' false EAuto it
                              | _ => false end)
  | KEnumSet ms, ELevel tb, SObj scls => level_ok scls tb
  | _, _, _ => false
  end.

Definition const_ok (ps : list sprop) (kv : string * string) : bool :=
  match pfind (fst kv) ps with
  | Some p => match p_ty p with SEnum lits => smem (snd kv) lits | _ => false end
  | None => false
  end.

(* every present value of the kind that is not the empty collection is truthy in Python *)
Definition kind_truthy_present (k : skind) : bool :=
  match k with
  | KStr f => (1 <=? f_min f)%N
  | KEnum ms => negb (smem "" ms)
  | KObj _ _ | KList _ _ | KEnumSet _ => true
  | _ => false
  end.
(* the condition never drops a present value: only None, the empty collection, or the attribute's metamodel default
   may be left out (a falsy-but-present typed value, False, 0, "" must be written) *)
Definition present_ok (a : sattr) (c : wcond) : bool :=
  match c with
  | WAlways | WNotNone | WNonEmpty => true
  | WTruthy | WTruthyUnder _ => kind_truthy_present (a_kind a)
  | WEquals m =>
    match a_kind a, a_default a with
    | KEnum ms, Some (VStr d) => forallb (fun x => String.eqb x m || String.eqb x d) ms
    | _, _ => false end
  end.
Definition simple_cond (c : wcond) : bool :=
  match c with WAlways | WNotNone | WTruthy | WNonEmpty => true | _ => false end.

(* one metamodel attribute: it is written, under the mapping's name, never as null, never dropped while present, in a
   valid form *)
Definition attr_ok (c : crules) (ps : list sprop) (a : sattr) : bool :=
  match find_w (a_name a) (c_w c) with
  | None => false
  | Some w =>
    String.eqb (w_member w) (a_member a) &&
    present_ok a (w_cond w) &&
    (negb (a_opt a) || cond_drops_none (w_cond w)) &&
    match pfind (w_member w) ps with
    | Some p => tyconf (a_kind a) (cond_nonempty (w_cond w)) (w_enc w) (p_ty p)
    | None => false
    end
  end.

(* one schema member: if required it is a constant or a mandatory attribute that is always emitted *)
Definition req_ok (c : crules) (attrs : list sattr) (p : sprop) : bool :=
  negb (p_req p) || smem (p_name p) (map fst (c_consts c)) ||
  existsb (fun a => match find_w (a_name a) (c_w c) with
                    | Some w => String.eqb (w_member w) (p_name p) && negb (a_opt a) &&
                                always_emits (a_kind a) (w_cond w)
                    | None => false end) attrs.

Definition triple_ok (t : triple) : bool :=
  match t with
  | (cls, ctx, scls) =>
    match sfind cls T, sfind (cls ++ ctx) SM, sfind scls S with
    | Some c, Some attrs, Some ps =>
      nodup_str (map a_name attrs) &&
      nodup_str (map fst (c_consts c) ++ map w_member (c_w c))%list &&
      forallb (const_ok ps) (c_consts c) &&
      forallb (attr_ok c ps) attrs &&
      forallb (req_ok c attrs) ps
    | _, _, _ => false
    end
  end.

Definition conforms : bool := forallb triple_ok TR.

(* reading: the literals of a schema enumeration that the reader's table does not know (schema class, member, literal) *)
Definition unread_literals : list (string * string * string) :=
  flat_map (fun t =>
    match t with
    | (cls, ctx, scls) =>
      match sfind cls T, sfind (cls ++ ctx) SM, sfind scls S with
      | Some c, Some attrs, Some ps =>
        flat_map (fun a =>
          match find_r (a_name a) (c_r c), pfind (a_member a) ps with
          | Some r, Some p =>
            match r_dec r, p_ty p with
            | DcEnum tb, SEnum lits =>
              flat_map (fun lit => match rfind lit tb with Some _ => [] | None => [(scls, a_member a, lit)] end) lits
            | _, _ => [] end
          | _, _ => [] end) attrs
      | _, _, _ => [] end
    end) TR.

(* ---------- the environment document of _create_dict ---------- *)
Definition cls_is (cls : string) (v : value) : bool :=
  match v with VObj c _ => String.eqb c cls | _ => false end.

(* tops: (member, class) in emission order; a list member is present only when it has items *)
Definition env_doc (lt : string -> bool) (tops : list (string * string)) (objs : list value) : doc :=
  DObj (flat_map (fun mc => match filter (cls_is (snd mc)) objs with
                            | [] => []
                            | mine => [(fst mc, DList (map (enc_auto T lt false) mine))]
                            end) tops).

(* the environment class of the schema has no required member and types every list of the writer as an array of
   the schema class standing for the SDK class *)
Definition env_ok (root : string) (tops : list (string * string)) : bool :=
  match sfind root S with
  | Some ps =>
    forallb (fun p => negb (p_req p)) ps &&
    forallb (fun mc => match pfind (fst mc) ps with
                       | Some p => match p_ty p with
                                   | SArr (SObj scls) _ => tmem3 (snd mc, "", scls) TR
                                   | _ => false end
                       | None => false end) tops
  | None => false
  end.

(* the rows that make [conforms] false: (triple, attribute or member, facet) *)
Definition nonconforming : list (triple * string * string) :=
  flat_map (fun t =>
    match t with
    | (cls, ctx, scls) =>
      match sfind cls T, sfind (cls ++ ctx) SM, sfind scls S with
      | Some c, Some attrs, Some ps =>
        ((if nodup_str (map a_name attrs) && nodup_str (map fst (c_consts c) ++ map w_member (c_w c))%list
          then [] else [(t, "", "duplicate-names")]) ++
         flat_map (fun kv => if const_ok ps kv then [] else [(t, fst kv, "constant")]) (c_consts c) ++
         flat_map (fun a => if attr_ok c ps a then [] else [(t, a_name a, "attribute")]) attrs ++
         flat_map (fun p => if req_ok c attrs p then [] else [(t, p_name p, "required")]) ps)%list
      | _, _, _ => [(t, "", "unknown-class")]
      end
    end) TR.
End Conforms.
