(* Typed values (property C02: AASd-020, value / value_type agreement): executable model of
   datatypes.trivial_cast over the generated decision structure (gen/Gen_TypedValues.v) and of the four holders
   (Property, Qualifier: value + mandatory value_type; Extension: value + optional value_type; Range: min, max +
   value_type) with their value and value_type setters.  Definitions only; theorems in proofs/TypedValueProofs.v. *)
From Coq Require Import List ZArith Bool.
From Basyx Require Import model.ConstraintsBase model.TypedBase gen.Gen_IntRanges gen.Gen_TypedValues.
Import ListNotations.
Local Open Scope Z_scope.

(* A Python value as far as trivial_cast and the class constructors can tell: its class, its integer payload (int
   kinds; bool: 0/1), its characters (str kinds) and an opaque token for everything else (float bits, bytes, date
   fields, ...: never inspected, only carried along). *)
Record pyval := { vcls : pcls; vnum : Z; vstr : list Z; vtok : Z }.

Definition has_forbidden (s : list Z) : bool :=
  existsb (fun c => existsb (Z.eqb c) s) normalized_string_forbidden.

(* what the constructor of class t accepts (the __new__ methods of datatypes.py: the 12 bounded integer classes -
   translated in Gen_IntRanges - and NormalizedString); every other class takes whatever trivial_cast hands it *)
Definition ctor_ok (t : pcls) (v : pyval) : bool :=
  match t with
  | KLong => in_range_Long (vnum v) | KInt => in_range_Int (vnum v) | KShort => in_range_Short (vnum v)
  | KByte => in_range_Byte (vnum v)
  | KNonPositiveInteger => in_range_NonPositiveInteger (vnum v) | KNegativeInteger => in_range_NegativeInteger (vnum v)
  | KNonNegativeInteger => in_range_NonNegativeInteger (vnum v) | KPositiveInteger => in_range_PositiveInteger (vnum v)
  | KUnsignedLong => in_range_UnsignedLong (vnum v) | KUnsignedInt => in_range_UnsignedInt (vnum v)
  | KUnsignedShort => in_range_UnsignedShort (vnum v) | KUnsignedByte => in_range_UnsignedByte (vnum v)
  | KNormalizedString => negb (has_forbidden (vstr v))
  | _ => true
  end.

Definition recls (t : pcls) (v : pyval) : pyval := {| vcls := t; vnum := vnum v; vstr := vstr v; vtok := vtok v |}.

Definition trivial_cast (v : pyval) (t : pcls) : pyval + err :=
  match trivial_cast_gen (vcls v) t with
  | TcSame => inl v
  | TcConstruct => if ctor_ok t v then inl (recls t v) else inr EValue
  | TcDate => inl (recls KDate v)
  | TcTypeError => inr EType
  end.

(* vocabulary of gen/Gen_TypedSetters.v (the setters translated from submodel.py / base.py) *)
Definition is_none {A} (o : option A) : bool := match o with None => true | Some _ => false end.
(* datatypes.trivial_cast(a, t) on optional arguments: None as the type makes isinstance() raise TypeError, and None as
   the value is no instance of anything *)
Definition tcast (a : option pyval) (t : option pcls) : pyval + err :=
  match a, t with Some x, Some t' => trivial_cast x t' | _, _ => inr EType end.
Definition bind_tc {R} (r : pyval + err) (k : option pyval -> R + err) : R + err :=
  match r with inl y => k (Some y) | inr e => inr e end.

(* ---------------------------------------------------------------- holders *)
(* one-value holders: Property / Qualifier (the type is always present) and Extension (hopt = true: value_type may
   be None, and then no value may be present) *)
Record holder := { hopt : bool; htype : option pcls; hval : option pyval }.

Inductive hop :=
| HSetValue (v : option pyval)
| HSetType (t : option pcls).      (* None only makes sense for Extension; Property/Qualifier store it blindly *)

Definition hset_value (h : holder) (v : option pyval) : holder * option err :=
  match v with
  | None => ({| hopt := hopt h; htype := htype h; hval := None |}, None)
  | Some x =>
      match htype h with
      | None => (h, Some (if hopt h then EValue else EType))
      | Some t => match trivial_cast x t with
                  | inl y => ({| hopt := hopt h; htype := htype h; hval := Some y |}, None)
                  | inr e => (h, Some e)
                  end
      end
  end.

Definition hset_type (h : holder) (t : option pcls) : holder * option err :=
  match hval h with
  | None => ({| hopt := hopt h; htype := t; hval := None |}, None)
  | Some x =>
      match t with
      | None => (h, Some (if hopt h then EValue else EType))
      | Some t' => match trivial_cast x t' with
                   | inl y => ({| hopt := hopt h; htype := t; hval := Some y |}, None)
                   | inr e => (h, Some e)
                   end
      end
  end.

Definition hstep (h : holder) (p : hop) : holder * option err :=
  match p with HSetValue v => hset_value h v | HSetType t => hset_type h t end.

(* constructor: value_type first, then the value *)
Definition hctor (opt : bool) (t : option pcls) (v : option pyval) : option holder * option err :=
  let h0 := {| hopt := opt; htype := t; hval := None |} in
  match hset_value h0 v with
  | (h, None) => (Some h, None)
  | (_, Some e) => (None, Some e)
  end.

Fixpoint hrun (h : holder) (ops : list hop) : holder :=
  match ops with [] => h | p :: r => hrun (fst (hstep h p)) r end.

(* Range: min and max share one value_type; the value_type setter re-casts both or neither *)
Record range := { rtype : pcls; rmin : option pyval; rmax : option pyval }.
Inductive rop := RSetMin (v : option pyval) | RSetMax (v : option pyval) | RSetType (t : pcls).

Definition cast_opt (v : option pyval) (t : pcls) : option pyval + err :=
  match v with
  | None => inl None
  | Some x => match trivial_cast x t with inl y => inl (Some y) | inr e => inr e end
  end.

Definition rstep (r : range) (p : rop) : range * option err :=
  match p with
  | RSetMin v => match cast_opt v (rtype r) with
                 | inl y => ({| rtype := rtype r; rmin := y; rmax := rmax r |}, None)
                 | inr e => (r, Some e)
                 end
  | RSetMax v => match cast_opt v (rtype r) with
                 | inl y => ({| rtype := rtype r; rmin := rmin r; rmax := y |}, None)
                 | inr e => (r, Some e)
                 end
  | RSetType t => match cast_opt (rmin r) t with
                  | inr e => (r, Some e)
                  | inl mn => match cast_opt (rmax r) t with
                              | inr e => (r, Some e)
                              | inl mx => ({| rtype := t; rmin := mn; rmax := mx |}, None)
                              end
                  end
  end.

Definition rctor (t : pcls) (mn mx : option pyval) : option range * option err :=
  match cast_opt mn t with
  | inr e => (None, Some e)
  | inl a => match cast_opt mx t with
             | inr e => (None, Some e)
             | inl b => (Some {| rtype := t; rmin := a; rmax := b |}, None)
             end
  end.

Fixpoint rrun (r : range) (ops : list rop) : range :=
  match ops with [] => r | p :: q => rrun (fst (rstep r p)) q end.

(* ---------------------------------------------------------------- specification side *)
(* written from the metamodel text (value has the data type announced by valueType; xs:boolean is not derived from
   xs:integer; the derived integer types and xs:normalizedString restrict their base type), not from the code *)
Definition is_bool (c : pcls) : bool := pcls_beq c KBoolean.

(* the class hierarchy the metamodel's data types are expected to have in Python (documentation of datatypes.py:
   the derived XSD types subclass the Python type of their primitive base; bool < int and datetime < date are
   CPython's); proofs/TypedValueProofs.hierarchy_as_specified checks the generated table against it *)
Definition spec_base (c : pcls) : option pcls :=
  match c with
  | KLong | KInt | KShort | KByte | KNonPositiveInteger | KNegativeInteger | KNonNegativeInteger | KPositiveInteger
  | KUnsignedLong | KUnsignedInt | KUnsignedShort | KUnsignedByte | KBoolean => Some KInteger
  | KFloat => Some KDouble
  | KAnyURI | KNormalizedString => Some KString
  | KBase64Binary | KHexBinary => Some KPyBytearray
  | KDate | KDateTime => Some KPyDate
  | _ => None
  end.
Definition ssub : pcls -> pcls -> bool := subcls_with spec_base.
(* the data types a value_type may name: DataTypeDefXsd *)
Definition spec_xsd_types : list pcls := firstn 31 all_pcls.

(* class invariant of a value: what its own class's constructor guarantees *)
Definition class_inv (v : pyval) : bool := ctor_ok (vcls v) v.

Definition has_type (v : pyval) (t : pcls) : bool :=
  ssub (vcls v) t && (negb (is_bool (vcls v)) || is_bool t) && class_inv v.

(* python base kinds between which a conversion keeps the meaning of the value *)
Inductive kind := KdInt | KdFloat | KdStr | KdBin | KdNone.
Scheme Equality for kind.
Definition kind_of (c : pcls) : kind :=
  match c with
  | KInteger | KLong | KInt | KShort | KByte | KNonPositiveInteger | KNegativeInteger | KNonNegativeInteger
  | KPositiveInteger | KUnsignedLong | KUnsignedInt | KUnsignedShort | KUnsignedByte => KdInt
  | KFloat | KDouble => KdFloat
  | KAnyURI | KString | KNormalizedString => KdStr
  | KBase64Binary | KHexBinary | KPyBytes | KPyBytearray => KdBin
  | _ => KdNone
  end.

(* "trivially castable" (docstring of trivial_cast + the fix that keeps booleans apart): already of the type; or
   same base kind and the target's restriction holds; or a plain date into xs:date *)
Definition spec_castable (v : pyval) (t : pcls) : bool :=
  (ssub (vcls v) t && (negb (is_bool (vcls v)) || is_bool t))
  || (negb (kind_beq (kind_of (vcls v)) KdNone) && kind_beq (kind_of (vcls v)) (kind_of t)
      && negb (pcls_beq t KPyBytes) && negb (pcls_beq t KPyBytearray) && ctor_ok t v)
  || (pcls_beq (vcls v) KPyDate && pcls_beq t KDate).

Definition wf_holder (h : holder) : bool :=
  match hval h with
  | None => true
  | Some v => match htype h with Some t => has_type v t | None => false end
  end.
Definition wf_range (r : range) : bool :=
  match rmin r with None => true | Some v => has_type v (rtype r) end
  && match rmax r with None => true | Some v => has_type v (rtype r) end.
