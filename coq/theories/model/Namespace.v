(* Model of NamespaceSet / OrderedNamespaceSet (sdk/basyx/aas/model/base.py:1836-2215), of the
   identifying-attribute setters Referable._set_id_short (base.py:690-734), Qualifier.type
   (1660-1677), Extension.name (1513-1530), HasSemantics.semantic_id (1431-1450) and of the
   SubmodelElementList hooks and value setter (submodel.py:728-812).
   Definitions only; proofs are in proofs/NamespaceProofs.v.

   One model state is a "universe" of one identifying attribute (id_short, type or name):
   every set of the universe is keyed by that attribute and every element of the pool has it.
   Sets keyed by another attribute never interact with these (the code filters with
   [hasattr(element, key_attr_name)], [contains_id] answers False for a foreign attribute name and
   [__contains__] catches the AttributeError), so a Submodel is three independent universes.
   All sets of a universe share the case-sensitivity flag (true for every set the SDK creates).

   A set belongs to an owner (the Namespace object, [NamespaceSet.parent]); the sets of one owner,
   in list order, are its [namespace_element_sets].  Elements are identified by a number (Python
   object identity); their mutable fields live in the element table [elems]. *)
From Coq Require Import List ZArith Bool String Ascii Arith Lia.
Import ListNotations.
Local Open Scope nat_scope.

(* ---- keys ------------------------------------------------------------ *)

(* value of the identifying attribute: a user supplied string or the
   "generated_submodel_list_hack_<uuid1>" idShort made up by SubmodelElementList *)
Inductive key := KName (s : string) | KGen (n : nat).

Definition key_eqb (a b : key) : bool :=
  match a, b with
  | KName s, KName t => String.eqb s t
  | KGen n, KGen m => Nat.eqb n m
  | _, _ => false
  end.

Definition okey_eqb (a b : option key) : bool :=
  match a, b with
  | None, None => true
  | Some x, Some y => key_eqb x y
  | _, _ => false
  end.

Definition upper_ascii (a : ascii) : ascii :=
  let n := nat_of_ascii a in
  if (97 <=? n) && (n <=? 122) then ascii_of_nat (n - 32) else a.
Fixpoint upper (s : string) : string :=
  match s with EmptyString => EmptyString | String a r => String (upper_ascii a) (upper r) end.

Inductive attr := AId | AType | AName.
Record cfg := mkcfg { c_attr : attr; c_cs : bool }.

(* NamespaceSet._get_attribute: upper() for case-insensitive sets *)
Definition norm (c : cfg) (k : key) : key :=
  if c_cs c then k else match k with KName s => KName (upper s) | KGen n => KGen n end.

(* ---- state ----------------------------------------------------------- *)

(* SubmodelElementList: type_value_list_element (0 = Property, 1 = Range, 2 = MultiLanguageProperty,
   3.. = other concrete classes; abstract: 10 = SubmodelElement, 11 = DataElement,
   12 = EventElement), value_type_list_element (a token), semantic_id_list_element *)
Record lcfg := mklcfg { l_cls : nat; l_vt : nat; l_sem : option nat }.

Record elem := mkelem {
  e_key : option key;        (* _id_short / _type / _name *)
  e_parent : option nat;     (* parent: owner number *)
  e_cls : nat;               (* type(element) *)
  e_vt : nat;                (* value_type *)
  e_sem : option nat         (* _semantic_id *)
}.

Record nset := mkset {
  s_owner : nat;                       (* NamespaceSet.parent *)
  s_hooks : option lcfg;               (* the three SubmodelElementList hooks, or none *)
  s_backend : list (key * nat);        (* _backend[attr][0]: dict in insertion order *)
  s_order : option (list nat)          (* OrderedNamespaceSet._order *)
}.

Record state := mkstate {
  sets : list nset;
  elems : nat -> elem;
  gen : nat                            (* stands for uuid1(clock_seq=_uuid_seq): next fresh token *)
}.

Inductive err :=
| EValue | EKey | EIndex | EType | EAasd (n : nat)
| EIter          (* the exception raised by the caller's own iterable (a generator that fails) *)
| ENoMethod      (* the addressed set does not exist / has no such method (plain set, ordered call) *)
| EInternal      (* a branch the Python code cannot reach from a consistent state (a ValueError of
                    list.remove, a None dict key, ...); proved unreachable in C01_no_internal_error *).
Inductive outcome := Ok | OkV (e : nat) | Err (x : err).

Definition is_ok (o : outcome) : bool := match o with Err _ => false | _ => true end.

Definition res := (state * outcome)%type.
Definition bind (r : res) (f : state -> res) : res :=
  match r with (s, Err x) => (s, Err x) | (s, _) => f s end.

(* ---- dict ------------------------------------------------------------ *)

Fixpoint dget (k : key) (d : list (key * nat)) : option nat :=
  match d with
  | [] => None
  | (k', v) :: r => if key_eqb k k' then Some v else dget k r
  end.
Definition dmem (k : key) (d : list (key * nat)) : bool :=
  match dget k d with Some _ => true | None => false end.
(* d[k] = v *)
Fixpoint dset (k : key) (v : nat) (d : list (key * nat)) : list (key * nat) :=
  match d with
  | [] => [(k, v)]
  | (k', v') :: r => if key_eqb k k' then (k, v) :: r else (k', v') :: dset k v r
  end.
(* del d[k] *)
Fixpoint ddel (k : key) (d : list (key * nat)) : list (key * nat) :=
  match d with
  | [] => []
  | (k', v') :: r => if key_eqb k k' then r else (k', v') :: ddel k r
  end.

(* ---- Python list helpers --------------------------------------------- *)

(* l[z] for an int z *)
Definition py_idx (len : nat) (z : Z) : option nat :=
  if (0 <=? z)%Z then (if (z <? Z.of_nat len)%Z then Some (Z.to_nat z) else None)
  else (if (- Z.of_nat len <=? z)%Z then Some (Z.to_nat (Z.of_nat len + z)) else None).
(* slice bound clamping of l[a:b] (step 1) *)
Definition clamp (len : nat) (z : Z) : nat :=
  if (z <? 0)%Z then Z.to_nat (Z.max 0 (Z.of_nat len + z)) else Nat.min (Z.to_nat z) len.
Definition slice_lo (len : nat) (a : option Z) : nat :=
  match a with None => 0 | Some z => clamp len z end.
Definition slice_hi (len : nat) (a b : option Z) : nat :=
  let lo := slice_lo len a in
  let hi := match b with None => len | Some z => clamp len z end in
  Nat.max lo hi.
(* list.remove(x): first occurrence *)
Fixpoint lremove (x : nat) (l : list nat) : option (list nat) :=
  match l with
  | [] => None
  | y :: r => if Nat.eqb x y then Some r
              else match lremove x r with Some r' => Some (y :: r') | None => None end
  end.
Definition linsert (pos : nat) (x : nat) (l : list nat) : list nat := firstn pos l ++ x :: skipn pos l.
Fixpoint lset (pos : nat) (x : nat) (l : list nat) : list nat :=
  match l, pos with
  | [], _ => []
  | _ :: r, 0 => x :: r
  | y :: r, S p => y :: lset p x r
  end.
Definition mem_nat (x : nat) (l : list nat) : bool := existsb (Nat.eqb x) l.

(* ---- state updates ---------------------------------------------------- *)

Definition upd_elem (s : state) (e : nat) (f : elem -> elem) : state :=
  mkstate (sets s) (fun x => if Nat.eqb x e then f (elems s x) else elems s x) (gen s).
Definition with_key (k : option key) (el : elem) : elem :=
  mkelem k (e_parent el) (e_cls el) (e_vt el) (e_sem el).
Definition with_parent (p : option nat) (el : elem) : elem :=
  mkelem (e_key el) p (e_cls el) (e_vt el) (e_sem el).
Definition with_sem (m : option nat) (el : elem) : elem :=
  mkelem (e_key el) (e_parent el) (e_cls el) (e_vt el) m.
Definition set_key s e k := upd_elem s e (with_key k).
Definition set_parent s e p := upd_elem s e (with_parent p).
Definition set_sem s e m := upd_elem s e (with_sem m).

Fixpoint upd_nth {A} (i : nat) (f : A -> A) (l : list A) : list A :=
  match l, i with
  | [], _ => []
  | x :: r, 0 => f x :: r
  | x :: r, S j => x :: upd_nth j f r
  end.
Definition upd_set (s : state) (i : nat) (f : nset -> nset) : state :=
  mkstate (upd_nth i f (sets s)) (elems s) (gen s).
Definition with_backend (b : list (key * nat)) (st : nset) : nset :=
  mkset (s_owner st) (s_hooks st) b (s_order st).
Definition with_order (o : option (list nat)) (st : nset) : nset :=
  mkset (s_owner st) (s_hooks st) (s_backend st) o.

Definition values (st : nset) : list nat := map snd (s_backend st).
(* __iter__: _order for an ordered set, dict values otherwise *)
Definition iter_set (st : nset) : list nat :=
  match s_order st with Some o => o | None => values st end.

Definition is_some {A} (o : option A) : bool := match o with Some _ => true | None => false end.
(* isinstance(owner, SubmodelElementList) *)
Definition owner_is_list (s : state) (o : nat) : bool :=
  existsb (fun st => Nat.eqb (s_owner st) o && is_some (s_hooks st)) (sets s).

(* ---- NamespaceSet ----------------------------------------------------- *)

(* _check_attr_is_not_none / _check_value_is_not_in_backend error classes *)
Definition none_err (c : cfg) : err := match c_attr c with AId => EAasd 117 | _ => EValue end.
Definition dup_err (c : cfg) : err :=
  EAasd (match c_attr c with AId => 22 | AType => 21 | AName => 77 end).

(* _validate_namespace_constraints: for every set of the owner, in order *)
Fixpoint validate_sets (c : cfg) (ss : list nset) (o : nat) (k : option key) : outcome :=
  match ss with
  | [] => Ok
  | st :: r =>
      if Nat.eqb (s_owner st) o then
        match k with
        | None => Err (none_err c)
        | Some k' => if dmem (norm c k') (s_backend st) then Err (dup_err c)
                     else validate_sets c r o k
        end
      else validate_sets c r o k
  end.

(* SubmodelElementList._check_constraints, between "new.id_short = None" and the re-assignment *)
Fixpoint check_114 (m : nat) (existing : list elem) : outcome :=
  match existing with
  | [] => Ok
  | x :: r => match e_sem x with
              | Some m' => if Nat.eqb m m' then check_114 m r else Err (EAasd 114)
              | None => check_114 m r
              end
  end.
(* isinstance(new, abstract class) for the classes of the pools: every element is a
   SubmodelElement; Property, Range and MultiLanguageProperty are DataElements; none is an
   EventElement *)
Definition is_instance (ecls lcls : nat) : bool :=
  match lcls with
  | 10 => true
  | 11 => ecls <? 3
  | _ => false
  end.
(* type(new) is type_value_list_element, or that is one of the three abstract classes and
   isinstance(new, it) *)
Definition cls_ok (lc : lcfg) (el : elem) : bool :=
  Nat.eqb (e_cls el) (l_cls lc) || is_instance (e_cls el) (l_cls lc).
Definition check_constraints (lc : lcfg) (el : elem) (existing : list elem) : outcome :=
  if negb (cls_ok lc el) then Err (EAasd 108) else
  if match l_sem lc, e_sem el with Some a, Some b => negb (Nat.eqb a b) | _, _ => false end
  then Err (EAasd 107) else
  if (l_cls lc <? 2) && negb (Nat.eqb (e_vt el) (l_vt lc)) then Err (EAasd 109) else
  match e_sem el, l_sem lc with
  | Some m, None => check_114 m existing
  | _, _ => Ok
  end.

(* _execute_item_del_hook: parent = None, then _unset_id_short (the idShort setter sees
   parent None and just assigns) *)
Definition del_hook (s : state) (st : nset) (e : nat) : state :=
  let s1 := set_parent s e None in
  match s_hooks st with Some _ => set_key s1 e None | None => s1 end.

(* NamespaceSet.__contains__ *)
Definition contains (c : cfg) (s : state) (i e : nat) : bool :=
  match nth_error (sets s) i with
  | None => false
  | Some st => match e_key (elems s e) with
               | None => false
               | Some k => match dget (norm c k) (s_backend st) with
                           | Some e' => Nat.eqb e' e
                           | None => false
                           end
               end
  end.

(* _execute_item_id_set_hook = SubmodelElementList._generate_id_short; the idShort setter raises
   AASd-120 as well when the element already sits in this list *)
Definition id_set_hook (s : state) (st : nset) (e : nat) : res :=
  match s_hooks st with
  | None => (s, Ok)
  | Some _ =>
      match e_key (elems s e), e_parent (elems s e) with
      | None, None => (set_key (mkstate (sets s) (elems s) (S (gen s))) e (Some (KGen (gen s))), Ok)
      | _, _ => (s, Err (EAasd 120))
      end
  end.

(* _execute_item_add_hook = _check_constraints ("new.id_short = None" ... "new.id_short =
   saved_id_short") with the undo through _execute_item_del_hook *)
Definition add_hook (s : state) (st : nset) (e : nat) : res :=
  match s_hooks st with
  | None => (s, Ok)
  | Some lc =>
      let saved := e_key (elems s e) in
      let s2 := set_key s e None in
      match check_constraints lc (elems s2 e) (map (elems s2) (iter_set st)) with
      | Err x => (del_hook s2 st e, Err x)
      | _ => (set_key s2 e saved, Ok)
      end
  end.

(* element.parent = self.parent; backend[key] = element *)
Definition add_entry (c : cfg) (s : state) (i o e : nat) : res :=
  let s4 := set_parent s e (Some o) in
  match e_key (elems s4 e) with
  | None => (s4, Err EInternal)   (* dict key None: excluded by validate *)
  | Some k => (upd_set s4 i (fun st' => with_backend (dset (norm c k) e (s_backend st')) st'), Ok)
  end.

(* NamespaceSet.add (not the OrderedNamespaceSet override) *)
Definition ns_add (c : cfg) (s : state) (i e : nat) : res :=
  match nth_error (sets s) i with
  | None => (s, Err ENoMethod)
  | Some st =>
    let o := s_owner st in
    if match e_parent (elems s e) with Some p => negb (Nat.eqb p o) | None => false end
    then (s, Err EValue) else
    bind (id_set_hook s st e) (fun s1 =>
    match validate_sets c (sets s1) o (e_key (elems s1 e)) with
    | Err x => (s1, Err x)
    | _ => bind (add_hook s1 st e) (fun s3 => add_entry c s3 i o e)
    end)
  end.

(* NamespaceSet.remove *)
Definition ns_remove (c : cfg) (s : state) (i e : nat) : res :=
  match nth_error (sets s) i with
  | None => (s, Err ENoMethod)
  | Some st =>
      match e_key (elems s e) with
      | None => (s, Err EKey)
      | Some k =>
          match dget (norm c k) (s_backend st) with
          | Some e' =>
              if Nat.eqb e' e then
                let s1 := upd_set s i (fun st' => with_backend (ddel (norm c k) (s_backend st')) st') in
                (del_hook s1 st e, Ok)
              else (s, Err EKey)
          | None => (s, Err EKey)
          end
      end
  end.

(* ---- dynamic dispatch: the methods as seen on a plain / an ordered set ---- *)

Definition order_of (s : state) (i : nat) : option (list nat) :=
  match nth_error (sets s) i with Some st => s_order st | None => None end.
Definition set_order (s : state) (i : nat) (o : list nat) : state :=
  upd_set s i (with_order (Some o)).

(* set.add(e) *)
Definition set_add (c : cfg) (s : state) (i e : nat) : res :=
  bind (ns_add c s i e) (fun s1 =>
  match order_of s1 i with
  | Some o => (set_order s1 i (o ++ [e]), Ok)
  | None => (s1, Ok)
  end).

(* set.remove(e) *)
Definition set_remove (c : cfg) (s : state) (i e : nat) : res :=
  bind (ns_remove c s i e) (fun s1 =>
  match order_of s1 i with
  | Some o => match lremove e o with
              | Some o' => (set_order s1 i o', Ok)
              | None => (s1, Err EInternal)
              end
  | None => (s1, Ok)
  end).

(* set.discard(e) *)
Definition set_discard (c : cfg) (s : state) (i e : nat) : res :=
  if contains c s i e then set_remove c s i e else (s, Ok).

(* NamespaceSet.pop(): dict.popitem() takes the last entry *)
Definition ns_pop (s : state) (i : nat) : res :=
  match nth_error (sets s) i with
  | None => (s, Err ENoMethod)
  | Some st =>
      match rev (s_backend st) with
      | [] => (s, Err EKey)
      | (k, e) :: _ =>
          let s1 := upd_set s i (fun st' => with_backend (removelast (s_backend st')) st') in
          (set_parent (del_hook s1 st e) e None, OkV e)
      end
  end.

(* set.pop() *)
Definition set_pop (s : state) (i : nat) : res :=
  match ns_pop s i with
  | (s1, OkV e) =>
      match order_of s1 i with
      | Some o => match lremove e o with
                  | Some o' => (set_order s1 i o', OkV e)
                  | None => (s1, Err EInternal)
                  end
      | None => (s1, OkV e)
      end
  | r => r
  end.

(* OrderedNamespaceSet.pop(i) *)
Definition set_pop_at (c : cfg) (s : state) (i : nat) (z : Z) : res :=
  match order_of s i with
  | None => (s, Err ENoMethod)
  | Some o =>
      match py_idx (List.length o) z with
      | None => (s, Err EIndex)
      | Some p =>
          match nth_error o p with
          | None => (s, Err EInternal)
          | Some e =>
              let s1 := set_order s i (firstn p o ++ skipn (S p) o) in
              match ns_remove c s1 i e with
              | (s2, Err x) => (s2, Err x)
              | (s2, _) => (s2, OkV e)
              end
          end
      end
  end.

(* NamespaceSet.clear / OrderedNamespaceSet.clear *)
Definition set_clear (s : state) (i : nat) : res :=
  match nth_error (sets s) i with
  | None => (s, Err ENoMethod)
  | Some st =>
      let s1 := fold_left (fun a e => del_hook a st e) (values st) s in
      let s2 := upd_set s1 i (with_backend []) in
      (match s_order st with Some _ => set_order s2 i [] | None => s2 end, Ok)
  end.

(* OrderedNamespaceSet.insert *)
Definition set_insert (c : cfg) (s : state) (i : nat) (z : Z) (e : nat) : res :=
  match order_of s i with
  | None => (s, Err ENoMethod)
  | Some _ =>
      bind (ns_add c s i e) (fun s1 =>
      match order_of s1 i with
      | Some o => (set_order s1 i (linsert (clamp (List.length o) z) e o), Ok)
      | None => (s1, Err EInternal)
      end)
  end.

(* OrderedNamespaceSet.__setitem__(int) *)
Definition set_setitem (c : cfg) (s : state) (i : nat) (z : Z) (e : nat) : res :=
  match order_of s i with
  | None => (s, Err ENoMethod)
  | Some o =>
      match py_idx (List.length o) z with
      | None => (s, Err EIndex)
      | Some p =>
          match nth_error o p with
          | None => (s, Err EInternal)
          | Some old =>
              bind (ns_add c s i e) (fun s1 =>
              let s2 := set_order s1 i (lset p e o) in
              ns_remove c s2 i old)
          end
      end
  end.

Fixpoint remove_all (c : cfg) (s : state) (i : nat) (es : list nat) : res :=
  match es with
  | [] => (s, Ok)
  | e :: r => bind (ns_remove c s i e) (fun s1 => remove_all c s1 i r)
  end.

(* the add loop of __setitem__(slice) with its rollback: every accepted item is appended
   provisionally to _order (so that the add hook of the following items sees it); on an exception
   the provisional tail is dropped ([o0] = _order before the loop) and the accepted items are
   removed again *)
Fixpoint add_all (c : cfg) (s : state) (i : nat) (o0 : list nat) (es done : list nat) : res :=
  match es with
  | [] => (s, Ok)
  | e :: r =>
      match ns_add c s i e with
      | (s1, Err x) =>
          match remove_all c (set_order s1 i o0) i (rev done) with
          | (s2, Err y) => (s2, Err y)
          | (s2, _) => (s2, Err x)
          end
      | (s1, _) =>
          let s1' := match order_of s1 i with Some o => set_order s1 i (o ++ [e]) | None => s1 end in
          add_all c s1' i o0 r (e :: done)
      end
  end.

(* OrderedNamespaceSet.__setitem__(slice a:b): the new items are materialised once; after the
   loop the provisional tail is dropped and the slice is assigned *)
Definition set_setslice (c : cfg) (s : state) (i : nat) (a b : option Z) (es : list nat) : res :=
  match order_of s i with
  | None => (s, Err ENoMethod)
  | Some o =>
      let lo := slice_lo (List.length o) a in
      let hi := slice_hi (List.length o) a b in
      let deleted := firstn (hi - lo) (skipn lo o) in
      let new := firstn (List.length deleted) es in
      bind (add_all c s i o new []) (fun s1 =>
      let s2 := set_order s1 i (firstn lo o ++ new ++ skipn hi o) in
      remove_all c s2 i deleted)
  end.

(* OrderedNamespaceSet.__delitem__(slice a:b) *)
Definition set_delslice (c : cfg) (s : state) (i : nat) (a b : option Z) : res :=
  match order_of s i with
  | None => (s, Err ENoMethod)
  | Some o =>
      let lo := slice_lo (List.length o) a in
      let hi := slice_hi (List.length o) a b in
      bind (remove_all c s i (firstn (hi - lo) (skipn lo o))) (fun s1 =>
      (set_order s1 i (firstn lo o ++ skipn hi o), Ok))
  end.

(* OrderedNamespaceSet.__delitem__(int): self._order[i] (IndexError when out of range), then the
   slice (i, i+1) - (-1, None) for the last item -, i.e. the one position p *)
Definition set_delitem (c : cfg) (s : state) (i : nat) (z : Z) : res :=
  match order_of s i with
  | None => (s, Err ENoMethod)
  | Some o =>
      match py_idx (List.length o) z with
      | None => (s, Err EIndex)
      | Some p => set_delslice c s i (Some (Z.of_nat p)) (Some (Z.of_nat p + 1)%Z)
      end
  end.

(* for x in items: set.add(x), stopping at the first exception (MutableSequence.extend,
   NamespaceSet.__init__) *)
Fixpoint add_each (c : cfg) (s : state) (i : nat) (es : list nat) : res :=
  match es with
  | [] => (s, Ok)
  | e :: r => bind (set_add c s i e) (fun s1 => add_each c s1 i r)
  end.

(* NamespaceSet.__init__ / OrderedNamespaceSet.__init__ / SubmodelElementList.__init__ *)
(* [items] is what the caller's iterable yields; with [fails] it raises after the last of them (a
   generator / parser that fails while it is consumed): the try block covers the whole loop, so
   the set is cleared in that case as well *)
Definition construct_one (c : cfg) (s : state) (o : nat) (ordered : bool) (hk : option lcfg)
           (items : list nat) (fails : bool) : res :=
  let i := List.length (sets s) in
  let s0 := mkstate (sets s ++ [mkset o hk [] (if ordered then Some [] else None)]) (elems s) (gen s) in
  match add_each c s0 i items with
  | (s1, Err x) => (fst (set_clear s1 i), Err x)
  | (s1, r) => if fails then (fst (set_clear s1 i), Err EIter) else (s1, r)
  end.
(* an owner with several collections passed to its constructor (Operation) *)
Fixpoint construct (c : cfg) (s : state) (o : nat) (ordered : bool) (hk : option lcfg)
         (itemss : list (list nat * bool)) : res :=
  match itemss with
  | [] => (s, Ok)
  | (items, fails) :: r =>
      bind (construct_one c s o ordered hk items fails) (fun s1 => construct c s1 o ordered hk r)
  end.

(* MutableSequence.append(x) = self.insert(len(self), x) *)
Definition set_append (c : cfg) (s : state) (i e : nat) : res :=
  match nth_error (sets s) i with
  | None => (s, Err ENoMethod)
  | Some st => set_insert c s i (Z.of_nat (List.length (s_backend st))) e
  end.

(* for v in reversed(added): self.remove(v) *)
Fixpoint remove_each (c : cfg) (s : state) (i : nat) (es : list nat) : res :=
  match es with
  | [] => (s, Ok)
  | e :: r => bind (set_remove c s i e) (fun s1 => remove_each c s1 i r)
  end.

(* OrderedNamespaceSet.extend (also +=): append one by one; if one item is refused the items
   added by this call are removed again, last first, and the exception is re-raised
   ([added] is kept in reverse order) *)
Fixpoint extend_loop (c : cfg) (s : state) (i : nat) (es added : list nat) : res :=
  match es with
  | [] => (s, Ok)
  | e :: r =>
      match set_append c s i e with
      | (s1, Err x) =>
          match remove_each c s1 i added with
          | (s2, Err y) => (s2, Err y)
          | (s2, _) => (s2, Err x)
          end
      | (s1, _) => extend_loop c s1 i r (e :: added)
      end
  end.
Definition set_extend (c : cfg) (s : state) (i : nat) (es : list nat) : res :=
  match order_of s i with
  | None => (s, Err ENoMethod)
  | Some _ => extend_loop c s i es []
  end.

(* SubmodelElementList.value setter: new_items = list(value); old_items = list(self._value);
   del self._value[:]; try: self._value.extend(new_items) except: self._value.extend(old_items); raise *)
Definition set_value (c : cfg) (s : state) (i : nat) (es : list nat) : res :=
  match order_of s i with
  | None => (s, Err ENoMethod)
  | Some old =>
      bind (set_delslice c s i None None) (fun s1 =>
      match set_extend c s1 i es with
      | (s2, Err x) =>
          match set_extend c s2 i old with
          | (s3, Err y) => (s3, Err y)
          | (s3, _) => (s3, Err x)
          end
      | r => r
      end)
  end.

(* ---- identifying-attribute setters ------------------------------------- *)

Fixpoint owner_sets_from (ss : list nset) (o : nat) (i : nat) : list nat :=
  match ss with
  | [] => []
  | st :: r => if Nat.eqb (s_owner st) o then i :: owner_sets_from r o (S i) else owner_sets_from r o (S i)
  end.
(* indices of owner.namespace_element_sets *)
Definition owner_sets (s : state) (o : nat) : list nat := owner_sets_from (sets s) o 0.

(* for set_ in parent.namespace_element_sets: if self in set_: set_add_list.append(set_); set_.discard(self) *)
Fixpoint take_out (c : cfg) (s : state) (e : nat) (idxs acc : list nat) : state * list nat * outcome :=
  match idxs with
  | [] => (s, rev acc, Ok)
  | i :: r =>
      if contains c s i e then
        match set_discard c s i e with
        | (s1, Err x) => (s1, rev acc, Err x)
        | (s1, _) => take_out c s1 e r (i :: acc)
        end
      else take_out c s e r acc
  end.
(* for set_ in set_add_list: set_.add(self) *)
Fixpoint put_back (c : cfg) (s : state) (e : nat) (idxs : list nat) : res :=
  match idxs with
  | [] => (s, Ok)
  | i :: r => bind (set_add c s i e) (fun s1 => put_back c s1 e r)
  end.
(* the re-keying scheme shared by the four setters; [mid] is the attribute assignment *)
Definition rekey (c : cfg) (s : state) (e o : nat) (mid : state -> state) : res :=
  match take_out c s e (owner_sets s o) [] with
  | (s1, _, Err x) => (s1, Err x)
  | (s1, lst, _) => bind (put_back c (mid s1) e lst) (fun s2 => (mid s2, Ok))
  end.

(* set_.contains_id(attr, value) for some set of the owner *)
Definition owner_has_key (c : cfg) (s : state) (o : nat) (k : key) : bool :=
  existsb (fun st => Nat.eqb (s_owner st) o && dmem (norm c k) (s_backend st)) (sets s).

(* _string_constraints.check_name_type / check_qualifier_type on ASCII strings: 1..128 characters
   of the AASd-130 class (tab, lf, cr, >= 0x20) *)
Definition ok_char (a : ascii) : bool :=
  let n := nat_of_ascii a in (32 <=? n) || Nat.eqb n 9 || Nat.eqb n 10 || Nat.eqb n 13.
Fixpoint all_chars (f : ascii -> bool) (k : string) : bool :=
  match k with EmptyString => true | String a r => f a && all_chars f r end.
Definition check_name (k : string) : option err :=
  let l := String.length k in
  if (l <? 1) || (128 <? l) then Some EValue
  else if all_chars ok_char k then None else Some EValue.
Definition is_alpha (a : ascii) : bool :=
  let n := nat_of_ascii a in ((65 <=? n) && (n <=? 90)) || ((97 <=? n) && (n <=? 122)).
Definition is_idchar (a : ascii) : bool :=
  let n := nat_of_ascii a in is_alpha a || ((48 <=? n) && (n <=? 57)) || Nat.eqb n 95.
(* Referable.validate_id_short: NameType, then AASd-002 *)
Definition validate_id_short (k : string) : option err :=
  match check_name k with
  | Some x => Some x
  | None => if negb (all_chars is_idchar k) then Some (EAasd 2)
            else match k with
                 | String a _ => if is_alpha a then None else Some (EAasd 2)
                 | EmptyString => None
                 end
  end.
Definition key_check (c : cfg) (nk : option key) : option err :=
  match nk with
  | Some (KName k) => match c_attr c with AId => validate_id_short k | _ => check_name k end
  | _ => None
  end.

(* element.id_short = k (k = None: unset) / qualifier.type = k / extension.name = k; the syntax
   check of the new value comes first (after the "unchanged" shortcut of the idShort setter) *)
Definition rename (c : cfg) (s : state) (e : nat) (nk : option key) : res :=
  let el := elems s e in
  match key_check c nk with
  | Some x => if match c_attr c with AId => okey_eqb nk (e_key el) | _ => false end then (s, Ok) else (s, Err x)
  | None =>
  match c_attr c with
  | AId =>
      if okey_eqb nk (e_key el) then (s, Ok) else
      match e_parent el with
      | None => (set_key s e nk, Ok)
      | Some o =>
          match nk with
          | None => (s, Err (EAasd 117))
          | Some k =>
              if owner_is_list s o then (s, Err (EAasd 120)) else
              if owner_has_key c s o k then (s, Err (EAasd 22)) else
              rekey c s e o (fun s' => set_key s' e nk)
          end
      end
  | _ =>
      match nk with
      | None => (s, Err EType)      (* check_qualifier_type(None) / check_name_type(None): len(None) *)
      | Some k =>
          match e_parent el with
          | None => (set_key s e nk, Ok)
          | Some o =>
              if owner_has_key c s o k then (s, Err EKey) else
              rekey c s e o (fun s' => set_key s' e nk)
          end
      end
  end
  end.

(* list.index(x) *)
Fixpoint index_of (e : nat) (l : list nat) : option nat :=
  match l with
  | [] => None
  | y :: r => if Nat.eqb e y then Some 0 else option_map S (index_of e r)
  end.
(* set_.index(self) if isinstance(set_, OrderedNamespaceSet) else None *)
Definition pos_in (s : state) (i e : nat) : option nat :=
  match order_of s i with Some o => index_of e o | None => None end.
(* set_.insert(position, self) / set_.add(self) *)
Definition readd (c : cfg) (s : state) (i : nat) (pos : option nat) (e : nat) : res :=
  match pos with
  | Some p => set_insert c s i (Z.of_nat p) e
  | None => set_add c s i e
  end.
Fixpoint put_back_at (c : cfg) (s : state) (e : nat) (l : list (nat * option nat)) : res :=
  match l with
  | [] => (s, Ok)
  | (i, p) :: r => bind (readd c s i p e) (fun s1 => put_back_at c s1 e r)
  end.
(* the except branch: re-add wherever the object is missing *)
Fixpoint restore_at (c : cfg) (s : state) (e : nat) (l : list (nat * option nat)) : res :=
  match l with
  | [] => (s, Ok)
  | (i, p) :: r =>
      if contains c s i e then restore_at c s e r
      else bind (readd c s i p e) (fun s1 => restore_at c s1 e r)
  end.

(* element.semantic_id = m  (elements of the pools carry no supplemental_semantic_id, so the
   AASd-118 test never fires; no set is keyed by semantic_id, so no collision test fires).
   The element is discarded from the sets that contain it and re-added - at its old position in an
   ordered set -, so that the add hook of a SubmodelElementList sees the new semantic id; if it is
   refused, the old semantic id and position are restored and the exception is re-raised. *)
Definition set_semantic_id (c : cfg) (s : state) (e : nat) (m : option nat) : res :=
  match e_parent (elems s e) with
  | None => (set_sem s e m, Ok)
  | Some o =>
      match take_out c s e (owner_sets s o) [] with
      | (s1, _, Err x) => (s1, Err x)
      | (s1, lst, _) =>
          let lp := map (fun i => (i, pos_in s i e)) lst in
          let old := e_sem (elems s e) in
          match put_back_at c (set_sem s1 e m) e lp with
          | (s2, Err x) =>
              match restore_at c (set_sem s2 e old) e lp with
              | (s3, Err y) => (s3, Err y)
              | (s3, _) => (s3, Err x)
              end
          | (s2, _) => (set_sem s2 e m, Ok)
          end
      end
  end.

(* ---- Namespace._add_object / _remove_object ----------------------------- *)

(* add_referable / add_qualifier / add_extension: the first set of the owner *)
Definition owner_add (c : cfg) (s : state) (o e : nat) : res :=
  match owner_sets s o with
  | [] => (s, Err EValue)
  | i :: _ => set_add c s i e
  end.
(* remove_referable / remove_qualifier_by_type / remove_extension_by_name *)
Fixpoint owner_remove_in (c : cfg) (s : state) (idxs : list nat) (k : key) : res :=
  match idxs with
  | [] => (s, Err EKey)
  | i :: r =>
      match nth_error (sets s) i with
      | None => owner_remove_in c s r k
      | Some st =>
          match dget (norm c k) (s_backend st) with
          | None => owner_remove_in c s r k
          | Some e =>
              match set_remove c s i e with
              | (s1, Err EKey) => owner_remove_in c s1 r k
              | res => res
              end
          end
      end
  end.
Definition owner_remove (c : cfg) (s : state) (o : nat) (k : key) : res :=
  owner_remove_in c s (owner_sets s o) k.

(* ---- operations -------------------------------------------------------- *)

(* A set is addressed as the j-th entry of namespace_element_sets of owner o (among the sets of
   this universe's attribute). *)
Definition at_set (s : state) (r : nat * nat) (f : nat -> res) : res :=
  match nth_error (owner_sets s (fst r)) (snd r) with
  | Some i => f i
  | None => (s, Err ENoMethod)
  end.

Inductive op :=
| Add (r : nat * nat) (e : nat)
| Remove (r : nat * nat) (e : nat)
| Discard (r : nat * nat) (e : nat)
| Pop (r : nat * nat)
| PopAt (r : nat * nat) (z : Z)
| Clear (r : nat * nat)
| Insert (r : nat * nat) (z : Z) (e : nat)
| SetItem (r : nat * nat) (z : Z) (e : nat)
| SetSlice (r : nat * nat) (a b : option Z) (es : list nat)
| DelItem (r : nat * nat) (z : Z)
| DelSlice (r : nat * nat) (a b : option Z)
| Construct (o : nat) (ordered : bool) (hk : option lcfg) (itemss : list (list nat * bool))
| SetValue (r : nat * nat) (es : list nat)
| Extend (r : nat * nat) (es : list nat)
| Rename (e : nat) (k : option string)
| SetSem (e : nat) (m : option nat)
| OwnerAdd (o e : nat)
| OwnerRemove (o : nat) (k : string).

Definition step (c : cfg) (s : state) (p : op) : res :=
  match p with
  | Add r e => at_set s r (fun i => set_add c s i e)
  | Remove r e => at_set s r (fun i => set_remove c s i e)
  | Discard r e => at_set s r (fun i => set_discard c s i e)
  | Pop r => at_set s r (fun i => set_pop s i)
  | PopAt r z => at_set s r (fun i => set_pop_at c s i z)
  | Clear r => at_set s r (fun i => set_clear s i)
  | Insert r z e => at_set s r (fun i => set_insert c s i z e)
  | SetItem r z e => at_set s r (fun i => set_setitem c s i z e)
  | SetSlice r a b es => at_set s r (fun i => set_setslice c s i a b es)
  | DelItem r z => at_set s r (fun i => set_delitem c s i z)
  | DelSlice r a b => at_set s r (fun i => set_delslice c s i a b)
  | Construct o ordered hk itemss => construct c s o ordered hk itemss
  | SetValue r es => at_set s r (fun i => set_value c s i es)
  | Extend r es => at_set s r (fun i => set_extend c s i es)
  | Rename e k => rename c s e (option_map KName k)
  | SetSem e m => set_semantic_id c s e m
  | OwnerAdd o e => owner_add c s o e
  | OwnerRemove o k => owner_remove c s o (KName k)
  end.

(* the operations for which the property demands "raises => nothing changed" *)
Definition single_element_op (p : op) : bool :=
  match p with
  | Add _ _ | Remove _ _ | Discard _ _ | Pop _ | PopAt _ _ | Insert _ _ _ | SetItem _ _ _
  | DelItem _ _ | Rename _ _ | OwnerAdd _ _ | OwnerRemove _ _ => true
  | _ => false
  end.

(* A universe before any call: no set, free elements as given by the pool. *)
Definition init (pool : nat -> elem) : state := mkstate [] pool 0.

Definition run (c : cfg) (pool : nat -> elem) (ops : list op) : state :=
  fold_left (fun s p => fst (step c s p)) ops (init pool).
