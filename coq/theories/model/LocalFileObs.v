(* Observation encoding for the correspondence of model/LocalFile.v against
   LocalFileObjectStore / Referable.update / Referable.commit (tools/c14.py). *)
From Coq Require Import List ZArith Bool.
From Basyx Require Import model.Corr model.LocalFile.
Import ListNotations.
Local Open Scope Z_scope.

Definition zn (n : nat) : Z := Z.of_nat n.

(* insertion sort of rows by their first component (directory order is not observable) *)
Fixpoint ins_row (r : list Z) (l : list (list Z)) : list (list Z) :=
  match l with
  | [] => [r]
  | x :: t => if Z.leb (hd 0 r) (hd 0 x) then r :: l else x :: ins_row r t
  end.
Definition sort_rows (l : list (list Z)) : list (list Z) := fold_right ins_row [] l.

Definition enc_src (x : src) : list Z := match x with SNone => [0] | SFile k => [1; zn k] end.
Definition enc_out (r : out) : list Z :=
  match r with
  | OUnit => [0]
  | OAdded k v => [1; zn k; zn v]
  | ODup k => [2; zn k]
  | OObj k o v => [3; zn k; zn o; zn v]
  | OSeen k v => [4; zn k; zn v]
  | OMissing k => [5; zn k]
  | OBool k b => [6; zn k; zb b]
  | ONat n => [7; zn n]
  | OList l => 8 :: concat (sort_rows (map (fun x => match x with
                                                  | (k, v, Some o) => [zn k; zn v; zn o]
                                                  | (k, v, None) => [zn k; zn v; -1]
                                                  end) l))
  | ODiscarded k => [9; zn k]
  | OCommitted k v => [10; zn k; zn v]
  | OUpdated k v => [11; zn k; zn v]
  | OInvalid => [12]
  | OFault k => [13; zn k]
  end.

(* membership as every instance answers it (the model's Contains step), by id for every id of the
   pool and by object for every live object; instances 0 and 1, ids 0..3 as in tools/c14.py *)
Definition obs_insts : list iid := [0; 1]%nat.
Definition obs_keys : list key := [0; 1; 2; 3]%nat.
Definition contains_z (s : st) (i : iid) (k : key) : Z :=
  match snd (step s (Contains i k)) with OBool _ b => zb b | _ => -1 end.
Definition member_rows (s : st) : list (list Z) :=
  [ flat_map (fun i => map (contains_z s i) obs_keys) obs_insts;
    concat (sort_rows (map (fun p => zn (fst p) :: map (fun i => contains_z s i (okey (snd p))) obs_insts) (heap s))) ].

(* after every step: the answer, every live object (identity, id, content, source), the directory,
   and membership through every instance (by id, by live object) *)
Definition observe (s : st) (r : out) : list (list Z) :=
  [ enc_out r;
    concat (sort_rows (map (fun p => [zn (fst p); zn (okey (snd p)); zn (oval (snd p))] ++ enc_src (osrc (snd p))) (heap s)));
    concat (sort_rows (map (fun p => [zn (fst p); zn (snd p)]) (fs s))) ] ++ member_rows s.

Fixpoint trace (s : st) (ops : list op) : list (list (list Z)) :=
  match ops with
  | [] => []
  | o :: r => let '(s', out) := step s o in observe s' out :: trace s' r
  end.

Definition check_case (c : list op * Z) : bool :=
  Z.eqb (hash_zlll 0 (trace init (fst c))) (snd c).

(* threads: results of both calls, whether they got the same object, and what a later get answers *)
Definition enc_res (c : pc) : list Z :=
  match res c with Some r => enc_out r | None => [-1] end.
Definition sched_obs (p1 p2 : tprog) (i : iid) (k : key) (pre : list op) (sched : list bool) : list (list Z) :=
  let s0 := exec init pre in
  let '(s, c1, c2) := run_sched p1 p2 i k sched s0 pc0 pc0 in
  let '(s', r) := get s i k true in
  [ enc_res c1; enc_res c2; enc_out r;
    concat (sort_rows (map (fun p => [zn (fst p); zn (okey (snd p)); zn (oval (snd p))] ++ enc_src (osrc (snd p))) (heap s')));
    concat (sort_rows (map (fun p => [zn (fst p); zn (snd p)]) (fs s'))) ] ++ member_rows s'.
Definition check_sched (c : tprog * tprog * iid * key * list op * list bool * Z) : bool :=
  let '(p1, p2, i, k, pre, sched, expected) := c in
  Z.eqb (hash_zll 0 (sched_obs p1 p2 i k pre sched)) expected.
