(* Model of sdk/basyx/aas/model/provider.py (AbstractObjectProvider.get, AbstractObjectStore.update,
   DictObjectStore, ObjectProviderMultiplexer) together with the MutableSet mixin methods the store
   inherits from collections.abc (remove, pop, clear, __ior__), and of
   sdk/basyx/aas/util/identification.py (NamespaceIRIGenerator, _quote_iri_segment).
   Definitions only; proofs are in proofs/StoreProofs.v.

   An Identifiable object is represented by its identity token (a nat: what Python's `is`
   compares); [idof] gives the object's identifier (x.id).  Identifiers are strings of bytes
   (UTF-8 code units: every character touched by the code modelled here is ASCII). *)
From Coq Require Import List Arith Bool String Ascii.
From Basyx Require Import model.Files.
Import ListNotations.
Local Open Scope string_scope.

Definition ident := string.
Definition obj := nat.

(* DictObjectStore._backend: a dict, i.e. an insertion-ordered association list with unique keys *)
Definition st := list (ident * obj).

Inductive out :=
| OUnit                      (* None returned by a mutator *)
| OObj (x : obj)             (* an Identifiable is returned *)
| ONone                      (* get() without default on an absent id *)
| OBool (b : bool)
| ONat (n : nat)
| OList (l : list obj)       (* list(iter(store)) *)
| OKeyError
| OOutOfFuel.                (* only for the `while True` loops; excluded by proof *)

(* d[k] = v: replace in place when the key exists, else append *)
Fixpoint sset (k : ident) (v : obj) (l : st) : st :=
  match l with
  | [] => [(k, v)]
  | (k', v') :: r => if String.eqb k k' then (k, v) :: r else (k', v') :: sset k v r
  end.

Section Store.
  Variable idof : obj -> ident.

  Definition lookup (s : st) (i : ident) : option obj := sassoc i s.

  (* def add(self, x):
       if x.id in self._backend and self._backend.get(x.id) is not x: raise KeyError(...)
       self._backend[x.id] = x *)
  Definition add (s : st) (x : obj) : st * out :=
    match lookup s (idof x) with
    | Some y => if Nat.eqb y x then (sset (idof x) x s, OUnit) else (s, OKeyError)
    | None => (sset (idof x) x s, OUnit)
    end.

  (* def discard(self, x):
       if self._backend.get(x.id) is x: del self._backend[x.id] *)
  Definition discard (s : st) (x : obj) : st * out :=
    match lookup s (idof x) with
    | Some y => if Nat.eqb y x then (sremove (idof x) s, OUnit) else (s, OUnit)
    | None => (s, OUnit)
    end.

  (* __contains__ for an Identifiable / for an Identifier / for anything else *)
  Definition contains_obj (s : st) (x : obj) : bool :=
    match lookup s (idof x) with Some y => Nat.eqb y x | None => false end.
  Definition contains_id (s : st) (i : ident) : bool :=
    match lookup s i with Some _ => true | None => false end.
  Definition contains_other (s : st) : bool := false.

  Definition len (s : st) : nat := List.length s.
  Definition iter (s : st) : list obj := map snd s.   (* iter(self._backend.values()) *)

  Definition get_identifiable (s : st) (i : ident) : out :=
    match lookup s i with Some x => OObj x | None => OKeyError end.

  (* MutableSet.remove:  if value not in self: raise KeyError(value);  self.discard(value) *)
  Definition remove (s : st) (x : obj) : st * out :=
    if contains_obj s x then discard s x else (s, OKeyError).

  (* MutableSet.pop:  it = iter(self); try: value = next(it) except StopIteration: raise KeyError
                      self.discard(value); return value *)
  Definition pop (s : st) : st * out :=
    match iter s with
    | [] => (s, OKeyError)
    | x :: _ => (fst (discard s x), OObj x)
    end.

  (* MutableSet.clear:  try: while True: self.pop()  except KeyError: pass *)
  Fixpoint clear_loop (fuel : nat) (s : st) : st * out :=
    match fuel with
    | 0 => (s, OOutOfFuel)
    | S f => match pop s with
             | (s', OObj _) => clear_loop f s'
             | (s', _) => (s', OUnit)
             end
    end.
  Definition clear (s : st) : st * out := clear_loop (S (len s)) s.

  (* AbstractObjectStore.update / MutableSet.__ior__:  for x in other: self.add(x)
     (an exception of add leaves the objects added so far in the store) *)
  Fixpoint update (s : st) (xs : list obj) : st * out :=
    match xs with
    | [] => (s, OUnit)
    | x :: r => match add s x with
                | (s', OUnit) => update s' r
                | (s', o) => (s', o)
                end
    end.

  (* DictObjectStore.__init__(objects):  self._backend = {};  for x in objects: self.add(x)
     - a new, independent dict, whatever `objects` is (a list, a generator, another store) *)
  Definition construct (xs : list obj) : st * out := update [] xs.

  Inductive op :=
  | Add (x : obj) | Discard (x : obj) | Remove (x : obj) | Pop | Clear
  | Update (xs : list obj)            (* store.update(xs) *)
  | Ior (xs : list obj)               (* store |= xs *)
  | GetIdentifiable (i : ident)
  | Get (i : ident) (d : option obj)  (* AbstractObjectProvider.get(i, default) *)
  | ContainsObj (x : obj) | ContainsId (i : ident) | ContainsOther
  | Len | Iter.

  Definition odefault (d : option obj) : out := match d with Some x => OObj x | None => ONone end.

  (* a provider as seen through get_identifiable: Some x = returns x, None = raises KeyError *)
  Definition provider := ident -> option obj.
  (* AbstractObjectProvider.get: try: return self.get_identifiable(i) except KeyError: return default *)
  Definition provider_get (p : provider) (i : ident) (d : option obj) : out :=
    match p i with Some x => OObj x | None => odefault d end.

  Definition step (s : st) (o : op) : st * out :=
    match o with
    | Add x => add s x
    | Discard x => discard s x
    | Remove x => remove s x
    | Pop => pop s
    | Clear => clear s
    | Update xs => update s xs
    | Ior xs => update s xs
    | GetIdentifiable i => (s, get_identifiable s i)
    | Get i d => (s, provider_get (lookup s) i d)
    | ContainsObj x => (s, OBool (contains_obj s x))
    | ContainsId i => (s, OBool (contains_id s i))
    | ContainsOther => (s, OBool (contains_other s))
    | Len => (s, ONat (len s))
    | Iter => (s, OList (iter s))
    end.

  Definition run_from (s : st) (ops : list op) : st := fold_left (fun s o => fst (step s o)) ops s.
  Definition run (ops : list op) : st := run_from [] ops.

  (* ObjectProviderMultiplexer.get_identifiable:
       for provider in self.providers:
           try: return provider.get_identifiable(identifier)
           except KeyError: pass
       raise KeyError(...) *)
  Fixpoint mux (ps : list provider) (i : ident) : option obj :=
    match ps with
    | [] => None
    | p :: r => match p i with Some x => Some x | None => mux r i end
    end.
End Store.

(* ---- NamespaceIRIGenerator --------------------------------------------------------------- *)

(* _iri_segment_quote_table: the characters replaced by %XX ... *)
Definition quoted_chars : list ascii :=
  [":"; "["; "]"; "@"; "!"; "$"; "'"; "("; ")"; "*"; "+"; ","; ";";
   " "; """"; "<"; ">"; "\"; "^"; "`"; "{"; "|"; "}"]%char.
(* ... and the ones removed: range(0, 0x1f) (that is 0..30) and 0x7f *)
Definition removed_char (c : ascii) : bool :=
  let n := nat_of_ascii c in Nat.ltb n 31 || Nat.eqb n 127.

Definition hex_digit (n : nat) : ascii :=
  match n with
  | 0 => "0" | 1 => "1" | 2 => "2" | 3 => "3" | 4 => "4" | 5 => "5" | 6 => "6" | 7 => "7"
  | 8 => "8" | 9 => "9" | 10 => "A" | 11 => "B" | 12 => "C" | 13 => "D" | 14 => "E" | _ => "F"
  end%char.
(* '%{:02X}'.format(c.encode()[0]) *)
Definition percent (c : ascii) : string :=
  let n := nat_of_ascii c in
  String "%" (String (hex_digit (n / 16)) (String (hex_digit (n mod 16)) "")).
Definition is_quoted (c : ascii) : bool := existsb (Ascii.eqb c) quoted_chars.
Definition quote_char (c : ascii) : string :=
  if removed_char c then "" else if is_quoted c then percent c else String c "".
(* _quote_iri_segment = str.translate(table) *)
Fixpoint quote (s : string) : string :=
  match s with
  | EmptyString => ""
  | String c r => quote_char c ++ quote r
  end.

Definition is_empty (s : string) : bool := match s with EmptyString => true | _ => false end.

(* the iri tried for counter value c:
     if counter or not proposal: "{}{}{}{:04d}".format(ns, proposal, "_" if proposal else "", counter)
     else:                       "{}{}".format(ns, proposal) *)
Definition candidate (ns p : string) (c : nat) : string :=
  if negb (Nat.eqb c 0) || is_empty p
  then ns ++ p ++ (if is_empty p then "" else "_") ++ pad4 c
  else ns ++ p.

(* the `while True` loop; [knows iri] = provider.get_identifiable(iri) does not raise KeyError.
   None = out of fuel *)
Fixpoint gen_loop (fuel : nat) (knows : ident -> bool) (ns p : string) (c : nat) : option (string * nat) :=
  match fuel with
  | 0 => None
  | S f => let iri := candidate ns p c in
           if knows iri then gen_loop f knows ns p (S c) else Some (iri, c)
  end.

Record gen := mkGen { g_ns : string; g_cache : list (string * nat) }.   (* _namespace, _counter_cache *)

Fixpoint cset (k : string) (v : nat) (l : list (string * nat)) : list (string * nat) :=
  match l with
  | [] => [(k, v)]
  | (k', v') :: r => if String.eqb k k' then (k, v) :: r else (k', v') :: cset k v r
  end.

Inductive gout := GId (iri : string) | GOutOfFuel.

Definition start_counter (g : gen) (p : string) : nat :=
  match sassoc p (g_cache g) with Some c => c | None => 0 end.

Definition generate_id (fuel : nat) (g : gen) (knows : ident -> bool) (proposal : option string)
  : gen * gout :=
  let p := quote (match proposal with Some p => p | None => "" end) in
  match gen_loop fuel knows (g_ns g) p (start_counter g p) with
  | None => (g, GOutOfFuel)
  | Some (iri, c) => (mkGen (g_ns g) (cset p c (g_cache g)), GId iri)
  end.

Definition knows_of {A} (p : ident -> option A) (i : ident) : bool :=
  match p i with Some _ => true | None => false end.
