(* Executable model of Referable.commit / _direct_source_commit / update / find_source (base.py:736-870) and of
   backends.get_backend / RE_URI_SCHEME (backend/backends.py), definitions only (property C17).

   Trees are those of model/Refs.v: a node carries `source`; children = the members of the id_short-keyed
   NamespaceSets in iteration order.  A node is named by its position from the root ([] = the root).
   Output of commit()/update(): the backend calls in call order and, if get_backend raised, the exception that
   ended the traversal (the recording backend itself never raises). *)
From Coq Require Import List ZArith Bool String Ascii.
From Basyx Require Import gen.Gen_RefKeys model.Refs.
Import ListNotations.
Local Open Scope string_scope.
Local Open Scope list_scope.

Inductive kind : Set := KCommit | KUpdate.

(* Referable._relative_path_segment(): the id_short (None for an identifiable without one), or str(position)
   for a child of a SubmodelElementList *)
Definition seg := option string.
Definition seg_of (parent : tree) (i : nat) (c : tree) : seg :=
  if is_list (t_cls parent) then Some (index_str i) else t_key c.

Record call : Type := mkCall { c_kind : kind; c_backend : nat; c_store : path; c_obj : path; c_rel : list seg }.

Inductive bexn : Set := BValueError | BUnknownBackend.
Definition outcome := (list call * option bexn)%type.
Definition nil_out : outcome := ([], None).

(* statement sequencing: an exception ends the traversal *)
Definition then_ (a b : outcome) : outcome :=
  match snd a with Some _ => a | None => (fst a ++ fst b, snd b)%list end.

(* ---- backends.get_backend --------------------------------------------------------------------------- *)

Definition is_alpha (a : ascii) : bool :=
  let n := nat_of_ascii a in ((65 <=? n) && (n <=? 90))%nat || ((97 <=? n) && (n <=? 122))%nat.
Definition is_scheme_char (a : ascii) : bool :=
  is_alpha a || is_digit a || Ascii.eqb a "+"%char || Ascii.eqb a "-"%char || Ascii.eqb a "."%char.

(* RE_URI_SCHEME: a letter, then letters / digits / + - . (greedy), then ':' -- the maximal run of scheme
   characters must be followed by ':' *)
Fixpoint scheme_rest (s : string) : option string :=
  match s with
  | EmptyString => None
  | String a r => if is_scheme_char a then match scheme_rest r with Some x => Some (String a x) | None => None end
                  else if Ascii.eqb a ":"%char then Some EmptyString else None
  end.
Definition scheme_of (url : string) : option string :=
  match url with
  | String a r => if is_alpha a then match scheme_rest r with Some x => Some (String a x) | None => None end else None
  | EmptyString => None
  end.

Definition registry := list (string * nat).       (* _backends_map: scheme -> backend class *)
Fixpoint reg_lookup (reg : registry) (s : string) : option nat :=
  match reg with [] => None | (k, b) :: r => if String.eqb k s then Some b else reg_lookup r s end.

(* register_backend: `_backends_map[scheme] = backend_class` -- a later registration for the same scheme replaces
   the earlier one (the newest entry is found first) *)
Definition register (reg : registry) (s : string) (b : nat) : registry := (s, b) :: reg.

Definition get_backend (reg : registry) (url : string) : bexn + nat :=
  match scheme_of url with
  | None => inl BValueError
  | Some s => match reg_lookup reg s with Some b => inr b | None => inl BUnknownBackend end
  end.

Definition one_call (reg : registry) (k : kind) (src : string) (store obj : path) (rel : list seg) : outcome :=
  match get_backend reg src with
  | inl e => ([], Some e)
  | inr b => ([mkCall k b store obj rel], None)
  end.

Definition sourced (t : tree) : bool := negb (String.eqb (t_src t) "").

(* `if self.source != "": get_backend(self.source).<k>_object(self, self, [])` *)
Definition own_call (reg : registry) (k : kind) (t : tree) (here : path) : outcome :=
  if sourced t then one_call reg k (t_src t) here here [] else nil_out.

(* ---- _direct_source_commit, and update(recursive=True, _indirect_source=False) ----------------------- *)

Fixpoint direct (reg : registry) (k : kind) (t : tree) (here : path) : outcome :=
  match t with
  | Node c i ky s ch =>
      then_ (own_call reg k (Node c i ky s ch) here)
          (if is_namespace c
           then (fix go (l : list tree) (j : nat) : outcome :=
                   match l with
                   | [] => nil_out
                   | x :: r => then_ (direct reg k x (here ++ [j])%list) (go r (S j))
                   end) ch 0%nat
           else nil_out)
  end.

Fixpoint direct_list (reg : registry) (k : kind) (l : list tree) (here : path) (j : nat) : outcome :=
  match l with
  | [] => nil_out
  | x :: r => then_ (direct reg k x (here ++ [j])%list) (direct_list reg k r here (S j))
  end.
Definition children_direct (reg : registry) (k : kind) (t : tree) (here : path) : outcome :=
  if is_namespace (t_cls t) then direct_list reg k (t_ch t) here 0 else nil_out.

(* ---- the parent chain ---------------------------------------------------------------------------------- *)

(* node, its position, its _relative_path_segment(); node first, root last *)
Definition link := (tree * path * seg)%type.
Fixpoint chain (t : tree) (here : path) (sg : seg) (p : path) (acc : list link) : option (list link) :=
  match p with
  | [] => Some ((t, here, sg) :: acc)
  | i :: r => match nth_error (t_ch t) i with
              | Some c => chain c (here ++ [i])%list (seg_of t i c) r ((t, here, sg) :: acc)
              | None => None
              end
  end.

(* the while-loop of commit(): ancestors nearest first; rel = relative_path *)
Fixpoint commit_anc (reg : registry) (obj : path) (up : list link) (rel : list seg) : outcome :=
  match up with
  | [] => nil_out
  | (a, ap, asg) :: rest =>
      then_ (if sourced a then one_call reg KCommit (t_src a) ap obj rel else nil_out)
          (commit_anc reg obj rest (asg :: rel))
  end.

(* Referable.commit() of the node at position p of root *)
Definition commit (reg : registry) (root : tree) (p : path) : option outcome :=
  match chain root [] (t_key root) p [] with
  | Some ((n, np, nsg) :: up) => Some (then_ (commit_anc reg np up [nsg]) (direct reg KCommit n np))
  | _ => None
  end.

(* find_source(): (source, position of the store object, reversed relative_path) of the closest sourced link,
   starting with the object itself; acc = relative_path so far, in reversed (= final) order *)
Fixpoint find_source (l : list link) (acc : list seg) : option (string * path * list seg) :=
  match l with
  | [] => None
  | (a, ap, asg) :: rest =>
      if sourced a then Some (t_src a, ap, asg :: acc) else find_source rest (asg :: acc)
  end.

(* Referable.update(recursive=...) of the node at position p of root *)
Definition update (reg : registry) (root : tree) (p : path) (recursive : bool) : option outcome :=
  match chain root [] (t_key root) p [] with
  | Some ((n, np, nsg) :: up) =>
      let first :=
        if sourced n then one_call reg KUpdate (t_src n) np np []
        else match find_source ((n, np, nsg) :: up) [] with
             | Some (src, ap, rel) => one_call reg KUpdate src ap np rel
             | None => nil_out
             end in
      Some (then_ first (if recursive then children_direct reg KUpdate n np else nil_out))
  | _ => None
  end.

(* ---- a process: registrations interleaved with commit()/update() calls on the same tree --------------------- *)

Inductive dop : Type :=
  | OClock (step : Z)               (* the wall clock / monotonic clock moves by `step` (any sign) *)
  | ORegister (s : string) (b : nat)
  | OCommit (p : path)
  | OUpdate (p : path) (recursive : bool).

(* the outcomes of the commit/update calls of the sequence, in order *)
Fixpoint exec (reg : registry) (root : tree) (ops : list dop) : list (option outcome) :=
  match ops with
  | [] => []
  | OClock _ :: r => exec reg root r        (* update(max_age=0) and commit() do not read any clock *)
  | ORegister s b :: r => exec (register reg s b) root r
  | OCommit p :: r => commit reg root p :: exec reg root r
  | OUpdate p rc :: r => update reg root p rc :: exec reg root r
  end.

Definition is_clock (o : dop) : bool := match o with OClock _ => true | _ => false end.

(* specification: the registrations of a sequence in chronological order, and the backend registered LAST for a
   scheme (cur = what was registered before the sequence) *)
Definition regs_of (ops : list dop) : list (string * nat) :=
  flat_map (fun o => match o with ORegister s b => [(s, b)] | _ => [] end) ops.
Fixpoint last_registered (h : list (string * nat)) (s : string) (cur : option nat) : option nat :=
  match h with
  | [] => cur
  | (k, b) :: r => last_registered r s (if String.eqb k s then Some b else cur)
  end.
Definition reg_after (reg : registry) (h : list (string * nat)) : registry :=
  fold_left (fun r kb => register r (fst kb) (snd kb)) h reg.

(* ---- specification side -------------------------------------------------------------------------------- *)

(* an intended backend call: source URI, store object, object concerned, relative path *)
Record visit : Type := mkVisit { v_src : string; v_store : path; v_obj : path; v_rel : list seg }.

(* carrying out intended calls in order; the first source without a usable backend ends it *)
Fixpoint run (reg : registry) (k : kind) (vs : list visit) : outcome :=
  match vs with
  | [] => nil_out
  | v :: r => then_ (one_call reg k (v_src v) (v_store v) (v_obj v) (v_rel v)) (run reg k r)
  end.

(* the path segments from t down along p *)
Fixpoint segs (t : tree) (p : path) : list seg :=
  match p with
  | [] => []
  | i :: r => match nth_error (t_ch t) i with
              | Some c => seg_of t i c :: segs c r
              | None => []
              end
  end.

(* the sourced strict ancestors of the object at `here ++ p`, from t downwards (root first), each with the
   relative path from it to the object *)
Fixpoint anc_visits (t : tree) (here : path) (p : path) (obj : path) : list visit :=
  match p with
  | [] => []
  | i :: r => match nth_error (t_ch t) i with
              | None => []
              | Some c => ((if sourced t then [mkVisit (t_src t) here obj (segs t p)] else [])
                           ++ anc_visits c (here ++ [i]) r obj)%list
              end
  end.

(* all nodes of a subtree with their positions, pre-order *)
Fixpoint nodes (t : tree) (here : path) : list (path * tree) :=
  match t with
  | Node c i ky s ch =>
      (here, Node c i ky s ch) ::
      (fix go (l : list tree) (j : nat) : list (path * tree) :=
         match l with
         | [] => []
         | x :: r => (nodes x (here ++ [j]) ++ go r (S j))%list
         end) ch 0%nat
  end.
Fixpoint nodes_list (l : list tree) (here : path) (j : nat) : list (path * tree) :=
  match l with
  | [] => []
  | x :: r => (nodes x (here ++ [j]) ++ nodes_list r here (S j))%list
  end.

Definition self_visits (l : list (path * tree)) : list visit :=
  map (fun qm => mkVisit (t_src (snd qm)) (fst qm) (fst qm) []) (filter (fun qm => sourced (snd qm)) l).

(* intended calls of commit(): sourced strict ancestors nearest first, then the node and its descendants *)
Definition commit_visits (root : tree) (p : path) (n : tree) : list visit :=
  (rev (anc_visits root [] p p) ++ self_visits (nodes n p))%list.

(* the closest sourced node on the way from t down to the object (inclusive), with the path find_source()
   hands out: the store object's own segment followed by the segments down to the object *)
Fixpoint nearest (t : tree) (here : path) (sg : seg) (p : path) (obj : path) : option visit :=
  let mine := if sourced t then Some (mkVisit (t_src t) here obj (sg :: segs t p)) else None in
  match p with
  | [] => mine
  | i :: r => match nth_error (t_ch t) i with
              | None => None
              | Some c => match nearest c (here ++ [i]) (seg_of t i c) r obj with
                          | Some v => Some v
                          | None => mine
                          end
              end
  end.

Definition update_visits (root : tree) (p : path) (n : tree) (recursive : bool) : list visit :=
  ((if sourced n then [mkVisit (t_src n) p p []]
    else match nearest root [] (t_key root) p p with Some v => [v] | None => [] end)
   ++ (if recursive then self_visits (nodes_list (t_ch n) p 0) else []))%list.

(* the Backend contract: `obj = store_object; for i in relative_path: obj = obj.get_referable(i)` reaches the
   object concerned *)
Fixpoint all_some (l : list seg) : option (list string) :=
  match l with
  | [] => Some []
  | Some s :: r => match all_some r with Some x => Some (s :: x) | None => None end
  | None :: _ => None
  end.
Definition path_leads (root : tree) (store obj : path) (rel : list seg) : Prop :=
  exists a ids q n, addr root store = Some a /\ all_some rel = Some ids /\
                    get_ref a ids = Ok (q, n) /\ obj = (store ++ q)%list.
Definition path_leadsb (root : tree) (store obj : path) (rel : list seg) : bool :=
  match addr root store, all_some rel with
  | Some a, Some ids => match get_ref a ids with
                        | Ok (q, _) => if list_eq_dec Nat.eq_dec obj (store ++ q)%list then true else false
                        | Err _ => false
                        end
  | _, _ => false
  end.
