(* C02 - well-formedness predicates written from the constraint texts the SDK documents as
   enforced (sdk/docs/source/constraints.rst, the class docstrings, "Details of the Asset
   Administration Shell Part 1" for the key-type enumerations and XML Schema Part 2 for the
   integer ranges) - NOT from the code.  Definitions only. *)
From Coq Require Import List ZArith Bool.
From Basyx Require Import model.ConstraintsBase gen.Gen_RefChecks model.ConstraintsModel.
Import ListNotations.
Local Open Scope Z_scope.

(* ---- key-type enumerations of the metamodel (Part 1, "Key types") --------------------- *)
Definition AasIdentifiables : list keytype :=
  [KT_ASSET_ADMINISTRATION_SHELL; KT_CONCEPT_DESCRIPTION; KT_SUBMODEL].
Definition GenericGloballyIdentifiables : list keytype := [KT_GLOBAL_REFERENCE].
Definition GenericFragmentKeys : list keytype := [KT_FRAGMENT_REFERENCE].
Definition AasSubmodelElements : list keytype :=
  [KT_ANNOTATED_RELATIONSHIP_ELEMENT; KT_BASIC_EVENT_ELEMENT; KT_BLOB; KT_CAPABILITY; KT_DATA_ELEMENT;
   KT_ENTITY; KT_EVENT_ELEMENT; KT_FILE; KT_MULTI_LANGUAGE_PROPERTY; KT_OPERATION; KT_PROPERTY;
   KT_RANGE; KT_REFERENCE_ELEMENT; KT_RELATIONSHIP_ELEMENT; KT_SUBMODEL_ELEMENT;
   KT_SUBMODEL_ELEMENT_COLLECTION; KT_SUBMODEL_ELEMENT_LIST].
Definition AasReferableNonIdentifiables : list keytype := AasSubmodelElements.
Definition FragmentKeys : list keytype := AasReferableNonIdentifiables ++ GenericFragmentKeys.
Definition GloballyIdentifiables : list keytype := GenericGloballyIdentifiables ++ AasIdentifiables.

(* positions in a key chain *)
Definition is_first (ks : list K) (k : K) : Prop := exists r, ks = k :: r.
Definition is_last (ks : list K) (k : K) : Prop := exists r, ks = r ++ [k].
Definition nonlast (ks : list K) (k : K) : Prop := exists pre post, ks = pre ++ k :: post /\ post <> [].
Definition adjacent (ks : list K) (p k : K) : Prop := exists pre post, ks = pre ++ p :: k :: post.

(* AASd-121: the first key is one of GloballyIdentifiables *)
Definition S121 (ks : list K) : Prop := exists k, is_first ks k /\ In (ktype k) GloballyIdentifiables.
(* AASd-122 (external): the first key is one of GenericGloballyIdentifiables *)
Definition S122 (ks : list K) : Prop := exists k, is_first ks k /\ In (ktype k) GenericGloballyIdentifiables.
(* AASd-123 (model): the first key is one of AasIdentifiables *)
Definition S123 (ks : list K) : Prop := exists k, is_first ks k /\ In (ktype k) AasIdentifiables.
(* AASd-124 (external): the last key is a GenericGloballyIdentifiable or a GenericFragmentKey *)
Definition S124 (ks : list K) : Prop :=
  exists k, is_last ks k /\ In (ktype k) (GenericGloballyIdentifiables ++ GenericFragmentKeys).
(* AASd-125 (model): every key following the first is one of FragmentKeys *)
Definition S125 (ks : list K) : Prop := forall k, In k (tl ks) -> In (ktype k) FragmentKeys.
(* AASd-126 (model): only the last key may be one of GenericFragmentKeys *)
Definition S126 (ks : list K) : Prop := forall k, nonlast ks k -> ~ In (ktype k) GenericFragmentKeys.
(* AASd-127 (model): a FragmentReference key is preceded by a File or Blob key (so it is not
   the first key either) *)
Definition S127 (ks : list K) : Prop :=
  (forall k, is_first ks k -> ktype k <> KT_FRAGMENT_REFERENCE) /\
  (forall p k, adjacent ks p k -> ktype k = KT_FRAGMENT_REFERENCE -> In (ktype p) [KT_FILE; KT_BLOB]).
(* AASd-128 (model): the value of a key preceded by a SubmodelElementList key is an integer
   ([knum]: the key value consists of decimal digits) *)
Definition S128 (ks : list K) : Prop :=
  forall p k, adjacent ks p k -> ktype p = KT_SUBMODEL_ELEMENT_LIST -> knum k = true.

Definition wf_ext_ref (ks : list K) : Prop := S121 ks /\ S122 ks /\ S124 ks.
Definition wf_model_ref (ks : list K) : Prop :=
  S121 ks /\ S123 ks /\ S125 ks /\ S126 ks /\ S127 ks /\ S128 ks.

(* ---- strings ---------------------------------------------------------------------------- *)
(* AASd-130: the XML 1.0 Char production *)
Definition xml_char (c : Z) : Prop :=
  c = 9 \/ c = 10 \/ c = 13 \/ 32 <= c <= 55295 \/ 57344 <= c <= 65533 \/ 65536 <= c <= 1114111.
Definition str_ok (mn mx : Z) (s : list Z) : Prop := mn <= len s <= mx /\ Forall xml_char s.

Definition digit (c : Z) : Prop := 48 <= c <= 57.
(* VersionType / RevisionType: "0" or a digit string without leading zero *)
Definition version_syntax (s : list Z) : Prop :=
  (exists d, s = [d] /\ digit d) \/
  (exists d r, s = d :: r /\ 49 <= d <= 57 /\ Forall digit r).

(* AASd-002: letters, digits, underscore; starting with a letter (ASCII) *)
Definition ascii_letter (c : Z) : Prop := 65 <= c <= 90 \/ 97 <= c <= 122.
Definition idshort_char (c : Z) : Prop := ascii_letter c \/ digit c \/ c = 95.
Definition idshort_syntax (s : list Z) : Prop :=
  exists c r, s = c :: r /\ ascii_letter c /\ Forall idshort_char r.
Definition ascii_letter_b (c : Z) : bool := in_cls c [(65, 90); (97, 122)].

(* ---- AASd-014 / AASd-131 (constraints.rst) ------------------------------------------------ *)
(* AASd-014: Either the attribute globalAssetId or specificAssetId of an Entity must be set if
   Entity/entityType is set to SelfManagedEntity.  Otherwise, they do not exist.
   AASd-131: The globalAssetId or at least one specificAssetId shall be defined for
   AssetInformation.  In both cases a present globalAssetId is a valid Identifier.
   For owner OSem the [gaid] field stands for HasSemantics/semanticId. *)
Definition cnum (o : owner) : Z := match o with OEntity => 14 | OAsset => 131 | OSem => 118 end.
Definition wf_owner (o : owner) (s : st) : Prop :=
  gaid s <> GBad /\
  match o with
  | OEntity => if etype s then (gaid s <> GNone \/ items s <> [])
               else (gaid s = GNone /\ items s = [])
  | OAsset => gaid s <> GNone \/ items s <> []
  (* AASd-118: if a supplemental semantic ID is defined, there shall also be a main semantic ID *)
  | OSem => items s <> [] -> gaid s <> GNone
  end.

(* ---- AASd-005: a revision requires a version; both are VersionType/RevisionType strings --- *)
Definition s_valid (a : sarg) : Prop := match a with SNone | SOk _ => True | _ => False end.
Definition wf_adm (s : adm) : Prop :=
  s_valid (aver s) /\ s_valid (arev s) /\ (arev s <> SNone -> aver s <> SNone).

(* ---- BasicEventElement: max_interval is not applicable for direction = input; last_update
   is given in UTC (class docstring) *)
Definition wf_bee (s : bee) : Prop := (bin s = true -> bmax s = PNone) /\ blast s <> UOther.

(* ---- category: a NameType; AASd-090 for data elements.  The SDK exempts File and Blob
   (submodel.py DataElement._set_category); the text of AASd-090 does not. *)
Definition category_is_name (c : carg) : Prop := c <> CEmpty /\ c <> CInvalid.
Definition wf_category (k : ckind) (c : carg) : Prop :=
  category_is_name c /\ (k = CDataElement -> c = CNone \/ c = CAllowed).
Definition wf_category_090_text (k : ckind) (c : carg) : Prop :=
  category_is_name c /\ (k <> COther -> c = CNone \/ c = CAllowed).

(* ---- language string sets: non-empty, every key a language tag, every text within the
   limits of the constrained type (c = true) *)
Definition wf_lss (c : bool) (l : lss) : Prop :=
  l <> [] /\ Forall (fun e => tag_ok (fst e) = true /\ (c = true -> snd e = true)) l.

(* ---- SubmodelElementList (constraints.rst) --------------------------------------------------
   AASd-108: all first level children have the submodel element type typeValueListElement (an
             abstract type stands for its concrete subclasses);
   AASd-107: a child that has a semanticId has semanticIdListElement, if that is specified;
   AASd-109: for Property/Range lists valueTypeListElement is set and every child has it;
   AASd-114: any two children that have a semanticId have the same one. *)
Definition elem_ok (c : lcfg) (e : elem) : Prop :=
  (ety e = tle c \/ In (ety e) (members c)) /\
  (forall s s', semle c = Some s -> esem e = Some s' -> s' = s) /\
  (prop_or_range c = true -> vtle c = Some (evt e)).
Definition wf_list (c : lcfg) (l : list elem) : Prop :=
  (forall x, In x l -> elem_ok c x) /\
  (forall x y a b, In x l -> In y l -> esem x = Some a -> esem y = Some b -> a = b).
