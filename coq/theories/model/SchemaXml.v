(* C05 - the official XML schema as tables and an executable validator for exactly the XSD subset it uses, over the
   abstract XML tree of model/XmlCodec.v.  The tables (gen/Gen_SchemaXml.v) are regenerated on every run from
   compliance_tool/aas_compliance_tool/schemas/aasXMLSchema.xsd by tools/py2coq/schemas.py.  Definitions only.

   An element's text: [None] = no character content (for an element with children: only white space).  Facets of
   restrictions of xs:string apply to the text as it stands (whiteSpace = preserve); xs:boolean and xs:base64Binary
   are decided by the pattern oracle [pm] under the ids "xs:boolean" / "xs:base64Binary". *)
From Coq Require Import List Bool String NArith.
From Basyx Require Import model.SchemaBase model.XmlCodec.
Import ListNotations.
Local Open Scope string_scope.

Inductive xty :=
| XStr (f : facets)                      (* restriction of xs:string *)
| XBool                                  (* xs:boolean *)
| XB64                                   (* xs:base64Binary *)
| XEnum (lits : list string)
| XCls (cls : string)                    (* complex type = flattened xs:sequence of the group *)
| XList (itag : string) (item : xty)     (* wrapper: one or more children <itag> *)
| XMany (choice : string)                (* wrapper: one or more alternatives of a choice group *)
| XOne (choice : string).                (* wrapper: exactly one alternative of a choice group *)

Record xpart := mkX { x_tag : string; x_opt : bool; x_ty : xty }.
Record xschema := mkXS {
  xs_classes : list (string * list xpart);               (* group -> child elements in sequence order *)
  xs_choices : list (string * list (string * string))    (* choice group -> (element tag, class) *)
}.

(* xs:sequence of elements with minOccurs in {0,1}, maxOccurs = 1 and pairwise distinct names: the next child must
   be the first part carrying its tag that is reachable by skipping optional parts only *)
Fixpoint drop_until (tg : string) (parts : list xpart) : option (xpart * list xpart) :=
  match parts with
  | [] => None
  | p :: ps => if String.eqb (x_tag p) tg then Some (p, ps)
               else if x_opt p then drop_until tg ps else None
  end.

(* the three simple types whose lexical check is delegated: the full check by the pattern oracle, or none at all
   ([leaf_any]: the *shape* of a document - names, nesting, order, cardinality, enum literals) *)
Definition leaf_full (pm : string -> string -> bool) (t : xty) (s : string) : bool :=
  match t with
  | XStr f => facets_ok pm f s
  | XBool => pm "xs:boolean" s
  | XB64 => pm "xs:base64Binary" s
  | _ => true
  end.
Definition leaf_any (_ : xty) (_ : string) : bool := true.

Section XmlValid.
Variable leaf : xty -> string -> bool.
Variable XS : xschema.

Definition text_of (x : xml) : string := match xtext x with Some s => s | None => "" end.
Definition no_kids (x : xml) : bool := match xkids x with [] => true | _ => false end.
Definition no_text (x : xml) : bool := match xtext x with None => true | Some _ => false end.

Fixpoint xvalid (t : xty) (x : xml) {struct x} : bool :=
  match x with
  | XE tag text kids =>
    let vcls := fun (cls : string) =>
      match sfind cls (xs_classes XS) with
      | None => false
      | Some parts =>
        no_text x &&
        (fix seq (ks : list xml) (parts : list xpart) {struct ks} : bool :=
           match ks with
           | [] => forallb x_opt parts
           | k :: ks' =>
             match drop_until (xtag k) parts with
             | Some (p, rest) => xvalid (x_ty p) k && seq ks' rest
             | None => false
             end
           end) kids parts
      end in
    let valt := fun (choice : string) (k : xml) =>
      match sfind choice (xs_choices XS) with
      | Some alts => match sfind (xtag k) alts with Some cls => xvalid (XCls cls) k | None => false end
      | None => false
      end in
    match t with
    | XStr _ | XBool | XB64 => no_kids x && leaf t (text_of x)
    | XEnum lits => no_kids x && smem (text_of x) lits
    | XCls cls => vcls cls
    | XList itag it =>
      no_text x && nonempty kids && forallb (fun k => String.eqb (xtag k) itag && xvalid it k) kids
    | XMany choice => no_text x && nonempty kids && forallb (valt choice) kids
    | XOne choice => no_text x && match kids with [k] => valt choice k | _ => false end
    end
  end.
End XmlValid.
