(* C02 - hand-written executable models of the stateful constraint mechanisms, statement by
   statement (tie C: run against the SDK classes by tools/c02.py).  Definitions only.

   Part A: base.ConstrainedList with the hooks of submodel.Entity (AASd-014) and
           aas.AssetInformation (AASd-131)            base.py:1294-1395, submodel.py:1091-1182,
                                                       aas.py:52-113
   Part B: AdministrativeInformation (AASd-005), HasSemantics (AASd-118), DataElement.category
           (AASd-090), typed values (AASd-020), BasicEventElement, LangStringSet            *)
From Coq Require Import List ZArith Bool.
From Basyx Require Import model.ConstraintsBase gen.Gen_BeeChecks gen.Gen_SemSetter.
Import ListNotations.
Local Open Scope Z_scope.

(* ===================================================================================== *)
(* Part A                                                                                 *)
(* ===================================================================================== *)

(* a global_asset_id argument: None, a valid Identifier (token), or a string that
   _string_constraints.check_identifier rejects *)
Inductive garg : Type := GNone | GOk (n : nat) | GBad.
Definition g_present (g : garg) : bool := match g with GNone => false | _ => true end.

(* OSem: any HasSemantics object; gaid = the semantic_id (absent / present), items = the
   supplemental_semantic_id list (AASd-118), etype = the object is contained in a namespace
   (parent is not None): SetType true/false stand for adding it to / removing it from a
   container.  The semantic_id setter is translated (gen/Gen_SemSetter.v), containment included. *)
Inductive owner : Type := OEntity | OAsset | OSem.

(* etype: true = SELF_MANAGED_ENTITY (unused for AssetInformation); items: the
   SpecificAssetId objects, by pool index *)
Record st : Type := mkSt { etype : bool; gaid : garg; items : list nat }.

(* _validate_aasd_014 / _validate_aasd_131 *)
Definition validate (o : owner) (t : bool) (g : garg) (nonempty : bool) : option err :=
  match o with
  | OEntity =>
      if t && negb (g_present g) && negb nonempty then Some (EAASd 14)
      else if negb t && (g_present g || nonempty) then Some (EAASd 14)
      else None
  | OAsset =>
      if negb (g_present g) && negb nonempty then Some (EAASd 131)
      else match g with GBad => Some EValue | _ => None end     (* aas.py:112 re-checks the identifier *)
  | OSem =>                                                       (* base.py:1423-1431 *)
      if negb (g_present g) && nonempty then Some (EAASd 118) else None
  end.

(* _validate_global_asset_id *)
Definition validate_gid (g : garg) : option err := match g with GBad => Some EValue | _ => None end.

(* the three hooks, as registered by the two owners *)
Definition add_hook (o : owner) (s : st) : option err :=
  match o with
  | OEntity => validate o (etype s) (gaid s) true
  | OAsset => None                                       (* AssetInformation registers no add hook *)
  | OSem => validate o (etype s) (gaid s) true           (* _check_constraint_add *)
  end.
Definition set_hook (o : owner) (s : st) (n_old n_replaced n_new : Z) : option err :=
  match o with
  | OSem => validate o (etype s) (gaid s) (n_new >? 0)   (* _check_constraint_set looks at new_items only *)
  | _ => validate o (etype s) (gaid s) (n_old - n_replaced + n_new >? 0)
  end.
Definition del_hook (o : owner) (s : st) (n_cur : Z) : option err :=
  match o with
  | OSem => None                                         (* HasSemantics registers no del hook *)
  | _ => validate o (etype s) (gaid s) (n_cur >? 1)
  end.

(* ---- Python list semantics ---------------------------------------------------------- *)
Definition zfirstn {A} (n : Z) (l : list A) : list A := firstn (Z.to_nat n) l.
Definition zskipn {A} (n : Z) (l : list A) : list A := skipn (Z.to_nat n) l.

(* l[i] for an int index: IndexError unless -len <= i < len *)
Definition norm_index {A} (l : list A) (i : Z) : option Z :=
  let n := len l in
  let j := if i <? 0 then i + n else i in
  if (0 <=? j) && (j <? n) then Some j else None.

(* list.insert clamps *)
Definition insert_pos {A} (l : list A) (i : Z) : Z :=
  let n := len l in
  let j := if i <? 0 then i + n else i in
  if j <? 0 then 0 else if n <? j then n else j.

(* slice(start, stop).indices(len) for step 1, with stop raised to start *)
Definition clamp_bound (n : Z) (b : option Z) (dflt : Z) : Z :=
  match b with
  | None => dflt
  | Some v => let j := if v <? 0 then v + n else v in
              if j <? 0 then 0 else if n <? j then n else j
  end.
Definition slice_bounds {A} (l : list A) (start stop : option Z) : Z * Z :=
  let n := len l in
  let lo := clamp_bound n start 0 in
  let hi := clamp_bound n stop n in
  (lo, if hi <? lo then lo else hi).

Definition list_insert {A} (l : list A) (i : Z) (x : A) : list A :=
  let p := insert_pos l i in zfirstn p l ++ x :: zskipn p l.
Definition list_del {A} (l : list A) (j : Z) : list A := zfirstn j l ++ zskipn (j + 1) l.
Definition list_set {A} (l : list A) (j : Z) (x : A) : list A := zfirstn j l ++ x :: zskipn (j + 1) l.
Definition list_set_slice {A} (l : list A) (lo hi : Z) (xs : list A) : list A :=
  zfirstn lo l ++ xs ++ zskipn hi l.
Definition list_del_slice {A} (l : list A) (lo hi : Z) : list A := zfirstn lo l ++ zskipn hi l.

(* extended slices: slice(start, stop, step).indices(len) as in CPython's PySlice_AdjustIndices;
   [xselected] = the position is one of range(len)[start:stop:step] *)
Definition xnorm (n : Z) (b : option Z) (step : Z) (is_start : bool) : Z :=
  match b with
  | None => if step <? 0 then (if is_start then n - 1 else -1) else (if is_start then 0 else n)
  | Some v =>
      if v <? 0 then (let w := v + n in if w <? 0 then (if step <? 0 then -1 else 0) else w)
      else if n <=? v then (if step <? 0 then n - 1 else n) else v
  end.
Definition xselected (n : Z) (a b : option Z) (step : Z) (p : Z) : bool :=
  let start := xnorm n a step true in
  let stop := xnorm n b step false in
  if 0 <? step then (start <=? p) && (p <? stop) && ((p - start) mod step =? 0)
  else (stop <? p) && (p <=? start) && ((start - p) mod (- step) =? 0).
Definition zpositions {A} (l : list A) : list (Z * A) := combine (map Z.of_nat (seq 0 (length l))) l.
Definition xsel {A} (l : list A) (a b : option Z) (step : Z) (q : Z * A) : bool :=
  xselected (len l) a b step (fst q).
Definition xdel {A} (l : list A) (a b : option Z) (step : Z) : list A :=
  map snd (filter (fun q => negb (xsel l a b step q)) (zpositions l)).
Definition xcount {A} (l : list A) (a b : option Z) (step : Z) : nat :=
  length (filter (xsel l a b step) (zpositions l)).

Fixpoint index_of (x : nat) (l : list nat) (pos : Z) : option Z :=
  match l with
  | [] => None
  | y :: r => if Nat.eqb x y then Some pos else index_of x r (pos + 1)
  end.

(* ---- operations --------------------------------------------------------------------- *)
Inductive op : Type :=
| Append (x : nat)
| Insert (i : Z) (x : nat)
| Extend (xs : list nat)              (* list or one-shot iterator: extend() materialises first *)
| ExtendBad                           (* a non-iterable argument *)
| IAdd (xs : list nat)                (* owner.specific_asset_id += xs : extend, then the property setter *)
| Pop (i : option Z)
| Remove (x : nat)
| Clear
| SetItem (i : Z) (x : nat)
| DelItem (i : Z)
| SetSlice (start stop : option Z) (xs : list nat)   (* list or one-shot iterator argument *)
| SetSliceBad (start stop : option Z)                 (* non-iterable right-hand side *)
| DelSlice (start stop : option Z)
| DelXSlice (start stop : option Z) (step : Z)      (* del l[start:stop:step], step <> 1 *)
| SetList (xs : list nat)             (* owner.specific_asset_id = xs  (list or iterator) *)
| SetType (t : bool)                  (* Entity only; plain attribute on AssetInformation is not modelled *)
| SetGaid (g : garg).

Inductive out : Type := OK | OVal (x : nat) | Err (e : err).

Definition upd_items (s : st) (l : list nat) : st := mkSt (etype s) (gaid s) l.
Definition nonempty (l : list nat) : bool := negb (len l =? 0).

(* What the operation does to the object when no hook objects: plain Python list / attribute
   semantics.  inl e = Python itself raises (IndexError, ValueError of list.index, TypeError of
   list(<non-iterable>), ValueError of check_identifier) before any hook runs. *)
Definition effect (o : owner) (s : st) (p : op) : err + (st * out) :=
  let l := items s in
  match p with
  | Append x => inr (upd_items s (list_insert l (len l) x), OK)   (* append = insert(len(self), x) *)
  | Insert i x => inr (upd_items s (list_insert l i x), OK)
  | Extend xs | IAdd xs => inr (upd_items s (l ++ xs), OK)
  | ExtendBad | SetSliceBad _ _ => inl EType
  | Pop i =>                                      (* v = self[i]; del self[i]; return v *)
      let i' := match i with Some v => v | None => -1 end in
      match norm_index l i' with
      | None => inl EIndex
      | Some j => inr (upd_items s (list_del l j), OVal (nth (Z.to_nat j) l O))
      end
  | Remove x =>                                   (* del self[self.index(x)] *)
      match index_of x l 0 with
      | None => inl EValue
      | Some j => inr (upd_items s (list_del l j), OK)
      end
  | Clear => inr (upd_items s [], OK)             (* del self[:] *)
  | SetItem i x =>
      match norm_index l i with
      | None => inl EIndex
      | Some j => inr (upd_items s (list_set l j x), OK)
      end
  | DelItem i =>
      match norm_index l i with
      | None => inl EIndex
      | Some j => inr (upd_items s (list_del l j), OK)
      end
  | SetSlice start stop xs =>
      let '(lo, hi) := slice_bounds l start stop in inr (upd_items s (list_set_slice l lo hi xs), OK)
  | SetList xs => inr (upd_items s xs, OK)        (* self._list[:] = xs *)
  | DelSlice start stop =>
      let '(lo, hi) := slice_bounds l start stop in inr (upd_items s (list_del_slice l lo hi), OK)
  | DelXSlice start stop step =>                  (* range(len)[start:stop:0] raises ValueError before any hook *)
      if step =? 0 then inl EValue else inr (upd_items s (xdel l start stop step), OK)
  | SetType t =>
      match o with
      | OEntity => inr (mkSt t (gaid s) l, OK)
      | OSem => inr (mkSt t (gaid s) l, OK)       (* attach to / detach from a container *)
      | OAsset => inl EAttr                       (* AssetInformation has no entity type; never generated *)
      end
  | SetGaid g =>
      match validate_gid g with                   (* _validate_global_asset_id comes first *)
      | Some e => inl e
      | None => inr (mkSt (etype s) g l, OK)
      end
  end.

(* ConstrainedList.__delitem__ for a slice: dry run, highest index first *)
Fixpoint del_dry_run (o : owner) (s : st) (n_cur : Z) (k : nat) : option err :=
  match k with
  | O => None
  | S k' => orelse (del_hook o s n_cur) (del_dry_run o s (n_cur - 1) k')
  end.

(* the hook calls made by the operation, evaluated on the state BEFORE the operation *)
Definition hooks (o : owner) (s : st) (p : op) : option err :=
  let l := items s in
  match p with
  | Append _ | Insert _ _ => add_hook o s
  | Extend xs | IAdd xs => first_some (fun _ => add_hook o s) xs   (* once per new item, same owner state *)
  | Pop _ | Remove _ | DelItem _ => del_hook o s (len l)
  | Clear => del_dry_run o s (len l) (length l)
  | SetItem _ _ => set_hook o s (len l) 1 1
  | SetSlice start stop xs =>
      let '(lo, hi) := slice_bounds l start stop in set_hook o s (len l) (hi - lo) (len xs)
  | SetList xs => set_hook o s (len l) (len l) (len xs)
  | DelSlice start stop =>
      let '(lo, hi) := slice_bounds l start stop in del_dry_run o s (len l) (Z.to_nat (hi - lo))
  | DelXSlice start stop step =>                  (* the same dry run, highest selected index first *)
      del_dry_run o s (len l) (xcount l start stop step)
  | SetType t => match o with OSem => None | _ => validate o t (gaid s) (nonempty l) end
  | SetGaid g =>
      match o with
      | OSem => sem_setter_check (negb (g_present g)) (len l) (etype s) false   (* no SDK namespace is keyed by semantic id *)
      | _ => validate o (etype s) g (nonempty l)
      end
  | ExtendBad | SetSliceBad _ _ => None
  end.

Definition step1 (o : owner) (s : st) (p : op) : st * out :=
  match effect o s p with
  | inl e => (s, Err e)
  | inr (s', v) =>
      match hooks o s p with
      | Some e => (s, Err e)
      | None => (s', v)
      end
  end.

(* `owner.specific_asset_id += xs` is two calls: ConstrainedList.__iadd__ (extend) and then the
   property setter with the very same list (self._list[:] = list(self)); a failure of the second
   would leave the effect of the first *)
Definition step (o : owner) (s : st) (p : op) : st * out :=
  match p with
  | IAdd xs =>
      match step1 o s (Extend xs) with
      | (s1, OK) => step1 o s1 (SetList (items s1))
      | r => r
      end
  | _ => step1 o s p
  end.

(* constructors: Entity(entity_type, global_asset_id, specific_asset_id) /
   AssetInformation(global_asset_id, specific_asset_id); None = raised.
   HasSemantics classes: self.semantic_id = g; self.supplemental_semantic_id = ConstrainedList(xs),
   i.e. the two setters on the fresh object (semantic_id None, empty list). *)
Definition ctor (o : owner) (t : bool) (g : garg) (xs : list nat) : option st * option err :=
  let s0 := mkSt t g [] in
  match o with
  | OSem =>
      match set_hook o s0 0 0 (len xs) with
      | Some e => (None, Some e)
      | None => (Some (mkSt t g xs), None)
      end
  | _ =>
  match first_some (fun _ => add_hook o s0) xs with            (* ConstrainedList(items, hooks) -> extend *)
  | Some e => (None, Some e)
  | None =>
      match orelse (validate_gid g) (validate o t g (nonempty xs)) with
      | Some e => (None, Some e)
      | None => (Some (mkSt t g xs), None)
      end
  end
  end.

Fixpoint run (o : owner) (s : st) (ops : list op) : st :=
  match ops with
  | [] => s
  | p :: r => run o (fst (step o s p)) r
  end.

(* ===================================================================================== *)
(* Part B - small state machines                                                          *)
(* ===================================================================================== *)

(* ---- AdministrativeInformation (AASd-005), base.py AdministrativeInformation -------- *)
(* a string argument: None, a valid VersionType/RevisionType, an invalid non-empty string, "" *)
Inductive sarg : Type := SNone | SOk (n : nat) | SBad | SEmpty.
Definition s_none (a : sarg) : bool := match a with SNone => true | _ => false end.
Definition s_truthy (a : sarg) : bool := match a with SNone | SEmpty => false | _ => true end.
(* `if a is not None: check_version_type(a)` *)
Definition s_check (a : sarg) : option err := match a with SBad | SEmpty => Some EValue | _ => None end.

Record adm : Type := mkAdm { aver : sarg; arev : sarg }.
Inductive aop : Type := SetVersion (a : sarg) | SetRevision (a : sarg).

Definition astep (s : adm) (p : aop) : adm * option err :=
  match p with
  | SetVersion a =>                                  (* _set_version *)
      if s_none a && negb (s_none (arev s)) then (s, Some (EAASd 5))
      else match s_check a with
           | Some e => (s, Some e)
           | None => (mkAdm a (arev s), None)
           end
  | SetRevision a =>                                 (* _set_revision: `self.version is None and revision` *)
      if s_none (aver s) && s_truthy a then (s, Some (EAASd 5))
      else match s_check a with
           | Some e => (s, Some e)
           | None => (mkAdm (aver s) a, None)
           end
  end.

(* __init__: self.version = version (no _revision attribute yet); self.revision = revision *)
Definition actor (v r : sarg) : option adm * option err :=
  match s_check v with
  | Some e => (None, Some e)
  | None =>
      match astep (mkAdm v SNone) (SetRevision r) with
      | (_, Some e) => (None, Some e)
      | (s, None) => (Some s, None)
      end
  end.

Fixpoint arun (s : adm) (ops : list aop) : adm :=
  match ops with [] => s | p :: r => arun (fst (astep s p)) r end.

(* ---- BasicEventElement direction / max_interval / last_update ------------------------- *)
(* The three setter conditions are translated from the source (gen/Gen_BeeChecks.v); a
   max_interval is None, a zero-length (falsy) Duration, or a non-zero Duration. *)
Record bee : Type := mkBee { bin : bool (* direction = INPUT *); bmax : pv (* max_interval *); blast : upd }.
Inductive bop : Type := SetDirection (input : bool) | SetMaxInterval (m : pv) | SetLastUpdate (u : upd).

Definition bstep (s : bee) (p : bop) : bee * option err :=
  match p with
  | SetDirection d =>
      match bee_direction_check d (bmax s) with
      | Some e => (s, Some e)
      | None => (mkBee d (bmax s) (blast s), None)
      end
  | SetMaxInterval m =>
      match bee_max_interval_check m (bin s) with
      | Some e => (s, Some e)
      | None => (mkBee (bin s) m (blast s), None)
      end
  | SetLastUpdate u =>
      match bee_last_update_check u with
      | Some e => (s, Some e)
      | None => (mkBee (bin s) (bmax s) u, None)
      end
  end.

(* __init__ (the order is checked by the translator): max_interval = None; direction = d;
   last_update = u; max_interval = m - each through its setter.  (The first setter call runs
   before _direction exists; a condition that read it there would raise AttributeError, which
   the model does not represent - the SDK run would show it.) *)
Definition bctor (d : bool) (u : upd) (m : pv) : option bee * option err :=
  match seqs [bee_max_interval_check PNone d; bee_direction_check d PNone] with
  | Some e => (None, Some e)
  | None =>
      match bstep (mkBee d PNone UNone) (SetLastUpdate u) with
      | (_, Some e) => (None, Some e)
      | (s1, None) =>
          match bstep s1 (SetMaxInterval m) with
          | (_, Some e) => (None, Some e)
          | (s2, None) => (Some s2, None)
          end
      end
  end.

Fixpoint brun (s : bee) (ops : list bop) : bee :=
  match ops with [] => s | p :: r => brun (fst (bstep s p)) r end.

(* ---- category (AASd-090, AASd-100, NameType) ------------------------------------------------ *)
Inductive ckind : Type := CDataElement (* Property, Range, MultiLanguageProperty, ReferenceElement *)
                        | CFileBlob | COther (* every other Referable: Referable._set_category *).
Inductive carg : Type := CNone | CAllowed (* CONSTANT, PARAMETER, VARIABLE *) | CValidOther (* another valid NameType *)
                       | CEmpty | CInvalid (* a non-empty string that is not a NameType *).

(* the category setter; None = stored *)
Definition set_category (k : ckind) (a : carg) : option err :=
  match k with
  | COther => match a with CEmpty | CInvalid => Some EValue | _ => None end
  | _ =>
      match a with
      | CEmpty => Some (EAASd 100)
      | CNone => None
      | CAllowed => None
      | CValidOther => match k with CFileBlob => None | _ => Some (EAASd 90) end
      | CInvalid => match k with CFileBlob => Some EValue | _ => Some (EAASd 90) end
      end
  end.

(* ---- LangStringSet / ConstrainedLangStringSet --------------------------------------------- *)
(* keys are language tags from a pool; [tag_ok k] = the tag passes _check_language_tag_constraints
   (pool convention of the harness: ids below 3 are valid tags); an entry carries whether its
   text satisfies the set's text constraint *)
Definition tag_ok (k : nat) : bool := Nat.ltb k 3.
Definition lss := list (nat * bool).

Fixpoint lset (l : lss) (k : nat) (t : bool) : lss :=
  match l with
  | [] => [(k, t)]
  | x :: r => if Nat.eqb (fst x) k then (k, t) :: r else x :: lset r k t
  end.
Fixpoint lmem (l : lss) (k : nat) : bool :=
  match l with [] => false | x :: r => Nat.eqb (fst x) k || lmem r k end.
Fixpoint lremove (l : lss) (k : nat) : lss :=
  match l with
  | [] => []
  | x :: r => if Nat.eqb (fst x) k then r else x :: lremove r k
  end.

Inductive lop : Type :=
| LSet (k : nat) (t : bool) | LDel (k : nat) | LClear | LPop (k : nat) | LPopItem
| LSetDefault (k : nat) (t : bool) | LUpdate (kvs : list (nat * bool)).

(* c = true: ConstrainedLangStringSet (text constraint checked first) *)
Definition l_setitem (c : bool) (l : lss) (k : nat) (t : bool) : lss * option err :=
  if c && negb t then (l, Some EValue)
  else if negb (tag_ok k) then (l, Some EValue)
  else (lset l k t, None).
Definition l_delitem (l : lss) (k : nat) : lss * option err :=
  if (len l =? 1) then (l, Some EKey)
  else if lmem l k then (lremove l k, None) else (l, Some EKey).

(* MutableMapping.update: one __setitem__ per pair, not atomic *)
Fixpoint l_update_raw (c : bool) (l : lss) (kvs : list (nat * bool)) : lss * option err :=
  match kvs with
  | [] => (l, None)
  | (k, t) :: r =>
      match l_setitem c l k t with
      | (l', None) => l_update_raw c l' r
      | (l', Some e) => (l', Some e)
      end
  end.

Definition lstep (c : bool) (l : lss) (p : lop) : lss * option err :=
  match p with
  | LSet k t => l_setitem c l k t
  | LDel k => l_delitem l k
  | LClear => (l, Some EKey)
  | LPop k => if lmem l k then l_delitem l k else (l, Some EKey)     (* value = self[key]; del self[key] *)
  | LPopItem => match l with [] => (l, Some EKey) | x :: _ => l_delitem l (fst x) end
  | LSetDefault k t => if lmem l k then (l, None) else l_setitem c l k t
  | LUpdate kvs =>                                  (* LangStringSet.update restores the old content on error *)
      match l_update_raw c l kvs with
      | (l', None) => (l', None)
      | (_, Some e) => (l, Some e)
      end
  end.

(* __init__(dict_) with distinct keys: non-empty, every tag checked, then (constrained) every text *)
Definition lctor (c : bool) (kvs : list (nat * bool)) : option lss * option err :=
  if (len kvs =? 0) then (None, Some EValue)
  else if negb (forallb (fun e => tag_ok (fst e)) kvs) then (None, Some EValue)
  else if c && negb (forallb (fun e => snd e) kvs) then (None, Some EValue)
  else (Some kvs, None).

Fixpoint lrun (c : bool) (l : lss) (ops : list lop) : lss :=
  match ops with [] => l | p :: r => lrun c (fst (lstep c l p)) r end.

(* ===================================================================================== *)
(* Part C - SubmodelElementList._check_constraints (AASd-107/108/109/114/120), pure       *)
(* ===================================================================================== *)
(* submodel.py SubmodelElementList._generate_id_short + _check_constraints: the new element
   against the list's attributes and the elements already contained.  An element: its concrete
   class (id), its value_type (id; meaningful for Property/Range), its semantic_id, and whether
   it comes with an id_short.  The list: type_value_list_element (id), for an abstract
   type_value_list_element (SubmodelElement, DataElement, EventElement) the ids of its concrete
   subclasses (else []), whether it is Property or Range, value_type_list_element,
   semantic_id_list_element. *)
Record elem : Type := mkElem { ety : nat; evt : nat; esem : option nat; ehasid : bool }.
Record lcfg : Type := mkCfg { tle : nat; members : list nat; prop_or_range : bool;
                              vtle : option nat; semle : option nat }.

Definition type_ok (c : lcfg) (e : elem) : bool :=
  Nat.eqb (ety e) (tle c) || existsb (Nat.eqb (ety e)) (members c).
Definition vt_ok (c : lcfg) (e : elem) : bool :=
  match vtle c with Some v => Nat.eqb (evt e) v | None => false end.

Definition check_new (c : lcfg) (e : elem) (existing : list elem) : option err :=
  seqs [ when (ehasid e) (Some (EAASd 120));                         (* _generate_id_short (id set hook) *)
         when (negb (type_ok c e)) (Some (EAASd 108));
         match semle c, esem e with
         | Some s, Some s' => when (negb (Nat.eqb s' s)) (Some (EAASd 107))
         | _, _ => None
         end;
         when (prop_or_range c && negb (vt_ok c e)) (Some (EAASd 109));
         match esem e, semle c with
         | Some s, None =>
             first_some (fun x => match esem x with
                                  | Some s' => when (negb (Nat.eqb s s')) (Some (EAASd 114))
                                  | None => None
                                  end) existing
         | _, _ => None
         end ].

(* __init__: Property/Range lists need a value_type_list_element *)
Definition cfg_check (c : lcfg) : option err :=
  when (prop_or_range c && match vtle c with None => true | _ => false end) (Some (EAASd 109)).

(* a history of single additions (add / append / insert / the items of extend, of the constructor
   and of the value setter, one after the other); a refused element is skipped *)
Fixpoint sml_adds (c : lcfg) (l : list elem) (es : list elem) : list elem * list (option err) :=
  match es with
  | [] => (l, [])
  | e :: r =>
      match check_new c e l with
      | Some x => let '(l', o) := sml_adds c l r in (l', Some x :: o)
      | None => let '(l', o) := sml_adds c (l ++ [e]) r in (l', None :: o)
      end
  end.

(* multi-element calls: extend / += add one item after the other and roll back on a refusal; the
   value setter empties the list, extends, and restores the previous content on a refusal *)
Fixpoint sml_extend_raw (c : lcfg) (l : list elem) (es : list elem) : list elem + err :=
  match es with
  | [] => inl l
  | e :: r => match check_new c e l with
              | Some x => inr x
              | None => sml_extend_raw c (l ++ [e]) r
              end
  end.
Inductive sop : Type := SAdd (e : elem) | SExtend (es : list elem) | SSetValue (es : list elem).
Definition sml_step (c : lcfg) (l : list elem) (p : sop) : list elem * option err :=
  match p with
  | SAdd e => match check_new c e l with Some x => (l, Some x) | None => (l ++ [e], None) end
  | SExtend es => match sml_extend_raw c l es with inl l' => (l', None) | inr x => (l, Some x) end
  | SSetValue es => match sml_extend_raw c [] es with inl l' => (l', None) | inr x => (l, Some x) end
  end.
Fixpoint sml_run (c : lcfg) (l : list elem) (ops : list sop) : list elem * list (option err) :=
  match ops with
  | [] => (l, [])
  | p :: r => let '(l1, o) := sml_step c l p in let '(l2, os) := sml_run c l1 r in (l2, o :: os)
  end.
