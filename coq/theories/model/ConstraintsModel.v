(* C02 - hand-written executable models of the stateful constraint mechanisms, statement by
   statement (tie C: run against the SDK classes by tools/c02.py).  Definitions only.

   Part A: base.ConstrainedList with the hooks of submodel.Entity (AASd-014) and
           aas.AssetInformation (AASd-131)            base.py:1294-1395, submodel.py:1091-1182,
                                                       aas.py:52-113
   Part B: AdministrativeInformation (AASd-005), HasSemantics (AASd-118), DataElement.category
           (AASd-090), typed values (AASd-020), BasicEventElement, LangStringSet            *)
From Coq Require Import List ZArith Bool.
From Basyx Require Import model.ConstraintsBase.
Import ListNotations.
Local Open Scope Z_scope.

(* ===================================================================================== *)
(* Part A                                                                                 *)
(* ===================================================================================== *)

(* a global_asset_id argument: None, a valid Identifier (token), or a string that
   _string_constraints.check_identifier rejects *)
Inductive garg : Type := GNone | GOk (n : nat) | GBad.
Definition g_present (g : garg) : bool := match g with GNone => false | _ => true end.

(* OSem: any HasSemantics object; gaid = the semantic_id (absent / present), items = the
   supplemental_semantic_id list (AASd-118) *)
Inductive owner : Type := OEntity | OAsset | OSem.

(* etype: true = SELF_MANAGED_ENTITY (unused for AssetInformation); items: the
   SpecificAssetId objects, by pool index *)
Record st : Type := mkSt { etype : bool; gaid : garg; items : list nat }.

(* _validate_aasd_014 / _validate_aasd_131 *)
Definition validate (o : owner) (t : bool) (g : garg) (nonempty : bool) : option err :=
  match o with
  | OEntity =>
      if t && negb (g_present g) && negb nonempty then Some (EAASd 14)
      else if negb t && (g_present g || nonempty) then Some (EAASd 14)
      else None
  | OAsset =>
      if negb (g_present g) && negb nonempty then Some (EAASd 131)
      else match g with GBad => Some EValue | _ => None end     (* aas.py:112 re-checks the identifier *)
  | OSem =>                                                       (* base.py:1423-1431 *)
      if negb (g_present g) && nonempty then Some (EAASd 118) else None
  end.

(* _validate_global_asset_id *)
Definition validate_gid (g : garg) : option err := match g with GBad => Some EValue | _ => None end.

(* the three hooks, as registered by the two owners *)
Definition add_hook (o : owner) (s : st) : option err :=
  match o with
  | OEntity => validate o (etype s) (gaid s) true
  | OAsset => None                                       (* AssetInformation registers no add hook *)
  | OSem => validate o (etype s) (gaid s) true           (* _check_constraint_add *)
  end.
Definition set_hook (o : owner) (s : st) (n_old n_replaced n_new : Z) : option err :=
  match o with
  | OSem => validate o (etype s) (gaid s) (n_new >? 0)   (* _check_constraint_set looks at new_items only *)
  | _ => validate o (etype s) (gaid s) (n_old - n_replaced + n_new >? 0)
  end.
Definition del_hook (o : owner) (s : st) (n_cur : Z) : option err :=
  match o with
  | OSem => None                                         (* HasSemantics registers no del hook *)
  | _ => validate o (etype s) (gaid s) (n_cur >? 1)
  end.

(* ---- Python list semantics ---------------------------------------------------------- *)
Definition zfirstn {A} (n : Z) (l : list A) : list A := firstn (Z.to_nat n) l.
Definition zskipn {A} (n : Z) (l : list A) : list A := skipn (Z.to_nat n) l.

(* l[i] for an int index: IndexError unless -len <= i < len *)
Definition norm_index {A} (l : list A) (i : Z) : option Z :=
  let n := len l in
  let j := if i <? 0 then i + n else i in
  if (0 <=? j) && (j <? n) then Some j else None.

(* list.insert clamps *)
Definition insert_pos {A} (l : list A) (i : Z) : Z :=
  let n := len l in
  let j := if i <? 0 then i + n else i in
  if j <? 0 then 0 else if n <? j then n else j.

(* slice(start, stop).indices(len) for step 1, with stop raised to start *)
Definition clamp_bound (n : Z) (b : option Z) (dflt : Z) : Z :=
  match b with
  | None => dflt
  | Some v => let j := if v <? 0 then v + n else v in
              if j <? 0 then 0 else if n <? j then n else j
  end.
Definition slice_bounds {A} (l : list A) (start stop : option Z) : Z * Z :=
  let n := len l in
  let lo := clamp_bound n start 0 in
  let hi := clamp_bound n stop n in
  (lo, if hi <? lo then lo else hi).

Definition list_insert {A} (l : list A) (i : Z) (x : A) : list A :=
  let p := insert_pos l i in zfirstn p l ++ x :: zskipn p l.
Definition list_del {A} (l : list A) (j : Z) : list A := zfirstn j l ++ zskipn (j + 1) l.
Definition list_set {A} (l : list A) (j : Z) (x : A) : list A := zfirstn j l ++ x :: zskipn (j + 1) l.
Definition list_set_slice {A} (l : list A) (lo hi : Z) (xs : list A) : list A :=
  zfirstn lo l ++ xs ++ zskipn hi l.
Definition list_del_slice {A} (l : list A) (lo hi : Z) : list A := zfirstn lo l ++ zskipn hi l.

Fixpoint index_of (x : nat) (l : list nat) (pos : Z) : option Z :=
  match l with
  | [] => None
  | y :: r => if Nat.eqb x y then Some pos else index_of x r (pos + 1)
  end.

(* ---- operations --------------------------------------------------------------------- *)
Inductive op : Type :=
| Append (x : nat)
| Insert (i : Z) (x : nat)
| Extend (xs : list nat)              (* list or one-shot iterator: extend() materialises first *)
| ExtendBad                           (* a non-iterable argument *)
| IAdd (xs : list nat)                (* owner.specific_asset_id += xs : extend, then the property setter *)
| Pop (i : option Z)
| Remove (x : nat)
| Clear
| SetItem (i : Z) (x : nat)
| DelItem (i : Z)
| SetSlice (start stop : option Z) (xs : list nat)   (* list or one-shot iterator argument *)
| SetSliceBad (start stop : option Z)                 (* non-iterable right-hand side *)
| DelSlice (start stop : option Z)
| SetList (xs : list nat)             (* owner.specific_asset_id = xs  (list or iterator) *)
| SetType (t : bool)                  (* Entity only; plain attribute on AssetInformation is not modelled *)
| SetGaid (g : garg).

Inductive out : Type := OK | OVal (x : nat) | Err (e : err).

Definition upd_items (s : st) (l : list nat) : st := mkSt (etype s) (gaid s) l.
Definition nonempty (l : list nat) : bool := negb (len l =? 0).

(* What the operation does to the object when no hook objects: plain Python list / attribute
   semantics.  inl e = Python itself raises (IndexError, ValueError of list.index, TypeError of
   list(<non-iterable>), ValueError of check_identifier) before any hook runs. *)
Definition effect (o : owner) (s : st) (p : op) : err + (st * out) :=
  let l := items s in
  match p with
  | Append x => inr (upd_items s (list_insert l (len l) x), OK)   (* append = insert(len(self), x) *)
  | Insert i x => inr (upd_items s (list_insert l i x), OK)
  | Extend xs | IAdd xs => inr (upd_items s (l ++ xs), OK)
  | ExtendBad | SetSliceBad _ _ => inl EType
  | Pop i =>                                      (* v = self[i]; del self[i]; return v *)
      let i' := match i with Some v => v | None => -1 end in
      match norm_index l i' with
      | None => inl EIndex
      | Some j => inr (upd_items s (list_del l j), OVal (nth (Z.to_nat j) l O))
      end
  | Remove x =>                                   (* del self[self.index(x)] *)
      match index_of x l 0 with
      | None => inl EValue
      | Some j => inr (upd_items s (list_del l j), OK)
      end
  | Clear => inr (upd_items s [], OK)             (* del self[:] *)
  | SetItem i x =>
      match norm_index l i with
      | None => inl EIndex
      | Some j => inr (upd_items s (list_set l j x), OK)
      end
  | DelItem i =>
      match norm_index l i with
      | None => inl EIndex
      | Some j => inr (upd_items s (list_del l j), OK)
      end
  | SetSlice start stop xs =>
      let '(lo, hi) := slice_bounds l start stop in inr (upd_items s (list_set_slice l lo hi xs), OK)
  | SetList xs => inr (upd_items s xs, OK)        (* self._list[:] = xs *)
  | DelSlice start stop =>
      let '(lo, hi) := slice_bounds l start stop in inr (upd_items s (list_del_slice l lo hi), OK)
  | SetType t =>
      match o with
      | OEntity => inr (mkSt t (gaid s) l, OK)
      | _ => inl EAttr                            (* only Entity has an entity type; never generated *)
      end
  | SetGaid g =>
      match validate_gid g with                   (* _validate_global_asset_id comes first *)
      | Some e => inl e
      | None => inr (mkSt (etype s) g l, OK)
      end
  end.

(* ConstrainedList.__delitem__ for a slice: dry run, highest index first *)
Fixpoint del_dry_run (o : owner) (s : st) (n_cur : Z) (k : nat) : option err :=
  match k with
  | O => None
  | S k' => orelse (del_hook o s n_cur) (del_dry_run o s (n_cur - 1) k')
  end.

(* the hook calls made by the operation, evaluated on the state BEFORE the operation *)
Definition hooks (o : owner) (s : st) (p : op) : option err :=
  let l := items s in
  match p with
  | Append _ | Insert _ _ => add_hook o s
  | Extend xs | IAdd xs => first_some (fun _ => add_hook o s) xs   (* once per new item, same owner state *)
  | Pop _ | Remove _ | DelItem _ => del_hook o s (len l)
  | Clear => del_dry_run o s (len l) (length l)
  | SetItem _ _ => set_hook o s (len l) 1 1
  | SetSlice start stop xs =>
      let '(lo, hi) := slice_bounds l start stop in set_hook o s (len l) (hi - lo) (len xs)
  | SetList xs => set_hook o s (len l) (len l) (len xs)
  | DelSlice start stop =>
      let '(lo, hi) := slice_bounds l start stop in del_dry_run o s (len l) (Z.to_nat (hi - lo))
  | SetType t => validate o t (gaid s) (nonempty l)
  | SetGaid g => validate o (etype s) g (nonempty l)
  | ExtendBad | SetSliceBad _ _ => None
  end.

Definition step1 (o : owner) (s : st) (p : op) : st * out :=
  match effect o s p with
  | inl e => (s, Err e)
  | inr (s', v) =>
      match hooks o s p with
      | Some e => (s, Err e)
      | None => (s', v)
      end
  end.

(* `owner.specific_asset_id += xs` is two calls: ConstrainedList.__iadd__ (extend) and then the
   property setter with the very same list (self._list[:] = list(self)); a failure of the second
   would leave the effect of the first *)
Definition step (o : owner) (s : st) (p : op) : st * out :=
  match p with
  | IAdd xs =>
      match step1 o s (Extend xs) with
      | (s1, OK) => step1 o s1 (SetList (items s1))
      | r => r
      end
  | _ => step1 o s p
  end.

(* constructors: Entity(entity_type, global_asset_id, specific_asset_id) /
   AssetInformation(global_asset_id, specific_asset_id); None = raised.
   HasSemantics classes: self.semantic_id = g; self.supplemental_semantic_id = ConstrainedList(xs),
   i.e. the two setters on the fresh object (semantic_id None, empty list). *)
Definition ctor (o : owner) (t : bool) (g : garg) (xs : list nat) : option st * option err :=
  let s0 := mkSt t g [] in
  match o with
  | OSem =>
      match set_hook o s0 0 0 (len xs) with
      | Some e => (None, Some e)
      | None => (Some (mkSt t g xs), None)
      end
  | _ =>
  match first_some (fun _ => add_hook o s0) xs with            (* ConstrainedList(items, hooks) -> extend *)
  | Some e => (None, Some e)
  | None =>
      match orelse (validate_gid g) (validate o t g (nonempty xs)) with
      | Some e => (None, Some e)
      | None => (Some (mkSt t g xs), None)
      end
  end
  end.

Fixpoint run (o : owner) (s : st) (ops : list op) : st :=
  match ops with
  | [] => s
  | p :: r => run o (fst (step o s p)) r
  end.
