(* C09 - effect model of the top-level list walk of read_aas_json_file_into
   (json_deserialization.py, the loop over 'assetAdministrationShells', 'submodels',
   'conceptDescriptions') and read_aas_xml_file_into (xml_deserialization.py, the loop over the
   children of the root), statement by statement.  Definitions only.

   A document is abstracted to its top-level lists; every item is abstracted to the result of decoding
   it *alone* (the constructors are class methods without state, so that result does not depend on the
   neighbours - validated by the correspondence run of tools/c09.py, which computes the abstraction of every
   item by reading it in a document of its own). *)
From Coq Require Import List Bool ZArith.
From Basyx Require Import model.ReaderFlow model.Corr.
Import ListNotations.
Local Open Scope Z_scope.

Inductive fmt := JSON | XML.
Inductive okind := KShell | KSubmodel | KCD.                  (* class of an identifiable *)
Inductive lkind := LKnown (k : okind) | LUnknown.             (* top-level list *)

Inductive item :=
| IObj (c : okind) (id : Z) (payload : Z) (se : option exn)
                                            (* decodes (failsafe) to an identifiable of class c, payload = token of its
                                               content; se = Some e: a nested part is defective - failsafe drops that part,
                                               strict raises e; se = None: strict decodes to the same object *)
| IBroken (e : exn)                         (* an AAS object whose construction fails; e = class raised in strict mode *)
| IOther.                                   (* JSON: any value that is not an identifiable (number, dict without / with a
                                               foreign modelType, a Property ...); XML: a child with another tag *)

(* a top-level list; None = the JSON member is not a list (skipped by _get_ts ... except: continue) *)
Definition doc := list (lkind * option (list item)).

Record flags := { fl_replace : bool; fl_ignore : bool }.
Definition store := list (Z * Z).                             (* identifier -> payload *)
Definition state := (store * list Z)%type.                    (* object store, `ret` *)

Inductive res (A : Type) := ROk (a : A) | RErr (e : exn).
Arguments ROk {A} a. Arguments RErr {A} e.

Definition okind_eqb (a b : okind) : bool :=
  match a, b with KShell, KShell | KSubmodel, KSubmodel | KCD, KCD => true | _, _ => false end.
Fixpoint lookup (s : store) (k : Z) : option Z :=
  match s with [] => None | (i, p) :: r => if Z.eqb i k then Some p else lookup r k end.
Definition discard (s : store) (k : Z) : store := filter (fun ip => negb (Z.eqb (fst ip) k)) s.
Definition memz (k : Z) (l : list Z) : bool := existsb (Z.eqb k) l.

(* lines "if item.id in ret: ... existing_element = object_store.get(item.id) ... object_store.add(item); ret.add(item.id)" *)
Definition accept (m : bool) (fl : flags) (id p : Z) (s : state) : res state :=
  let (st, ret) := s in
  if memz id ret then (if m then ROk s else RErr KeyError)          (* duplicate identifier in the document *)
  else match lookup st id with
       | Some _ =>
           if fl_replace fl then ROk ((id, p) :: discard st id, id :: ret)
           else if fl_ignore fl then ROk s
           else RErr KeyError                                          (* raised in both modes *)
       | None => ROk ((id, p) :: st, id :: ret)
       end.

Definition step (f : fmt) (m : bool) (fl : flags) (l : okind) (it : item) (s : state) : res state :=
  match it with
  | IObj c id p se =>
      if okind_eqb l c then
        match se, m with
        | Some e, false => RErr e                        (* XML: _failsafe_construct re-raises (JSON: raised at load time) *)
        | _, _ => accept m fl id p s
        end
      else match f with
           | JSON => if m then accept m fl id p s       (* "was in wrong list; nevertheless, we'll use it" *)
                     else RErr TypeError
           | XML => if m then ROk s else RErr KeyError   (* _get_all_children_expect_tag: tag mismatch *)
           end
  | IBroken e =>
      match f with
      | JSON => if m then ROk s else RErr TypeError      (* the raw dict is logged and skipped *)
      | XML => if m then ROk s else RErr e               (* _failsafe_construct returns None / re-raises *)
      end
  | IOther => if m then ROk s else RErr (match f with JSON => TypeError | XML => KeyError end)
  end.

Fixpoint run_items (f : fmt) (m : bool) (fl : flags) (l : okind) (its : list item) (s : state) : res state :=
  match its with
  | [] => ROk s
  | it :: r => match step f m fl l it s with
               | ROk s' => run_items f m fl l r s'
               | RErr e => RErr e
               end
  end.

(* XML: the lists in document order; an unknown list is skipped (failsafe) or a TypeError (strict) *)
Fixpoint run_xml (m : bool) (fl : flags) (d : doc) (s : state) : res state :=
  match d with
  | [] => ROk s
  | (LUnknown, _) :: r => if m then run_xml m fl r s else RErr TypeError
  | (LKnown k, o) :: r =>
      match run_items XML m fl k (match o with Some its => its | None => [] end) s with
      | ROk s' => run_xml m fl r s'
      | RErr e => RErr e
      end
  end.

(* JSON: the three names in fixed order; json.loads keeps one value per name, so a document has at most one list
   per known kind (tools/c09.py builds the abstraction from json.loads' result) *)
Definition lkind_is (k : okind) (l : lkind) : bool :=
  match l with LKnown k' => okind_eqb k k' | LUnknown => false end.
Fixpoint run_json_kind (m : bool) (fl : flags) (k : okind) (d : doc) (s : state) : res state :=
  match d with
  | [] => ROk s
  | (l, o) :: r =>
      if lkind_is k l then
        match run_items JSON m fl k (match o with Some its => its | None => [] end) s with
        | ROk s' => run_json_kind m fl k r s'
        | RErr e => RErr e
        end
      else run_json_kind m fl k r s
  end.
Definition bind {A B} (r : res A) (g : A -> res B) : res B := match r with ROk a => g a | RErr e => RErr e end.
Definition run_json (m : bool) (fl : flags) (d : doc) (s : state) : res state :=
  bind (run_json_kind m fl KShell d s) (fun s1 =>
  bind (run_json_kind m fl KSubmodel d s1) (fun s2 => run_json_kind m fl KCD d s2)).

(* JSON strict: object_hook runs inside json.load, before the walk, on every object of the document
   (also below unknown names): the first broken object raises *)
Definition all_items (d : doc) : list item :=
  flat_map (fun lo => match snd lo with Some its => its | None => [] end) d.
Definition strict_exn (it : item) : option exn :=
  match it with IBroken e => Some e | IObj _ _ _ (Some e) => Some e | _ => None end.
Fixpoint first_broken (its : list item) : option exn :=
  match its with
  | [] => None
  | it :: r => match strict_exn it with Some e => Some e | None => first_broken r end
  end.

Definition walk (f : fmt) (m : bool) (fl : flags) (d : doc) (st : store) : res state :=
  match f with
  | XML => run_xml m fl d (st, [])
  | JSON => if m then run_json m fl d (st, [])
            else match first_broken (all_items d) with
                 | Some e => RErr e
                 | None => run_json m fl d (st, [])
                 end
  end.

Definition lookup_result (f : fmt) (fl : flags) (d : doc) (st : store) (k : Z) : option Z :=
  match walk f true fl d st with ROk (s, _) => lookup s k | RErr _ => None end.

(* no identifier conflict with the target store can raise: a flag is set or the store is empty *)
Definition conflict_free (fl : flags) (st : store) : bool :=
  fl_replace fl || fl_ignore fl || match st with [] => true | _ => false end.

(* ---- relations used by the isolation theorem *)
Definition item_id (it : item) : option Z := match it with IObj _ id _ _ => Some id | _ => None end.
(* b is a (possibly) damaged version of a, neither involving identifier k *)
Definition item_rel (k : Z) (a b : item) : Prop := a = b \/ (item_id a <> Some k /\ item_id b <> Some k).
Definition list_rel (k : Z) (a b : lkind * option (list item)) : Prop :=
  fst a = fst b /\ match snd a, snd b with
                   | Some x, Some y => Forall2 (item_rel k) x y
                   | None, None => True
                   | _, _ => False
                   end.
Definition doc_rel (k : Z) (d d' : doc) : Prop := Forall2 (list_rel k) d d'.

(* ---- observation for the correspondence (tools/c09.py): result class and sorted store *)
Definition exn_z (e : exn) : Z := Z.of_nat (exn_code e).
Fixpoint insert_sorted (x : Z * Z) (l : list (Z * Z)) : list (Z * Z) :=
  match l with [] => [x] | y :: r => if Z.leb (fst x) (fst y) then x :: l else y :: insert_sorted x r end.
Definition sort_store (s : store) : list (Z * Z) := fold_right insert_sorted [] s.
Definition obs_walk (r : res state) : list Z :=
  match r with
  | RErr e => [1; exn_z e]
  | ROk (s, ret) => 0 :: Z.of_nat (length ret) :: flat_map (fun ip => [fst ip; snd ip]) (sort_store s)
  end.
Definition okind_of_z (z : Z) : okind := if Z.eqb z 0 then KShell else if Z.eqb z 1 then KSubmodel else KCD.

(* one correspondence case: (format 0 = JSON / 1 = XML, failsafe, replace_existing, ignore_existing, document,
   initial store, hash of the observation made on the SDK) *)
Definition check_walk (c : Z * bool * bool * bool * doc * store * Z) : bool :=
  let '(f, m, rp, ig, d, st, h) := c in
  Z.eqb (hash_zl 0 (obs_walk (walk (if Z.eqb f 0 then JSON else XML) m {| fl_replace := rp; fl_ignore := ig |} d st))) h.
