(* C06 - shared definitions of the XSD lexical-mapping model: characters, results, decimal
   numerals, Python string helpers, XSD whitespace.  Definitions only (proofs: proofs/XsdBaseProofs.v).

   Text is modelled as [list ascii] = the UTF-8 bytes of the Python str.  Every scanner of the
   (repaired) SDK is ASCII-only (re.ASCII, explicit [0-9] classes), so a byte >= 128 can only be
   accepted by the three string types, whose mapping is the identity. *)
From Coq Require Import List ZArith Bool Ascii String.
Import ListNotations.
Local Open Scope Z_scope.

Definition str := list ascii.
Definition L (s : string) : str := list_ascii_of_string s.

(* exception classes raised by datatypes.py (subclasses are mapped to their documented base:
   binascii.Error and decimal.InvalidOperation-turned-ValueError count as ValueError) *)
Inductive exc := ValueError | TypeError.
Inductive res (A : Type) := Ok (a : A) | Err (e : exc).
Arguments Ok {A} a.
Arguments Err {A} e.
Definition bind {A B} (r : res A) (f : A -> res B) : res B :=
  match r with Ok a => f a | Err e => Err e end.
Notation "'let*' x ':=' r 'in' k" := (bind r (fun x => k)) (at level 200, x pattern, r at level 100, k at level 200).
Definition is_ok {A} (r : res A) : bool := match r with Ok _ => true | Err _ => false end.

(* code point of a byte (= Z.of_N (N_of_ascii c), see XsdBaseProofs.code_N; written out for speed) *)
Definition code (c : ascii) : Z :=
  match c with
  | Ascii b0 b1 b2 b3 b4 b5 b6 b7 =>
    (if b0 then 1 else 0) + (if b1 then 2 else 0) + (if b2 then 4 else 0) + (if b3 then 8 else 0)
    + (if b4 then 16 else 0) + (if b5 then 32 else 0) + (if b6 then 64 else 0) + (if b7 then 128 else 0)
  end.
Definition chr (z : Z) : ascii := ascii_of_N (Z.to_N z).
Definition ceq (a b : ascii) : bool := Ascii.eqb a b.
Definition is_digit (c : ascii) : bool := (48 <=? code c) && (code c <=? 57).
Definition dval (c : ascii) : Z := code c - 48.
Definition dchar (d : Z) : ascii :=      (* = chr (d + 48) *)
  match d with
  | 0 => "0" | 1 => "1" | 2 => "2" | 3 => "3" | 4 => "4" | 5 => "5" | 6 => "6" | 7 => "7" | 8 => "8" | 9 => "9"
  | _ => chr (d + 48)
  end%char.
Definition is_sign (c : ascii) : bool := ceq c "+" || ceq c "-".
Definition is_nil {A} (l : list A) : bool := match l with [] => true | _ => false end.

(* ---- decimal numerals -------------------------------------------------------------- *)
(* str(n) for n >= 0; the fuel 1 + log2 n always suffices (XsdBaseProofs.int_dec_str_nat) *)
Fixpoint digs (fuel : nat) (n : Z) (acc : str) : str :=
  match fuel with
  | O => acc
  | S f => if n <? 10 then dchar n :: acc
           else let '(q, r) := Z.div_eucl n 10 in digs f q (dchar r :: acc)
  end.
Definition str_nat (n : Z) : str := digs (S (Z.to_nat (Z.log2 n))) n [].
(* str(z) of a Python int *)
Definition str_int (z : Z) : str := if z <? 0 then "-"%char :: str_nat (- z) else str_nat z.
(* '{:0<w>d}'.format(z): sign-aware zero padding, the width includes the sign *)
Definition zfill (w : nat) (s : str) : str := repeat "0"%char (w - List.length s) ++ s.
Definition fmt_0d (w : nat) (z : Z) : str :=
  if z <? 0 then "-"%char :: zfill (w - 1) (str_nat (- z)) else zfill w (str_nat z).
(* int(s) for a string of ASCII digits (what the \d groups of the ASCII regexes deliver) *)
Fixpoint int_acc (acc : Z) (s : str) : Z :=
  match s with [] => acc | c :: r => int_acc (10 * acc + dval c) r end.
Definition int_dec (s : str) : Z := int_acc 0 s.

(* ---- list / string helpers ----------------------------------------------------------- *)
Fixpoint span (p : ascii -> bool) (s : str) : str * str :=
  match s with
  | c :: r => if p c then let '(a, b) := span p r in (c :: a, b) else ([], s)
  | [] => ([], [])
  end.
Fixpoint lstrip (p : ascii -> bool) (s : str) : str :=
  match s with c :: r => if p c then lstrip p r else s | [] => [] end.
Definition rstrip (p : ascii -> bool) (s : str) : str := rev (lstrip p (rev s)).
Definition strip (p : ascii -> bool) (s : str) : str := rstrip p (lstrip p s).
Fixpoint str_eqb (a b : str) : bool :=
  match a, b with
  | [], [] => true
  | x :: a', y :: b' => ceq x y && str_eqb a' b'
  | _, _ => false
  end.
Fixpoint strip_prefix (p s : str) : option str :=
  match p, s with
  | [], _ => Some s
  | x :: p', y :: s' => if ceq x y then strip_prefix p' s' else None
  | _ :: _, [] => None
  end.

(* XSD whitespace: #x20 #x9 #xA #xD *)
Definition is_xsd_ws (c : ascii) : bool :=
  (code c =? 32) || (code c =? 9) || (code c =? 10) || (code c =? 13).
(* the ASCII part of str.isspace(), which int()/float()/str.strip() use *)
Definition is_py_ws (c : ascii) : bool :=
  ((9 <=? code c) && (code c <=? 13)) || ((28 <=? code c) && (code c <=? 32)).

(* whiteSpace facet "collapse" (XML Schema Part 2, 4.3.6): #x9 #xA #xD are replaced by #x20,
   contiguous sequences of #x20 are collapsed to one, leading and trailing #x20 are removed.
   One pass: [started] = a non-blank was emitted; [pending] = a blank run was seen after it. *)
Fixpoint coll (started pending : bool) (s : str) : str :=
  match s with
  | [] => []
  | c :: r => if is_xsd_ws c then coll started started r
              else (if pending then [" "%char] else []) ++ c :: coll true false r
  end.
Definition ws_collapse (s : str) : str := coll false false s.

(* Python's `$` (without re.MULTILINE): at the end, or just before a final newline *)
Definition at_end (s : str) : bool :=
  match s with [] => true | [c] => ceq c "010" | _ => false end.
