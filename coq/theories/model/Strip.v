(* C18: what "stripped" means on values, for the writer rule tables and for the reader rule tables.
   Definitions only. *)
From Coq Require Import List Bool String.
From Basyx Require Import model.Codec model.CodecSpec.
Import ListNotations.
Local Open Scope string_scope.

Section Strip.
Variable T : tables.
Variable M : meta.

(* the value with every detachable attribute (writer side: rules under `not cls.stripped`) emptied, at every depth *)
Fixpoint strip_w (v : value) : value :=
  match v with
  | VList l => VList (map strip_w l)
  | VObj cls fs =>
    match sfind cls T with
    | None => v
    | Some c =>
      VObj cls ((fix go (l : list (string * value)) : list (string * value) :=
                   match l with
                   | [] => []
                   | (a, x) :: l' =>
                     (a, match find_w a (c_w c) with
                         | Some r => if w_unstripped_only r then VList [] else strip_w x
                         | None => strip_w x
                         end) :: go l'
                   end) fs)
    end
  | _ => v
  end.

(* reader side: attributes whose reader rule is under `not cls.stripped` are left at their absent value *)
Fixpoint strip_r (v : value) : value :=
  match v with
  | VList l => VList (map strip_r l)
  | VObj cls fs =>
    match sfind cls T, sfind cls M with
    | Some c, Some attrs =>
      VObj cls ((fix go (l : list (string * value)) : list (string * value) :=
                   match l with
                   | [] => []
                   | (a, x) :: l' =>
                     (a, match find_r a (c_r c), sfind a attrs with
                         | Some r, Some k => if r_unstripped_only r then absent_value k else strip_r x
                         | _, _ => strip_r x
                         end) :: go l'
                   end) fs)
    | _, _ => v
    end
  | _ => v
  end.

(* side conditions under which "stripped rendering = full rendering of the stripped value" *)
Definition guard_cond_ok (c : crules) (r : wrule) : bool :=
  if w_unstripped_only r then
    match w_cond r with WTruthy | WNonEmpty => true | _ => false end
  else
    match w_cond r with
    | WTruthyUnder o => match find_w o (c_w c) with Some ro => negb (w_unstripped_only ro) | None => true end
    | _ => true
    end.
Definition guards_ok : bool :=
  forallb (fun p => forallb (guard_cond_ok (snd p)) (c_w (snd p))) T.

(* the detachable members, as (class, JSON member) / (class, attribute) *)
Definition writer_guards : list (string * string) :=
  flat_map (fun p => flat_map (fun r => if w_unstripped_only r then [(fst p, w_member r)] else []) (c_w (snd p))) T.
Definition writer_guard_attrs : list (string * string) :=
  flat_map (fun p => flat_map (fun r => if w_unstripped_only r then [(fst p, w_attr r)] else []) (c_w (snd p))) T.
Definition reader_guard_attrs : list (string * string) :=
  flat_map (fun p => flat_map (fun r => if r_unstripped_only r then [(fst p, r_attr r)] else []) (c_r (snd p))) T.

Definition pair_eqb (a b : string * string) : bool := String.eqb (fst a) (fst b) && String.eqb (snd a) (snd b).
Definition pmem (x : string * string) (l : list (string * string)) : bool := existsb (pair_eqb x) l.
Definition same_set (a b : list (string * string)) : bool :=
  forallb (fun x => pmem x b) a && forallb (fun x => pmem x a) b.

End Strip.
