(* C06 - executable model of xsd_repr (print_T) and from_xsd (parse_T) of
   sdk/basyx/aas/model/datatypes.py, statement by statement, for the integer family, boolean,
   the date/time types, the five gXxx types and the three string types.
   (Binary types: model/XsdBin.v; duration: model/XsdDur.v; decimal/float/double: model/XsdNum.v.)
   Definitions only; proofs in proofs/Xsd*Proofs.v; tied to the SDK by tools/c06.py. *)
From Coq Require Import List ZArith Bool Ascii String.
From Basyx Require Import model.XsdBase gen.Gen_XsdTables.
Import ListNotations.
Local Open Scope Z_scope.

(* ================================================================ integers *)
(* int(s) on a str of ASCII bytes: surrounding whitespace is stripped, one optional sign, decimal
   digits with single underscores between digits (PEP 515).  Non-ASCII bytes are refused here
   (CPython would also accept other Unicode decimal digits and blanks); from_xsd only calls int()
   behind INTEGER_RE, which admits none of that.  CPython's 4300-digit limit is not modelled. *)
Fixpoint py_digits_go (acc : Z) (prev_us : bool) (s : str) : option Z :=
  match s with
  | [] => if prev_us then None else Some acc
  | c :: r => if is_digit c then py_digits_go (10 * acc + dval c) false r
              else if ceq c "_" && negb prev_us then py_digits_go acc true r else None
  end.
Definition py_digits (s : str) : option Z :=
  match s with c :: _ => if is_digit c then py_digits_go 0 false s else None | [] => None end.
Definition py_int (s : str) : res Z :=
  let t := strip is_py_ws s in
  let '(neg, u) := match t with
                   | c :: r => if ceq c "-" then (true, r) else if ceq c "+" then (false, r) else (false, t)
                   | [] => (false, t)
                   end in
  match py_digits u with Some n => Ok (if neg then - n else n) | None => Err ValueError end.

(* INTEGER_RE = ^[ \t\n\r]*[+\-]?[0-9]+[ \t\n\r]*$ *)
Definition integer_guard (s : str) : bool :=
  let s1 := lstrip is_xsd_ws s in
  let s2 := match s1 with c :: r => if is_sign c then r else s1 | [] => s1 end in
  let '(ds, r) := span is_digit s2 in
  negb (is_nil ds) && forallb is_xsd_ws r.

(* class T(int): T(x) = int.__new__ then the range check translated into Gen_XsdTables.in_range_T *)
Definition ctor_int (rng : Z -> bool) (z : Z) : res Z := if rng z then Ok z else Err ValueError.
(* from_xsd(value, T) for issubclass(T, int), T is not bool *)
Definition parse_int (rng : Z -> bool) (s : str) : res Z :=
  if integer_guard s then (let* z := py_int s in ctor_int rng z) else Err ValueError.
(* xsd_repr(value) falls through to str(value) *)
Definition print_int (z : Z) : str := str_int z.
Definition rng_Integer (z : Z) : bool := true.     (* Integer = int: no check *)

(* ================================================================ boolean *)
Definition print_bool (b : bool) : str := if b then L "true" else L "false".
Definition parse_bool (s : str) : res bool :=
  if str_eqb s (L "1") || str_eqb s (L "true") then Ok true
  else if str_eqb s (L "0") || str_eqb s (L "false") then Ok false
  else Err ValueError.

(* ================================================================ time zones *)
(* tzinfo is None or a fixed-offset datetime.timezone; the offset is kept in minutes east of UTC
   (datetime.timezone guarantees |offset| < 24 h; offsets with a seconds part are outside the
   model's value type - the repaired xsd_repr refuses them). *)
Definition tz := option Z.
(* _check_xsd_utcoffset *)
Definition check_utcoffset (t : tz) : res unit :=
  match t with
  | None => Ok tt
  | Some m => if Z.abs m >? 14 * 60 then Err ValueError else Ok tt
  end.
(* The same check on a utcoffset as CPython has it: a timedelta, given in microseconds east of UTC
   (datetime.timezone admits every offset strictly between -24 h and +24 h with microsecond resolution).
   _check_xsd_utcoffset: abs(offset) > timedelta(hours=14) or offset % timedelta(minutes=1) -> ValueError.
   An offset that passes is a whole number of minutes, which is what [tz] holds. *)
Definition check_utcoffset_us (o : Z) : res unit :=
  if (Z.abs o >? 14 * 3600 * 1000000) || negb (o mod 60000000 =? 0) then Err ValueError else Ok tt.
Definition tz_of_us (o : option Z) : res tz :=
  match o with
  | None => Ok None
  | Some o => let* _ := check_utcoffset_us o in Ok (Some (o / 60000000))
  end.
(* xsd_repr of a value whose tzinfo carries the offset o: the guard, then the whole-minute path k.
   (For Date and the gXxx types the SDK runs into_date() before the guard; both raise ValueError, so the
   order is not observable.) *)
Definition with_utcoffset {A} (o : option Z) (k : tz -> res A) : res A := let* t := tz_of_us o in k t.
Definition pad2 (n : Z) : str := fmt_0d 2 n.
(* the offset part of datetime.isoformat()/time.isoformat() *)
Definition iso_tz (t : tz) : str :=
  match t with
  | None => []
  | Some m => (if m <? 0 then "-"%char else "+"%char) :: pad2 (Z.abs m / 60) ++ ":"%char :: pad2 (Z.abs m mod 60)
  end.
(* the formatting part of _serialize_date_tzinfo for a present offset *)
Definition date_tz_text (m : Z) : str :=
  let offset_seconds := 60 * m in
  if offset_seconds / 60 =? 0 then L "Z"
  else (if offset_seconds >=? 0 then "+"%char else "-"%char)
         :: pad2 (Z.abs offset_seconds / 3600) ++ ":"%char :: pad2 ((Z.abs offset_seconds / 60) mod 60).

(* the optional group ([+\-](\d\d):(\d\d)|Z)? followed by $ *)
Inductive tzlit := NoTz | Zulu | Off (sign : ascii) (hh mm : Z).
Definition tz_group_end (s : str) : option tzlit :=
  if at_end s then Some NoTz else
  match s with
  | c :: r =>
    if ceq c "Z" && at_end r then Some Zulu else
    match s with
    | sg :: h1 :: h2 :: col :: m1 :: m2 :: r' =>
      if is_sign sg && is_digit h1 && is_digit h2 && ceq col ":" && is_digit m1 && is_digit m2 && at_end r'
      then Some (Off sg (int_dec [h1; h2]) (int_dec [m1; m2])) else None
    | _ => None
    end
  | [] => None
  end.
(* _parse_xsd_date_tzinfo *)
Definition parse_tzinfo (g : tzlit) : res tz :=
  match g with
  | NoTz => Ok None
  | Zulu => Ok (Some 0)
  | Off sg hh mm =>
    if (mm >? 59) || (hh * 60 + mm >? 14 * 60) then Err ValueError
    else Ok (Some ((hh * 60 + mm) * (if ceq sg "-" then -1 else 1)))
  end.

(* ================================================================ date, time, dateTime *)
(* datetime.date / datetime.time / datetime.datetime constructors (documented ranges) *)
Definition is_leap (y : Z) : bool := ((y mod 4 =? 0) && negb (y mod 100 =? 0)) || (y mod 400 =? 0).
Definition days_in_month (y m : Z) : Z :=
  if m =? 2 then (if is_leap y then 29 else 28)
  else if (m =? 4) || (m =? 6) || (m =? 9) || (m =? 11) then 30 else 31.
Definition date_fields_ok (y m d : Z) : bool :=
  (1 <=? y) && (y <=? 9999) && (1 <=? m) && (m <=? 12) && (1 <=? d) && (d <=? days_in_month y m).
Definition time_fields_ok (h mi s us : Z) : bool :=
  (0 <=? h) && (h <=? 23) && (0 <=? mi) && (mi <=? 59) && (0 <=? s) && (s <=? 59) && (0 <=? us) && (us <=? 999999).

Record date := mkDate { d_y : Z; d_m : Z; d_d : Z; d_tz : tz }.
Record time := mkTime { t_h : Z; t_mi : Z; t_s : Z; t_us : Z; t_tz : tz }.
Record datetime := mkDT { dt_y : Z; dt_m : Z; dt_d : Z; dt_h : Z; dt_mi : Z; dt_s : Z; dt_us : Z; dt_tz : tz }.
Definition new_date (y m d : Z) (t : tz) : res date :=
  if date_fields_ok y m d then Ok (mkDate y m d t) else Err ValueError.
Definition new_time (h mi s us : Z) (t : tz) : res time :=
  if time_fields_ok h mi s us then Ok (mkTime h mi s us t) else Err ValueError.
Definition new_datetime (y m d h mi s us : Z) (t : tz) : res datetime :=
  if date_fields_ok y m d && time_fields_ok h mi s us then Ok (mkDT y m d h mi s us t) else Err ValueError.

(* isoformat() pieces *)
Definition iso_date (y m d : Z) : str := fmt_0d 4 y ++ "-"%char :: pad2 m ++ "-"%char :: pad2 d.
Definition iso_time (h mi s us : Z) : str :=
  pad2 h ++ ":"%char :: pad2 mi ++ ":"%char :: pad2 s ++ (if us =? 0 then [] else "."%char :: fmt_0d 6 us).

(* _serialize_date_tzinfo(date) for an object whose into_date() is (y, m, d) *)
Definition serialize_date_tzinfo (y m d : Z) (t : tz) : res str :=
  match t with
  | None => Ok []
  | Some off =>
    let* _ := new_date y m d t in            (* into_date(): Date(...) may raise ValueError *)
    let* _ := check_utcoffset t in
    Ok (date_tz_text off)
  end.

Definition print_date (v : date) : res str :=
  let* z := serialize_date_tzinfo (d_y v) (d_m v) (d_d v) (d_tz v) in
  Ok (iso_date (d_y v) (d_m v) (d_d v) ++ z).
Definition print_time (v : time) : res str :=
  let* _ := check_utcoffset (t_tz v) in
  Ok (iso_time (t_h v) (t_mi v) (t_s v) (t_us v) ++ iso_tz (t_tz v)).
Definition print_datetime (v : datetime) : res str :=
  let* _ := check_utcoffset (dt_tz v) in
  Ok (iso_date (dt_y v) (dt_m v) (dt_d v) ++ "T"%char :: iso_time (dt_h v) (dt_mi v) (dt_s v) (dt_us v)
      ++ iso_tz (dt_tz v)).

(* _parse_xsd_microseconds(fraction) = int(fraction[1:7].ljust(6, "0")); [ds] = the digits after the dot *)
Definition us_of_frac (ds : str) : Z :=
  let d6 := firstn 6 ds in int_dec (d6 ++ repeat "0"%char (6 - List.length d6)).

(* (\.\d+)? followed by something that is no digit: returns the digits (if the group matched) and the rest *)
Definition frac_group (s : str) : option str * str :=
  match s with
  | c :: r => if ceq c "." then (let '(ds, r') := span is_digit r in if is_nil ds then (None, s) else (Some ds, r'))
              else (None, s)
  | [] => (None, s)
  end.
Definition opt_minus (s : str) : bool * str :=
  match s with c :: r => if ceq c "-" then (true, r) else (false, s) | [] => (false, s) end.

(* DATE_RE = ^(-?)(\d\d\d\d)-(\d\d)-(\d\d)([+\-](\d\d):(\d\d)|Z)?$   and _parse_xsd_date *)
Definition parse_date (s : str) : res date :=
  let '(neg, s1) := opt_minus s in
  match s1 with
  | y1 :: y2 :: y3 :: y4 :: c1 :: m1 :: m2 :: c2 :: d1 :: d2 :: r =>
    if forallb is_digit [y1; y2; y3; y4; m1; m2; d1; d2] && ceq c1 "-" && ceq c2 "-" then
      match tz_group_end r with
      | Some g =>
        if neg then Err ValueError      (* "Negative Dates are not supported by Python" *)
        else let* t := parse_tzinfo g in new_date (int_dec [y1; y2; y3; y4]) (int_dec [m1; m2]) (int_dec [d1; d2]) t
      | None => Err ValueError
      end
    else Err ValueError
  | _ => Err ValueError
  end.

(* the common tail (\d\d):(\d\d):(\d\d)(\.\d+)?([+\-](\d\d):(\d\d)|Z)?$ *)
Definition scan_time_tail (s : str) : option (Z * Z * Z * option str * tzlit) :=
  match s with
  | h1 :: h2 :: c1 :: m1 :: m2 :: c2 :: s1 :: s2 :: r =>
    if forallb is_digit [h1; h2; m1; m2; s1; s2] && ceq c1 ":" && ceq c2 ":" then
      let '(fr, r') := frac_group r in
      match tz_group_end r' with
      | Some g => Some (int_dec [h1; h2], int_dec [m1; m2], int_dec [s1; s2], fr, g)
      | None => None
      end
    else None
  | _ => None
  end.
Definition us_of_group (fr : option str) : Z := match fr with Some ds => us_of_frac ds | None => 0 end.

(* TIME_RE and _parse_xsd_time *)
Definition parse_time (s : str) : res time :=
  match scan_time_tail s with
  | Some (h, mi, sec, fr, g) => let* t := parse_tzinfo g in new_time h mi sec (us_of_group fr) t
  | None => Err ValueError
  end.
(* DATETIME_RE and _parse_xsd_datetime *)
Definition parse_datetime (s : str) : res datetime :=
  let '(neg, s1) := opt_minus s in
  match s1 with
  | y1 :: y2 :: y3 :: y4 :: c1 :: m1 :: m2 :: c2 :: d1 :: d2 :: cT :: r =>
    if forallb is_digit [y1; y2; y3; y4; m1; m2; d1; d2] && ceq c1 "-" && ceq c2 "-" && ceq cT "T" then
      match scan_time_tail r with
      | Some (h, mi, sec, fr, g) =>
        if neg then Err ValueError
        else let* t := parse_tzinfo g in
             new_datetime (int_dec [y1; y2; y3; y4]) (int_dec [m1; m2]) (int_dec [d1; d2]) h mi sec (us_of_group fr) t
      | None => Err ValueError
      end
    else Err ValueError
  | _ => Err ValueError
  end.

(* ================================================================ gYearMonth, gYear, gMonthDay, gDay, gMonth *)
(* constructors: the checks are the translated ctor_ok_T of Gen_XsdTables *)
Record gyearmonth := mkGYM { gym_y : Z; gym_m : Z; gym_tz : tz }.
Record gyear := mkGY { gy_y : Z; gy_tz : tz }.
Record gmonthday := mkGMD { gmd_m : Z; gmd_d : Z; gmd_tz : tz }.
Record gday := mkGD { gd_d : Z; gd_tz : tz }.
Record gmonth := mkGM { gm_m : Z; gm_tz : tz }.
Definition new_gyearmonth y m t : res gyearmonth := if ctor_ok_GYearMonth y m then Ok (mkGYM y m t) else Err ValueError.
Definition new_gyear y t : res gyear := if ctor_ok_GYear y then Ok (mkGY y t) else Err ValueError.
Definition new_gmonthday m d t : res gmonthday := if ctor_ok_GMonthDay m d then Ok (mkGMD m d t) else Err ValueError.
Definition new_gday d t : res gday := if ctor_ok_GDay d then Ok (mkGD d t) else Err ValueError.
Definition new_gmonth m t : res gmonth := if ctor_ok_GMonth m then Ok (mkGM m t) else Err ValueError.

(* xsd_repr: "{:04d}-{:02d}".format(...) + _serialize_date_tzinfo(value) with into_date() defaults *)
Definition print_gyearmonth (v : gyearmonth) : res str :=
  let* z := serialize_date_tzinfo (gym_y v) (gym_m v) 1 (gym_tz v) in
  Ok (fmt_0d 4 (gym_y v) ++ "-"%char :: pad2 (gym_m v) ++ z).
Definition print_gyear (v : gyear) : res str :=
  let* z := serialize_date_tzinfo (gy_y v) 1 1 (gy_tz v) in Ok (fmt_0d 4 (gy_y v) ++ z).
Definition print_gmonthday (v : gmonthday) : res str :=
  let* z := serialize_date_tzinfo 2000 (gmd_m v) (gmd_d v) (gmd_tz v) in
  Ok (L "--" ++ pad2 (gmd_m v) ++ "-"%char :: pad2 (gmd_d v) ++ z).
Definition print_gday (v : gday) : res str :=
  let* z := serialize_date_tzinfo 1970 1 (gd_d v) (gd_tz v) in Ok (L "---" ++ pad2 (gd_d v) ++ z).
Definition print_gmonth (v : gmonth) : res str :=
  let* z := serialize_date_tzinfo 1970 (gm_m v) 1 (gm_tz v) in Ok (L "--" ++ pad2 (gm_m v) ++ z).

(* GYEAR_RE etc.: a literal prefix, groups of \d, then ([+\-]\d\d:\d\d|Z)?$ *)
Definition parse_gyear (s : str) : res gyear :=
  match s with
  | y1 :: y2 :: y3 :: y4 :: r =>
    if forallb is_digit [y1; y2; y3; y4] then
      match tz_group_end r with
      | Some g => let* t := parse_tzinfo g in new_gyear (int_dec [y1; y2; y3; y4]) t
      | None => Err ValueError
      end
    else Err ValueError
  | _ => Err ValueError
  end.
Definition parse_gyearmonth (s : str) : res gyearmonth :=
  match s with
  | y1 :: y2 :: y3 :: y4 :: c1 :: m1 :: m2 :: r =>
    if forallb is_digit [y1; y2; y3; y4; m1; m2] && ceq c1 "-" then
      match tz_group_end r with
      | Some g => let* t := parse_tzinfo g in new_gyearmonth (int_dec [y1; y2; y3; y4]) (int_dec [m1; m2]) t
      | None => Err ValueError
      end
    else Err ValueError
  | _ => Err ValueError
  end.
Definition parse_gmonthday (s : str) : res gmonthday :=
  match s with
  | p1 :: p2 :: m1 :: m2 :: c1 :: d1 :: d2 :: r =>
    if ceq p1 "-" && ceq p2 "-" && forallb is_digit [m1; m2; d1; d2] && ceq c1 "-" then
      match tz_group_end r with
      | Some g => let* t := parse_tzinfo g in new_gmonthday (int_dec [m1; m2]) (int_dec [d1; d2]) t
      | None => Err ValueError
      end
    else Err ValueError
  | _ => Err ValueError
  end.
Definition parse_gday (s : str) : res gday :=
  match s with
  | p1 :: p2 :: p3 :: d1 :: d2 :: r =>
    if ceq p1 "-" && ceq p2 "-" && ceq p3 "-" && forallb is_digit [d1; d2] then
      match tz_group_end r with
      | Some g => let* t := parse_tzinfo g in new_gday (int_dec [d1; d2]) t
      | None => Err ValueError
      end
    else Err ValueError
  | _ => Err ValueError
  end.
Definition parse_gmonth (s : str) : res gmonth :=
  match s with
  | p1 :: p2 :: m1 :: m2 :: r =>
    if ceq p1 "-" && ceq p2 "-" && forallb is_digit [m1; m2] then
      match tz_group_end r with
      | Some g => let* t := parse_tzinfo g in new_gmonth (int_dec [m1; m2]) t
      | None => Err ValueError
      end
    else Err ValueError
  | _ => Err ValueError
  end.

(* ================================================================ string, anyURI, normalizedString *)
(* xsd_repr returns the str itself; from_xsd calls type_(value) *)
Definition print_string (v : str) : str := v.
Definition parse_string (s : str) : res str := Ok s.
Definition new_normalizedstring (s : str) : res str :=
  if existsb (fun c => existsb (Z.eqb (code c)) normalized_string_forbidden) s then Err ValueError else Ok s.
Definition parse_normalizedstring (s : str) : res str := new_normalizedstring s.
