(* The first statement of DictSupplementaryFileContainer.add_file:  data = file.read()
   The file object as the container meets it: a buffer and a current position (an io.BytesIO, an open
   file, ...).  read() yields the bytes from the current position to the end - not the buffer - and leaves
   the stream at its end; a position at or behind the end yields no bytes.
   Definitions only; proofs are in proofs/FileStreamsProofs.v. *)
From Coq Require Import List ZArith String.
From Basyx Require Import model.Files.
Import ListNotations.

Record stream := mkStream { sbuf : list Z; spos : nat }.

Definition read_all (f : stream) : list Z * stream :=
  (skipn (spos f) (sbuf f), mkStream (sbuf f) (Nat.max (spos f) (List.length (sbuf f)))).

Section Streams.
  (* the content token of model/Files.v that stands for a byte string (keyed by its SHA-256 in the code) *)
  Variable tok : list Z -> content.

  Definition add_file_stream (s : st) (name : string) (f : stream) (t : ctype) : (st * out) * stream :=
    let data := fst (read_all f) in
    (add_file s name (tok data) t, snd (read_all f)).
End Streams.
