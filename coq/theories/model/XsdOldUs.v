(* C06 - the PRE-REPAIR sub-second expression of datatypes.py, int(float(frac) * 1e6), modelled bit-exactly
   on binary64 with Coq's primitive floats.  It documents finding "one microsecond lost" (known_findings/C06.json);
   the repaired code (model/Xsd.v us_of_frac) uses no floating point.  Definitions only. *)
From Coq Require Import List ZArith Bool Ascii String.
From Coq Require PrimFloat Uint63 FloatOps.
From Basyx Require Import model.XsdBase.
Import ListNotations.
Local Open Scope Z_scope.

(* an integer 0 <= z < 2^53 as a binary64 (exact) *)
Definition f_of_Z (z : Z) : PrimFloat.float := PrimFloat.of_uint63 (Uint63.of_Z z).
(* float("." + ds) for at most 15 digits: the decimal ds / 10^len is correctly rounded, and so is the IEEE
   quotient of the two exactly representable integers *)
Definition float_of_frac (ds : str) : PrimFloat.float :=
  PrimFloat.div (f_of_Z (int_dec ds)) (f_of_Z (10 ^ Z.of_nat (List.length ds))).
(* int(x) for a finite 0 <= x < 2^62: truncation towards zero *)
Definition trunc_float (f : PrimFloat.float) : Z :=
  let '(m, e) := PrimFloat.frshiftexp f in                       (* f = m * 2^(e - shift), 1/2 <= m < 1 *)
  let mant := Uint63.to_Z (PrimFloat.normfr_mantissa m) in      (* m = mant / 2^53 *)
  let ex := Uint63.to_Z e - FloatOps.shift in
  if mant =? 0 then 0 else if 53 <=? ex then mant * 2 ^ (ex - 53) else mant / 2 ^ (53 - ex).
(* int(float(frac) * 1e6) *)
Definition us_float (ds : str) : Z := trunc_float (PrimFloat.mul (float_of_frac ds) (f_of_Z 1000000)).
