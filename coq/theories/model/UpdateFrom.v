(* Model of Referable.update_from (sdk/basyx/aas/model/base.py:803-822) and
   NamespaceSet.update_nss_from (base.py:2052-2105, after the three fix: commits: surviving
   Qualifiers/Extensions are updated in place, vanished objects are removed before new ones are
   added, a child whose class changed is replaced).  Definitions only.

   A node stands for a Referable with ONE collection of Referable children keyed by idShort
   (Submodel.submodel_element, SubmodelElementCollection.value) and its Qualifier/Extension
   children (one list, the key says which of the two sets).  All plain attributes of vars(obj)
   are one payload token: update_from assigns every entry of vars(other) except parent,
   namespace_element_sets and (unless asked) source.  [oid] is the Python identity. *)
From Coq Require Import List ZArith Bool Arith.
From Basyx Require Import model.Corr.
Import ListNotations.
Local Open Scope nat_scope.

Inductive node :=
  Node (oid cls key pay src : nat) (quals : list (nat * (nat * nat))) (kids : list node).

Definition n_oid (n : node) := match n with Node o _ _ _ _ _ _ => o end.
Definition n_cls (n : node) := match n with Node _ c _ _ _ _ _ => c end.
Definition n_key (n : node) := match n with Node _ _ k _ _ _ _ => k end.
Definition n_pay (n : node) := match n with Node _ _ _ p _ _ _ => p end.
Definition n_src (n : node) := match n with Node _ _ _ _ s _ _ => s end.
Definition n_quals (n : node) := match n with Node _ _ _ _ _ q _ => q end.
Definition n_kids (n : node) := match n with Node _ _ _ _ _ _ ch => ch end.

(* backend[id_short] *)
Fixpoint find_kid (k : nat) (l : list node) : option node :=
  match l with
  | [] => None
  | x :: r => if Nat.eqb (n_key x) k then Some x else find_kid k r
  end.
Fixpoint find_q {B} (k : nat) (l : list (nat * B)) : option B :=
  match l with
  | [] => None
  | (k', v) :: r => if Nat.eqb k' k then Some v else find_q k r
  end.

(* update_nss_from on a Qualifier / Extension set: survivors keep their identity and dict position
   and take the other's attributes; vanished ones are removed; new ones are appended *)
Definition upd_quals (lq nq : list (nat * (nat * nat))) : list (nat * (nat * nat)) :=
  flat_map (fun q => match find_q (fst q) nq with
                     | Some (_, v') => [(fst q, (fst (snd q), v'))]
                     | None => []
                     end) lq
  ++ filter (fun q => match find_q (fst q) lq with Some _ => false | None => true end) nq.

(* is the copy's child n' matched by a live child of the same class? *)
Definition survivor_of (lk : list node) (n' : node) : option node :=
  match find_kid (n_key n') lk with
  | Some l => if Nat.eqb (n_cls l) (n_cls n') then Some l else None
  | None => None
  end.

(* live.update_from(new, update_source=us) *)
Fixpoint upd (live new : node) (us : bool) {struct new} : node :=
  match new with
  | Node o' c' k' p' s' q' ch' =>
      let fix go (news : list node) : list (nat * node) :=
          match news with
          | [] => []
          | n' :: r => match survivor_of (n_kids live) n' with
                       | Some l => (n_key n', upd l n' true) :: go r
                       | None => go r
                       end
          end in
      let surv := go ch' in
      Node (n_oid live) (n_cls live) k' p' (if us then s' else n_src live)
           (upd_quals (n_quals live) q')
           (flat_map (fun l => match find_q (n_key l) surv with Some u => [u] | None => [] end) (n_kids live)
            ++ filter (fun n' => match survivor_of (n_kids live) n' with Some _ => false | None => true end) ch')
  end.

(* ---- observation: pre-order rows [depth; oid; cls; key; pay; src; (qkey; qoid; qval)*], the
   qualifiers/extensions in key order (their dict order is not part of the metamodel) ---- *)
Local Open Scope Z_scope.
Definition zn (n : nat) : Z := Z.of_nat n.
Fixpoint encode (d : nat) (n : node) : list (list Z) :=
  match n with
  | Node o c k p s q ch =>
      ([zn d; zn o; zn c; zn k; zn p; zn s]
         ++ flat_map (fun qk => match find_q qk q with
                                | Some (qo, qv) => [zn qk; zn qo; zn qv]
                                | None => []
                                end) (seq 0 8))
      :: (fix go (l : list node) : list (list Z) :=
            match l with [] => [] | x :: r => encode (S d) x ++ go r end) ch
  end.

Definition check_case (cs : node * node * bool * Z) : bool :=
  let '(live, new, us, expected) := cs in
  Z.eqb (hash_zll 0 (encode 0 (upd live new us))) expected.
