(* C15, concurrent writers: several threads of one process run _write_document (local_file.py) for the SAME document
   (Referable.commit of a shared, cached object does not run under the store lock).  Effects of one writer, in order:
   open(tmp,"w") ; write ; close ; os.replace(tmp, doc) ; on any exception: os.remove(tmp), errors of which are
   swallowed.  The encode step touches no file and is left out.  [name w] is the temporary file name writer w uses
   ("<doc>.<pid>-<thread id>.tmp": one per thread), [vof w] the version it serialised.
   Files are tracked by name.  Death of the process = the schedule simply ends (every prefix of a schedule is a
   schedule); a write cut off after a prefix leaves what open() left: an incomplete file [CPart].
   Data written through a handle whose name another writer renamed meanwhile is not tracked - that can only happen
   when two writers share a name, where the model is used for the refutation only. *)
From Coq Require Import List Arith Bool.
Import ListNotations.

Definition cver := nat.
Inductive ccont := CFull (v : cver) | CPart.
Inductive wph := WStart | WOpened | WWritten | WClosed | WDone | WFailed.
(* what happens to the effect a writer performs next: it works; it raises and the cleanup handler removes the
   temporary file; it raises and the cleanup fails as well (the file stays) *)
Inductive cflt := COk | CRaise | CRaiseKeep.

Record cst := mkc { cdoc : option ccont; ctmp : nat -> option ccont; cph : nat -> wph }.

Definition upd {A} (f : nat -> A) (x : nat) (y : A) : nat -> A := fun n => if Nat.eqb n x then y else f n.

Definition cfail (name : nat -> nat) (w : nat) (f : cflt) (s : cst) : cst :=
  mkc (cdoc s) (match f with CRaiseKeep => ctmp s | _ => upd (ctmp s) (name w) None end) (upd (cph s) w WFailed).

Definition cstep (name : nat -> nat) (vof : nat -> cver) (w : nat) (f : cflt) (s : cst) : cst :=
  match cph s w with
  | WStart =>        (* open(tmp, "w"): creates or truncates; a failing open creates nothing *)
      match f with
      | COk => mkc (cdoc s) (upd (ctmp s) (name w) (Some CPart)) (upd (cph s) w WOpened)
      | _ => cfail name w f s
      end
  | WOpened =>       (* write(data) *)
      match f with
      | COk => mkc (cdoc s)
                   (match ctmp s (name w) with Some _ => upd (ctmp s) (name w) (Some (CFull (vof w))) | None => ctmp s end)
                   (upd (cph s) w WWritten)
      | _ => cfail name w f s
      end
  | WWritten =>      (* close() *)
      match f with
      | COk => mkc (cdoc s) (ctmp s) (upd (cph s) w WClosed)
      | _ => cfail name w f s
      end
  | WClosed =>       (* os.replace(tmp, doc): FileNotFoundError if the name is gone *)
      match f with
      | COk => match ctmp s (name w) with
               | Some c => mkc (Some c) (upd (ctmp s) (name w) None) (upd (cph s) w WDone)
               | None => cfail name w CRaise s
               end
      | _ => cfail name w f s
      end
  | WDone | WFailed => s
  end.

Fixpoint crun (name : nat -> nat) (vof : nat -> cver) (sched : list (nat * cflt)) (s : cst) : cst :=
  match sched with
  | [] => s
  | (w, f) :: r => crun name vof r (cstep name vof w f s)
  end.

(* the directory when the writers start: the document holds a complete version, every writer is at its start;
   temporary files of earlier (dead) processes may lie around *)
Definition cinit (v0 : cver) (stale : nat -> option ccont) : cst := mkc (Some (CFull v0)) stale (fun _ => WStart).

Definition cdoc_ok (vof : nat -> cver) (v0 : cver) (s : cst) : Prop :=
  cdoc s = Some (CFull v0) \/ exists w, cdoc s = Some (CFull (vof w)).
