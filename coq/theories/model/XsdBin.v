(* C06 - model of xsd_repr / from_xsd for HexBinary and Base64Binary (datatypes.py), on the bit
   level: a byte is an [ascii] = 8 booleans, so regrouping 3 bytes into 4 sextets is pure shuffling.
   bytes.hex / bytes.fromhex / base64.b64encode / b64decode are modelled from their documented
   behaviour (RFC 4648 alphabet, '=' padding) and tied by the correspondence run.  Definitions only. *)
From Coq Require Import List ZArith Bool Ascii String.
From Basyx Require Import model.XsdBase.
Import ListNotations.
Local Open Scope Z_scope.

(* ================================================================ hexBinary *)
Definition nibble := (bool * bool * bool * bool)%type.     (* most significant bit first *)
Definition z_of_nibble (x : nibble) : Z :=
  let '(x3, x2, x1, x0) := x in
  (if x3 then 8 else 0) + (if x2 then 4 else 0) + (if x1 then 2 else 0) + (if x0 then 1 else 0).
Definition nibble_of_z (n : Z) : nibble := (Z.testbit n 3, Z.testbit n 2, Z.testbit n 1, Z.testbit n 0).
Definition hex_lower : str := L "0123456789abcdef".
Definition hex_upper : str := L "0123456789ABCDEF".
Fixpoint index_of (c : ascii) (l : str) (i : Z) : option Z :=
  match l with [] => None | x :: r => if ceq c x then Some i else index_of c r (i + 1) end.
(* bytes.hex() writes lower case *)
Definition nib_char (x : nibble) : ascii := nth (Z.to_nat (z_of_nibble x)) hex_lower "0"%char.
(* bytes.fromhex() reads both cases *)
Definition char_nib (c : ascii) : option nibble :=
  match index_of c hex_lower 0 with
  | Some i => Some (nibble_of_z i)
  | None => match index_of c hex_upper 0 with Some i => Some (nibble_of_z i) | None => None end
  end.
Definition byte_of_nibbles (h l : nibble) : ascii :=
  let '(h3, h2, h1, h0) := h in let '(l3, l2, l1, l0) := l in Ascii l0 l1 l2 l3 h0 h1 h2 h3.
Definition hex_of_byte (c : ascii) : str :=
  match c with Ascii b0 b1 b2 b3 b4 b5 b6 b7 => [nib_char (b7, b6, b5, b4); nib_char (b3, b2, b1, b0)] end.
(* xsd_repr: value.hex() *)
Definition print_hex (b : str) : str := flat_map hex_of_byte b.
(* HEXBINARY_RE = ^([0-9a-fA-F]{2})*$ on the stripped text, then bytes.fromhex *)
Fixpoint hex_pairs (s : str) : option str :=
  match s with
  | [] => Some []
  | a :: b :: r =>
    match char_nib a, char_nib b, hex_pairs r with
    | Some h, Some l, Some t => Some (byte_of_nibbles h l :: t)
    | _, _, _ => None
    end
  | [_] => None
  end.
(* from_xsd: value.strip(" \t\n\r"), the guard, bytes.fromhex *)
Definition parse_hex (s : str) : res str :=
  match hex_pairs (strip is_xsd_ws s) with Some b => Ok b | None => Err ValueError end.

(* ================================================================ base64Binary *)
Definition sextet := (bool * bool * bool * bool * bool * bool)%type.   (* most significant bit first *)
Definition z_of_sextet (x : sextet) : Z :=
  let '(x5, x4, x3, x2, x1, x0) := x in
  (if x5 then 32 else 0) + (if x4 then 16 else 0) + (if x3 then 8 else 0) + (if x2 then 4 else 0)
  + (if x1 then 2 else 0) + (if x0 then 1 else 0).
Definition sextet_of_z (n : Z) : sextet :=
  (Z.testbit n 5, Z.testbit n 4, Z.testbit n 3, Z.testbit n 2, Z.testbit n 1, Z.testbit n 0).
Definition b64_alphabet : str := L "ABCDEFGHIJKLMNOPQRSTUVWXYZabcdefghijklmnopqrstuvwxyz0123456789+/".
Definition sext_char (x : sextet) : ascii := nth (Z.to_nat (z_of_sextet x)) b64_alphabet "A"%char.
Definition char_sext (c : ascii) : option sextet := option_map sextet_of_z (index_of c b64_alphabet 0).

(* base64.b64encode *)
Fixpoint b64_encode (b : str) : str :=
  match b with
  | [] => []
  | [Ascii a0 a1 a2 a3 a4 a5 a6 a7] =>
    [sext_char (a7, a6, a5, a4, a3, a2); sext_char (a1, a0, false, false, false, false); "="%char; "="%char]
  | [Ascii a0 a1 a2 a3 a4 a5 a6 a7; Ascii b0 b1 b2 b3 b4 b5 b6 b7] =>
    [sext_char (a7, a6, a5, a4, a3, a2); sext_char (a1, a0, b7, b6, b5, b4);
     sext_char (b3, b2, b1, b0, false, false); "="%char]
  | Ascii a0 a1 a2 a3 a4 a5 a6 a7 :: Ascii b0 b1 b2 b3 b4 b5 b6 b7 :: Ascii c0 c1 c2 c3 c4 c5 c6 c7 :: r =>
    sext_char (a7, a6, a5, a4, a3, a2) :: sext_char (a1, a0, b7, b6, b5, b4)
    :: sext_char (b3, b2, b1, b0, c7, c6) :: sext_char (c5, c4, c3, c2, c1, c0) :: b64_encode r
  end.
Definition print_base64 (b : str) : str := b64_encode b.

(* BASE64_RE = ^([A-Za-z0-9+/]{4})*([A-Za-z0-9+/]{2}[AEIMQUYcgkosw048]=|[A-Za-z0-9+/][AQgw]==)?$ together with
   b64decode: whole quadruples, then at most one padded group whose unused low bits are zero
   ([AQgw] = sextets 0,16,32,48; [AEIMQUYcgkosw048] = the multiples of 4) *)
Definition is_eq (c : ascii) : bool := ceq c "=".
Fixpoint b64_decode (s : str) : option str :=
  match s with
  | [] => Some []
  | c1 :: c2 :: c3 :: c4 :: r =>
    if is_eq c4 then
      if negb (is_nil r) then None else
      if is_eq c3 then
        match char_sext c1, char_sext c2 with
        | Some (a7, a6, a5, a4, a3, a2), Some (a1, a0, false, false, false, false) =>
          Some [Ascii a0 a1 a2 a3 a4 a5 a6 a7]
        | _, _ => None
        end
      else
        match char_sext c1, char_sext c2, char_sext c3 with
        | Some (a7, a6, a5, a4, a3, a2), Some (a1, a0, b7, b6, b5, b4), Some (b3, b2, b1, b0, false, false) =>
          Some [Ascii a0 a1 a2 a3 a4 a5 a6 a7; Ascii b0 b1 b2 b3 b4 b5 b6 b7]
        | _, _, _ => None
        end
    else
      match char_sext c1, char_sext c2, char_sext c3, char_sext c4, b64_decode r with
      | Some (a7, a6, a5, a4, a3, a2), Some (a1, a0, b7, b6, b5, b4), Some (b3, b2, b1, b0, c7, c6),
        Some (c5, c4', c3', c2', c1', c0), Some t =>
        Some (Ascii a0 a1 a2 a3 a4 a5 a6 a7 :: Ascii b0 b1 b2 b3 b4 b5 b6 b7 :: Ascii c0 c1' c2' c3' c4' c5 c6 c7 :: t)
      | _, _, _, _, _ => None
      end
  | _ => None
  end.
(* from_xsd: value.translate({0x20: None, 0x9: None, 0xA: None, 0xD: None}), the guard, b64decode *)
Definition parse_base64 (s : str) : res str :=
  match b64_decode (filter (fun c => negb (is_xsd_ws c)) s) with Some b => Ok b | None => Err ValueError end.
