(* C06 - a regular-expression matcher by Brzozowski derivatives, used only by the independent
   recognisers of the XSD lexical spaces (model/XsdLex.v), which transcribe the regular
   expressions printed in XML Schema 1.1 Part 2.  Definitions only. *)
From Coq Require Import List ZArith Bool Ascii String.
From Basyx Require Import model.XsdBase.
Import ListNotations.
Local Open Scope Z_scope.

Inductive re :=
| Emp                       (* no string *)
| Eps                       (* the empty string *)
| Cls (p : ascii -> bool)   (* one character of a class *)
| Cat (a b : re)
| Alt (a b : re)
| Star (a : re).

(* what a regular expression denotes *)
Inductive lang : re -> str -> Prop :=
| LEps : lang Eps []
| LCls p c : p c = true -> lang (Cls p) [c]
| LCat a b s1 s2 : lang a s1 -> lang b s2 -> lang (Cat a b) (s1 ++ s2)
| LAltL a b s : lang a s -> lang (Alt a b) s
| LAltR a b s : lang b s -> lang (Alt a b) s
| LStar0 a : lang (Star a) []
| LStarS a s1 s2 : lang a s1 -> lang (Star a) s2 -> lang (Star a) (s1 ++ s2).

Fixpoint nullable (r : re) : bool :=
  match r with
  | Emp => false | Eps => true | Cls _ => false
  | Cat a b => nullable a && nullable b
  | Alt a b => nullable a || nullable b
  | Star _ => true
  end.
(* constructors that drop the empty language, to keep derivatives small *)
Definition cat' (a b : re) : re :=
  match a with Emp => Emp | _ => match b with Emp => Emp | _ => Cat a b end end.
Definition alt' (a b : re) : re :=
  match a with Emp => b | _ => match b with Emp => a | _ => Alt a b end end.
Fixpoint deriv (c : ascii) (r : re) : re :=
  match r with
  | Emp => Emp | Eps => Emp
  | Cls p => if p c then Eps else Emp
  | Cat a b => if nullable a then alt' (cat' (deriv c a) b) (deriv c b) else cat' (deriv c a) b
  | Alt a b => alt' (deriv c a) (deriv c b)
  | Star a => cat' (deriv c a) (Star a)
  end.
Fixpoint matches (r : re) (s : str) : bool :=
  match s with [] => nullable r | c :: t => matches (deriv c r) t end.

(* notation of the XSD regular expressions *)
Definition ch (c : ascii) : re := Cls (ceq c).
Definition range (a b : ascii) : re := Cls (fun c => (code a <=? code c) && (code c <=? code b)).
Definition dig : re := Cls is_digit.                       (* [0-9] *)
Definition oneof (s : string) : re := Cls (fun c => existsb (ceq c) (L s)).
Definition opt (r : re) : re := Alt r Eps.                 (* r? *)
Definition plus (r : re) : re := Cat r (Star r).           (* r+ *)
Fixpoint lit_l (s : str) : re := match s with [] => Eps | c :: r => Cat (ch c) (lit_l r) end.
Definition lit (s : string) : re := lit_l (L s).
Fixpoint rep (n : nat) (r : re) : re := match n with O => Eps | S k => Cat r (rep k r) end.   (* r{n} *)
Fixpoint cats (l : list re) : re := match l with [] => Eps | [r] => r | r :: t => Cat r (cats t) end.
Fixpoint alts (l : list re) : re := match l with [] => Emp | [r] => r | r :: t => Alt r (alts t) end.
