(* Observation function for the correspondence check of model/Files.v against
   DictSupplementaryFileContainer. *)
From Coq Require Import List ZArith Bool String Ascii.
From Basyx Require Import model.Corr model.Files model.FileStreams.
Import ListNotations.
Local Open Scope Z_scope.

Definition enc_out (o : out) : list Z :=
  match o with
  | OName n => 0 :: codes n
  | OData c => [1; Z.of_nat c]
  | OCtype t => [2; Z.of_nat t]
  | OHash c => [3; Z.of_nat c]
  | OBool b => [4; zb b]
  | OUnit => [5]
  | OKeyError => [6]
  | OOutOfFuel => [7]
  end.

(* after each call: the call's outcome, the iteration order of names, and for every pool
   name what write_file / get_content_type / get_sha256 / __contains__ answer *)
Definition observe (s : st) (o : out) (pool : list string) : list (list Z) :=
  enc_out o
  :: (10 :: flat_map (fun n => codes n ++ [-1]) (iter_names s))
  :: map (fun n => 11 :: enc_out (write_file s n) ++ enc_out (get_content_type s n)
                      ++ enc_out (get_sha256 s n) ++ enc_out (contains s n)) pool.

Fixpoint trace (s : st) (ops : list op) (pool : list string) : list (list (list Z)) :=
  match ops with
  | [] => []
  | o :: r => let '(s', out) := step s o in observe s' out pool :: trace s' r pool
  end.

Definition check_case (c : list op * list string * Z) : bool :=
  let '(ops, pool, expected) := c in Z.eqb (hash_zlll 0 (trace init ops pool)) expected.

(* append_counter alone, for the translator-free validation of the string helper *)
Definition check_ac (c : string * nat * list Z) : bool :=
  let '(n, i, expected) := c in zl_eqb (codes (append_counter n i)) expected.

(* read() of a positioned in-memory stream (model/FileStreams.v) against io.BytesIO: the bytes handed out, and the
   bytes a second read() hands out *)
Definition check_read (c : list Z * nat * list Z * list Z) : bool :=
  let '(b, p, expected, expected2) := c in
  let r := read_all (mkStream b p) in
  zl_eqb (fst r) expected && zl_eqb (fst (read_all (snd r))) expected2.
