(* Specification side of C03: well-formed values w.r.t. the metamodel attribute table, and the decidable
   compatibility predicate between the attribute table, the writer rules and the reader rules.
   Definitions only; the theorem [compat -> round trip] is in proofs/CodecProofs.v. *)
From Coq Require Import List Bool String.
From Basyx Require Import model.Codec.
Import ListNotations.
Local Open Scope string_scope.

Section Spec.
Variable T : tables.
Variable M : meta.

(* ---------- well-formed values ---------- *)

Fixpoint enum_set_canon (members : list string) (l : list value) : bool :=
  (* l is the sub-sequence of [members] (each at most once, in member order) *)
  match members, l with
  | _, [] => true
  | [], _ :: _ => false
  | m :: ms, VStr s :: l' => if String.eqb s m then enum_set_canon ms l' else enum_set_canon ms l
  | _ :: _, _ :: _ => false
  end.

Fixpoint wfb (b : bkind) (v : value) {struct v} : bool :=
  match b, v with
  | BStr ne, VStr s => if ne then negb (String.eqb s "") else true
  | BBool, VBool _ => true
  | BEnum ms, VStr s => smem s ms
  | BLeaf, VLeaf _ => true
  | BEnumSet ms, VList l => enum_set_canon ms l
  | BList b' ne, VList l =>
    (if ne then match l with [] => false | _ => true end else true) && forallb (wfb b') l
  | BObj classes, VObj cls fs =>
    smem cls classes &&
    match sfind cls M with
    | None => false
    | Some attrs =>
      (fix go (attrs : list (string * kind)) (fs : list (string * value)) {struct fs} : bool :=
         match attrs, fs with
         | [], [] => true
         | (a, k) :: attrs', (a', x) :: fs' =>
           String.eqb a a' &&
           match x with VNone => k_opt k | _ => wfb (k_base k) x end &&
           go attrs' fs'
         | _, _ => false
         end) attrs fs
    end
  | _, _ => false
  end.

Definition aligned (attrs : list (string * kind)) (fs : list (string * value)) : bool :=
  (fix go (attrs : list (string * kind)) (fs : list (string * value)) {struct fs} : bool :=
     match attrs, fs with
     | [], [] => true
     | (a, k) :: attrs', (a', x) :: fs' =>
       String.eqb a a' &&
       match x with VNone => k_opt k | _ => wfb (k_base k) x end &&
       go attrs' fs'
     | _, _ => false
     end) attrs fs.

Definition wfk (k : kind) (x : value) : bool :=
  match x with VNone => k_opt k | _ => wfb (k_base k) x end.

(* class-level dependency used by nested emission (`if obj.version: ... if obj.revision:`):
   an attribute written under another one is only present when that one is truthy (AASd-005) *)
Fixpoint deps_ok (v : value) : bool :=
  match v with
  | VList l => forallb deps_ok l
  | VObj cls fs =>
    match sfind cls T with
    | None => true
    | Some c =>
      forallb (fun r => match w_cond r with
                        | WTruthyUnder o =>
                          match sfind (w_attr r) fs, sfind o fs with
                          | Some VNone, _ => true
                          | Some _, Some (VStr s) => negb (String.eqb s "")
                          | Some _, _ => false
                          | None, _ => true
                          end
                        | _ => true end) (c_w c)
    end && forallb (fun p => deps_ok (snd p)) fs
  | _ => true
  end.

(* ---------- compatibility ---------- *)

Fixpoint nodup_str (l : list string) : bool :=
  match l with [] => true | x :: r => negb (smem x r) && nodup_str r end.
Definition incl_str (a b : list string) : bool := forallb (fun x => smem x b) a.

Fixpoint strs_eqb (a b : list string) : bool :=
  match a, b with [], [] => true | x :: a', y :: b' => String.eqb x y && strs_eqb a' b' | _, _ => false end.

Fixpoint table_eqb (a b : table) : bool :=
  match a, b with
  | [], [] => true
  | (k, v) :: a', (k', v') :: b' => String.eqb k k' && String.eqb v v' && table_eqb a' b'
  | _, _ => false
  end.
Definition table_ok (ms : list string) (t : table) : bool :=
  nodup_str (map fst t) && nodup_str (map snd t) && incl_str ms (map fst t).

Definition const_of (member cls : string) : option string :=
  match sfind cls T with Some c => sfind member (c_consts c) | None => None end.
(* the classes a dispatching decoder chooses from are told apart by their constant *)
Definition dispatch_ok (member : string) (classes : list string) : bool :=
  forallb (fun c => match const_of member c with Some _ => true | None => false end) classes &&
  nodup_str (flat_map (fun c => match const_of member c with Some s => [s] | None => [] end) classes).

Fixpoint base_truthy (b : bkind) : bool :=   (* every well-formed value of this kind is truthy in Python *)
  match b with
  | BStr ne => ne
  | BEnum ms => negb (smem "" ms)
  | BObj _ => true
  | BList _ ne => ne
  | _ => false
  end.
Definition is_coll (b : bkind) : bool := match b with BList _ _ => true | BEnumSet _ => true | _ => false end.

Fixpoint codec_compat (b : bkind) (e : venc) (d : vdec) {struct b} : bool :=
  match b, e, d with
  | BStr _, EAuto, DcStr => true
  | BStr _, ELeaf, DcStr => true
  | BBool, EAuto, DcBool => true
  | BLeaf, ELeaf, DcLeaf => true
  | BEnum ms, EEnum t, DcEnum t' => table_eqb t t' && table_ok ms t
  | BObj classes, EAuto, DcObj c => match classes with [c'] => String.eqb c c' | _ => false end
  | BObj classes, EAuto, DcRef cs => incl_str classes cs && dispatch_ok "type" cs
  | BObj classes, EAuto, DcAuto cs => incl_str classes cs && dispatch_ok "modelType" cs
  | BList b' _, EAuto, DcList d' => codec_compat b' EAuto d'
  | BList b' _, EListWrap m, DcListUnwrap m' d' => String.eqb m m' && codec_compat b' EAuto d'
  | BList b' ne, EObjWrap m, DcObjUnwrap m' d' =>
    String.eqb m m' && match d' with DcList d'' => codec_compat b' EAuto d'' | _ => false end
  | BEnumSet ms, ELevel t, DcLevel t' =>
    table_eqb t t' && nodup_str (map fst t) && nodup_str (map snd t) &&
    strs_eqb ms (map fst t)
  | _, _, _ => false
  end.

(* writer condition vs reader condition, for an attribute of kind k *)
Definition cond_compat (c : crules) (attrs : list (string * kind)) (k : kind) (w : wrule) (r : rrule) : bool :=
  let b := k_base k in
  if k_opt k then
    (* domain: None or a value of the base kind; emit exactly when not None; absent -> None *)
    match w_cond w with
    | WNotNone => match r_cond r with RIfPresent | RIfPresentNotNull => true | _ => false end
    | WTruthy => base_truthy b && match r_cond r with RIfPresent | RIfPresentNotNull => true | _ => false end
    | WTruthyUnder o =>
      base_truthy b &&
      match r_cond r, find_w o (c_w c), sfind o attrs with
      | RIfPresentUnder om, Some wo, Some ko =>
        String.eqb (w_member wo) om && k_opt ko &&
        match k_base ko with BStr true => true | _ => false end &&
        match w_cond wo with WTruthy => true | _ => false end &&
        negb (w_unstripped_only wo)
      | _, _, _ => false
      end
    | _ => false
    end
  else if is_coll b then
    (* domain: a collection, possibly empty; absent -> empty collection *)
    match w_cond w with
    | WAlways | WNotNone => match r_cond r with RMandatory | RIfPresent | RIfPresentNotNull => true | _ => false end
    | WTruthy | WNonEmpty => match r_cond r with RIfPresent | RIfPresentNotNull => true | _ => false end
    | _ => false
    end
  else
    (* mandatory scalar / object: always a value *)
    match w_cond w with
    | WAlways | WNotNone =>
      match r_cond r with RMandatory | RIfPresent | RIfPresentNotNull | RDefault _ => true | _ => false end
    | WTruthy => base_truthy b &&
                 match r_cond r with RMandatory | RIfPresent | RIfPresentNotNull | RDefault _ => true | _ => false end
    | WEquals m =>
      (* emitted only for the member m; every other member of the domain must be the reader's default *)
      match b, r_cond r with
      | BEnum ms, RDefault (VStr dflt) => forallb (fun x => String.eqb x m || String.eqb x dflt) ms
      | _, _ => false
      end
    | _ => false
    end.

Definition field_compat (c : crules) (attrs : list (string * kind)) (ak : string * kind) : bool :=
  match find_w (fst ak) (c_w c), find_r (fst ak) (c_r c) with
  | Some w, Some r =>
    String.eqb (w_member w) (r_member r) &&
    cond_compat c attrs (snd ak) w r &&
    codec_compat (k_base (snd ak)) (w_enc w) (r_dec r)
  | _, _ => false
  end.

Definition class_compat (cls : string) : bool :=
  match sfind cls T, sfind cls M with
  | Some c, Some attrs =>
    nodup_str (map fst attrs) &&
    nodup_str (map fst (c_consts c) ++ map w_member (c_w c)) &&
    nodup_str (map r_member (c_r c)) &&
    forallb (field_compat c attrs) attrs
  | _, _ => false
  end.

Definition compat : bool := forallb (fun p => class_compat (fst p)) M.

(* the rows that make [compat] false: (class, attribute) *)
Definition incompatible_rows : list (string * string) :=
  flat_map (fun p =>
    match sfind (fst p) T with
    | Some c => flat_map (fun ak => if field_compat c (snd p) ak then [] else [(fst p, fst ak)]) (snd p)
    | None => [(fst p, "")]
    end) M.

End Spec.
