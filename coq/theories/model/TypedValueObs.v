(* Observations for the correspondence runs of the typed-value model (tools/c02_typed.py). *)
From Coq Require Import List ZArith Bool.
From Basyx Require Import model.Corr model.ConstraintsBase model.ConstraintsObs model.TypedBase gen.Gen_TypedValues
  model.TypedValue gen.Gen_TypedSetters model.TypedItems.
Import ListNotations.
Local Open Scope Z_scope.

Definition cls_code (c : pcls) : Z :=
  match find (fun p => pcls_beq (snd p) c) (combine (seq 0 (length all_pcls)) all_pcls) with
  | Some p => Z.of_nat (fst p) | None => -1 end.
Definition cls_of_code (n : nat) : pcls := nth n all_pcls KOther.

Definition mkv (c : nat) (n : Z) (s : list Z) (tok : Z) : pyval :=
  {| vcls := cls_of_code c; vnum := n; vstr := s; vtok := tok |}.

(* a value as observed: class, integer payload, number of characters, token *)
Definition enc_val (v : option pyval) : list Z :=
  match v with None => [-1] | Some x => [cls_code (vcls x); vnum x; len (vstr x); vtok x] end.
Definition enc_ty (t : option pcls) : Z := match t with None => -1 | Some c => cls_code c end.

(* one trivial_cast call: (value, target) -> [error code; observed result] *)
Definition tc_obs (v : pyval) (t : nat) : list Z :=
  match trivial_cast v (cls_of_code t) with
  | inl y => 0 :: zb (pcls_beq (vcls y) (vcls v)) :: enc_val (Some y)
  | inr e => [enc_err (Some e)]
  end.
Definition check_tc_case (c : pyval * nat * Z) : bool :=
  let '(v, t, expected) := c in Z.eqb (hash_zl 0 (tc_obs v t)) expected.

(* the whole class-level table in one number: every class of the universe against every XSD type *)
Definition act_code (a : tc_act) : Z := match a with TcSame => 0 | TcConstruct => 1 | TcDate => 2 | TcTypeError => 3 end.
Definition tc_table : list Z :=
  flat_map (fun vc => map (fun t => act_code (trivial_cast_gen vc t)) xsd_types) all_pcls.
Definition check_tc_table (expected : list Z) : bool := zl_eqb tc_table expected.
Definition sub_table : list Z :=
  flat_map (fun c => map (fun d => zb (subcls c d)) all_pcls) all_pcls.
Definition check_sub_table (expected : list Z) : bool := zl_eqb sub_table expected.

Definition enc_holder (h : holder) : list Z := enc_ty (htype h) :: enc_val (hval h).
Fixpoint htrace (h : holder) (ops : list hop) : list (list Z) :=
  match ops with
  | [] => []
  | p :: r => let '(h', e) := hstep h p in (enc_err e :: enc_holder h') :: htrace h' r
  end.
Definition holder_case_trace (opt : bool) (t : option pcls) (v : option pyval) (ops : list hop) : list (list Z) :=
  match hctor opt t v with
  | (Some h, _) => (0 :: enc_holder h) :: htrace h ops
  | (None, e) => [[enc_err e]]
  end.
Definition check_holder_case (c : bool * option nat * option pyval * list hop * Z) : bool :=
  let '(opt, t, v, ops, expected) := c in
  Z.eqb (hash_zll 0 (holder_case_trace opt (option_map cls_of_code t) v ops)) expected.

Definition enc_range (r : range) : list Z := cls_code (rtype r) :: enc_val (rmin r) ++ enc_val (rmax r).
Fixpoint rtrace (r : range) (ops : list rop) : list (list Z) :=
  match ops with
  | [] => []
  | p :: q => let '(r', e) := rstep r p in (enc_err e :: enc_range r') :: rtrace r' q
  end.
Definition range_case_trace (t : pcls) (mn mx : option pyval) (ops : list rop) : list (list Z) :=
  match rctor t mn mx with
  | (Some r, _) => (0 :: enc_range r) :: rtrace r ops
  | (None, e) => [[enc_err e]]
  end.
Definition check_range_case (c : nat * option pyval * option pyval * list rop * Z) : bool :=
  let '(t, mn, mx, ops, expected) := c in
  Z.eqb (hash_zll 0 (range_case_trace (cls_of_code t) mn mx ops)) expected.

(* op constructors with class codes, for the generated case files *)
Definition HT (t : option nat) : hop := HSetType (option_map cls_of_code t).
Definition RT (t : nat) : rop := RSetType (cls_of_code t).

(* items of a list of Properties / Ranges: re-typing histories *)
Definition item_trace (is_range : bool) (vtle : pcls) (ty : option pcls) (a b : option pyval) (ts : list pcls) : list (list Z) :=
  map (fun r => let '(e, (ty', a', b')) := r in enc_err e :: enc_ty ty' :: enc_val a' ++ enc_val b')
      (item_run is_range vtle ty a b ts).
Definition check_item_case (c : bool * nat * nat * option pyval * option pyval * list nat * Z) : bool :=
  let '(is_range, vtle, t0, a, b, ts, expected) := c in
  Z.eqb (hash_zll 0 (item_trace is_range (cls_of_code vtle) (Some (cls_of_code t0)) a b (map cls_of_code ts))) expected.
