(* C05 - leaf facets shared by the JSON and the XML schema tables (model/Schema.v, model/SchemaXml.v).
   Strings are UTF-8 byte strings; lengths are counted in code points.  `pattern` facets are not interpreted in Coq:
   a pattern is identified by an id (J<n> / X<n>; the texts are in build/schemas.json) and decided by the parameter
   [pm].  Definitions only. *)
From Coq Require Import List Bool String Ascii NArith.
Import ListNotations.
Local Open Scope string_scope.

(* ---------- leaf facets ---------- *)
Definition is_cont (c : ascii) : bool :=          (* UTF-8 continuation byte 10xxxxxx *)
  match c with Ascii _ _ _ _ _ _ b6 b7 => b7 && negb b6 end.
Fixpoint ulen (s : string) : N :=
  match s with
  | EmptyString => 0%N
  | String c r => if is_cont c then ulen r else N.succ (ulen r)
  end.

Record facets := mkF { f_min : N; f_max : option N; f_pats : list string }.

Definition nonempty {A} (l : list A) : bool := match l with [] => false | _ => true end.

Definition facets_ok (pm : string -> string -> bool) (f : facets) (s : string) : bool :=
  (f_min f <=? ulen s)%N &&
  match f_max f with Some m => (ulen s <=? m)%N | None => true end &&
  forallb (fun p => pm p s) (f_pats f).

(* every string meeting [f] meets [g] (for every pattern oracle): bounds are no wider, patterns are among f's *)
Definition fimpl (f g : facets) : bool :=
  (f_min g <=? f_min f)%N &&
  match f_max g with
  | None => true
  | Some mg => match f_max f with Some mf => (mf <=? mg)%N | None => false end
  end &&
  forallb (fun p => existsb (String.eqb p) (f_pats f)) (f_pats g).
