(* C09 - exception-flow model of the JSON and XML readers (definitions only).

   The translator tools/py2coq/readerflow.py turns every function of
   adapter/json/json_deserialization.py and adapter/xml/xml_deserialization.py into a [stmt]
   (gen/Gen_ReaderFlow.v): primitive operations with the exception classes they may raise,
   calls, explicit raises, try/except with the caught tuple, the failsafe/strict branches.
   Higher-order helpers (_failsafe_construct & co.) are specialised per (constructor, failsafe
   flag) so that a [stmt] has no parameters.

   [exec] is the abstract, nondeterministic semantics: a primitive either succeeds or raises one
   of the classes of its raise-set, conditions are not interpreted (every branch may run, loops run
   any number of times), [return]/[continue] are no-ops.  It over-approximates the control flow of
   the Python code, so "no derivation ends in an exception" is a statement about every document.

   [esc] is the executable analysis: the classes that may escape a statement, given a table with
   the classes that may escape every function.  proofs/ReaderFlowProofs.v shows it sound for any
   table that is a post-fixpoint ([postfix]); the table itself is computed by iteration. *)
From Coq Require Import List Bool NArith Arith.
Import ListNotations.

Inductive exn :=
| KeyError | TypeError | ValueError | AASCV            (* the four documented classes *)
| LookupError | IndexError | AttributeError | AssertionError
| BinasciiError | UnicodeDecodeError | JSONDecodeError   (* subclasses of ValueError *)
| XMLSyntaxError | OSError | RecursionError | OverflowError | OtherError.

Definition exn_code (e : exn) : nat :=
  match e with
  | KeyError => 0 | TypeError => 1 | ValueError => 2 | AASCV => 3 | LookupError => 4 | IndexError => 5
  | AttributeError => 6 | AssertionError => 7 | BinasciiError => 8 | UnicodeDecodeError => 9
  | JSONDecodeError => 10 | XMLSyntaxError => 11 | OSError => 12 | RecursionError => 13
  | OverflowError => 14 | OtherError => 15
  end.
Definition exn_eqb (a b : exn) : bool := Nat.eqb (exn_code a) (exn_code b).

(* Python's subclass relation, as far as it matters for [except] clauses *)
Definition exn_sub (a b : exn) : bool :=
  exn_eqb a b ||
  match a, b with
  | BinasciiError, ValueError | UnicodeDecodeError, ValueError | JSONDecodeError, ValueError => true
  | KeyError, LookupError | IndexError, LookupError => true
  | _, _ => false
  end.

Definition catches (caught : list exn) (e : exn) : bool := existsb (exn_sub e) caught.

Definition documented (e : exn) : bool := catches [KeyError; ValueError; TypeError; AASCV] e.

(* kinds of primitives whose failure depends on the environment, not on the document content *)
Inductive envk := EnvNone | EnvSyntax | EnvIO | EnvConflict | EnvArg | EnvBug.
Record scenario := { sc_syntax : bool;     (* the input may be not well-formed JSON / XML *)
                     sc_io : bool;         (* opening / reading the file may fail *)
                     sc_conflict : bool;   (* the target store may already hold an identifier of the document
                                              while neither replace_existing nor ignore_existing is set *)
                     sc_arg : bool;        (* the caller may pass an XMLConstructables member that has no constructor *)
                     sc_bug : bool }.      (* the "this is a bug in the SDK" trap of _failsafe_construct_mandatory may fire:
                                              a strict _failsafe_construct of an existing element returned None *)
Definition env_on (sc : scenario) (k : envk) : bool :=
  match k with EnvNone => true | EnvSyntax => sc_syntax sc | EnvIO => sc_io sc | EnvConflict => sc_conflict sc | EnvArg => sc_arg sc | EnvBug => sc_bug sc end.

(* [raise type(e)(...)] / [raise (type(e) if isinstance(e, (A, B)) else C)(...)] inside a handler *)
Inductive rr := RSame | RFixed (e : exn).
Definition rr_apply (r : rr) (e : exn) : exn := match r with RSame => e | RFixed x => x end.
Definition reraise_of (rules : list (list exn * rr)) (dflt : rr) (e : exn) : exn :=
  match find (fun rl => catches (fst rl) e) rules with
  | Some rl => rr_apply (snd rl) e
  | None => rr_apply dflt e
  end.

Inductive stmt :=
| SPrim (site : N) (raises : list exn) (env : envk)
| SCall (f : nat)
| SRaise (e : exn)
| SReraise (rules : list (list exn * rr)) (dflt : rr)
| SSeq (l : list stmt)
| SIf (branches : list stmt)
| SIfFs (t e : stmt)                 (* if <failsafe flag of the decoder>: t else: e *)
| SIfEnv (k : envk) (t e : stmt)     (* a condition that can only hold in scenario k *)
| SLoop (b : stmt)
| STry (b : stmt) (caught : list exn) (h : stmt)
| SReturn                            (* return / end of a generator *)
| SContinue.

Inductive brk := BReturn | BContinue.
Inductive outcome := ONormal | OBrk (k : brk) | OExc (e : exn).
(* a call ends normally when the callee returns *)
Definition call_out (o : outcome) : outcome := match o with OExc e => OExc e | _ => ONormal end.
Definition is_exc (o : outcome) : bool := match o with OExc _ => true | _ => false end.

(* escape sets of a statement sequence: statements after one that cannot complete normally are dead *)
Section SeqEsc.
  Variable f : stmt -> list exn * bool.
  Fixpoint seq_esc (l : list stmt) : list exn * bool :=
    match l with
    | [] => ([], true)
    | x :: r => let (ex, nx) := f x in
                if nx then let (er, nr) := seq_esc r in (ex ++ er, nr) else (ex, false)
    end.
  (* alternatives: union of the escape sets; completes normally if some alternative does *)
  Fixpoint alt_esc (l : list stmt) : list exn * bool :=
    match l with
    | [] => ([], false)
    | x :: r => let (ex, nx) := f x in let (er, nr) := alt_esc r in (ex ++ er, nx || nr)
    end.
End SeqEsc.

Section Sem.
  Variable funs : list stmt.          (* function bodies, SCall f refers to the f-th *)
  Variable sc : scenario.
  Variable failsafe : bool.           (* the decoder's mode *)

  (* exec cur s o: statement s, run while handling exception cur (if any), ends with outcome o *)
  Inductive exec : option exn -> stmt -> outcome -> Prop :=
  | EPrimOk : forall cur n r k, exec cur (SPrim n r k) ONormal
  | EPrimExc : forall cur n r k e, env_on sc k = true -> In e r -> exec cur (SPrim n r k) (OExc e)
  | ECall : forall cur f body o, nth_error funs f = Some body -> exec None body o -> exec cur (SCall f) (call_out o)
  | EReturn : forall cur, exec cur SReturn (OBrk BReturn)
  | EContinue : forall cur, exec cur SContinue (OBrk BContinue)
  | ERaise : forall cur e, exec cur (SRaise e) (OExc e)
  | EReraise : forall c rules d, exec (Some c) (SReraise rules d) (OExc (reraise_of rules d c))
  | ESeqNil : forall cur, exec cur (SSeq []) ONormal
  | ESeqCons : forall cur s l o, exec cur s ONormal -> exec cur (SSeq l) o -> exec cur (SSeq (s :: l)) o
  | ESeqAbort : forall cur s l o, exec cur s o -> o <> ONormal -> exec cur (SSeq (s :: l)) o
  | EIf : forall cur l b o, In b l -> exec cur b o -> exec cur (SIf l) o
  | EIfFs : forall cur t e o, exec cur (if failsafe then t else e) o -> exec cur (SIfFs t e) o
  | EIfEnvT : forall cur k t e o, env_on sc k = true -> exec cur t o -> exec cur (SIfEnv k t e) o
  | EIfEnvE : forall cur k t e o, exec cur e o -> exec cur (SIfEnv k t e) o
  | ELoopEnd : forall cur b, exec cur (SLoop b) ONormal
  | ELoopStep : forall cur b o1 o, exec cur b o1 -> o1 = ONormal \/ o1 = OBrk BContinue ->
                                    exec cur (SLoop b) o -> exec cur (SLoop b) o
  | ELoopExc : forall cur b e, exec cur b (OExc e) -> exec cur (SLoop b) (OExc e)
  | ELoopReturn : forall cur b, exec cur b (OBrk BReturn) -> exec cur (SLoop b) (OBrk BReturn)
  | ETryOk : forall cur b c h o, exec cur b o -> is_exc o = false -> exec cur (STry b c h) o
  | ETryPass : forall cur b c h e, exec cur b (OExc e) -> catches c e = false -> exec cur (STry b c h) (OExc e)
  | ETryCatch : forall cur b c h e o, exec cur b (OExc e) -> catches c e = true -> exec (Some e) h o ->
                                      exec cur (STry b c h) o.

  (* ---- the analysis *)
  Variable tbl : list (list exn).     (* per function: classes that may escape it *)

  (* (classes that may escape s, may s complete normally) *)
  Fixpoint esc (cur : list exn) (s : stmt) : list exn * bool :=
    match s with
    | SPrim _ r k => (if env_on sc k then r else [], true)
    | SCall f => (nth f tbl [], true)
    | SRaise e => ([e], false)
    | SReraise rules d => (map (reraise_of rules d) cur, false)
    | SSeq l => seq_esc (esc cur) l
    | SIf l => alt_esc (esc cur) l
    | SIfFs t e => if failsafe then esc cur t else esc cur e
    | SIfEnv k t e => if env_on sc k then let (et, nt) := esc cur t in let (ee, ne) := esc cur e in (et ++ ee, nt || ne)
                      else esc cur e
    | SLoop b => let (eb, _) := esc cur b in (eb, true)
    | STry b c h => let (B, nb) := esc cur b in
                    let (eh, nh) := esc (filter (catches c) B) h in
                    (filter (fun x => negb (catches c x)) B ++ eh, nb || nh)
    | SReturn | SContinue => ([], false)
    end.

  Definition mem (e : exn) (l : list exn) : bool := existsb (exn_eqb e) l.
  Definition subset (a b : list exn) : bool := forallb (fun x => mem x b) a.

  (* every call refers to an existing function *)
  Fixpoint calls_ok (s : stmt) : bool :=
    match s with
    | SCall f => Nat.ltb f (length funs)
    | SSeq l | SIf l => forallb calls_ok l
    | SIfFs t e | SIfEnv _ t e => calls_ok t && calls_ok e
    | SLoop b => calls_ok b
    | STry b _ h => calls_ok b && calls_ok h
    | _ => true
    end.

  Fixpoint postfix_rows (fs : list stmt) (tb : list (list exn)) : bool :=
    match fs, tb with
    | [], [] => true
    | b :: fs', t :: tb' => subset (fst (esc [] b)) t && postfix_rows fs' tb'
    | _, _ => false
    end.
  Definition postfix : bool := postfix_rows funs tbl && forallb calls_ok funs.
End Sem.

(* the table is computed by iterating the analysis from the empty table *)
Definition dedup (l : list exn) : list exn :=
  fold_right (fun x acc => if mem x acc then acc else x :: acc) [] l.
Definition step (funs : list stmt) sc m (tbl : list (list exn)) : list (list exn) :=
  map (fun b => dedup (fst (esc sc m tbl [] b))) funs.
Fixpoint iter (n : nat) funs sc m tbl := match n with O => tbl | S n' => iter n' funs sc m (step funs sc m tbl) end.
Definition table (rounds : nat) funs sc m : list (list exn) := iter rounds funs sc m (map (fun _ => []) funs).

Definition scn_document : scenario := {| sc_syntax := false; sc_io := false; sc_conflict := false; sc_arg := false; sc_bug := false |}.
Definition scn_bytes : scenario := {| sc_syntax := true; sc_io := false; sc_conflict := false; sc_arg := false; sc_bug := false |}.
Definition scn_conflict : scenario := {| sc_syntax := false; sc_io := false; sc_conflict := true; sc_arg := false; sc_bug := false |}.
Definition scn_all : scenario := {| sc_syntax := true; sc_io := true; sc_conflict := true; sc_arg := true; sc_bug := true |}.

(* ---- observation side (tie C): events recorded while the real readers run *)
(* an exception of class e was first raised at a statement whose primitive sites have the given raise-sets *)
Definition origin_ok (e : exn) (site_sets : list (list exn)) : bool := existsb (fun r => catches r e) site_sets.
(* an exception of class e left function instances with the given escape sets *)
Definition unwind_ok (e : exn) (esc_sets : list (list exn)) : bool := existsb (fun r => catches r e) esc_sets.
