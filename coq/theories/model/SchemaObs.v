(* C05 - observation encoding for the correspondence of the two schema validators with the real validators
   (jsonschema, lxml.etree.XMLSchema): a case carries the document, the expected verdict of the real validator and the
   pattern queries that FAIL (decided by Python's re in the harness; every other query holds).  Definitions only. *)
From Coq Require Import List Bool String.
From Basyx Require Import model.Codec model.SchemaBase model.Schema gen.Gen_Schema.
Import ListNotations.
Local Open Scope string_scope.

Definition pm_of (fails : list (string * string)) (p s : string) : bool :=
  negb (existsb (fun q => String.eqb (fst q) p && String.eqb (snd q) s) fails).

(* (type the document is validated against, document, failing pattern queries, verdict of jsonschema) *)
Definition jcase := (sty * doc * list (string * string) * bool)%type.
Definition check_j (c : jcase) : bool :=
  match c with
  | (t, d, fails, expected) => Bool.eqb (jvalid (pm_of fails) json_schema false t d) expected
  end.

(* the model's environment document against the SDK's: (identifiables as values, falsy literals, hash of the JSON) *)
From Coq Require Import ZArith.
From Basyx Require Import model.CodecObs gen.Gen_JsonRules.
Definition check_env (c : list value * list string * Z) : bool :=
  match c with
  | (objs, falsy, expected) => Z.eqb (hdoc 0%Z (env_doc json_tables (lt_of falsy) json_tops objs)) expected
  end.
