(* Helpers shared by the correspondence checks: observations are encoded as rows of Z so that
   the expected observation (computed by the SDK) can be embedded in a generated cases file and
   compared inside Coq by vm_compute. *)
From Coq Require Import List ZArith Bool String Ascii.
Import ListNotations.

Fixpoint zl_eqb (a b : list Z) : bool :=
  match a, b with
  | [], [] => true
  | x :: a', y :: b' => Z.eqb x y && zl_eqb a' b'
  | _, _ => false
  end.
Fixpoint zll_eqb (a b : list (list Z)) : bool :=
  match a, b with
  | [], [] => true
  | x :: a', y :: b' => zl_eqb x y && zll_eqb a' b'
  | _, _ => false
  end.
Fixpoint zlll_eqb (a b : list (list (list Z))) : bool :=
  match a, b with
  | [], [] => true
  | x :: a', y :: b' => zll_eqb x y && zlll_eqb a' b'
  | _, _ => false
  end.

Fixpoint codes (s : string) : list Z :=
  match s with
  | EmptyString => []
  | String a r => Z.of_nat (nat_of_ascii a) :: codes r
  end.
Definition zopt (o : option Z) : list Z := match o with Some x => [1%Z; x] | None => [0%Z] end.
Definition zb (b : bool) : Z := if b then 1%Z else 0%Z.

(* A rolling hash of an encoded observation, so that a generated cases file carries one number
   per case instead of the whole expected trace (parsing large literals dominates otherwise).
   tools/common.py:zhash computes the same function on the SDK's observation; a mismatch of the
   two numbers is then re-evaluated in full for the report.  The hash is only a transport
   optimisation of the differential test, no theorem depends on it. *)
Local Open Scope Z_scope.
Definition hP : Z := 2305843009213693951.
Definition hmix (h x : Z) : Z := Z.land (1000003 * h + x + 7) hP.  (* hP = 2^61-1: a mask, cheap under vm_compute *)
Fixpoint hash_zl (h : Z) (l : list Z) : Z :=
  match l with [] => hmix h (-2) | x :: r => hash_zl (hmix h x) r end.
Fixpoint hash_zll (h : Z) (l : list (list Z)) : Z :=
  match l with [] => hmix h (-3) | x :: r => hash_zll (hash_zl h x) r end.
Fixpoint hash_zlll (h : Z) (l : list (list (list Z))) : Z :=
  match l with [] => hmix h (-4) | x :: r => hash_zlll (hash_zll h x) r end.
