(* Model of a document write of the local-file backend under faults
   (sdk/basyx/aas/backend/local_file.py: _write_document, LocalFileObjectStore.add,
   LocalFileBackend.commit_object).  Definitions only; proofs are in proofs/CrashProofs.v.

   A write is the ordered list of *effects* the code performs.  Every effect may be hit by a
   fault: it raises an exception, or the process dies while it is in progress.  The file system
   keeps, per file name, either a complete serialisation [Full v] or a strict prefix / non-document
   [Trunc n] (n bytes).  Data handed to a file object's write() sits in a userspace buffer until
   close(): if the process dies (or write/close raise) any prefix of it may have reached the file;
   which prefix is chosen by the fault ([None] = all of it, [Some n] = exactly n bytes, a strict
   prefix).

   Trusted (not modelled): os.replace is atomic (it either happened or did not, also when it
   raises or the process dies); a failing open() does not create the file; no strict prefix of a
   serialised document parses as JSON; sha256 is injective on the identifiers used (document
   names are the keys themselves); kernel durability after power loss is out of scope. *)
From Coq Require Import List Arith Bool ZArith.
Import ListNotations.

Definition key := nat.   (* identifier (hash) of an Identifiable *)
Definition ver := nat.   (* token for one complete serialisation of an object state *)
Definition exn := nat.   (* exception class *)
Definition xOSError : exn := 1.
Definition xKeyError : exn := 2.

Inductive fname :=
| FDoc (k : key)          (* <sha256(id)>.json *)
| FTmp (k : key)          (* <sha256(id)>.json.<pid>-<thread>.tmp of the writing process *)
| FOther (n : nat).       (* any other name in the directory (foreign file, stale temporary file) *)

Definition fname_eqb (a b : fname) : bool :=
  match a, b with
  | FDoc x, FDoc y => Nat.eqb x y
  | FTmp x, FTmp y => Nat.eqb x y
  | FOther x, FOther y => Nat.eqb x y
  | _, _ => false
  end.

Inductive content :=
| Full (v : ver)          (* the complete serialisation of version v *)
| Trunc (n : Z).          (* n bytes that are not a complete document (Z: sizes are only data) *)

Definition fs := list (fname * content).

Fixpoint lookup (f : fname) (d : fs) : option content :=
  match d with
  | [] => None
  | (g, c) :: r => if fname_eqb f g then Some c else lookup f r
  end.
Fixpoint remove (f : fname) (d : fs) : fs :=
  match d with
  | [] => []
  | (g, c) :: r => if fname_eqb f g then remove f r else (g, c) :: remove f r
  end.
Fixpoint set (f : fname) (c : content) (d : fs) : fs :=
  match d with
  | [] => [(f, c)]
  | (g, c') :: r => if fname_eqb f g then (g, c) :: r else (g, c') :: set f c r
  end.

(* ---- effects --------------------------------------------------------- *)

Inductive eff :=
| EExists (f : fname)           (* if os.path.exists(f): raise KeyError *)
| EEncode                       (* json.dumps({"data": obj}, cls=AASToJsonEncoder): whole document in memory *)
| EOpenW (f : fname)            (* open(f, "w"): creates or truncates *)
| EWrite (f : fname)            (* file.write(data): buffered *)
| EClose (f : fname)            (* leaving the with block: flush + close *)
| EReplace (a b : fname)        (* os.replace(a, b) *)
| ERemove (f : fname)           (* os.remove(f) *)
| ECacheInsert                  (* self._object_cache[x.id] = x *)
| ESetSource.                   (* self.generate_source(x) *)

Definition is_mem (e : eff) : bool :=
  match e with ECacheInsert | ESetSource => true | _ => false end.

Inductive payload :=
| Good (v : ver)                (* the object serialises to version v *)
| Bad (x : exn).                (* the serialiser rejects the object with exception class x *)

(* what happens to one effect *)
Inductive fk :=
| FNone
| FRaise (x : exn) (fl : option Z)   (* it raises x; for write/close: how much buffered data reached the file *)
| FCrash (fl : option Z).            (* the process dies while it is in progress *)

Record st := mkst {
  disk : fs;
  wr : option (fname * option ver);    (* file open for writing and the data handed to write() so far *)
  data : option ver;                   (* the encoded document held in memory *)
  cached : bool;                       (* object inserted into the instance's cache *)
  sourced : bool                       (* object's source attribute set *)
}.
Definition fresh_st (d : fs) : st := mkst d None None false false.

Definition resolve (fl : option Z) (w : option ver) : content :=
  match w with
  | None => Trunc 0%Z
  | Some v => match fl with None => Full v | Some n => Trunc n end
  end.

Inductive sres := SOk (s : st) | SRaise (x : exn) (s : st) | SStuck.

Definition mem (f : fname) (d : fs) : bool := match lookup f d with Some _ => true | None => false end.

(* the effect without injected fault ([SStuck]: the effect list is not a meaningful program, e.g.
   write to a file that is not open - excluded by proof for the procedures below) *)
Definition natural (e : eff) (pl : payload) (s : st) : sres :=
  match e with
  | EExists f => if mem f (disk s) then SRaise xKeyError s else SOk s
  | EEncode => match pl with
               | Good v => SOk (mkst (disk s) (wr s) (Some v) (cached s) (sourced s))
               | Bad x => SRaise x s
               end
  | EOpenW f => match wr s with
                | Some _ => SStuck
                | None => SOk (mkst (set f (Trunc 0%Z) (disk s)) (Some (f, None)) (data s) (cached s) (sourced s))
                end
  | EWrite f => match wr s, data s with
                | Some (g, _), Some v =>
                  if fname_eqb f g then SOk (mkst (disk s) (Some (f, Some v)) (data s) (cached s) (sourced s))
                  else SStuck
                | _, _ => SStuck
                end
  | EClose f => match wr s with
                | Some (g, w) =>
                  if fname_eqb f g then SOk (mkst (set f (resolve None w) (disk s)) None (data s) (cached s) (sourced s))
                  else SStuck
                | None => SStuck
                end
  | EReplace a b => match lookup a (disk s) with
                    | Some c => SOk (mkst (set b c (remove a (disk s))) (wr s) (data s) (cached s) (sourced s))
                    | None => SRaise xOSError s
                    end
  | ERemove f => if mem f (disk s)
                 then SOk (mkst (remove f (disk s)) (wr s) (data s) (cached s) (sourced s))
                 else SRaise xOSError s
  | ECacheInsert => SOk (mkst (disk s) (wr s) (data s) true (sourced s))
  | ESetSource => SOk (mkst (disk s) (wr s) (data s) (cached s) true)
  end.

(* state after the effect raised an injected exception.  A raising write()/close() leaves the with
   block, which closes the file: whatever part of the data was flushed stays in the file. *)
Definition injected (e : eff) (fl : option Z) (s : st) : st :=
  match e with
  | EWrite f => match wr s with
                | Some (g, _) => if fname_eqb f g
                                 then mkst (set f (resolve fl (data s)) (disk s)) None (data s) (cached s) (sourced s)
                                 else s
                | None => s
                end
  | EClose f => match wr s with
                | Some (g, w) => if fname_eqb f g
                                 then mkst (set f (resolve fl w) (disk s)) None (data s) (cached s) (sourced s)
                                 else s
                | None => s
                end
  | _ => s
  end.

(* state found after the process died while effect e was in progress *)
Definition crash_st (e : eff) (fl : option Z) (s : st) : st :=
  match wr s with
  | Some (g, w) =>
    let w' := match e with EWrite f => if fname_eqb f g then data s else w | _ => w end in
    mkst (set g (resolve fl w') (disk s)) None None (cached s) (sourced s)
  | None => mkst (disk s) None None (cached s) (sourced s)
  end.

Inductive outcome := ODone | ORaised (x : exn) | OCrashed | OStuck.
Record result := mkres { out : outcome; fin : st; trace : list eff }.
Definition push (e : eff) (r : result) : result := mkres (out r) (fin r) (e :: trace r).

Definition hd_fault (F : list fk) : fk := match F with [] => FNone | f :: _ => f end.
Definition tl_fault (F : list fk) : list fk := match F with [] => [] | _ :: r => r end.

(* `except BaseException: try: <c> except OSError: pass; raise` *)
Definition swallow (x x' : exn) : exn := if Nat.eqb x' xOSError then x else x'.
Definition cleanup_run (c : eff) (pl : payload) (fc : fk) (x : exn) (s : st) : result :=
  match fc with
  | FCrash fl => mkres OCrashed (crash_st c fl s) []
  | FRaise x' fl => mkres (ORaised (swallow x x')) (injected c fl s) [c]
  | FNone => match natural c pl s with
             | SOk s' => mkres (ORaised x) s' [c]
             | SRaise x' s' => mkres (ORaised (swallow x x')) s' [c]
             | SStuck => mkres OStuck s []
             end
  end.

(* a procedure: effects in program order, each flagged whether it lies inside the try block whose
   handler runs the cleanup effect [c].  [F]: the fault hitting each effect, position by position
   (no more faults past the end of the list); [fc]: the fault hitting the cleanup effect.
   The trace lists every effect attempted, the one that raised included, the one during which
   the process died excluded. *)
Fixpoint run (p : list (eff * bool)) (c : eff) (pl : payload) (F : list fk) (fc : fk) (s : st) : result :=
  match p with
  | [] => mkres ODone s []
  | (e, g) :: r =>
    match hd_fault F with
    | FCrash fl => mkres OCrashed (crash_st e fl s) []
    | FRaise x fl =>
      let s' := injected e fl s in
      push e (if g then cleanup_run c pl fc x s' else mkres (ORaised x) s' [])
    | FNone =>
      match natural e pl s with
      | SOk s' => push e (run r c pl (tl_fault F) fc s')
      | SRaise x s' => push e (if g then cleanup_run c pl fc x s' else mkres (ORaised x) s' [])
      | SStuck => mkres OStuck s []
      end
    end
  end.

(* ---- the procedures of the repaired backend --------------------------- *)

(* _write_document(file_name, obj) *)
Definition write_document (k : key) : list (eff * bool) :=
  [(EEncode, false); (EOpenW (FTmp k), true); (EWrite (FTmp k), true); (EClose (FTmp k), true);
   (EReplace (FTmp k) (FDoc k), true)].
Definition cleanup_of (k : key) : eff := ERemove (FTmp k).

(* LocalFileObjectStore.add *)
Definition add_proc (k : key) : list (eff * bool) :=
  (EExists (FDoc k), false) :: write_document k ++ [(ECacheInsert, false); (ESetSource, false)].
(* LocalFileBackend.commit_object *)
Definition commit_proc (k : key) : list (eff * bool) := write_document k.

(* the procedures as they were before commit "fix: local_file backend: serialize first, ..."
   (open(<doc>, "w") first, then json.dump streaming into the file; no handler).  The streaming
   encoder is abstracted to encode-then-write *after* the truncating open. *)
Definition pinned_add (k : key) : list (eff * bool) :=
  [(EExists (FDoc k), false); (EOpenW (FDoc k), false); (EEncode, false); (EWrite (FDoc k), false);
   (ECacheInsert, false); (ESetSource, false); (EClose (FDoc k), false)].
Definition pinned_commit (k : key) : list (eff * bool) :=
  [(EOpenW (FDoc k), false); (EEncode, false); (EWrite (FDoc k), false); (EClose (FDoc k), false)].

(* ---- recover: what a freshly opened store answers ---------------------- *)

Definition doc_keys (d : fs) : list key :=
  flat_map (fun p => match fst p with FDoc k => [k] | _ => [] end) d.

Inductive ans := AObj (v : ver) | AKeyError | ADecodeError.

Definition r_contains (d : fs) (k : key) : bool := mem (FDoc k) d.
Definition r_len (d : fs) : nat := List.length (doc_keys d).
Definition r_get (d : fs) (k : key) : ans :=
  match lookup (FDoc k) d with
  | None => AKeyError
  | Some (Full v) => AObj v
  | Some (Trunc _) => ADecodeError
  end.
(* iteration: None = it raises (JSONDecodeError) *)
Fixpoint r_iter_from (d : fs) (ks : list key) : option (list (key * ver)) :=
  match ks with
  | [] => Some []
  | k :: r => match r_get d k, r_iter_from d r with
              | AObj v, Some l => Some ((k, v) :: l)
              | _, _ => None
              end
  end.
Definition r_iter (d : fs) : option (list (key * ver)) := r_iter_from d (doc_keys d).

(* a store directory is well-formed when every document is complete (and names are unique) *)
Definition wf (d : fs) : Prop :=
  NoDup (map fst d) /\ forall k c, lookup (FDoc k) d = Some c -> exists v, c = Full v.

(* iteration yields exactly the contained keys with the version each document holds *)
Definition answers_ok (d : fs) : Prop :=
  exists l, r_iter d = Some l /\ map fst l = doc_keys d /\ List.length l = r_len d /\
            NoDup (map fst l) /\
  forall k, match lookup (FDoc k) d with
            | Some c => r_contains d k = true /\ In k (doc_keys d) /\
                        exists v, c = Full v /\ r_get d k = AObj v /\ In (k, v) l
            | None => r_contains d k = false /\ ~ In k (doc_keys d) /\ r_get d k = AKeyError
            end.

(* ---- discipline: which effect lists are crash-safe -------------------- *)

Inductive phase := P0 | P1 | P2 | P3 | P4 | P5.
(* P0 start; P1 document encoded; P2 temporary file open; P3 data written; P4 temporary file
   closed and complete; P5 renamed over the document *)
Definition next (k : key) (ph : phase) (e : eff) : option phase :=
  match e, ph with
  | EExists _, P0 => Some P0
  | EExists _, P1 => Some P1
  | EEncode, P0 => Some P1
  | EOpenW f, P1 => if fname_eqb f (FTmp k) then Some P2 else None
  | EWrite f, P2 => if fname_eqb f (FTmp k) then Some P3 else None
  | EClose f, P3 => if fname_eqb f (FTmp k) then Some P4 else None
  | EReplace a b, P4 => if fname_eqb a (FTmp k) && fname_eqb b (FDoc k) then Some P5 else None
  | ECacheInsert, P5 => Some P5
  | ESetSource, P5 => Some P5
  | _, _ => None
  end.
Fixpoint disc (k : key) (ph : phase) (p : list (eff * bool)) : bool :=
  match p with
  | [] => true
  | (e, _) :: r => match next k ph e with Some ph' => disc k ph' r | None => false end
  end.

(* no injected exception hits a pure in-memory effect (cache insert, source assignment) *)
Fixpoint io_faults_only (p : list (eff * bool)) (F : list fk) : bool :=
  match p, F with
  | [], _ => true
  | _, [] => true
  | (e, _) :: r, f :: F' =>
    (match f with FRaise _ _ => negb (is_mem e) | _ => true end) && io_faults_only r F'
  end.

(* ---- histories of faulty writes --------------------------------------- *)

Inductive wop := WAdd (k : key) (pl : payload) | WCommit (k : key) (pl : payload).
Definition wkey (o : wop) : key := match o with WAdd k _ | WCommit k _ => k end.
Definition wpl (o : wop) : payload := match o with WAdd _ pl | WCommit _ pl => pl end.
Definition wproc (o : wop) : list (eff * bool) :=
  match o with WAdd k _ => add_proc k | WCommit k _ => commit_proc k end.
(* every operation starts with nothing open and nothing encoded (the same or a restarted process) *)
Definition exec_op (o : wop) (F : list fk) (fc : fk) (d : fs) : result :=
  run (wproc o) (cleanup_of (wkey o)) (wpl o) F fc (fresh_st d).
Fixpoint exec_hist (h : list (wop * (list fk * fk))) (d : fs) : fs :=
  match h with
  | [] => d
  | (o, (F, fc)) :: r => exec_hist r (disk (fin (exec_op o F fc d)))
  end.

(* the specification: a map key -> version on which every write is all-or-nothing *)
Definition dmap := key -> option ver.
Definition vmap (d : fs) : dmap :=
  fun k => match lookup (FDoc k) d with Some (Full v) => Some v | _ => None end.
Definition spec_step (m : dmap) (o : wop) (took : bool) : dmap :=
  match wpl o with
  | Good v => if took then (fun k => if Nat.eqb k (wkey o) then Some v else m k) else m
  | Bad _ => m
  end.
Fixpoint spec_hist (m : dmap) (h : list (wop * bool)) : dmap :=
  match h with
  | [] => m
  | (o, took) :: r => spec_hist (spec_step m o took) r
  end.
