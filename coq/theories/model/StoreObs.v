(* Observation encoding for the correspondence check of model/Store.v against
   DictObjectStore / ObjectProviderMultiplexer / NamespaceIRIGenerator (tools/c13.py).
   A "world" = some dict stores, one multiplexer over an arrangement of them, some generators
   whose provider is one of the stores or the multiplexer. *)
From Coq Require Import List ZArith Bool String Ascii Arith.
From Basyx Require Import model.Corr model.Store.
Import ListNotations.
Local Open Scope Z_scope.

Fixpoint sofz (l : list Z) : string :=
  match l with
  | [] => EmptyString
  | x :: r => String (ascii_of_nat (Z.to_nat x)) (sofz r)
  end.

Definition zn (n : nat) : Z := Z.of_nat n.

Definition enc_out (o : out) : list Z :=
  match o with
  | OUnit => [0]
  | OObj x => [1; zn x]
  | ONone => [2]
  | OBool b => [3; zb b]
  | ONat n => [4; zn n]
  | OList l => 5 :: map zn l
  | OKeyError => [6]
  | OOutOfFuel => [7]
  end.

Record world := mkW {
  w_stores : list st;
  w_mux : list (list nat);     (* the multiplexers alive: each one's .providers, as indices into w_stores *)
  w_gens : list (gen * nat)    (* generator, provider selector: k < #stores = store k, else multiplexer k - #stores *)
}.

Inductive wop :=
| WS (k : nat) (o : op)                       (* call on store k *)
| WMux (m : nat) (l : list nat)               (* muxes[m].providers = [..] / muxes[m] = ObjectProviderMultiplexer([..]) *)
| WMuxApp (m k : nat)                         (* muxes[m].providers.append(stores[k]) *)
| WGen (g : nat) (proposal : option string)   (* gens[g].generate_id(proposal) *)
| WNewFrom (k j : nat)                        (* stores[k] = DictObjectStore(stores[j])   (providers re-bound) *)
| WNewList (k : nat) (xs : list obj).         (* stores[k] = DictObjectStore(<list / tuple / generator of xs>) *)

Definition store_at (w : world) (k : nat) : st := nth k (w_stores w) [].
Definition mux_over (w : world) (l : list nat) : provider := mux (map (fun k => lookup (store_at w k)) l).
Definition mux_at (w : world) (m : nat) : provider := mux_over w (nth m (w_mux w) []).
Definition prov_of (w : world) (sel : nat) : provider :=
  if Nat.ltb sel (List.length (w_stores w)) then lookup (store_at w sel)
  else mux_at w (sel - List.length (w_stores w)).
Definition total_keys (w : world) : nat := List.length (flat_map (map fst) (w_stores w)).

Fixpoint set_nth {A} (n : nat) (x : A) (l : list A) : list A :=
  match l, n with
  | [], _ => []
  | _ :: r, O => x :: r
  | a :: r, S m => a :: set_nth m x r
  end.

Definition wstep (pool : list ident) (w : world) (o : wop) : world * list Z :=
  let idof := fun t => nth t pool EmptyString in
  match o with
  | WS k o =>
    let '(s', r) := step idof (store_at w k) o in
    (mkW (set_nth k s' (w_stores w)) (w_mux w) (w_gens w), enc_out r)
  | WMux m l => (mkW (w_stores w) (set_nth m l (w_mux w)) (w_gens w), [0])
  | WMuxApp m k => (mkW (w_stores w) (set_nth m (nth m (w_mux w) [] ++ [k])%list (w_mux w)) (w_gens w), [0])
  | WNewFrom k j =>
    (* iterating the source store yields its objects in order; an exception of the constructor leaves stores[k] *)
    match construct idof (iter (store_at w j)) with
    | (s', OUnit) => (mkW (set_nth k s' (w_stores w)) (w_mux w) (w_gens w), [0])
    | (_, r) => (w, enc_out r)
    end
  | WNewList k xs =>
    match construct idof xs with
    | (s', OUnit) => (mkW (set_nth k s' (w_stores w)) (w_mux w) (w_gens w), [0])
    | (_, r) => (w, enc_out r)
    end
  | WGen gi prop =>
    match nth_error (w_gens w) gi with
    | None => (w, [99])
    | Some (g, sel) =>
      (* fuel = number of keys in all stores + 1: enough by C13_generate_id / C13_mux_stores_finite *)
      let '(g', r) := generate_id (S (total_keys w)) g (knows_of (prov_of w sel)) prop in
      (mkW (w_stores w) (w_mux w) (set_nth gi (g', sel) (w_gens w)),
       match r with GId iri => 8 :: codes iri | GOutOfFuel => [7] end)
    end
  end.

Definition absent_id : ident := "zz#absent"%string.

(* after each call: its outcome; per store len and iteration order; per identifier what every
   store and every multiplexer answer; per object which stores contain it (by identity) *)
Definition observe (pool : list ident) (w : world) (r : list Z) : list (list Z) :=
  let idof := fun t => nth t pool EmptyString in
  r :: (map (fun s => 20 :: zn (len s) :: map zn (iter s)) (w_stores w)
   ++ map (fun i => 22 :: flat_map (fun s => enc_out (get_identifiable s i) ++ [zb (contains_id s i)]
                                             ++ enc_out (provider_get (lookup s) i (Some 0%nat)))
                                   (w_stores w)
                       ++ flat_map (fun l => let mx := mux_over w l in
                                             enc_out (match mx i with Some x => OObj x | None => OKeyError end)
                                             ++ enc_out (provider_get mx i None)
                                             ++ enc_out (provider_get mx i (Some 0%nat)))
                                   (w_mux w))
          (pool ++ [absent_id])
   ++ map (fun x => 24 :: map (fun s => zb (contains_obj idof s x)) (w_stores w))
          (seq 0 (List.length pool)))%list.

Fixpoint wtrace (pool : list ident) (w : world) (ops : list wop) : list (list (list Z)) :=
  match ops with
  | [] => []
  | o :: r => let '(w', res) := wstep pool w o in observe pool w' res :: wtrace pool w' r
  end.

Definition winit (nstores : nat) (gens : list (string * nat)) : world :=
  mkW (repeat [] nstores) [[]; []] (map (fun p => (mkGen (fst p) [], snd p)) gens).   (* two multiplexers *)

(* case = (pool of identifiers (object t has id pool[t]), number of stores, generators, ops, hash) *)
Definition check_case (c : list ident * nat * list (string * nat) * list wop * Z) : bool :=
  let '(pool, n, gens, ops, expected) := c in
  Z.eqb (hash_zlll 0 (wtrace pool (winit n gens) ops)) expected.

(* _quote_iri_segment alone *)
Definition check_quote (c : list Z * list Z) : bool :=
  let '(inp, expected) := c in zl_eqb (codes (quote (sofz inp))) expected.
