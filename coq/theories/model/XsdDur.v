(* C06 - model of xsd_repr / from_xsd for Duration = dateutil.relativedelta.relativedelta with
   integer relative fields only (no absolute fields, weekday, leapdays), datatypes.py
   _serialize_duration / _parse_xsd_duration / DURATION_RE, including relativedelta's _fix(),
   normalized() and __neg__ (dateutil 2.9, modelled from its source).  Definitions only. *)
From Coq Require Import List ZArith Bool Ascii String.
From Basyx Require Import model.XsdBase model.Xsd.
Import ListNotations.
Local Open Scope Z_scope.

Record duration := mkDur { du_y : Z; du_mo : Z; du_d : Z; du_h : Z; du_mi : Z; du_s : Z; du_us : Z }.

(* _sign(x) = int(copysign(1, x)) *)
Definition sgn (x : Z) : Z := if x <? 0 then -1 else 1.
(* one step of relativedelta._fix: if abs(x) > lim: s = _sign(x); div, mod = divmod(x * s, base);
   x = mod * s; next += div * s *)
Definition carry (x lim base : Z) : Z * Z :=
  if Z.abs x >? lim then let s := sgn x in (((x * s) mod base) * s, ((x * s) / base) * s) else (x, 0).
Definition fix_dur (v : duration) : duration :=
  let '(us, c1) := carry (du_us v) 999999 1000000 in
  let '(s, c2) := carry (du_s v + c1) 59 60 in
  let '(mi, c3) := carry (du_mi v + c2) 59 60 in
  let '(h, c4) := carry (du_h v + c3) 23 24 in
  let '(mo, c5) := carry (du_mo v) 11 12 in
  mkDur (du_y v + c5) mo (du_d v + c4) h mi s us.
(* the constructor relativedelta(years=..., ...) with ints *)
Definition new_dur (y mo d h mi s us : Z) : duration := fix_dur (mkDur y mo d h mi s us).
(* __neg__ *)
Definition neg_dur (v : duration) : duration :=
  new_dur (- du_y v) (- du_mo v) (- du_d v) (- du_h v) (- du_mi v) (- du_s v) (- du_us v).

Definition fields (v : duration) : list Z := [du_y v; du_mo v; du_d v; du_h v; du_mi v; du_s v; du_us v].
(* "{}Y".format(abs(x)) if x *)
Definition du_field (x : Z) (c : ascii) : str := if x =? 0 then [] else str_int (Z.abs x) ++ [c].
Fixpoint rstrip_zeros_rev (r : str) : str :=
  match r with c :: t => if ceq c "0" then rstrip_zeros_rev t else r | [] => [] end.
(* "{:.8g}".format(Decimal(s) + Decimal(us) / 1000000) for 0 <= s <= 59, 0 <= us <= 999999 (the ranges
   _fix guarantees): at most 8 significant digits, so nothing is rounded; the quotient carries no
   trailing zeros; values >= 0.000001 are written positionally *)
Definition g8_seconds (s us : Z) : str :=
  str_int s ++ (if us =? 0 then [] else "."%char :: rev (rstrip_zeros_rev (rev (fmt_0d 6 us)))).

(* _serialize_duration *)
Definition print_duration (v0 : duration) : res str :=
  let v := fix_dur v0 in                                   (* value.normalized() *)
  let nz := filter (fun x => negb (x =? 0)) (fields v) in
  let has_neg := existsb (fun x => x <? 0) nz in
  let has_pos := existsb (fun x => 0 <? x) nz in
  if has_neg && has_pos then Err ValueError              (* len(signs) > 1 *)
  else if is_nil nz then Ok (L "P0D")
  else
    let tm := du_field (du_h v) "H" ++ du_field (du_mi v) "M"
              ++ (if (du_s v =? 0) && (du_us v =? 0) then []
                  else g8_seconds (Z.abs (du_s v)) (Z.abs (du_us v)) ++ ["S"%char]) in
    Ok ((if has_neg then ["-"%char] else []) ++ "P"%char
        :: du_field (du_y v) "Y" ++ du_field (du_mo v) "M" ++ du_field (du_d v) "D"
        ++ (if is_nil tm then [] else "T"%char :: tm)).

(* DURATION_RE = ^(-?)P(?=\d|T\d)(\d+Y)?(\d+M)?(\d+D)?(T(?=\d)(\d+H)?(\d+M)?((\d+)(\.\d+)?S)?)?$ *)
(* (\d+X)? : the maximal digit run followed by X, else the group does not participate *)
Definition opt_field (x : ascii) (s : str) : option Z * str :=
  let '(ds, r) := span is_digit s in
  match ds, r with
  | _ :: _, c :: r' => if ceq c x then (Some (int_dec ds), r') else (None, s)
  | _, _ => (None, s)
  end.
(* ((\d+)(\.\d+)?S)? *)
Definition opt_seconds (s : str) : option (Z * option str) * str :=
  let '(ds, r) := span is_digit s in
  if is_nil ds then (None, s) else
  let '(fr, r1) := frac_group r in
  match r1 with
  | c :: r2 => if ceq c "S" then (Some (int_dec ds, fr), r2) else (None, s)
  | [] => (None, s)
  end.
Definition head_digit (s : str) : bool := match s with c :: _ => is_digit c | [] => false end.
Definition oz (o : option Z) : Z := match o with Some z => z | None => 0 end.

Definition parse_duration (s : str) : res duration :=
  let '(neg, s0) := opt_minus s in
  match s0 with
  | p :: s1 =>
    if ceq p "P" && (head_digit s1 || match s1 with t :: s1' => ceq t "T" && head_digit s1' | [] => false end) then
      let '(y, s2) := opt_field "Y" s1 in
      let '(mo, s3) := opt_field "M" s2 in
      let '(d, s4) := opt_field "D" s3 in
      let tgroup :=
          match s4 with
          | t :: s5 =>
            if ceq t "T" && head_digit s5 then
              let '(h, s6) := opt_field "H" s5 in
              let '(mi, s7) := opt_field "M" s6 in
              let '(sec, s8) := opt_seconds s7 in
              if at_end s8 then Some (h, mi, sec) else None
            else if at_end s4 then Some (None, None, None) else None
          | [] => Some (None, None, None)
          end in
      match tgroup with
      | Some (h, mi, sec) =>
        let res := new_dur (oz y) (oz mo) (oz d) (oz h) (oz mi)
                           (match sec with Some (sv, _) => sv | None => 0 end)
                           (match sec with Some (_, Some fr) => us_of_frac fr | _ => 0 end) in
        Ok (if neg then neg_dur res else res)
      | None => Err ValueError
      end
    else Err ValueError
  | [] => Err ValueError
  end.
