(* Typed values (property C02: AASd-020 and the agreement of value and value_type): the finite universe of Python
   classes that matter for datatypes.trivial_cast, and the vocabulary of the generated file gen/Gen_TypedValues.v.
   Definitions only. *)
From Coq Require Import List ZArith Bool.
Import ListNotations.

(* The 31 XSD types of XSD_TYPE_NAMES (an alias such as Integer = int IS the Python class), plus the Python classes
   that are no XSD type but are accepted or told apart by trivial_cast, plus "anything else". *)
Inductive pcls :=
| KDuration | KDateTime | KDate | KTime | KGYearMonth | KGYear | KGMonthDay | KGMonth | KGDay | KBoolean
| KBase64Binary | KHexBinary | KFloat | KDouble | KDecimal | KInteger | KLong | KInt | KShort | KByte
| KNonPositiveInteger | KNegativeInteger | KNonNegativeInteger | KPositiveInteger | KUnsignedLong | KUnsignedInt
| KUnsignedShort | KUnsignedByte | KAnyURI | KString | KNormalizedString
| KPyDate       (* datetime.date itself *)
| KPyBytes      (* bytes *)
| KPyBytearray  (* bytearray itself *)
| KOther.       (* any class unrelated to all of the above (list, object, ...) *)
Scheme Equality for pcls.

Definition all_pcls : list pcls :=
  [KDuration; KDateTime; KDate; KTime; KGYearMonth; KGYear; KGMonthDay; KGMonth; KGDay; KBoolean;
   KBase64Binary; KHexBinary; KFloat; KDouble; KDecimal; KInteger; KLong; KInt; KShort; KByte;
   KNonPositiveInteger; KNegativeInteger; KNonNegativeInteger; KPositiveInteger; KUnsignedLong; KUnsignedInt;
   KUnsignedShort; KUnsignedByte; KAnyURI; KString; KNormalizedString; KPyDate; KPyBytes; KPyBytearray; KOther].

(* issubclass as the reflexive-transitive closure of the single-inheritance table read from the source
   (the table has depth <= 2; fuel 4 is checked to be enough by TypedValueProofs.subcls_fuel_enough) *)
Fixpoint subcls_fuel (db : pcls -> option pcls) (n : nat) (c d : pcls) : bool :=
  pcls_beq c d ||
  match n with
  | O => false
  | S n' => match db c with Some b => subcls_fuel db n' b d | None => false end
  end.
Definition subcls_with (db : pcls -> option pcls) : pcls -> pcls -> bool := subcls_fuel db 4.

(* what trivial_cast does for a (class of the value, target type) pair *)
Inductive tc_act :=
| TcSame        (* return value            - the very object *)
| TcConstruct   (* return type_(value)     - the target class's constructor decides (may raise ValueError) *)
| TcDate        (* return Date(value.year, value.month, value.day) *)
| TcTypeError.  (* raise TypeError *)
Scheme Equality for tc_act.
