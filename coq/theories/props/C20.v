(* C20 - Compliance checks always deliver a verdict, and the verdict tracks the data.
   Only statements here; every theorem is closed by [exact <lemma>].

   [functions], [public_functions], [checker_methods], [class_table] are regenerated from the compliance
   tool's sources and from _helper.py on every run (gen/Gen_Compliance.v); the theorems below are
   re-checked against them.  [raises] (model/Compliance.v) is the hand-written table of what each callee
   can raise - the trusted part, probed by the correspondence run. *)
From Coq Require Import List String Arith.
From Basyx Require Import model.Compliance gen.Gen_Compliance proofs.ComplianceProofs.
Import ListNotations.
Open Scope string_scope.

(* The overall status is the worst step status, for every step list: no step is worse than it, and it is
   the status of some step (SUCCESS for an empty report). *)
Theorem C20_status : forall m : manager,
  (forall s, In s m -> rank (s_status s) <= rank (overall m)) /\
  ((m = [] /\ overall m = SUCCESS) \/ (exists s, In s m /\ s_status s = overall m)).
Proof. exact overall_worst. Qed.

(* An exception is caught by a stack of handlers iff one of them names a superclass. *)
Theorem C20_caught : forall e hs,
  caught e hs = true <-> exists h c, In h hs /\ In c h /\ subclass e c = true.
Proof. exact caught_spec. Qed.

(* Totality: no exception class that any stage of any public check function can raise leaves the function
   (finite check over all sites of the twelve translated functions, callees included; fuel 4 not exhausted):
   every check ends with a report. *)
Theorem C20_total : forall f, In f public_functions -> escapes functions checker_raises fuel f = EscOk [].
Proof. exact total. Qed.

(* In particular the comparing step always gets a status: whatever AASDataChecker answers - equal, different,
   or its refusal (NotImplementedError) to compare unordered SubmodelElementLists - the handlers around the
   call set one. *)
Theorem C20_compare_step_total : forall f r, In f comparing_functions ->
  exists hs st, compare_handlers functions f = Some hs /\ compare_step (caught ENotImplemented hs) r = Some st.
Proof. exact compare_step_total. Qed.

(* Comparing equal data succeeds, whatever attribute list is compared ... *)
Theorem C20_equiv_sound : forall attrs (a b : record), (forall x, a x = b x) -> compare_by attrs a b = true.
Proof. exact compare_by_refl. Qed.

(* ... so equal objects compare as equal, except two SubmodelElementLists of which one is unordered
   ([unordered_raises] is regenerated from _helper.py) ... *)
Theorem C20_equiv_sound_partial : forall m oa ob attrs (a b : record),
  (forall x, a x = b x) -> (mem_str m unordered_raises = false \/ (oa = true /\ ob = true)) ->
  compare_obj unordered_raises m oa ob attrs a b = CmpEqual.
Proof. exact equiv_sound_partial. Qed.

(* ... and that exception is real: two equal unordered SubmodelElementLists are refused by the checker, and
   each of the six comparing functions turns the refusal into a FAILED step (open known finding
   C20:equivalence:equal-data-rejected:unordered-list; for check_aas_example FAILED is the right verdict,
   the example data holds no unordered list). *)
Theorem C20_equiv_sound_refuted :
  exists cls m attrs (a b : record),
    In (cls, m, attrs) class_table /\ (forall x, a x = b x) /\
    compare_obj unordered_raises m false false (compared checker_methods 6 m) a b = CmpNotImplemented /\
    (forall f, In f comparing_functions ->
       exists hs, compare_handlers functions f = Some hs /\
                  compare_step (caught ENotImplemented hs) CmpNotImplemented = Some FAILED).
Proof. exact unordered_equal_fails. Qed.

(* No attribute of a metamodel class (constructor parameter) is left uncompared by AASDataChecker. *)
Theorem C20_missing_attributes : flat_map (missing checker_methods) class_table = [].
Proof. exact nothing_missing. Qed.

(* Completeness: a successful comparison of two objects of a class means they agree on every attribute of
   the class. *)
Theorem C20_equiv_complete : forall cls m attrs (a b : record) x,
  In (cls, m, attrs) class_table -> compare_by (compared checker_methods 6 m) a b = true ->
  In x attrs -> a x = b x.
Proof. exact equiv_complete. Qed.

(* ... and the comparison is not vacuous: two qualifiers differing only in semantic_id compare as different. *)
Theorem C20_equiv_detects_example :
  exists (a b : record),
    compare_by (compared checker_methods 6 "_check_qualifier_equal") a b = false /\
    (forall x, x <> "semantic_id" -> a x = b x).
Proof. exact equiv_detects_example. Qed.

(* Non-vacuity: the generated tables are populated. *)
Theorem C20_tables_nonempty :
  List.length public_functions = 12 /\ 20 <= List.length class_table /\
  compared checker_methods 6 "check_entity_equal" <> [].
Proof. exact tables_nonempty. Qed.

(* A step set to FAILED stays FAILED: in each of the six comparing functions every handler around the data
   checker's call ends the function ([compare_handler_returns], regenerated from the sources), so after a refusal
   of the checker the comparing step is FAILED and the overall status is at least FAILED, whatever the checks
   collected before the refusal say ... *)
Theorem C20_failed_step_kept : forall f (m : manager) st failed passed,
  In f comparing_functions ->
  let m' := refusal_flow (match fassoc f compare_handler_returns with Some b => b | None => false end)
                         failed passed (m ++ [st])%list in
  last_status m' = Some FAILED /\ rank FAILED <= rank (overall m').
Proof. exact refusal_keeps_failed. Qed.

(* ... and without that `return` the report of a refusal after passed checks would be SUCCESS. *)
Theorem C20_failed_step_lost_without_return :
  last_status (refusal_flow false 0 3 [mk_step NOT_EXECUTED 0]) = Some SUCCESS /\
  overall (refusal_flow false 0 3 [mk_step NOT_EXECUTED 0]) = SUCCESS.
Proof. exact refusal_without_return_loses_failed. Qed.
