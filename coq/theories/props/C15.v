(* C15 - A failed or interrupted write never corrupts or loses a stored object.
   Only statements here; every theorem is closed by [exact <lemma>].
   Model: model/Crash.v (effects of LocalFileObjectStore.add / LocalFileBackend.commit_object, faults,
   recover = the answers of a freshly opened store).  [F] assigns a fault to every effect position
   (exception, or death of the process with any amount of buffered data flushed), [fc] to the
   cleanup handler; both are universally quantified. *)
From Coq Require Import List ZArith.
From Basyx Require Import model.Crash proofs.CrashProofs model.CrashConc proofs.CrashConcProofs.
Import ListNotations.

(* Every effect list accepted by the discipline [disc] (encode; open/write/close the temporary
   file; rename it over the document; only then in-memory marks) is safe under every fault:
   it never gets stuck, every other file is untouched, the document is the old one (or still
   absent) or the complete new one, the directory stays well-formed and a fresh store answers
   contains/len/iter/get without error. *)
Theorem C15_safe : forall k p pl F fc d0,
  disc k P0 p = true -> wf d0 ->
  let r := run p (cleanup_of k) pl F fc (fresh_st d0) in
  let d := disk (fin r) in
  out r <> OStuck /\
  (forall f, f <> FDoc k -> f <> FTmp k -> lookup f d = lookup f d0) /\
  (lookup (FDoc k) d = lookup (FDoc k) d0 \/ exists v, pl = Good v /\ lookup (FDoc k) d = Some (Full v)) /\
  wf d /\ answers_ok d.
Proof. exact safe_generic. Qed.

(* The two procedures of the backend are disciplined, hence safe. *)
Theorem C15_add_safe : forall k pl F fc d0, wf d0 ->
  let r := run (add_proc k) (cleanup_of k) pl F fc (fresh_st d0) in
  let d := disk (fin r) in
  out r <> OStuck /\
  (forall f, f <> FDoc k -> f <> FTmp k -> lookup f d = lookup f d0) /\
  (lookup (FDoc k) d = lookup (FDoc k) d0 \/ exists v, pl = Good v /\ lookup (FDoc k) d = Some (Full v)) /\
  wf d /\ answers_ok d.
Proof. intros k pl F fc d0. exact (safe_generic k (add_proc k) pl F fc d0 (disc_add k)). Qed.

Theorem C15_commit_safe : forall k pl F fc d0, wf d0 ->
  let r := run (commit_proc k) (cleanup_of k) pl F fc (fresh_st d0) in
  let d := disk (fin r) in
  out r <> OStuck /\
  (forall f, f <> FDoc k -> f <> FTmp k -> lookup f d = lookup f d0) /\
  (lookup (FDoc k) d = lookup (FDoc k) d0 \/ exists v, pl = Good v /\ lookup (FDoc k) d = Some (Full v)) /\
  wf d /\ answers_ok d.
Proof. intros k pl F fc d0. exact (safe_generic k (commit_proc k) pl F fc d0 (disc_commit k)). Qed.

(* A failed add (it raised; exceptions injected at I/O and serialisation effects, natural ones
   anywhere) reports the failure: the document is exactly what it was (absent stays absent), the
   object is neither cached nor marked with a source, no file is left open. *)
Theorem C15_add_reports : forall k pl F fc d0 x, NoDup (map fst d0) ->
  let r := run (add_proc k) (cleanup_of k) pl F fc (fresh_st d0) in
  out r = ORaised x -> io_faults_only (add_proc k) F = true ->
  lookup (FDoc k) (disk (fin r)) = lookup (FDoc k) d0 /\ cached (fin r) = false /\ sourced (fin r) = false /\
  wr (fin r) = None.
Proof. intros k pl F fc d0 x. exact (raised_reports k (add_proc k) pl F fc d0 x (disc_add k)). Qed.

Theorem C15_commit_reports : forall k pl F fc d0 x, NoDup (map fst d0) ->
  let r := run (commit_proc k) (cleanup_of k) pl F fc (fresh_st d0) in
  out r = ORaised x -> io_faults_only (commit_proc k) F = true ->
  lookup (FDoc k) (disk (fin r)) = lookup (FDoc k) d0 /\ cached (fin r) = false /\ sourced (fin r) = false /\
  wr (fin r) = None.
Proof. intros k pl F fc d0 x. exact (raised_reports k (commit_proc k) pl F fc d0 x (disc_commit k)). Qed.

(* An add that returns: the id was absent, now holds the complete new version, the object is
   cached and marked.  A commit that returns: the document holds the complete new version. *)
Theorem C15_add_done : forall k pl F fc d0, wf d0 ->
  let r := run (add_proc k) (cleanup_of k) pl F fc (fresh_st d0) in
  out r = ODone ->
  lookup (FDoc k) d0 = None /\
  (exists v, pl = Good v /\ lookup (FDoc k) (disk (fin r)) = Some (Full v)) /\
  cached (fin r) = true /\ sourced (fin r) = true.
Proof. exact add_done. Qed.

Theorem C15_commit_done : forall k pl F fc d0, wf d0 ->
  let r := run (commit_proc k) (cleanup_of k) pl F fc (fresh_st d0) in
  out r = ODone -> exists v, pl = Good v /\ lookup (FDoc k) (disk (fin r)) = Some (Full v).
Proof. exact commit_done. Qed.

(* Every history of adds and commits, each under arbitrary faults (after a crash the next
   operation runs in a restarted process on whatever the directory holds): the directory stays
   well-formed, foreign files are untouched, and the documents are those of a map on which each
   write took effect completely or not at all. *)
Theorem C15_history : forall h d0, wf d0 ->
  wf (exec_hist h d0) /\
  (forall n, lookup (FOther n) (exec_hist h d0) = lookup (FOther n) d0) /\
  exists tk, List.length tk = List.length h /\
             forall k, vmap (exec_hist h d0) k = spec_hist (vmap d0) (combine (map fst h) tk) k.
Proof. exact hist_atomic. Qed.

(* The effect order of the tree before the repair (truncating open of the document first, then
   encode and write) is refuted: a payload the serialiser rejects makes add raise and leaves a
   document that is contained, counted, and breaks get and iteration; a failed commit destroys the
   previous version; so does a crash during the write. *)
Theorem C15_truncating_add_refuted :
  let d0 := [(FDoc 1, Full 7)] in
  let r := run (pinned_add 0) (cleanup_of 0) (Bad 3) [] FNone (fresh_st d0) in
  wf d0 /\ out r = ORaised 3 /\ r_contains (disk (fin r)) 0 = true /\ r_len (disk (fin r)) = 2 /\
  r_get (disk (fin r)) 0 = ADecodeError /\ r_iter (disk (fin r)) = None.
Proof. exact pinned_add_unsafe. Qed.

Theorem C15_truncating_commit_refuted :
  let d0 := [(FDoc 0, Full 1)] in
  let r := run (pinned_commit 0) (cleanup_of 0) (Bad 3) [] FNone (fresh_st d0) in
  wf d0 /\ out r = ORaised 3 /\ lookup (FDoc 0) (disk (fin r)) = Some (Trunc 0%Z) /\
  r_get (disk (fin r)) 0 = ADecodeError /\ r_iter (disk (fin r)) = None.
Proof. exact pinned_commit_unsafe. Qed.

Theorem C15_truncating_crash_refuted :
  let r := run (pinned_add 0) (cleanup_of 0) (Good 5) [FNone; FNone; FNone; FCrash (Some 10%Z)] FNone (fresh_st []) in
  out r = OCrashed /\ r_contains (disk (fin r)) 0 = true /\ r_get (disk (fin r)) 0 = ADecodeError.
Proof. exact pinned_add_crash_unsafe. Qed.

(* Non-vacuity: a well-formed directory with two documents, a foreign file and a stale temporary
   file; add of key 0 whose close() fails after 10 bytes and whose cleanup fails as well; then a
   commit of key 1 that dies during the write; then a clean commit of key 2. *)
Example C15_example :
  let d0 := [(FDoc 1, Full 7); (FOther 0, Trunc 3%Z); (FDoc 2, Full 8); (FTmp 0, Full 9)] in
  let h := [(WAdd 0 (Good 5), ([FNone; FNone; FNone; FNone; FRaise 1 (Some 10%Z)], FRaise 1 None));
            (WCommit 1 (Good 6), ([FNone; FNone; FCrash (Some 4%Z)], FNone));
            (WCommit 2 (Good 4), ([], FNone))] in
  exec_hist h d0 = [(FDoc 1, Full 7); (FOther 0, Trunc 3%Z); (FDoc 2, Full 4); (FTmp 0, Trunc 10%Z); (FTmp 1, Trunc 4%Z)]
  /\ r_iter (exec_hist h d0) = Some [(1, 7); (2, 4)] /\ r_get (exec_hist h d0) 0 = AKeyError.
Proof. vm_compute. repeat split; reflexivity. Qed.

(* Concurrent writers (model/CrashConc.v): any number of threads of one process committing the same document, every
   interleaving of their effects, every effect of every writer working, raising (cleanup succeeding or failing), the
   process dying at any point (= the schedule ends), stale temporary files lying around.  As long as the writers use
   pairwise different temporary file names, the document always holds the complete old version or the complete version
   of one of the writers. *)
Theorem C15_concurrent_safe : forall (name : nat -> nat) (vof : nat -> cver) v0 stale sched,
  (forall a b, name a = name b -> a = b) ->
  let s := crun name vof sched (cinit v0 stale) in
  cdoc s = Some (CFull v0) \/ exists w, cdoc s = Some (CFull (vof w)).
Proof. exact conc_safe. Qed.

(* The premise is needed: with one temporary name per process two threads destroy the document (writer 0 has closed
   its file, writer 1 truncates it by opening, writer 0 renames it over the document, writer 1's write fails). *)
Theorem C15_concurrent_shared_name_refuted :
  let sched := [(0, COk); (0, COk); (0, COk); (1, COk); (0, COk); (1, CRaise)] in
  let s := crun (fun _ => 0) (fun w => 6 + w) sched (cinit 2 (fun _ => None)) in
  cdoc s = Some CPart /\ ~ cdoc_ok (fun w => 6 + w) 2 s /\ cph s 0 = WDone /\ cph s 1 = WFailed.
Proof. exact conc_shared_unsafe. Qed.

Example C15_concurrent_example :
  let sched := [(0, COk); (1, COk); (2, COk); (0, COk); (1, CRaise); (2, COk); (0, COk); (2, COk); (0, COk); (2, COk)] in
  let s := crun (fun w => w) (fun w => 6 + w) sched (cinit 2 (fun n => if Nat.eqb n 7 then Some CPart else None)) in
  cdoc s = Some (CFull 8) /\ cph s 0 = WDone /\ cph s 1 = WFailed /\ cph s 2 = WDone /\ ctmp s 7 = Some CPart.
Proof. exact conc_example. Qed.
