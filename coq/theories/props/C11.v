(* C11 - HTTP server turns every bad request into a 4xx result, never a crash or 5xx.
   Only statements here; every theorem is closed by [exact <lemma>].
   Model: model/Http.v ([handle] = WSGIApp.handle_request on abstract requests); the route table,
   every except clause and every response_t status come from gen/Gen_HttpRoutes.v. *)
From Coq Require Import List ZArith String.
From Basyx Require Import gen.Gen_HttpRoutes model.Files model.Http proofs.HttpProofs.
Import ListNotations.
Local Open Scope Z_scope.

(* Full statement of the first sentence of the property. *)
Definition C11_no_5xx_full : Prop := forall s r, req_ok r ->
  status (snd (handle s r)) < 500 \/
  (status (snd (handle s r)) = 501 /\ unimplemented (r_rule r) (r_meth r) = true).

(* It is refuted by the pinned code (known finding C11:raises:delete-after-id-change): after a
   history in which a PUT changed a submodel's id, DELETE of that submodel lets KeyError escape. *)
Theorem C11_no_5xx_refuted :
  exists rs r, req_ok r /\ status (snd (handle (run (empty false) rs) r)) = 500
               /\ pay (snd (handle (run (empty false) rs) r)) = PCrash EKey.
Proof. exact no_5xx_refuted. Qed.

(* Strongest true part.  Excluded: stores in which an object is filed under another key than
   its id (only produced by an id-changing PUT).
   [req_ok]: the request carries the idShort path its route declares (werkzeug's matcher). *)
Theorem C11_no_5xx_partial : forall s r, own_ids s -> req_ok r ->
  status (snd (handle s r)) < 500 \/
  (status (snd (handle s r)) = 501 /\ unimplemented (r_rule r) (r_meth r) = true).
Proof. exact no_5xx_partial. Qed.

(* Every 4xx answer except 406 carries the result structure (success=false, one Error message
   whose code is the exception class) - for every state and request. *)
Theorem C11_4xx_body : forall s r,
  400 <= status (snd (handle s r)) < 500 -> status (snd (handle s r)) <> 406 ->
  exists cls, pay (snd (handle s r)) = PResult cls.
Proof. exact body_4xx. Qed.

(* A request answered with 4xx or 501 leaves object store and file container as they were -
   for every state and request. *)
Theorem C11_rejected_unchanged : forall s r,
  (400 <= status (snd (handle s r)) < 500 \/ status (snd (handle s r)) = 501) -> fst (handle s r) = s.
Proof. exact rejected_unchanged. Qed.

(* Successful answers are 200/201/204/307 only (so "not 4xx/5xx" means exactly these). *)
Theorem C11_ok_status : forall ep s r s' resp, handler ep s r = Ok (s', resp) -> ok_status (status resp).
Proof. exact handler_ok_status. Qed.

(* Non-vacuity: the hypotheses of C11_no_5xx_partial hold for a store with a nested submodel and a
   PUT that replaces it (and the id-changing history is exactly what breaks own_ids). *)
Example C11_example_hypotheses :
  own_ids example_state /\ req_ok example_put /\
  status (snd (handle example_state example_put)) = 204.
Proof. exact example_hypotheses. Qed.
Example C11_example_excluded : ~ own_ids (run (empty false) rename_history).
Proof. exact rename_breaks_own_ids. Qed.
