(* C11 - HTTP server turns every bad request into a 4xx result, never a crash or 5xx.
   Only statements here; every theorem is closed by [exact <lemma>].
   Model: model/Http.v ([handle] = WSGIApp.handle_request on abstract requests); the route table,
   every except clause and every response_t status come from gen/Gen_HttpRoutes.v. *)
From Coq Require Import List ZArith String.
From Basyx Require Import gen.Gen_HttpRoutes model.Files model.Http proofs.HttpProofs.
Import ListNotations.
Local Open Scope Z_scope.

(* Full statement of the first sentence of the property: on the store reached by ANY request history (in-memory or
   local-file backed), no request is answered with a 5xx or makes the WSGI callable raise (status 500 / PCrash in the
   model), other than 501 on the routes declared unimplemented.
   [req_ok]: the request carries the idShort path its route declares (werkzeug's matcher). *)
Theorem C11_no_5xx : forall rs b r, req_ok r ->
  status (snd (handle (run (empty b) rs) r)) < 500 \/
  (status (snd (handle (run (empty b) rs) r)) = 501 /\ unimplemented (r_rule r) (r_meth r) = true).
Proof. exact no_5xx_full. Qed.

(* The same for every store in which each object is filed under its own id - the invariant of all reachable stores
   (C10_own_id; a PUT that changes an id files the object anew). *)
Theorem C11_no_5xx_partial : forall s r, own_ids s -> req_ok r ->
  status (snd (handle s r)) < 500 \/
  (status (snd (handle s r)) = 501 /\ unimplemented (r_rule r) (r_meth r) = true).
Proof. exact no_5xx_partial. Qed.
Theorem C11_own_ids_reachable : forall rs b, own_ids (run (empty b) rs).
Proof. exact own_ids_reachable. Qed.

(* Every 4xx answer except 406 carries the result structure (success=false, one Error message
   whose code is the exception class) - for every state and request. *)
Theorem C11_4xx_body : forall s r,
  400 <= status (snd (handle s r)) < 500 -> status (snd (handle s r)) <> 406 ->
  exists cls, pay (snd (handle s r)) = PResult cls.
Proof. exact body_4xx. Qed.

(* A request answered with 4xx or 501 leaves object store and file container as they were -
   for every state and request. *)
Theorem C11_rejected_unchanged : forall s r,
  (400 <= status (snd (handle s r)) < 500 \/ status (snd (handle s r)) = 501) -> fst (handle s r) = s.
Proof. exact rejected_unchanged. Qed.

(* Successful answers are 200/201/204/307 only (so "not 4xx/5xx" means exactly these). *)
Theorem C11_ok_status : forall ep s r s' resp, handler ep s r = Ok (s', resp) -> ok_status (status resp).
Proof. exact handler_ok_status. Qed.

(* Non-vacuity: the hypotheses of C11_no_5xx_partial hold for a store with a nested submodel and a
   PUT that replaces it; and after a history in which a PUT changed an id the DELETE of the old id is a plain 404. *)
Example C11_example_hypotheses :
  own_ids example_state /\ req_ok example_put /\
  status (snd (handle example_state example_put)) = 204.
Proof. exact example_hypotheses. Qed.
Example C11_example_renamed : forall b,
  map fst (st_objs (run (empty b) rename_history)) = [2] /\
  status (snd (handle (run (empty b) rename_history) delete_renamed)) = 404 /\
  pay (snd (handle (run (empty b) rename_history) (rq "/submodels/<base64url:submodel_id>" MGet (IdOk 2) BNoCtype))) = PVal (sm_doc 2).
Proof. exact rename_example. Qed.
