(* C01 - Namespace containment stays consistent under every mutation history.
   Only statements here; every theorem is closed by [exact <lemma>].
   Model: model/Namespace.v ([step] = one public call on a universe of collections keyed by one
   identifying attribute); invariant and [Public]: proofs/NamespaceProofs.v, NamespaceMain.v. *)
From Coq Require Import List ZArith String.
From Basyx Require Import model.Corr model.Namespace model.NamespaceObs proofs.NamespaceProofs proofs.NamespaceOps4
  proofs.NamespaceHooks proofs.NamespaceExtend proofs.NamespaceMain proofs.NamespaceClock.
Import ListNotations.
Local Open Scope string_scope.

(* Before any call (no collection yet, every pool element free and without a generated idShort)
   the invariant holds. *)
Theorem C01_init : forall c pool, pool_ok pool -> Inv c (init pool).
Proof. exact Inv_init. Qed.

(* Every public call - add, remove, discard, pop, pop(i), clear, insert, [i]=, [a:b]=, del [i],
   del [a:b], construction from iterables (also lazy ones that raise while they are consumed), the SubmodelElementList value setter, the setters of
   idShort / qualifier type / extension name / semantic_id, add_referable & co, remove_referable
   & co - preserves it, whether the call returns or raises ([fst] ignores the outcome). *)
Theorem C01_step : forall c s p, Inv c s -> Inv c (fst (step c s p)).
Proof. exact step_inv. Qed.

(* Hence it holds after every finite history. *)
Theorem C01_reachable : forall c pool ops, pool_ok pool -> Inv c (run c pool ops).
Proof. exact Inv_run. Qed.

(* ... and it implies the four statements of the property about the public views: uniqueness
   across the namespace, parent link <-> contained, lookups return exactly the contained child,
   len / iteration / membership / positional views agree. *)
Theorem C01_public : forall c pool ops, pool_ok pool -> Public c (run c pool ops).
Proof. intros c pool ops H. exact (Inv_public c _ (Inv_run c pool ops H)). Qed.

(* A single-element insertion, replacement, removal or rename that raises leaves every
   collection and every element exactly as before (only the uuid generator may have advanced).
   [hooks_wf]: SubmodelElementList hooks exist on idShort collections only. *)
Theorem C01_atomic : forall c s p, Inv c s -> hooks_wf c s -> single_element_op p = true ->
  is_ok (snd (step c s p)) = false -> pub_eq s (fst (step c s p)).
Proof. exact step_atomic. Qed.

(* Atomicity after every history whose constructor calls install SubmodelElementList hooks on
   idShort collections only ([op_wf]; the SDK has no other way to install them). *)
Theorem C01_atomic_reachable : forall c pool ops p, pool_ok pool -> Forall (op_wf c) ops ->
  single_element_op p = true ->
  is_ok (snd (step c (run c pool ops) p)) = false -> pub_eq (run c pool ops) (fst (step c (run c pool ops) p)).
Proof.
  intros c pool ops p H F S E.
  exact (step_atomic c _ p (Inv_run c pool ops H) (run_hooks_wf c ops _ F (init_hooks_wf c pool)) S E).
Qed.

(* Multi-element calls with a rollback.  [same_upto regen s s']: same collections (owner, hooks,
   positional order), same members, every element with the same parent, class, value type,
   semantic id and identifying attribute - with [regen = Some i] the children of collection i may
   carry another (re-generated, non-None) idShort.  The dict order inside a collection and the
   uuid counter are not part of the claim. *)

(* OrderedNamespaceSet.extend / +=: a rejected call leaves everything as it was. *)
Theorem C01_extend_atomic : forall c pool ops r es, pool_ok pool ->
  let s := run c pool ops in
  is_ok (snd (step c s (Extend r es))) = false -> same_upto None s (fst (step c s (Extend r es))).
Proof.
  intros c pool ops r es H s E. exact (step_extend_atomic c s r es (Inv_run c pool ops H) E).
Qed.

(* SubmodelElementList.value = items, when the items are refused and the previous content can be
   put back (the setter re-adds it with extend; [set_value] is exactly this composition): the list
   holds the same elements in the same order with parent = the list; only their generated
   idShorts are new. *)
Theorem C01_value_setter_atomic : forall c pool ops i es old s1 o1 s2 x s3 o3, pool_ok pool ->
  let s := run c pool ops in
  order_of s i = Some old ->
  set_delslice c s i None None = (s1, o1) -> set_extend c s1 i es = (s2, Err x) ->
  set_extend c s2 i old = (s3, o3) -> is_ok o3 = true ->
  set_value c s i es = (s3, Err x) /\ Inv c s3 /\ same_upto (Some i) s s3.
Proof.
  intros c pool ops i es old s1 o1 s2 x s3 o3 H s.
  exact (value_setter_atomic c s i es old s1 o1 s2 x s3 o3 (Inv_run c pool ops H)).
Qed.

(* The branches of the model that stand for "cannot happen in Python" (ValueError of
   list.remove on _order, a None dict key, an index that just passed the range check) are dead. *)
Theorem C01_no_internal_error : forall c pool ops p, pool_ok pool ->
  snd (step c (run c pool ops) p) <> Err EInternal.
Proof. intros c pool ops p H. exact (step_no_internal c _ p (Inv_run c pool ops H)). Qed.

(* Non-vacuity 1: two Operations (three collections sharing one namespace each); colliding,
   case-differing and None idShorts, an element owned by the other Operation, renames, pop,
   add_referable / remove_referable, clear, re-insertion.  The observation after the last call
   (corpus/C01/example_operation.json replays the same history on the SDK). *)
Definition ex_pool1 : list elem :=
  [mkelem (Some (KName "a")) None 0 1 None; mkelem (Some (KName "a")) None 2 0 None;
   mkelem (Some (KName "A")) None 0 1 (Some 0); mkelem None None 0 1 None;
   mkelem (Some (KName "b")) None 3 0 (Some 1); mkelem (Some (KName "Ab")) None 0 1 None].
Definition ex_names : list string := ["a"; "A"; "b"; "Ab"; "aB"].
Definition ex_ops1 : list op :=
  [Construct 0 false None [([0], false); ([4], false); ([], false)];
   Construct 1 false None [([], false); ([], false); ([], false)];
   Add (0, 2) 1; Add (0, 2) 2; Add (0, 1) 3; Rename 2 (Some "a"); Rename 2 (Some "Ab");
   Remove (0, 0) 0; Add (0, 2) 1; Add (1, 0) 4; Pop (0, 1); Add (1, 1) 4; Rename 4 (Some "a");
   Rename 0 (Some "b"); OwnerAdd 0 0; OwnerRemove 0 "Ab"; Clear (0, 2); Discard (1, 1) 4; Add (0, 0) 4].
Example C01_example :
  last (trace (mkcfg AId true) (init (pool_fun ex_pool1)) [] ex_ops1 6 ex_names) [] =
  [[0]; [20; 0; 2; 0; 0; 4; -5; 1; 0; 0; 0; 1; 0; -5; 4; -1; 0; -1; -1];
   [20; 0; 0; 0; -5; 0; 0; 0; 0; 0; 0; -5; -1; -1; -1; -1; -1];
   [20; 0; 0; 0; -5; 0; 0; 0; 0; 0; 0; -5; -1; -1; -1; -1; -1]; [30; 0; 4; -1; 0; -1; -1];
   [20; 1; 0; 0; -5; 0; 0; 0; 0; 0; 0; -5; -1; -1; -1; -1; -1];
   [20; 1; 0; 0; -5; 0; 0; 0; 0; 0; 0; -5; -1; -1; -1; -1; -1];
   [20; 1; 0; 0; -5; 0; 0; 0; 0; 0; 0; -5; -1; -1; -1; -1; -1]; [30; 1; -1; -1; -1; -1; -1];
   [40; 0; 2; -1]; [40; -1; 0; -1]; [40; -1; 3; 0]; [40; -1; -1; -1]; [40; 0; 0; 1]; [40; -1; 3; -1]]%Z.
Proof. vm_compute. reflexivity. Qed.

(* Non-vacuity 2 (hypotheses of C01_atomic met by a non-trivial state): a SubmodelElementList
   holding two Properties; adding a Property with another semanticId raises AASd-114, replacing
   [0] by it raises AASd-114, renaming a child raises AASd-120, giving a child a conflicting semantic id raises AASd-114 - and
   nothing observable changes
   (corpus/C01/example_list.json replays this on the SDK). *)
Definition ex_pool2 : list elem :=
  [mkelem None None 0 1 None; mkelem None None 0 1 (Some 0); mkelem None None 0 1 (Some 1);
   mkelem (Some (KName "a")) None 0 1 None; mkelem None None 2 0 None; mkelem None None 0 2 None].
Definition ex_state2 : state :=
  run (mkcfg AId true) (pool_fun ex_pool2) [Construct 0 true (Some (mklcfg 0 1 None)) [([0; 1], false)]].
Example C01_example_atomic :
  let c := mkcfg AId true in
  map (fun p => (snd (step c ex_state2 p),
                 zlll_eqb [observe c (fst (step c ex_state2 p)) Ok [0] 6 ex_names]
                          [observe c ex_state2 Ok [0] 6 ex_names]))
      [Add (0, 0) 2; SetItem (0, 0) 0%Z 2; Rename 1 (Some "a"); Insert (0, 0) 0%Z 5; PopAt (0, 0) 7%Z;
       SetSem 0 (Some 1)]
  = [(Err (EAasd 114), true); (Err (EAasd 114), true); (Err (EAasd 120), true);
     (Err (EAasd 109), true); (Err EIndex, true); (Err (EAasd 114), true)].
Proof. vm_compute. reflexivity. Qed.

(* The model has no clock: the idShort generated for a SubmodelElementList item is [KGen (gen s)] with a counter.  The
   code takes it from uuid.uuid1(clock_seq=...), i.e. from the clock readings [clock] through [uuid_next] (Lib/uuid.py:
   a reading that is not later than the last stamp is replaced by last + 1).  For EVERY sequence of readings - a clock
   that stands still, is coarse or steps back - the i-th and the j-th stamp of a process coincide only if i = j, so
   replacing the stamps by their index loses nothing; the correspondence run exercises this under the clocks frozen /
   coarse / stepback of tools/c01.py clock_env. *)
Theorem C01_generated_ids_any_clock : forall (clock : list nat) i j, (i < List.length clock)%nat -> (j < List.length clock)%nat ->
  nth i (uuid_stamps None clock) 0%nat = nth j (uuid_stamps None clock) 0%nat -> i = j.
Proof. exact uuid_stamps_injective. Qed.

Example C01_generated_ids_example : uuid_stamps None [7; 7; 7; 3; 9]%nat = [7; 8; 9; 10; 11]%nat.
Proof. exact uuid_stamps_example. Qed.
