(* C05 - wire format matches the official AAS schemas and mapping in both directions.
   Statements only.  [json_schema] (gen/Gen_Schema.v) is regenerated from aasJSONSchema.json, [json_tables]
   (gen/Gen_JsonRules.v) from the JSON adapter of the current working tree on every run; [json_smeta] is the
   specification-side table: metamodel attribute -> member name of the mapping, kind, metamodel constraints.
   [pm] decides `pattern` facets (pattern id -> string -> bool); every theorem holds for every [pm]. *)
From Coq Require Import List Bool String NArith.
From Basyx Require Import model.Codec model.CodecSpec model.SchemaBase model.Schema proofs.CodecProofs proofs.SchemaProofs
  gen.Gen_JsonRules gen.Gen_Schema.
Import ListNotations.
Local Open Scope string_scope.

(* ---------- writing, JSON ---------- *)

(* Generic, proved once by induction over values: for ALL writer rule tables T, schema tables S, metamodel tables SM
   and triple sets TR with conforms T S SM TR = true, the document the interpreted writer produces for any value that
   is well formed w.r.t. SM (structure, optionality, cardinality 1..*, string length bounds and lexical spaces of the
   metamodel) is accepted by the schema validator - whether or not members outside the schema are tolerated
   ([closed]): names, nesting, required members, enum literals, array cardinalities, length and pattern facets. *)
Theorem C05_write_json_generic :
  forall pm (T : tables) (S : jschema) (SM : smeta) (TR : list triple) (XN : table) (lt : string -> bool) (closed : bool),
    conforms T S SM TR XN = true ->
    forall v k ne0 e t,
      swf pm SM k v = true -> tyconf T S TR XN k ne0 e t = true -> (ne0 = true -> v <> VList []) ->
      jvalid pm S closed t (enc_with (enc_auto T lt false) e v) = true.
Proof. exact write_valid. Qed.

(* The finite check over the whole generated tables: every class reachable from the environment's three lists,
   every attribute, every constant, every required member of the schema. *)
Theorem C05_json_conforms : conforms json_tables json_schema json_smeta json_triples spec_xsd_names = true.
Proof. vm_compute. reflexivity. Qed.

Theorem C05_json_no_nonconforming_row : nonconforming json_tables json_schema json_smeta json_triples spec_xsd_names = [].
Proof. vm_compute. reflexivity. Qed.

Theorem C05_json_env_ok : env_ok json_schema json_triples json_root json_tops = true.
Proof. vm_compute. reflexivity. Qed.

(* Hence: every object the current JSON writer emits for a well-formed value of a class reachable from the
   environment validates against the class's schema definition ... *)
Theorem C05_write_json_object :
  forall pm lt closed cls scls v,
    tmem3 (cls, "", scls) json_triples = true -> swf pm json_smeta (KObj [cls] "") v = true ->
    jvalid pm json_schema closed (SObj scls) (enc_auto json_tables lt false v) = true.
Proof.
  intros pm lt closed cls scls v.
  exact (write_object pm json_tables json_schema json_smeta json_triples spec_xsd_names lt closed C05_json_conforms cls scls v).
Qed.

(* ... in which every attribute that holds a value (not None, not the empty collection) appears under the member name
   of the mapping with the encoding of exactly that value - falsy values (false, 0, "", zero durations) included.
   Stated for the plain conditions; the two nested ones (revision under version, kind = Template) are covered by the
   table check [present_ok] and by C03. *)
Theorem C05_write_json_members_present :
  forall pm lt cls ctx scls classes fs attrs a x,
    swf pm json_smeta (KObj classes ctx) (VObj cls fs) = true -> tmem3 (cls, ctx, scls) json_triples = true ->
    sfind (cls ++ ctx) json_smeta = Some attrs -> In a attrs ->
    In (a_name a, x) fs -> x <> VNone -> x <> VList [] ->
    exists c w ms, sfind cls json_tables = Some c /\ find_w (a_name a) (c_w c) = Some w /\ w_member w = a_member a /\
                   enc_auto json_tables lt false (VObj cls fs) = DObj ms /\
                   (simple_cond (w_cond w) = true ->
                    sfind (a_member a) ms = Some (enc_with (enc_auto json_tables lt false) (w_enc w) x)).
Proof.
  intros pm lt.
  exact (member_present pm json_tables json_schema json_smeta json_triples spec_xsd_names lt C05_json_conforms).
Qed.

(* ... and every environment document written for a store of well-formed identifiables validates against the
   schema's root.  [pm]-facets of typed literals computed by the SDK (lastUpdate, min/maxInterval: xsd_repr output)
   are part of [swf] (KLeaf rows of json_smeta): for those the hypothesis is about the SDK's output, not about the
   store, which is why this theorem is the _partial one; see C05_leaf_hypotheses. *)
Theorem C05_write_json_store_partial :
  forall pm lt closed objs,
    (forall v, In v objs -> forall mc, In mc json_tops -> cls_is (snd mc) v = true ->
               swf pm json_smeta (KObj [snd mc] "") v = true) ->
    jvalid pm json_schema closed (SObj json_root) (env_doc json_tables lt json_tops objs) = true.
Proof.
  intros pm lt closed objs.
  exact (write_env pm json_tables json_schema json_smeta json_triples spec_xsd_names lt closed C05_json_conforms
                   json_root json_tops objs C05_json_env_ok).
Qed.

(* The only typed-literal attributes on which the schema puts a pattern (so: the named hypotheses about xsd_repr that
   C05_write_json_store_partial carries inside swf): BasicEventElement.lastUpdate / minInterval / maxInterval. *)
Definition leaf_patterns (SM : smeta) : list (string * string * list string) :=
  flat_map (fun row => flat_map (fun a => match a_kind a with
                                          | KLeaf f => match f_pats f with
                                                       | [] => []
                                                       | ps => [(fst row, a_name a, ps)] end
                                          | _ => [] end) (snd row)) SM.
Theorem C05_leaf_hypotheses :
  map (fun x => (fst (fst x), snd (fst x))) (leaf_patterns json_smeta) =
  [("BasicEventElement", "last_update"); ("BasicEventElement", "min_interval"); ("BasicEventElement", "max_interval")].
Proof. vm_compute. reflexivity. Qed.

(* The predicate is discriminating: a writer that swaps two members of the same type, renames a member, emits an
   optional attribute unconditionally, or maps an enum member to a string outside the schema's literals is rejected. *)
Definition swap_first_second (T : tables) : tables :=
  map (fun p => if String.eqb (fst p) "RelationshipElement"
                then (fst p, mkC (c_consts (snd p))
                                 (map (fun w => if String.eqb (w_member w) "first" then mkW "second" (w_attr w) (w_cond w) (w_enc w) (w_unstripped_only w)
                                                else if String.eqb (w_member w) "second" then mkW "first" (w_attr w) (w_cond w) (w_enc w) (w_unstripped_only w)
                                                else w) (c_w (snd p)))
                                 (c_r (snd p)))
                else p) T.
Example C05_conforms_rejects_swapped_members :
  conforms (swap_first_second json_tables) json_schema json_smeta json_triples spec_xsd_names = false.
Proof. vm_compute. reflexivity. Qed.

Definition always_emit (cls attr : string) (T : tables) : tables :=
  map (fun p => if String.eqb (fst p) cls
                then (fst p, mkC (c_consts (snd p))
                                 (map (fun w => if String.eqb (w_attr w) attr then mkW (w_member w) (w_attr w) WAlways (w_enc w) (w_unstripped_only w) else w)
                                      (c_w (snd p)))
                                 (c_r (snd p)))
                else p) T.
Example C05_conforms_rejects_null_member :
  conforms (always_emit "Property" "value_id" json_tables) json_schema json_smeta json_triples spec_xsd_names = false.
Proof. vm_compute. reflexivity. Qed.

(* a writer that tests the truthiness of a typed value (`if obj.value:`) drops false, 0, "" and is rejected although
   every document it writes is schema-valid *)
Definition truthy_cond (cls attr : string) (T : tables) : tables :=
  map (fun p => if String.eqb (fst p) cls
                then (fst p, mkC (c_consts (snd p))
                                 (map (fun w => if String.eqb (w_attr w) attr then mkW (w_member w) (w_attr w) WTruthy (w_enc w) (w_unstripped_only w) else w)
                                      (c_w (snd p)))
                                 (c_r (snd p)))
                else p) T.
Example C05_conforms_rejects_dropped_falsy_value :
  conforms (truthy_cond "Property" "value" json_tables) json_schema json_smeta json_triples spec_xsd_names = false.
Proof. vm_compute. reflexivity. Qed.

(* a writer whose enum table swaps two literals of one enumeration (a change the reader's inverse table follows, so
   every round-trip test stays green) is rejected: the mapping spells a member like its name *)
Definition swap_direction (T : tables) : tables :=
  map (fun p => if String.eqb (fst p) "BasicEventElement"
                then (fst p, mkC (c_consts (snd p))
                                 (map (fun w => if String.eqb (w_attr w) "direction"
                                                then mkW (w_member w) (w_attr w) (w_cond w) (EEnum [("INPUT", "output"); ("OUTPUT", "input")]) (w_unstripped_only w)
                                                else w) (c_w (snd p)))
                                 (c_r (snd p)))
                else p) T.
Example C05_conforms_rejects_swapped_literals :
  conforms (swap_direction json_tables) json_schema json_smeta json_triples spec_xsd_names = false.
Proof. vm_compute. reflexivity. Qed.

(* ---------- reading, JSON ---------- *)
(* The mapping as WRITER rule tables (spec_w_min: attributes holding their metamodel default are left out where the
   rule language can say so; spec_w_explicit: they are written), derived by tools/py2coq/schemas.py from the schema
   tables, the metamodel attribute table and the mapping names - not from the SDK's writer - combined with the READER
   rules and dispatch constants of the adapter under test. *)
Definition json_spec_min : tables := mix spec_w_min json_tables.
Definition json_spec_explicit : tables := mix spec_w_explicit json_tables.

Theorem C05_spec_tables_use_sdk_reader :
  map (fun p => (fst p, c_r (snd p))) json_spec_min = map (fun p => (fst p, c_r (snd p))) json_tables /\
  map (fun p => (fst p, c_r (snd p))) json_spec_explicit = map (fun p => (fst p, c_r (snd p))) json_tables /\
  same_consts spec_w_min json_tables = true /\ same_consts spec_w_explicit json_tables = true.
Proof. vm_compute. repeat split; reflexivity. Qed.

(* the documents the mapping prescribes are schema-valid (so they are in the scope of the reading statement) ... *)
Theorem C05_spec_documents_conform :
  conforms json_spec_min json_schema json_smeta json_triples spec_xsd_names = true /\
  conforms json_spec_explicit json_schema json_smeta json_triples spec_xsd_names = true.
Proof. vm_compute. split; reflexivity. Qed.

(* ... and the reader rules under test are compatible with them (C03's predicate, over the whole tables) *)
Theorem C05_read_json_compat :
  compat json_spec_min json_meta = true /\ compat json_spec_explicit json_meta = true.
Proof. vm_compute. split; reflexivity. Qed.

(* Hence: every document the mapping prescribes for a well-formed value - with or without explicit defaults - is
   accepted by the interpreted reader rules of the current JSON adapter and yields exactly that value. *)
Theorem C05_read_json_partial :
  forall (lt : string -> bool) (cls : string) (v : value),
    wfb json_meta (BObj [cls]) v = true -> deps_ok json_spec_min v = true ->
    dec json_spec_min json_meta false (DcObj cls) (enc_auto json_spec_min lt false v) = Some v.
Proof.
  intros lt cls v Hwf Hdeps.
  exact (roundtrip json_spec_min json_meta lt (proj1 C05_read_json_compat) v (BObj [cls]) EAuto (DcObj cls) Hwf Hdeps
                   (String.eqb_refl cls)).
Qed.
Theorem C05_read_json_explicit_defaults_partial :
  forall (lt : string -> bool) (cls : string) (v : value),
    wfb json_meta (BObj [cls]) v = true -> deps_ok json_spec_explicit v = true ->
    dec json_spec_explicit json_meta false (DcObj cls) (enc_auto json_spec_explicit lt false v) = Some v.
Proof.
  intros lt cls v Hwf Hdeps.
  exact (roundtrip json_spec_explicit json_meta lt (proj2 C05_read_json_compat) v (BObj [cls]) EAuto (DcObj cls) Hwf
                   Hdeps (String.eqb_refl cls)).
Qed.

(* What C05_read_json_partial does not reach, because no value of the SDK's universe stands for it: literals of a
   schema enumeration that the reader's table does not know.  On the current tree exactly two: the strict readers
   reject the key types Identifiable and Referable (replayed on the SDK by tools/c05.py, known finding). *)
Theorem C05_read_enum_literals_refuted :
  unread_literals json_tables json_schema json_smeta json_triples =
  [("Key", "type", "Identifiable"); ("Key", "type", "Referable")].
Proof. vm_compute. reflexivity. Qed.

(* Non-vacuity: a submodel with a nested property, a qualifier and a display name meets the hypotheses, and its
   rendering validates (computed). *)
Definition ex_pm (p s : string) : bool := true.
Definition ex_ref := VObj "ExternalReference"
  [("key", VList [VObj "Key" [("type", VStr "GLOBAL_REFERENCE"); ("value", VStr "urn:x")]]); ("referred_semantic_id", VNone)].
Definition ex_sme (rest : list (string * value)) : list (string * value) :=
  [("id_short", VStr "p1");
   ("display_name", VList [VObj "LangString" [("language", VStr "en"); ("text", VStr "a name")]]);
   ("category", VNone); ("description", VNone); ("extension", VList []); ("embedded_data_specifications", VList []);
   ("semantic_id", ex_ref); ("supplemental_semantic_id", VList []);
   ("qualifier", VList [VObj "Qualifier" [("semantic_id", VNone); ("supplemental_semantic_id", VList []); ("type", VStr "t");
                                          ("value_type", VStr "Int"); ("value", VLeaf "0"); ("value_id", VNone);
                                          ("kind", VStr "CONCEPT_QUALIFIER")]])] ++ rest.
Definition ex_prop := VObj "Property" (ex_sme [("value_type", VStr "Int"); ("value", VLeaf "0"); ("value_id", VNone)]).
Definition ex_submodel := VObj "Submodel"
  [("id_short", VNone); ("display_name", VNone); ("category", VNone); ("description", VNone); ("extension", VList []);
   ("embedded_data_specifications", VList []); ("semantic_id", VNone); ("supplemental_semantic_id", VList []);
   ("qualifier", VList []); ("id", VStr "urn:sm"); ("administration", VNone); ("kind", VStr "INSTANCE");
   ("submodel_element", VList [ex_prop])].
Example C05_read_example :
  wfb json_meta (BObj ["Submodel"]) ex_submodel = true /\ deps_ok json_spec_min ex_submodel = true /\
  jvalid ex_pm json_schema true (SObj "Submodel") (enc_auto json_spec_explicit (fun _ => false) false ex_submodel) = true /\
  dec json_spec_explicit json_meta false (DcObj "Submodel")
      (enc_auto json_spec_explicit (fun _ => false) false ex_submodel) = Some ex_submodel.
Proof. vm_compute. repeat split; reflexivity. Qed.

Example C05_example :
  swf ex_pm json_smeta (KObj ["Submodel"] "") ex_submodel = true /\
  tmem3 ("Submodel", "", "Submodel") json_triples = true /\
  jvalid ex_pm json_schema true (SObj json_root)
         (env_doc json_tables (fun _ => false) json_tops [ex_submodel]) = true.
Proof. vm_compute. repeat split; reflexivity. Qed.
