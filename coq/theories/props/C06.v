(* C06 - XSD simple values keep their value and type through the lexical mapping.
   Only statements here; every theorem is closed by [exact <lemma>].
   print_T / parse_T / ctor: model of xsd_repr / from_xsd / the constructors (model/Xsd*.v);
   valid_xsd_T: independent recognisers of the XSD lexical spaces (model/XsdLex.v);
   in_range_T, xsd_type_names: translated from datatypes.py on every run (gen/Gen_XsdTables.v). *)
From Coq Require Import List ZArith Bool Ascii String.
From Basyx Require Import model.XsdBase model.XsdRe model.XsdLex model.Xsd gen.Gen_XsdTables
  proofs.XsdTableProofs proofs.XsdIntProofs.
Import ListNotations.
Local Open Scope Z_scope.

(* ---- names: each of the 31 types is announced under exactly "xs:" + its own XSD name, and that name
   leads back to the type; no two types share a name (the table is one-to-one). *)
Theorem C06_names : forall T n,
  In (T, n) [("Duration", "duration"); ("DateTime", "dateTime"); ("Date", "date"); ("Time", "time");
   ("GYearMonth", "gYearMonth"); ("GYear", "gYear"); ("GMonthDay", "gMonthDay"); ("GMonth", "gMonth");
   ("GDay", "gDay"); ("Boolean", "boolean"); ("Base64Binary", "base64Binary"); ("HexBinary", "hexBinary");
   ("Float", "float"); ("Double", "double"); ("Decimal", "decimal"); ("Integer", "integer"); ("Long", "long");
   ("Int", "int"); ("Short", "short"); ("Byte", "byte"); ("NonPositiveInteger", "nonPositiveInteger");
   ("NegativeInteger", "negativeInteger"); ("NonNegativeInteger", "nonNegativeInteger");
   ("PositiveInteger", "positiveInteger"); ("UnsignedLong", "unsignedLong"); ("UnsignedInt", "unsignedInt");
   ("UnsignedShort", "unsignedShort"); ("UnsignedByte", "unsignedByte"); ("AnyURI", "anyURI");
   ("String", "string"); ("NormalizedString", "normalizedString")]%string ->
  lookup T xsd_type_names = Some ("xs:" ++ n)%string /\ lookup ("xs:" ++ n)%string xsd_type_classes = Some T.
Proof. exact names_ok. Qed.
Theorem C06_names_one_to_one : NoDup (map fst xsd_type_names) /\ NoDup (map snd xsd_type_names).
Proof. exact names_one_to_one. Qed.

(* ---- integer family (Integer + 12 range-checked classes).  [sdk_range T] is the range check translated
   from the class that stands for T; [int_space T] states the XSD bounds as literals. *)
Theorem C06_int_ranges : forall T z, sdk_range T z = int_space T z.
Proof. exact sdk_range_space. Qed.
Theorem C06_int_bounds : forall z,
  (in_range_Long z = true <-> -9223372036854775808 <= z <= 9223372036854775807) /\
  (in_range_Int z = true <-> -2147483648 <= z <= 2147483647) /\
  (in_range_Short z = true <-> -32768 <= z <= 32767) /\
  (in_range_Byte z = true <-> -128 <= z <= 127) /\
  (in_range_NonPositiveInteger z = true <-> z <= 0) /\
  (in_range_NegativeInteger z = true <-> z <= -1) /\
  (in_range_NonNegativeInteger z = true <-> 0 <= z) /\
  (in_range_PositiveInteger z = true <-> 1 <= z) /\
  (in_range_UnsignedLong z = true <-> 0 <= z <= 18446744073709551615) /\
  (in_range_UnsignedInt z = true <-> 0 <= z <= 4294967295) /\
  (in_range_UnsignedShort z = true <-> 0 <= z <= 65535) /\
  (in_range_UnsignedByte z = true <-> 0 <= z <= 255).
Proof. exact int_bounds_all. Qed.
(* every value of the type: its text parses back to the same value ... *)
Theorem C06_int_roundtrip : forall T z, int_space T z = true -> parse_int (sdk_range T) (print_int z) = Ok z.
Proof. intros T z H. apply int_roundtrip. rewrite sdk_range_space. exact H. Qed.
(* ... and is a valid literal of exactly that type *)
Theorem C06_int_print_valid : forall T z, int_space T z = true -> valid_xsd_int T (print_int z) = true.
Proof. exact int_print_valid. Qed.
(* every string that is not a literal of the type (malformed, or denoting an integer outside the value
   space) is rejected with ValueError; an accepted literal yields exactly the integer it denotes *)
Theorem C06_int_reject_literal : forall T s, valid_xsd_int T s = false -> parse_int (sdk_range T) s = Err ValueError.
Proof. exact int_reject_literal. Qed.
Theorem C06_int_accept_exact : forall T s z, parse_int (sdk_range T) s = Ok z ->
  valid_xsd_int T s = true /\ integer_value (ws_collapse s) = z /\ int_space T z = true.
Proof. exact int_accept_valid. Qed.
(* a Python int outside the value space is refused by the constructor (no wrapping, no truncation) *)
Theorem C06_int_reject_value : forall T z, int_space T z = false -> ctor_int (sdk_range T) z = Err ValueError.
Proof. exact int_reject_value. Qed.
Example C06_int_examples :
  parse_int in_range_Byte (L " -128 ") = Ok (-128) /\ parse_int in_range_Byte (L "128") = Err ValueError /\
  parse_int in_range_Int (L "1_0") = Err ValueError /\ parse_int in_range_UnsignedByte (L "+255") = Ok 255 /\
  print_int (-9223372036854775808) = L "-9223372036854775808" /\ valid_xsd_int TUnsignedByte (L "256") = false.
Proof. vm_compute. repeat split. Qed.

(* ---- boolean *)
Theorem C06_boolean : forall b, parse_bool (print_bool b) = Ok b /\ valid_xsd_boolean (print_bool b) = true.
Proof. intros b. split; [exact (bool_roundtrip b)|exact (bool_print_valid b)]. Qed.
Theorem C06_boolean_reject_literal : forall s, valid_xsd_boolean s = false -> parse_bool s = Err ValueError.
Proof. exact bool_reject_literal. Qed.
