(* C06 - XSD simple values keep their value and type through the lexical mapping.
   Only statements here; every theorem is closed by [exact <lemma>].
   print_T / parse_T / ctor: model of xsd_repr / from_xsd / the constructors (model/Xsd*.v);
   valid_xsd_T: independent recognisers of the XSD lexical spaces (model/XsdLex.v);
   in_range_T, xsd_type_names: translated from datatypes.py on every run (gen/Gen_XsdTables.v). *)
From Coq Require Import List ZArith Bool Ascii String.
From Basyx Require Import model.XsdBase model.XsdRe model.XsdLex model.Xsd gen.Gen_XsdTables
  model.XsdBin model.XsdDur model.XsdNum proofs.XsdTableProofs proofs.XsdIntProofs proofs.XsdDateFacts proofs.XsdDateProofs proofs.XsdBinProofs
  proofs.XsdDurProofs proofs.XsdNumProofs.
Import ListNotations.
Local Open Scope Z_scope.

(* ---- names: each of the 31 types is announced under exactly "xs:" + its own XSD name, and that name
   leads back to the type; no two types share a name (the table is one-to-one). *)
Theorem C06_names : forall T n,
  In (T, n) [("Duration", "duration"); ("DateTime", "dateTime"); ("Date", "date"); ("Time", "time");
   ("GYearMonth", "gYearMonth"); ("GYear", "gYear"); ("GMonthDay", "gMonthDay"); ("GMonth", "gMonth");
   ("GDay", "gDay"); ("Boolean", "boolean"); ("Base64Binary", "base64Binary"); ("HexBinary", "hexBinary");
   ("Float", "float"); ("Double", "double"); ("Decimal", "decimal"); ("Integer", "integer"); ("Long", "long");
   ("Int", "int"); ("Short", "short"); ("Byte", "byte"); ("NonPositiveInteger", "nonPositiveInteger");
   ("NegativeInteger", "negativeInteger"); ("NonNegativeInteger", "nonNegativeInteger");
   ("PositiveInteger", "positiveInteger"); ("UnsignedLong", "unsignedLong"); ("UnsignedInt", "unsignedInt");
   ("UnsignedShort", "unsignedShort"); ("UnsignedByte", "unsignedByte"); ("AnyURI", "anyURI");
   ("String", "string"); ("NormalizedString", "normalizedString")]%string ->
  lookup T xsd_type_names = Some ("xs:" ++ n)%string /\ lookup ("xs:" ++ n)%string xsd_type_classes = Some T.
Proof. exact names_ok. Qed.
Theorem C06_names_one_to_one : NoDup (map fst xsd_type_names) /\ NoDup (map snd xsd_type_names).
Proof. exact names_one_to_one. Qed.

(* ---- integer family (Integer + 12 range-checked classes).  [sdk_range T] is the range check translated
   from the class that stands for T; [int_space T] states the XSD bounds as literals. *)
Theorem C06_int_ranges : forall T z, sdk_range T z = int_space T z.
Proof. exact sdk_range_space. Qed.
Theorem C06_int_bounds : forall z,
  (in_range_Long z = true <-> -9223372036854775808 <= z <= 9223372036854775807) /\
  (in_range_Int z = true <-> -2147483648 <= z <= 2147483647) /\
  (in_range_Short z = true <-> -32768 <= z <= 32767) /\
  (in_range_Byte z = true <-> -128 <= z <= 127) /\
  (in_range_NonPositiveInteger z = true <-> z <= 0) /\
  (in_range_NegativeInteger z = true <-> z <= -1) /\
  (in_range_NonNegativeInteger z = true <-> 0 <= z) /\
  (in_range_PositiveInteger z = true <-> 1 <= z) /\
  (in_range_UnsignedLong z = true <-> 0 <= z <= 18446744073709551615) /\
  (in_range_UnsignedInt z = true <-> 0 <= z <= 4294967295) /\
  (in_range_UnsignedShort z = true <-> 0 <= z <= 65535) /\
  (in_range_UnsignedByte z = true <-> 0 <= z <= 255).
Proof. exact int_bounds_all. Qed.
(* every value of the type: its text parses back to the same value ... *)
Theorem C06_int_roundtrip : forall T z, int_space T z = true -> parse_int (sdk_range T) (print_int z) = Ok z.
Proof. exact int_roundtrip_T. Qed.
(* ... and is a valid literal of exactly that type *)
Theorem C06_int_print_valid : forall T z, int_space T z = true -> valid_xsd_int T (print_int z) = true.
Proof. exact int_print_valid. Qed.
(* every string that is not a literal of the type (malformed, or denoting an integer outside the value
   space) is rejected with ValueError; an accepted literal yields exactly the integer it denotes *)
Theorem C06_int_reject_literal : forall T s, valid_xsd_int T s = false -> parse_int (sdk_range T) s = Err ValueError.
Proof. exact int_reject_literal. Qed.
Theorem C06_int_accept_exact : forall T s z, parse_int (sdk_range T) s = Ok z ->
  valid_xsd_int T s = true /\ integer_value (ws_collapse s) = z /\ int_space T z = true.
Proof. exact int_accept_valid. Qed.
(* a Python int outside the value space is refused by the constructor (no wrapping, no truncation) *)
Theorem C06_int_reject_value : forall T z, int_space T z = false -> ctor_int (sdk_range T) z = Err ValueError.
Proof. exact int_reject_value. Qed.
Example C06_int_examples :
  parse_int in_range_Byte (L " -128 ") = Ok (-128) /\ parse_int in_range_Byte (L "128") = Err ValueError /\
  parse_int in_range_Int (L "1_0") = Err ValueError /\ parse_int in_range_UnsignedByte (L "+255") = Ok 255 /\
  print_int (-9223372036854775808) = L "-9223372036854775808" /\ valid_xsd_int TUnsignedByte (L "256") = false.
Proof. vm_compute. repeat split. Qed.

(* ---- boolean *)
Theorem C06_boolean : forall b, parse_bool (print_bool b) = Ok b /\ valid_xsd_boolean (print_bool b) = true.
Proof. intros b. exact (conj (bool_roundtrip b) (bool_print_valid b)). Qed.
Theorem C06_boolean_reject_literal : forall s, valid_xsd_boolean s = false -> parse_bool s = Err ValueError.
Proof. exact bool_reject_literal. Qed.

(* ---- time zones.  A zone is None or an offset in minutes; [tz_ok] = the XSD range -14:00 .. +14:00
   (-840 .. 840 minutes).  Every one of the 1681 offsets is written, recognised and read back, both in the
   spelling of _serialize_date_tzinfo (Z, +hh:mm) and of isoformat() (+hh:mm) - by evaluating the check on all
   of them (proofs/XsdDateFacts.v: tz_chk_date_all, tz_chk_iso_all). *)
Theorem C06_zone_offsets : forall off, -840 <= off <= 840 ->
  (exists g, tz_group_end (date_tz_text off) = Some g /\ parse_tzinfo g = Ok (Some off) /\
             matches (opt tz_re) (date_tz_text off) = true) /\
  (exists g, tz_group_end (iso_tz (Some off)) = Some g /\ parse_tzinfo g = Ok (Some off) /\
             matches (opt tz_re) (iso_tz (Some off)) = true).
Proof. exact zone_offsets. Qed.
(* a zone outside that range is refused when a value is written *)
Theorem C06_zone_out_of_range : forall h mi s us off, off < -840 \/ 840 < off ->
  print_time (mkTime h mi s us (Some off)) = Err ValueError /\
  forall y m d, print_datetime (mkDT y m d h mi s us (Some off)) = Err ValueError /\
                print_date (mkDate y m d (Some off)) = Err ValueError.
Proof. exact time_print_out_of_range. Qed.

(* a tzinfo can carry any offset with microsecond resolution.  [with_utcoffset (Some o) k] is xsd_repr of a value
   whose offset is o microseconds: offsets that are no whole number of minutes (seconds or microseconds left over)
   or lie beyond +-14:00 - even by one microsecond - are refused with ValueError, for every type (k arbitrary);
   the others are exactly the whole-minute offsets the theorems below speak about. *)
Theorem C06_zone_subminute_rejected : forall (A : Type) o (k : tz -> res A),
  o mod 60000000 <> 0 \/ o < -50400000000 \/ 50400000000 < o -> with_utcoffset (Some o) k = Err ValueError.
Proof. exact @with_utcoffset_reject. Qed.
Theorem C06_zone_whole_minutes : forall (A : Type) m (k : tz -> res A), -840 <= m <= 840 ->
  with_utcoffset (Some (m * 60000000)) k = k (Some m).
Proof. exact @with_utcoffset_whole. Qed.
Theorem C06_zone_accepted_is_whole : forall o t, tz_of_us o = Ok t ->
  tz_ok t = true /\ match o, t with None, None => True | Some u, Some m => u = m * 60000000 | _, _ => False end.
Proof. exact tz_of_us_ok. Qed.

(* ---- date, time, dateTime: every well-formed value (fields in the ranges the datetime constructors
   enforce: year 1..9999, real calendar days, 0..23 h, 0..59 min/s, ALL microseconds 0..999999; zone in range)
   is written as a valid literal of its type that reads back as the same value *)
Theorem C06_date_roundtrip : forall v,
  date_fields_ok (d_y v) (d_m v) (d_d v) = true /\ tz_ok (d_tz v) = true ->
  exists s, print_date v = Ok s /\ parse_date s = Ok v /\ valid_xsd_date s = true.
Proof. exact date_roundtrip. Qed.
Theorem C06_time_roundtrip : forall v,
  time_fields_ok (t_h v) (t_mi v) (t_s v) (t_us v) = true /\ tz_ok (t_tz v) = true ->
  exists s, print_time v = Ok s /\ parse_time s = Ok v /\ valid_xsd_time s = true.
Proof. exact time_roundtrip. Qed.
Theorem C06_datetime_roundtrip : forall v,
  date_fields_ok (dt_y v) (dt_m v) (dt_d v) = true /\ time_fields_ok (dt_h v) (dt_mi v) (dt_s v) (dt_us v) = true /\
  tz_ok (dt_tz v) = true ->
  exists s, print_datetime v = Ok s /\ parse_datetime s = Ok v /\ valid_xsd_datetime s = true.
Proof. exact datetime_roundtrip. Qed.
(* the microsecond field: '%06d' followed by _parse_xsd_microseconds is the identity on all 10^6 values *)
Theorem C06_microseconds : forall us, 0 <= us <= 999999 -> us_of_frac (fmt_0d 6 us) = us.
Proof. intros us H. exact (proj2 (proj2 (six_digits us H))). Qed.
(* every string that is not a literal of the type is rejected with ValueError *)
Theorem C06_date_reject_literal : forall s, valid_xsd_date s = false -> parse_date s = Err ValueError.
Proof. exact date_reject_literal. Qed.
Theorem C06_time_reject_literal : forall s, valid_xsd_time s = false -> parse_time s = Err ValueError.
Proof. exact time_reject_literal. Qed.
Theorem C06_datetime_reject_literal : forall s, valid_xsd_datetime s = false -> parse_datetime s = Err ValueError.
Proof. exact datetime_reject_literal. Qed.
Example C06_datetime_examples :
  parse_datetime (L "2020-01-24T15:25:17.000017-00:20") = Ok (mkDT 2020 1 24 15 25 17 17 (Some (-20))) /\
  print_datetime (mkDT 999 2 28 23 59 59 999999 (Some 840)) = Ok (L "0999-02-28T23:59:59.999999+14:00") /\
  print_date (mkDate 2000 1 1 (Some 780)) = Ok (L "2000-01-01+13:00") /\
  parse_date (L "2000-01-01+01:75") = Err ValueError /\ parse_date (L "1900-02-29") = Err ValueError /\
  valid_xsd_datetime (L "2020-02-30T00:00:00") = false /\ valid_xsd_time (L "24:00:00") = true /\
  parse_time (L "24:00:00") = Err ValueError.
Proof. vm_compute. repeat split. Qed.

(* ---- gYearMonth, gYear, gMonthDay, gDay, gMonth (years 1..9999; month/day as the constructors demand) *)
Theorem C06_g_value_spaces :
  (forall y m, ctor_ok_GYearMonth y m = true <-> 1 <= m <= 12) /\
  (forall m, ctor_ok_GMonth m = true <-> 1 <= m <= 12) /\
  (forall d, ctor_ok_GDay d = true <-> 1 <= d <= 31) /\
  (forall m d, ctor_ok_GMonthDay m d = true <->
     1 <= m <= 12 /\ 1 <= d <= (if m =? 2 then 29 else if (m =? 4) || (m =? 6) || (m =? 9) || (m =? 11) then 30 else 31)).
Proof. exact ctor_ranges. Qed.
Theorem C06_gyear_roundtrip : forall v, 1 <= gy_y v <= 9999 /\ tz_ok (gy_tz v) = true ->
  exists s, print_gyear v = Ok s /\ parse_gyear s = Ok v /\ valid_xsd_gyear s = true.
Proof. exact gyear_roundtrip. Qed.
Theorem C06_gyearmonth_roundtrip : forall v,
  1 <= gym_y v <= 9999 /\ ctor_ok_GYearMonth (gym_y v) (gym_m v) = true /\ tz_ok (gym_tz v) = true ->
  exists s, print_gyearmonth v = Ok s /\ parse_gyearmonth s = Ok v /\ valid_xsd_gyearmonth s = true.
Proof. exact gyearmonth_roundtrip. Qed.
Theorem C06_gmonthday_roundtrip : forall v, ctor_ok_GMonthDay (gmd_m v) (gmd_d v) = true /\ tz_ok (gmd_tz v) = true ->
  exists s, print_gmonthday v = Ok s /\ parse_gmonthday s = Ok v /\ valid_xsd_gmonthday s = true.
Proof. exact gmonthday_roundtrip. Qed.
Theorem C06_gday_roundtrip : forall v, ctor_ok_GDay (gd_d v) = true /\ tz_ok (gd_tz v) = true ->
  exists s, print_gday v = Ok s /\ parse_gday s = Ok v /\ valid_xsd_gday s = true.
Proof. exact gday_roundtrip. Qed.
Theorem C06_gmonth_roundtrip : forall v, ctor_ok_GMonth (gm_m v) = true /\ tz_ok (gm_tz v) = true ->
  exists s, print_gmonth v = Ok s /\ parse_gmonth s = Ok v /\ valid_xsd_gmonth s = true.
Proof. exact gmonth_roundtrip. Qed.
Theorem C06_g_reject_literal : forall s,
  (valid_xsd_gyear s = false -> parse_gyear s = Err ValueError) /\
  (valid_xsd_gyearmonth s = false -> parse_gyearmonth s = Err ValueError) /\
  (valid_xsd_gmonthday s = false -> parse_gmonthday s = Err ValueError) /\
  (valid_xsd_gday s = false -> parse_gday s = Err ValueError) /\
  (valid_xsd_gmonth s = false -> parse_gmonth s = Err ValueError).
Proof.
  intros s. exact (conj (gyear_reject_literal s) (conj (gyearmonth_reject_literal s) (conj (gmonthday_reject_literal s)
                  (conj (gday_reject_literal s) (gmonth_reject_literal s))))).
Qed.
Example C06_g_examples :
  print_gyearmonth (mkGYM 999 5 None) = Ok (L "0999-05") /\ parse_gyearmonth (L "0999-05") = Ok (mkGYM 999 5 None) /\
  print_gmonthday (mkGMD 2 29 (Some 0)) = Ok (L "--02-29Z") /\ parse_gmonthday (L "--02-30") = Err ValueError /\
  parse_gday (L "---31-14:00") = Ok (mkGD 31 (Some (-840))) /\ parse_gmonth (L "--13") = Err ValueError.
Proof. vm_compute. repeat split. Qed.

(* ---- string, anyURI (identity mapping; every text is a literal), normalizedString (no CR, LF, TAB) *)
Theorem C06_string_roundtrip : forall v, parse_string (print_string v) = Ok v /\ valid_xsd_string (print_string v) = true.
Proof. exact string_roundtrip. Qed.
Theorem C06_normalizedstring_roundtrip : forall v, valid_xsd_normalizedstring v = true ->
  new_normalizedstring v = Ok v /\ parse_normalizedstring (print_string v) = Ok v.
Proof. exact normalizedstring_roundtrip. Qed.
(* forbidden whitespace is refused by the constructor and by from_xsd *)
Theorem C06_normalizedstring_reject : forall s, valid_xsd_normalizedstring s = false ->
  new_normalizedstring s = Err ValueError /\ parse_normalizedstring s = Err ValueError.
Proof. exact normalizedstring_reject. Qed.

(* ---- hexBinary, base64Binary: arbitrary byte strings *)
Theorem C06_hex_roundtrip : forall b, parse_hex (print_hex b) = Ok b /\ valid_xsd_hexbinary (print_hex b) = true.
Proof. exact hex_roundtrip. Qed.
Theorem C06_hex_reject_literal : forall s, valid_xsd_hexbinary s = false -> parse_hex s = Err ValueError.
Proof. exact hex_reject_literal. Qed.
Theorem C06_base64_roundtrip : forall b, parse_base64 (print_base64 b) = Ok b /\ valid_xsd_base64 (print_base64 b) = true.
Proof. exact base64_roundtrip. Qed.
Theorem C06_base64_reject_literal : forall s, valid_xsd_base64 s = false -> parse_base64 s = Err ValueError.
Proof. exact base64_reject_literal. Qed.
Example C06_binary_examples :
  print_base64 (L "abc") = L "YWJj" /\ print_base64 (L "hi") = L "aGk=" /\ parse_base64 (L "aGl=") = Err ValueError /\
  parse_base64 (L "!!aGk=") = Err ValueError /\ parse_base64 (L " a G k = ") = Ok (L "hi") /\
  print_hex (L "hi") = L "6869" /\ parse_hex (L "ab cd") = Err ValueError /\ parse_hex (L " 6A6b ") = Ok (L "jk").
Proof. vm_compute. repeat split. Qed.

(* ---- duration (relativedelta with integer relative fields).  [fixed] = what the relativedelta constructor
   guarantees (|months| <= 11, |hours| <= 23, |minutes|,|seconds| <= 59, |microseconds| <= 999999; years and days
   unbounded); all field combinations and both signs: every such value whose non-zero fields share one sign ... *)
Theorem C06_duration_roundtrip : forall v,
  fixed v /\ (all_fields (fun x => 0 <= x) v \/ all_fields (fun x => x <= 0) v) ->
  exists s, print_duration v = Ok s /\ parse_duration s = Ok v /\ valid_xsd_duration s = true.
Proof. exact dur_roundtrip. Qed.
(* ... and a value with fields of different signs is refused (no XSD duration denotes it field by field) *)
Theorem C06_duration_mixed_signs : forall v x y, fixed v -> In x (fields v) -> In y (fields v) -> x < 0 -> 0 < y ->
  print_duration v = Err ValueError.
Proof. exact dur_mixed_rejected. Qed.
Theorem C06_duration_reject_literal : forall s, valid_xsd_duration s = false -> parse_duration s = Err ValueError.
Proof. exact dur_reject_literal. Qed.
Example C06_duration_examples :
  print_duration (mkDur 0 1347 0 0 0 0 0) = Ok (L "P112Y3M") /\
  print_duration (mkDur 0 0 0 0 0 (-1) (-500000)) = Ok (L "-PT1.5S") /\
  parse_duration (L "-PT1.5S") = Ok (mkDur 0 0 0 0 0 (-1) (-500000)) /\
  print_duration (mkDur 9007199254740993 0 0 0 0 0 17) = Ok (L "P9007199254740993YT0.000017S") /\
  parse_duration (L "PT0.000017S") = Ok (mkDur 0 0 0 0 0 0 17) /\
  print_duration (mkDur 0 (-5) 3 0 0 0 0) = Err ValueError /\
  parse_duration (L "P") = Err ValueError /\ parse_duration (L "P1YT") = Err ValueError /\
  valid_xsd_duration (L "PT") = false.
Proof. vm_compute. repeat split. Qed.

(* ---- decimal: a finite Decimal (-1)^neg * coef * 10^exp of ANY exponent is written without exponent as a valid
   literal; reading it gives the same number ([dec_reread]: same sign and coefficient * 10^exponent, the exponent
   normalised to <= 0 - decimal.Decimal equality is numeric) *)
Theorem C06_decimal_roundtrip : forall v, 0 <= dec_coef v ->
  exists s, print_decimal v = Ok s /\ parse_decimal s = Ok (dec_reread v) /\ valid_xsd_decimal s = true.
Proof. exact decimal_roundtrip. Qed.
Theorem C06_decimal_same_number : forall v, 0 <= dec_coef v ->
  dec_neg (dec_reread v) = dec_neg v /\ dec_exp (dec_reread v) <= 0 /\
  (dec_exp v <= 0 -> dec_reread v = v) /\
  (0 < dec_exp v -> dec_coef (dec_reread v) = dec_coef v * 10 ^ dec_exp v /\ dec_exp (dec_reread v) = 0).
Proof. exact dec_reread_value. Qed.
Theorem C06_decimal_reject_literal : forall s, valid_xsd_decimal s = false -> parse_decimal s = Err ValueError.
Proof. exact decimal_reject_literal. Qed.
Example C06_decimal_examples :
  print_decimal (mkDec false 1 5) = Ok (L "100000") /\ print_decimal (mkDec true 1 (-10)) = Ok (L "-0.0000000001") /\
  print_decimal (mkDec false 12345 (-2)) = Ok (L "123.45") /\ parse_decimal (L "1E+5") = Err ValueError /\
  parse_decimal (L "NaN") = Err ValueError /\ parse_decimal (L " +.50 ") = Ok (mkDec false 50 (-2)).
Proof. vm_compute. repeat split. Qed.

(* ---- float, double.  Binary floating point is not modelled: F, repr and float() are parameters, and the two
   facts about CPython that the round trip needs are premises (the shape of repr(f), and float(repr(f)) == f with
   the exponent marker in upper case).  NaN, INF, -INF are covered by cases. *)
Theorem C06_float_roundtrip :
  forall (F : Type) (py_repr : F -> str) (py_float : str -> option F),
  (forall f, repr_form "e" (py_repr f)) ->
  (forall f, py_float (translate_float (py_repr f)) = Some f) ->
  forall v, parse_float F py_float (print_float F py_repr v) = Ok v /\ valid_xsd_float (print_float F py_repr v) = true.
Proof. exact float_roundtrip. Qed.
(* a literal outside the lexical space of xs:float/xs:double never reaches float(): ValueError *)
Theorem C06_float_reject_literal : forall s, valid_xsd_float s = false -> parse_float_class s = Err ValueError.
Proof. exact float_reject_literal. Qed.
Example C06_float_examples :
  parse_float_class (L "nan") = Err ValueError /\ parse_float_class (L "infinity") = Err ValueError /\
  parse_float_class (L "1_0.5") = Err ValueError /\ parse_float_class (L "NaN") = Ok 1 /\
  parse_float_class (L "-INF") = Ok 3 /\ parse_float_class (L " 1.5E-3 ") = Ok 0 /\
  repr_form "e" (L "-1.5e-07").
Proof.
  repeat split; try (vm_compute; reflexivity).
  exact (RF "e" true (L "1") (L ".5") (L "e-07") ltac:(discriminate) eq_refl
            (FF1 (L "5") ltac:(discriminate) eq_refl)
            (EF1 "e" (L "-") (L "07") (or_intror (or_intror eq_refl)) ltac:(discriminate) eq_refl)).
Qed.
