(* C06 (supplement) - a theorem about the PRE-REPAIR code only; kept in its own file because it is the one place
   that uses Coq's primitive floats and integers (Print Assumptions lists the primitives PrimFloat.* / PrimInt63.*;
   they are kernel primitives, not axioms of this development).  Only statements; closed by [exact]. *)
From Coq Require Import List ZArith String.
From Basyx Require Import model.XsdBase model.XsdOldUs proofs.XsdOldUsProofs.
Local Open Scope Z_scope.

(* ---- the finding behind _parse_xsd_microseconds: the PRE-REPAIR expression int(float(frac) * 1e6), evaluated
   bit-exactly on binary64 for all 10^6 six-digit fractions ([lost_count] sums over every digit tuple), returns
   another value than the microseconds written for exactly 11549 of them, e.g. '.001009' -> 1008.  The repaired
   code is covered by C06_microseconds above. *)
Theorem C06_old_us_expression : us_float (L "001009") = 1008 /\ lost_count = 11549.
Proof. exact (conj (proj1 old_expression_witness) lost_count_value). Qed.
