(* Property C02, typed values (AASd-020; value and value_type of Property, Qualifier, Extension, Range agree):
   theorems over the decision structure of datatypes.trivial_cast and the class table regenerated from the source on
   every run (gen/Gen_TypedValues.v, gen/Gen_IntRanges.v) and over the hand-written holder state machines
   (model/TypedValue.v, tied by differential runs).  Only statements; proofs in proofs/TypedValueProofs.v. *)
From Coq Require Import List ZArith Bool.
From Basyx Require Import model.ConstraintsBase model.TypedBase gen.Gen_IntRanges gen.Gen_TypedValues model.TypedValue
  gen.Gen_TypedSetters model.TypedItems proofs.TypedValueProofs.
Import ListNotations.

(* the source's class statements are the specified hierarchy; XSD_TYPE_NAMES names exactly the 31 data types *)
Theorem C02_tv_hierarchy : forall c, direct_base c = spec_base c.
Proof. exact hierarchy_as_specified. Qed.
Print Assumptions C02_tv_hierarchy.
Theorem C02_tv_xsd_types :
  forallb (fun t => existsb (pcls_beq t) xsd_types) spec_xsd_types = true /\
  forallb (fun t => existsb (pcls_beq t) spec_xsd_types) xsd_types = true /\
  length xsd_types = length spec_xsd_types.
Proof. exact xsd_types_as_specified. Qed.
Print Assumptions C02_tv_xsd_types.

(* accept => the result is a value of the announced type (instance of it, booleans only for xs:boolean, restriction of
   the derived type met), carries the same payload, and was converted only within its base kind *)
Theorem C02_tv_cast_sound : forall v t v', In t spec_xsd_types -> class_inv v = true ->
  trivial_cast v t = inl v' -> has_type v' t = true /\ same_payload v v' /\ conv_ok (vcls v) (vcls v').
Proof. exact tc_sound. Qed.
Print Assumptions C02_tv_cast_sound.

(* a value that already has the type is returned as it is *)
Theorem C02_tv_cast_identity : forall v t, In t spec_xsd_types -> has_type v t = true -> trivial_cast v t = inl v.
Proof. exact tc_identity. Qed.
Print Assumptions C02_tv_cast_identity.

(* accepted exactly when trivially castable in the sense of the documentation *)
Theorem C02_tv_cast_complete : forall v t, In t spec_xsd_types ->
  (exists v', trivial_cast v t = inl v') <-> spec_castable v t = true.
Proof. exact tc_complete. Qed.
Print Assumptions C02_tv_cast_complete.

(* reject => TypeError, or ValueError exactly when the kinds agree and the target's restriction is violated *)
Theorem C02_tv_cast_errors : forall v t e, In t spec_xsd_types -> trivial_cast v t = inr e ->
  (e = EType /\ same_ok (vcls v) t = false /\ kind_ok (vcls v) t = false) \/
  (e = EValue /\ kind_ok (vcls v) t = true /\ ctor_ok t v = false).
Proof. exact tc_errors. Qed.
Print Assumptions C02_tv_cast_errors.

(* what "value of the announced type" means for the restricted types, with the XSD bounds as literals *)
Theorem C02_tv_bounds : forall v t, has_type v t = true ->
  match t with
  | KLong => -9223372036854775808 <= vnum v <= 9223372036854775807
  | KInt => -2147483648 <= vnum v <= 2147483647
  | KShort => -32768 <= vnum v <= 32767
  | KByte => -128 <= vnum v <= 127
  | KNonPositiveInteger => vnum v <= 0
  | KNegativeInteger => vnum v < 0
  | KNonNegativeInteger => 0 <= vnum v
  | KPositiveInteger => 0 < vnum v
  | KUnsignedLong => 0 <= vnum v <= 18446744073709551615
  | KUnsignedInt => 0 <= vnum v <= 4294967295
  | KUnsignedShort => 0 <= vnum v <= 65535
  | KUnsignedByte => 0 <= vnum v <= 255
  | KNormalizedString => forall c, In c [13; 10; 9] -> ~ In c (vstr v)
  | KInteger | KDecimal | KDouble | KFloat => vcls v <> KBoolean
  | _ => True
  end%Z.
Proof. exact has_type_bounds. Qed.
Print Assumptions C02_tv_bounds.

(* Property / Qualifier / Extension: accept => well-formed; reject => unchanged + TypeError/ValueError; every history *)
Theorem C02_tv_holder_ctor : forall opt t v h,
  (match t with Some c => In c spec_xsd_types | None => True end) -> val_ok v ->
  hctor opt t v = (Some h, None) -> wf_holder h = true /\ htype_ok h.
Proof. exact hctor_wf. Qed.
Print Assumptions C02_tv_holder_ctor.
Theorem C02_tv_holder_accept_wf : forall h p h', htype_ok h -> hop_ok p -> wf_holder h = true ->
  hstep h p = (h', None) -> wf_holder h' = true /\ htype_ok h' /\ hopt h' = hopt h.
Proof. exact hstep_accept. Qed.
Print Assumptions C02_tv_holder_accept_wf.
Theorem C02_tv_holder_reject_unchanged : forall h p h' e, htype_ok h -> hop_ok p -> hstep h p = (h', Some e) ->
  h' = h /\ (e = EValue \/ e = EType).
Proof. exact hstep_reject. Qed.
Print Assumptions C02_tv_holder_reject_unchanged.
Theorem C02_tv_holder_history : forall ops h, htype_ok h -> Forall hop_ok ops -> wf_holder h = true ->
  wf_holder (hrun h ops) = true.
Proof. exact hrun_wf. Qed.
Print Assumptions C02_tv_holder_history.

(* Range: min and max are re-cast together or not at all *)
Theorem C02_tv_range_ctor : forall t mn mx r, In t spec_xsd_types -> val_ok mn -> val_ok mx ->
  rctor t mn mx = (Some r, None) -> wf_range r = true /\ rtype r = t.
Proof. exact rctor_wf. Qed.
Print Assumptions C02_tv_range_ctor.
Theorem C02_tv_range_accept_wf : forall r p r', In (rtype r) spec_xsd_types -> rop_ok p -> wf_range r = true ->
  rstep r p = (r', None) -> wf_range r' = true /\ In (rtype r') spec_xsd_types.
Proof. exact rstep_accept. Qed.
Print Assumptions C02_tv_range_accept_wf.
Theorem C02_tv_range_reject_unchanged : forall r p r' e, rstep r p = (r', Some e) -> r' = r.
Proof. exact rstep_reject. Qed.
Print Assumptions C02_tv_range_reject_unchanged.
Theorem C02_tv_range_history : forall ops r, In (rtype r) spec_xsd_types -> Forall rop_ok ops -> wf_range r = true ->
  wf_range (rrun r ops) = true.
Proof. exact rrun_wf. Qed.
Print Assumptions C02_tv_range_history.

(* the setters as translated from submodel.py / base.py on every run ARE the steps of the state machines above *)
Theorem C02_tv_setters_property : forall h, hopt h = false ->
  (forall v, hstep h (HSetValue v) = holder_of h (set_Property_value (htype h) (hval h) None v)) /\
  (forall t, hstep h (HSetType t) = holder_of h (set_Property_value_type (htype h) (hval h) None false t)) /\
  (forall v, hstep h (HSetValue v) = holder_of h (set_Qualifier_value (htype h) (hval h) None v)) /\
  (forall t, hstep h (HSetType t) = holder_of h (set_Qualifier_value_type (htype h) (hval h) None false t)).
Proof.
  intros h Ho. repeat split; intros;
    first [exact (gen_property_value h _ Ho) | exact (gen_property_value_type h _ Ho)].
Qed.
Print Assumptions C02_tv_setters_property.
Theorem C02_tv_setters_extension : forall h, hopt h = true ->
  (forall v, hstep h (HSetValue v) = holder_of h (set_Extension_value (htype h) (hval h) None v)) /\
  (forall t, hstep h (HSetType t) = holder_of h (set_Extension_value_type (htype h) (hval h) None false t)).
Proof. intros h Ho. split; intros; [exact (gen_extension_value h _ Ho) | exact (gen_extension_value_type h _ Ho)]. Qed.
Print Assumptions C02_tv_setters_extension.
Theorem C02_tv_setters_range : forall r,
  (forall v, range_of r (set_Range_min (Some (rtype r)) (rmin r) (rmax r) v) = Some (rstep r (RSetMin v))) /\
  (forall v, range_of r (set_Range_max (Some (rtype r)) (rmin r) (rmax r) v) = Some (rstep r (RSetMax v))) /\
  (forall t, range_of r (set_Range_value_type (Some (rtype r)) (rmin r) (rmax r) false (Some t)) = Some (rstep r (RSetType t))).
Proof. intros r. repeat split; intros; [apply gen_range_min | apply gen_range_max | apply gen_range_value_type]. Qed.
Print Assumptions C02_tv_setters_range.

(* AASd-109 under assignment to value_type: an item of a SubmodelElementList of Properties / Ranges announcing vtle can only
   be "re-typed" to vtle itself; any other type is refused with AASd-109 (an inr result leaves the fields as they were) *)
Theorem C02_tv_list_item_retype : forall vtle ty a b t,
  (forall ty' a' b', retype_property_item vtle ty a t = inl (ty', a', b') -> ty' = Some vtle) /\
  (forall ty' a' b', retype_range_item vtle ty a b t = inl (ty', a', b') -> ty' = Some vtle) /\
  (t <> vtle -> retype_property_item vtle ty a t = inr (EAASd 109) /\ retype_range_item vtle ty a b t = inr (EAASd 109)).
Proof.
  intros vtle ty a b t. split; [|split].
  - intros ty' a' b'. exact (proj1 (retype_item_keeps_109 vtle ty a b t ty' a' b')).
  - intros ty' a' b'. exact (proj2 (retype_item_keeps_109 vtle ty a b t ty' a' b')).
  - exact (retype_item_refused_unchanged vtle ty a b t).
Qed.
Print Assumptions C02_tv_list_item_retype.

Theorem C02_tv_example :
  class_inv ex_v = true /\
  snd (hstep ex_h (HSetValue (Some ex_v))) = None /\ wf_holder ex_h1 = true /\
  option_map vcls (hval ex_h1) = Some KUnsignedByte /\
  hstep ex_h1 (HSetType (Some KByte)) = (ex_h1, Some EValue) /\
  snd (hstep ex_h1 (HSetType (Some KShort))) = None /\ wf_holder ex_h2 = true /\
  option_map vcls (hval ex_h2) = Some KShort /\
  trivial_cast {| vcls := KBoolean; vnum := 1; vstr := []; vtok := 0 |} KInteger = inr EType.
Proof. exact tv_example. Qed.
Print Assumptions C02_tv_example.
