(* C04 - XML serialization round-trips every model without loss.
   Only statements here; every theorem is closed by [exact <lemma>] (Examples by computation).

   enc_obj / dec_obj (model/XmlCodec.v) interpret the writer / reader rule tables that
   tools/py2coq/xmlrules.py regenerates from xml_serialization.py / xml_deserialization.py / _generic.py on
   every run (gen/Gen_XmlWriter.v, gen/Gen_XmlReader.v); xml_meta (model/XmlMeta.v) is the metamodel
   attribute table; [wfb M n v] says v is a metamodel-conformant object of nesting depth < n. *)
From Coq Require Import List Bool String.
From Basyx Require Import model.XmlCodec model.XmlCompat model.XmlMeta gen.Gen_XmlWriter gen.Gen_XmlReader
  model.XmlEntry proofs.XmlCodecProofs proofs.XmlGenProofs.
Import ListNotations.
Local Open Scope string_scope.

(* Generic law, proved once: for ALL rule tables W, R that are compatible with a metamodel table M on a
   closed set of (writer function, class, constructor) triples, and for every truthiness oracle fl of typed
   leaves: every well-formed value of every such class, at every depth, is written without error or fuel
   exhaustion to an element carrying the requested tag, and the reader returns exactly that value
   (absent vs. present-but-falsy, empty strings of typed values, order of every collection included). *)
Theorem C04_codec_roundtrip : forall M W R pairs fl, compat M W R pairs = true ->
  forall n fn c ctor v tag,
  tmem (fn, c, ctor) pairs = true -> cls_of v = c -> wfb M n v = true ->
  exists x, enc_obj fl W n fn tag v = Ok x /\ xtag x = tag /\ dec_obj R M n ctor x = Ok v.
Proof. exact roundtrip. Qed.

(* The tables generated from the current source are compatible with the metamodel table on every triple
   reachable from the three top-level lists and from the single-object API (whole-table computation). *)
Theorem C04_xml_compat : compat xml_meta gen_xml_w gen_xml_r xml_pairs = true.
Proof. exact gen_compat. Qed.

Theorem C04_xml_pairs_closed :
  closure xml_meta gen_xml_w gen_xml_r 17 xml_roots = xml_pairs /\
  forallb (fun t => tmem t xml_pairs) xml_roots = true.
Proof. exact (conj gen_closed gen_roots_in). Qed.

(* Hence: the current XML adapter round-trips every metamodel-conformant object. *)
Theorem C04_xml : forall fl n fn c ctor v tag,
  tmem (fn, c, ctor) xml_pairs = true -> cls_of v = c -> wfb xml_meta n v = true ->
  exists x, enc_obj fl gen_xml_w n fn tag v = Ok x /\ xtag x = tag /\ dec_obj gen_xml_r xml_meta n ctor x = Ok v.
Proof. exact gen_roundtrip. Qed.

(* The environment's three lists: writer and reader agree on list tags (item tag + "s"), item tags,
   classes; and their (function, class, constructor) triples are among the compatible ones. *)
Theorem C04_top_lists : xml_tops_ok = true.
Proof. exact gen_tops_ok. Qed.

(* Whole documents: writing any list of well-formed identifiables (object_store_to_xml_element) and reading the
   document back in strict mode (read_aas_xml_file_into) succeeds whenever the ids are unique, and returns
   exactly the objects written, grouped by top-level list in the writer's order (read_back). *)
Theorem C04_xml_store : forall fl n objs seen,
  (forall v, In v objs -> wfb xml_meta n v = true) ->
  add_all [] (read_back xml_tops objs) = Ok seen ->
  exists x, write_store fl gen_xml_w xml_tops n objs = Ok x /\
            read_store gen_xml_r xml_meta xml_tops n x = Ok (read_back xml_tops objs).
Proof. exact gen_store_roundtrip. Qed.

(* Single-object API (object_to_xml_element / read_aas_xml_element).  [single_triples] pairs every member of
   XMLConstructables with every class the single-object writer serialises and that member's constructor (or
   dispatch target) builds.  Every such pair round-trips; the only members without a writer counterpart are the
   two that the reader cannot construct either; and every class the writer accepts (all 34 model classes incl.
   the five lang string sets, and value lists) is serialised without raising and has a constructable. *)
Theorem C04_single_roundtrip : forall fl n m fn c ctor v tag,
  In (m, (fn, c, ctor)) single_triples -> cls_of v = c -> wfb xml_meta n v = true ->
  exists x, enc_obj fl gen_xml_w n fn tag v = Ok x /\ xtag x = tag /\ dec_obj gen_xml_r xml_meta n ctor x = Ok v.
Proof. exact gen_single_roundtrip. Qed.

Theorem C04_single_members : single_unsupported = ["SECURITY"; "IEC61360_CONCEPT_DESCRIPTION"].
Proof. exact gen_single_unsupported. Qed.

Theorem C04_single_classes :
  forallb (fun cw : string * (string * string * bool) =>
             match cw with (c, (_, _, raises)) =>
               negb raises && existsb (fun mt : string * triple => match snd mt with (_, c', _) => String.eqb c' c end)
                                      single_triples end) xml_w_single = true.
Proof. exact gen_single_classes. Qed.

(* The predicate is discriminating: the rows repaired on the pinned tree are rejected. *)
Example C04_truthy_on_typed_value_rejected :
  cond_ok xml_meta (KXsd "value_type") WTruthy VNone = false /\
  cond_ok xml_meta KBytes WAlways VNone = false.
Proof. split; reflexivity. Qed.

(* Non-vacuity: a submodel with a property whose value is the falsy "0", a qualifier with value "false",
   an empty blob, an extension with the empty string, nested two levels deep. *)
Definition ex_ref := VObj "ExternalReference" [("key", VList [VObj "Key" [("type", VEnum "GLOBAL_REFERENCE"); ("value", VStr " a ")]]);
                                               ("referred_semantic_id", VNone)].
Definition ex_sme (rest : list (string * value)) (q e : list value) : list (string * value) :=
  [("extension", VList e); ("category", VNone); ("id_short", VStr "p"); ("display_name", VNone); ("description", VNone);
   ("semantic_id", ex_ref); ("supplemental_semantic_id", VList []); ("qualifier", VList q);
   ("embedded_data_specifications", VList [])] ++ rest.
Definition ex_qual := VObj "Qualifier" [("semantic_id", VNone); ("supplemental_semantic_id", VList []);
   ("kind", VEnum "VALUE_QUALIFIER"); ("type", VStr "t"); ("value_type", VEnum "Boolean");
   ("value", VLeaf "Boolean" "false"); ("value_id", VNone)].
Definition ex_ext := VObj "Extension" [("semantic_id", VNone); ("supplemental_semantic_id", VList []);
   ("name", VStr "e"); ("value_type", VEnum "String"); ("value", VLeaf "String" ""); ("refers_to", VList [])].
Definition ex_prop := VObj "Property" (ex_sme [("value_type", VEnum "Int"); ("value", VLeaf "Int" "0"); ("value_id", VNone)]
                                              [ex_qual] [ex_ext]).
Definition ex_blob := VObj "Blob" (ex_sme [("value", VBytes ""); ("content_type", VStr "a/b")] [] []).
Definition ex_smc := VObj "SubmodelElementCollection" (ex_sme [("value", VList [ex_prop; ex_blob])] [] []).
Definition ex_submodel := VObj "Submodel"
  [("extension", VList []); ("category", VNone); ("id_short", VNone); ("display_name", VNone); ("description", VNone);
   ("administration", VNone); ("id", VStr "urn:x"); ("kind", VEnum "TEMPLATE");
   ("semantic_id", VNone); ("supplemental_semantic_id", VList []); ("qualifier", VList []);
   ("embedded_data_specifications", VList []); ("submodel_element", VList [ex_smc])].
Definition ex_falsy (ty lit : string) : bool := orb (String.eqb lit "0") (orb (String.eqb lit "false") (String.eqb lit "")).

Example C04_example :
  wfb xml_meta 8 ex_submodel = true /\
  tmem ("submodel_to_xml", "Submodel", "construct_submodel") xml_pairs = true /\
  match enc_obj ex_falsy gen_xml_w 8 "submodel_to_xml" "submodel" ex_submodel with
  | Ok x => dec_obj gen_xml_r xml_meta 8 "construct_submodel" x = Ok ex_submodel
  | _ => False end.
Proof. vm_compute. repeat split; reflexivity. Qed.

Example C04_store_example :
  match write_store ex_falsy gen_xml_w xml_tops 8 [ex_submodel] with
  | Ok x => read_store gen_xml_r xml_meta xml_tops 8 x = Ok [ex_submodel]
  | _ => False end.
Proof. vm_compute. reflexivity. Qed.
