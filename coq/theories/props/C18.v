(* C18 - Stripped (core-level) rendering removes exactly the detachable parts.  Statements only. *)
From Coq Require Import List String.
From Basyx Require Import model.Codec model.CodecSpec model.Strip proofs.CodecProofs proofs.StripProofs
     gen.Gen_JsonRules gen.Gen_XmlReader.
Import ListNotations.
Local Open Scope string_scope.

(* --- the detachable parts, written out from the property text (specification side) --- *)
Definition qualifiable := ["Submodel"; "Property"; "MultiLanguageProperty"; "Range"; "Blob"; "File";
  "ReferenceElement"; "SubmodelElementCollection"; "SubmodelElementList"; "RelationshipElement";
  "AnnotatedRelationshipElement"; "Operation"; "Capability"; "Entity"; "BasicEventElement"].
Definition has_extension := "AssetAdministrationShell" :: "ConceptDescription" :: qualifiable.
Definition has_data_specification := "AdministrativeInformation" :: has_extension.
Definition detachable_members : list (string * string) :=
  map (fun c => (c, "qualifiers")) qualifiable ++
  map (fun c => (c, "extensions")) has_extension ++
  map (fun c => (c, "embeddedDataSpecifications")) has_data_specification ++
  [("Submodel", "submodelElements"); ("SubmodelElementCollection", "value"); ("SubmodelElementList", "value");
   ("Entity", "statements"); ("AnnotatedRelationshipElement", "annotations");
   ("AssetAdministrationShell", "submodels")].
Definition detachable_attrs : list (string * string) :=
  map (fun c => (c, "qualifier")) qualifiable ++
  map (fun c => (c, "extension")) has_extension ++
  map (fun c => (c, "embedded_data_specifications")) has_data_specification ++
  [("Submodel", "submodel_element"); ("SubmodelElementCollection", "value"); ("SubmodelElementList", "value");
   ("Entity", "statement"); ("AnnotatedRelationshipElement", "annotation");
   ("AssetAdministrationShell", "submodel")].

(* 1. The JSON writer guards exactly those members, the JSON reader exactly those attributes, and the XML reader
      exactly the same (constructor, attribute) pairs - so writer and both readers agree on what stripped means. *)
Theorem C18_writer_guards : same_set (writer_guards json_tables) detachable_members = true.
Proof. vm_compute. reflexivity. Qed.
Theorem C18_json_reader_guards : same_set (reader_guard_attrs json_tables) detachable_attrs = true.
Proof. vm_compute. reflexivity. Qed.
Theorem C18_xml_reader_guards :
  same_set (flat_map (fun p => match sfind (fst p) json_reader_ctors with
                               | Some ctor => [(ctor, snd p)] | None => [] end) detachable_attrs)
           xml_reader_stripped_guards = true.
Proof. vm_compute. reflexivity. Qed.

(* 2. Writer, for any rule tables whose guarded rules are emptiness-conditioned: the stripped rendering of any
      value (any class, any depth) is the full rendering of the value with every detachable attribute emptied -
      i.e. the full rendering minus exactly the detachable members, every other attribute unchanged. *)
Theorem C18_writer_generic : forall (T : tables) (lt : string -> bool),
  guards_ok T = true -> forall v, enc_auto T lt true v = enc_auto T lt false (strip_w T v).
Proof. exact enc_stripped_is_strip. Qed.
Theorem C18_json_guards_ok : guards_ok json_tables = true.
Proof. vm_compute. reflexivity. Qed.
Theorem C18_json_writer : forall lt v,
  enc_auto json_tables lt true v = enc_auto json_tables lt false (strip_w json_tables v).
Proof. intros lt v. exact (enc_stripped_is_strip json_tables lt C18_json_guards_ok v). Qed.

(* 3. Reader: for ANY document (full, stripped, or neither) that the full reader accepts, the stripped reader
      yields the same object with exactly the guarded attributes left absent, at every depth. *)
Theorem C18_reader_generic : forall (T : tables) (M : meta),
  defaults_scalar T = true -> meta_nodup M = true ->
  forall j d v, dec T M false d j = Some v -> dec T M true d j = Some (strip_r T M v).
Proof. intros T M H1 H2 j. exact (dec_stripped_is_strip T M H1 H2 j). Qed.
Theorem C18_json_side_conditions : defaults_scalar json_tables = true /\ meta_nodup json_meta = true.
Proof. vm_compute. split; reflexivity. Qed.
Theorem C18_json_reader : forall j d v,
  dec json_tables json_meta false d j = Some v ->
  dec json_tables json_meta true d j = Some (strip_r json_tables json_meta v).
Proof.
  intros j. exact (dec_stripped_is_strip json_tables json_meta (proj1 C18_json_side_conditions)
                                         (proj2 C18_json_side_conditions) j).
Qed.

(* Non-vacuity: a collection inside a submodel, qualifiers at two depths. *)
Example C18_example :
  let q := VObj "Qualifier" [("semantic_id", VNone); ("supplemental_semantic_id", VList []); ("type", VStr "t");
                             ("value_type", VStr "Int"); ("value", VNone); ("value_id", VNone);
                             ("kind", VStr "CONCEPT_QUALIFIER")] in
  let cap := VObj "Capability" [("id_short", VStr "c"); ("display_name", VNone); ("category", VNone);
      ("description", VNone); ("extension", VList []); ("embedded_data_specifications", VList []);
      ("semantic_id", VNone); ("supplemental_semantic_id", VList []); ("qualifier", VList [q])] in
  let smc := VObj "SubmodelElementCollection" [("id_short", VStr "s"); ("display_name", VNone); ("category", VNone);
      ("description", VNone); ("extension", VList []); ("embedded_data_specifications", VList []);
      ("semantic_id", VNone); ("supplemental_semantic_id", VList []); ("qualifier", VList [q]);
      ("value", VList [cap])] in
  enc_auto json_tables (fun _ => true) true smc =
  DObj [("modelType", DStr "SubmodelElementCollection"); ("idShort", DStr "s")].
Proof. vm_compute. reflexivity. Qed.
