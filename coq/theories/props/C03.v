(* C03 - JSON serialization round-trips every model without loss.
   Statements only.  [json_tables] / [json_meta] are regenerated from the JSON adapter of the current working tree
   (gen/Gen_JsonRules.v), so these theorems are re-checked against what the code says now. *)
From Coq Require Import List String.
From Basyx Require Import model.Codec model.CodecSpec proofs.CodecProofs gen.Gen_JsonRules.
Import ListNotations.
Local Open Scope string_scope.

(* Generic: whenever the writer rules, the reader rules and the metamodel attribute table are compatible, the
   interpreted reader inverts the interpreted writer on every well-formed value - any class, any nesting depth, any
   width, absent vs present-but-falsy, ordered lists, sets in canonical order.  [lt] (Python truthiness of typed
   literals) is arbitrary. *)
Theorem C03_codec_roundtrip :
  forall (T : tables) (M : meta) (lt : string -> bool),
    compat T M = true ->
    forall v b e d,
      wfb M b v = true -> deps_ok T v = true -> codec_compat T b e d = true ->
      dec T M false d (enc_with (enc_auto T lt false) e v) = Some v.
Proof. exact roundtrip. Qed.

(* The tables extracted from the current JSON adapter are compatible with the metamodel attribute table:
   a finite check over every class and every attribute. *)
Theorem C03_json_compat : compat json_tables json_meta = true.
Proof. vm_compute. reflexivity. Qed.

(* Hence: every identifiable (and every other metamodel object) written by the JSON encoder is read back equal
   by the strict JSON decoder. *)
Theorem C03_json_roundtrip :
  forall (lt : string -> bool) (cls : string) (v : value),
    wfb json_meta (BObj [cls]) v = true -> deps_ok json_tables v = true ->
    dec json_tables json_meta false (DcObj cls) (enc_auto json_tables lt false v) = Some v.
Proof.
  intros lt cls v Hwf Hdeps.
  exact (roundtrip json_tables json_meta lt C03_json_compat v (BObj [cls]) EAuto (DcObj cls) Hwf Hdeps
                   (String.eqb_refl cls)).
Qed.

(* enum tables of _generic.py / datatypes.py are one-to-one on the members the metamodel uses: part of compat,
   restated because C05 and C06 refer to it *)
Theorem C03_no_incompatible_rows : incompatible_rows json_tables json_meta = [].
Proof. vm_compute. reflexivity. Qed.

(* Non-vacuity: a nested value with falsy-but-present leaves meets the hypotheses. *)
Example C03_example :
  let q := VObj "Qualifier" [("semantic_id", VNone); ("supplemental_semantic_id", VList []);
                             ("type", VStr "t"); ("value_type", VStr "Int"); ("value", VLeaf "0");
                             ("value_id", VNone); ("kind", VStr "CONCEPT_QUALIFIER")] in
  wfb json_meta (BObj ["Qualifier"]) q = true /\ deps_ok json_tables q = true /\
  dec json_tables json_meta false (DcObj "Qualifier") (enc_auto json_tables (fun _ => false) false q) = Some q.
Proof. vm_compute. repeat split; reflexivity. Qed.

(* Store level: writing a store (three top-level lists, empty ones omitted) and reading the document back in strict
   mode into an empty store yields exactly the same identifiables (grouped by kind), when ids are unique. *)
From Basyx Require Import model.JsonStore proofs.JsonStoreProofs.
Theorem C03_identifiables_dispatch : dispatch_ok json_tables "modelType" identifiable_classes = true.
Proof. vm_compute. reflexivity. Qed.

Theorem C03_store_roundtrip :
  forall (lt : string -> bool) (objs : list value),
    Forall (good json_tables json_meta) objs -> NoDup (ids objs) ->
    read_store json_tables json_meta (write_store json_tables lt objs) =
    inl (part "AssetAdministrationShell" objs ++ part "Submodel" objs ++ part "ConceptDescription" objs)%list.
Proof.
  intros lt objs. exact (store_roundtrip json_tables json_meta lt C03_json_compat C03_identifiables_dispatch objs).
Qed.
