(* C16 - CouchDB store is a revision-guarded map: no lost update, no phantom object.
   Only statements here; every theorem is closed by [exact <lemma>].
   The theorems are about the protocol model model/Couch.v: the client follows couchdb.py, the server
   follows CouchDB's documented MVCC rules (the specification assumed; a real server is not exercised). *)
From Coq Require Import List String Arith Bool.
From Basyx Require Import model.Files model.Couch proofs.CouchProofs.
Import ListNotations.
Local Open Scope string_scope.

(* Map refinement (no second actor, no faults): after every well-formed history from the empty
   database the invariant holds (recorded revisions = current revisions of the live documents, sources
   point to the objects' own documents, one cached replica per id) and every call answers and changes
   the id -> payload map exactly as step_spec prescribes: add of a stored id -> KeyError, lookup of a
   missing id -> KeyError, lookup/update() deliver the stored payload, commit stores the replica's payload,
   discard removes exactly that id, membership/len/iteration enumerate the map (each id once). *)
Theorem C16_refines : forall c pool h o,
  Forall (fun p => legal (fst p) = true) pool -> wf_run c (init pool) (h ++ [o]) ->
  let w := run_ops c (init pool) h in
  Inv c w /\ step_spec c w o (step c None w o).
Proof. exact history_refines. Qed.

(* update() / commit() called on an element nested in a stored Identifiable (a Property of a Submodel) reach
   the backend as update_object / commit_object of that Identifiable: one request, the whole replica is
   refreshed / written.  In the model they ARE those calls, so every theorem about Update / Commit below (no
   lost update, fresh commit visible, faults) holds for them as well, and step_spec specifies them as such. *)
Theorem C16_child_calls : forall c f w x,
  step c f w (UpdateChild x) = step c f w (Update x) /\ step c f w (CommitChild x) = step c f w (Commit x).
Proof. intros c f w x. exact (conj eq_refl eq_refl). Qed.

(* No lost update: in ANY state (whatever a second actor did to the server), a commit from a replica
   whose recorded revision is not the document's current one (or whose document is gone) raises
   CouchDBConflictError and changes nothing - neither the server nor the client. *)
Theorem C16_no_lost_update : forall c w x ce i r,
  nth_error (heap (w_cl w)) x = Some ce -> c_src ce = generate_source c i -> legal i = true ->
  sassoc (doc_url c i) (revs (w_cl w)) = Some r ->
  (forall d, sget (w_sv w) i = Some d -> d_rev d <> r) ->
  step c None w (Commit x) = (w, OErr XConflict, 1).
Proof. exact commit_stale. Qed.

(* A commit from an up-to-date replica is accepted, leaves all other documents alone, and is what every
   later reader gets, whatever that reader's client state. *)
Theorem C16_fresh_commit_visible : forall c w x ce i r v0,
  nth_error (heap (w_cl w)) x = Some ce -> c_src ce = generate_source c i -> legal i = true ->
  sassoc (doc_url c i) (revs (w_cl w)) = Some r ->
  sget (w_sv w) i = Some (mkDoc r (Some v0)) ->
  let w1 := world_of (step c None w (Commit x)) in
  outcome_of (step c None w (Commit x)) = ODone /\
  (forall j, j <> i -> sget (w_sv w1) j = sget (w_sv w) j) /\
  forall cl2, exists y cl' ce',
    step c None (mkWorld (w_sv w1) cl2) (GetId i) = (mkWorld (w_sv w1) cl', OCell y, 1) /\
    nth_error (heap cl') y = Some ce' /\ c_id ce' = i /\ c_val ce' = c_val ce.
Proof. exact fresh_commit_visible. Qed.

(* Safe delete in ANY state: without a recorded revision -> conflict error without a request; with a
   stale one -> conflict error (KeyError if the document is already gone), nothing changes; with the
   current one -> the document is deleted. *)
Theorem C16_safe_delete : forall c w x ce i,
  nth_error (heap (w_cl w)) x = Some ce -> c_id ce = i -> legal i = true ->
  match sassoc (doc_url c i) (revs (w_cl w)) with
  | None => step c None w (Discard x true) = (w, OErr XConflict, 0)
  | Some r =>
    match live (w_sv w) i with
    | None => step c None w (Discard x true) = (w, OErr XKey, 1)
    | Some (r', _) =>
      if Nat.eqb r r'
      then world_of (step c None w (Discard x true))
           = mkWorld (aset i (mkDoc (S r') None) (w_sv w))
                     (mkClient (upd_cell (heap (w_cl w)) x (set_src "")) (sremove (doc_url c i) (revs (w_cl w)))
                               (sremove i (cache (w_cl w))))
           /\ outcome_of (step c None w (Discard x true)) = ODone
      else step c None w (Discard x true) = (w, OErr XConflict, 1)
    end
  end.
Proof. exact safe_delete_spec. Qed.
(* A discard forgets the revision of ITS document only: what the client has recorded for any other document -
   also one whose identifier or URL merely starts with the discarded one's - is untouched (sremove is the
   revision-store update in C16_safe_delete above and in the plain discard). *)
Theorem C16_discard_keeps_other_revisions : forall c (rv : list (string * rev)) i j, i <> j ->
  sassoc (doc_url c j) (sremove (doc_url c i) rv) = sassoc (doc_url c j) rv.
Proof. exact discard_keeps_other_revisions. Qed.

Theorem C16_safe_delete_gone : forall c w x ce i r v,
  nth_error (heap (w_cl w)) x = Some ce -> c_id ce = i -> legal i = true ->
  sassoc (doc_url c i) (revs (w_cl w)) = Some r -> live (w_sv w) i = Some (r, v) ->
  let w1 := world_of (step c None w (Discard x true)) in
  outcome_of (step c None w (Discard x true)) = ODone /\
  (forall j, j <> i -> sget (w_sv w1) j = sget (w_sv w) j) /\
  forall cl2, step c None (mkWorld (w_sv w1) cl2) (GetId i) = (mkWorld (w_sv w1) cl2, OErr XKey, 1).
Proof. exact safe_delete_gone. Qed.

(* Lookups in ANY state reflect the server: a live document is returned with its payload and its
   revision is recorded; a missing or deleted one is a KeyError - no phantom object. *)
Theorem C16_lookup_live : forall c sv cl i r v, legal i = true -> live sv i = Some (r, v) ->
  exists y cl' ce', step c None (mkWorld sv cl) (GetId i) = (mkWorld sv cl', OCell y, 1) /\
    nth_error (heap cl') y = Some ce' /\ c_id ce' = i /\ c_val ce' = v /\
    sassoc (doc_url c i) (revs cl') = Some r.
Proof. exact get_live. Qed.
Theorem C16_lookup_missing : forall c sv cl i, legal i = true -> live sv i = None ->
  step c None (mkWorld sv cl) (GetId i) = (mkWorld sv cl, OErr XKey, 1).
Proof. exact get_missing. Qed.

(* ... and so do membership and len, in ANY state. *)
Theorem C16_membership : forall c w i, legal i = true ->
  step c None w (ContainsId i) = (w, OBool (match absmap w i with Some _ => true | None => false end), 1).
Proof. exact contains_ok. Qed.
Theorem C16_len : forall c w, step c None w Len = (w, ONat (List.length (live_ids (w_sv w))), 1).
Proof. exact len_ok. Qed.

(* Faults: if any request of any operation, in any state, is answered with a non-2xx status and a
   CouchDB error document, with a 200 whose body is not JSON, or not at all, then the server state is
   unchanged and the operation ends in CouchDBConnectionError / CouchDBResponseError / CouchDBServerError /
   CouchDBConflictError - never in success - or in KeyError, but that only where the server said so
   (`documented`: a 404; a 409 answering add's PUT; a HEAD answer without revision in a plain discard).  The only non-error outcomes are those
   of `in`: a 404 is (indistinguishably) "not contained", and a HEAD reply has no body that could be
   non-JSON. *)
Theorem C16_fault_total : forall c w o k ft, fault_ok ft ->
  let r := step c (Some (k, ft)) w o in
  k < sent_of r ->
  w_sv (world_of r) = w_sv w /\ faulted_outcome o ft (outcome_of r).
Proof. exact fault_total. Qed.

(* The answer to a revision-guarded write is lost on the wire after the server has processed the request
   (fault FLost, excluded from C16_fault_total by fault_ok): add / commit / safe delete end in the transport
   error class - not in KeyError, not in a conflict error, not in success -, the server is in the state the
   processed request produced, and the client's view (objects, recorded revisions, cache) is untouched. *)
Theorem C16_lost_answer_add : forall c w x ce t, nth_error (heap (w_cl w)) x = Some ce ->
  step c (Some (0, FLost t)) w (Add x)
  = (mkWorld (fst (serve c (w_sv w) (mkReq PUT (doc_url c (c_id ce)) None (Some (c_val ce))))) (w_cl w),
     OErr (transport_exn t), 1).
Proof. exact lost_add. Qed.
Theorem C16_lost_answer_commit : forall c w x ce url r t, nth_error (heap (w_cl w)) x = Some ce ->
  String.eqb (c_src ce) "" = false -> parse_source (c_src ce) = Some url -> sassoc url (revs (w_cl w)) = Some r ->
  step c (Some (0, FLost t)) w (Commit x)
  = (mkWorld (fst (serve c (w_sv w) (mkReq PUT url (Some r) (Some (c_val ce))))) (w_cl w),
     OErr (transport_exn t), 1).
Proof. exact lost_commit. Qed.
Theorem C16_lost_answer_safe_delete : forall c w x ce r t, nth_error (heap (w_cl w)) x = Some ce ->
  sassoc (doc_url c (c_id ce)) (revs (w_cl w)) = Some r ->
  step c (Some (0, FLost t)) w (Discard x true)
  = (mkWorld (fst (serve c (w_sv w) (mkReq DELETE (doc_url c (c_id ce)) (Some r) None))) (w_cl w),
     OErr (transport_exn t), 1).
Proof. exact lost_safe_delete. Qed.

(* The same through the module's connection pool (Retry(3, allowed_methods = GET, HEAD)): the lost answer to a
   write is not followed by a repetition of the write - transport error, server as the processed request left it,
   client untouched -, the lost answer to a lookup is followed by a repetition, which is an undisturbed lookup. *)
Theorem C16_lost_answer_pool_add : forall c w x ce, nth_error (heap (w_cl w)) x = Some ce ->
  step c (Some (0, FLostPool)) w (Add x)
  = (mkWorld (fst (serve c (w_sv w) (mkReq PUT (doc_url c (c_id ce)) None (Some (c_val ce))))) (w_cl w), OErr XConn, 1).
Proof. exact lostpool_add. Qed.
Theorem C16_lost_answer_pool_commit : forall c w x ce url r, nth_error (heap (w_cl w)) x = Some ce ->
  String.eqb (c_src ce) "" = false -> parse_source (c_src ce) = Some url -> sassoc url (revs (w_cl w)) = Some r ->
  step c (Some (0, FLostPool)) w (Commit x)
  = (mkWorld (fst (serve c (w_sv w) (mkReq PUT url (Some r) (Some (c_val ce))))) (w_cl w), OErr XConn, 1).
Proof. exact lostpool_commit. Qed.
Theorem C16_lost_answer_pool_safe_delete : forall c w x ce r, nth_error (heap (w_cl w)) x = Some ce ->
  sassoc (doc_url c (c_id ce)) (revs (w_cl w)) = Some r ->
  step c (Some (0, FLostPool)) w (Discard x true)
  = (mkWorld (fst (serve c (w_sv w) (mkReq DELETE (doc_url c (c_id ce)) (Some r) None))) (w_cl w), OErr XConn, 1).
Proof. exact lostpool_safe_delete. Qed.
Theorem C16_lost_answer_pool_lookup : forall c w i,
  step c (Some (0, FLostPool)) w (GetId i) = step c None w (GetId i).
Proof. exact lostpool_get. Qed.

(* Identifiers of any shape: quoting is injective (the server's decoding inverts it), the document URL
   recovered from an object's `source` by commit/update is the very string used as revision-store key
   and request URL by add/get/discard/contains, and the server routes it to the document named by the
   identifier - for every identifier that is non-empty and does not start with an underscore. *)
Theorem C16_unquote_quote : forall s, unquote (quote s) = s.
Proof. exact unquote_quote. Qed.
Theorem C16_quote_inj : forall a b, quote a = quote b -> a = b.
Proof. exact quote_inj. Qed.
(* the document name actually used (_transform_id: quote, with "." and ".." percent-encoded) *)
Theorem C16_unquote_transform : forall s, unquote (transform_id s) = s.
Proof. exact unquote_transform. Qed.
Theorem C16_transform_inj : forall a b, transform_id a = transform_id b -> a = b.
Proof. exact transform_inj. Qed.
Theorem C16_doc_url_inj : forall c i j, doc_url c i = doc_url c j -> i = j.
Proof. exact doc_url_inj. Qed.
Theorem C16_key_agreement : forall c i, parse_source (generate_source c i) = Some (doc_url c i).
Proof. exact source_roundtrip. Qed.
Theorem C16_routing : forall c i, legal i = true -> url_target c (doc_url c i) = TDoc (transform_id i).
Proof. exact route_doc. Qed.

(* ... and the excluded class is real: an identifier starting with an underscore cannot be stored
   (CouchDB reserves these document ids).  Known finding C16:add:reserved-id. *)
Theorem C16_reserved_id_refuted : forall c v,
  outcome_of (step c None (init [("_x", v)]) (Add 0)) = OErr (XServer 400).
Proof. exact reserved_id_rejected. Qed.

(* The revision store is keyed by document URL, not by object: when two local objects are attached to the
   same document (cell 0 added, document deleted behind the client's back, cell 1 added under the same id),
   a lookup that refreshes the cached replica (cell 1) also makes the OTHER replica committable, although it
   has never seen the second actor's write (payload 7), which is overwritten.  The no-lost-update theorem
   above is about the client's recorded revision; per replica it does not hold.
   Known finding C16:commit:stale-replica-accepted-multi-replica. *)
Example C16_second_replica_refuted :
  let c := mkCfg false "h:1/db" in
  let ops := [Add 0; ExtDel "a"; Add 1; ExtPut "a" 7; GetId "a"; Modify 0 5; Commit 0] in
  let w := fold_left (fun w o => world_of (step c None w o)) ops (init [("a", 1); ("a", 2)]) in
  (outcome_of (step c None (fold_left (fun w o => world_of (step c None w o)) (removelast ops) (init [("a", 1); ("a", 2)]))
                   (Commit 0)),
   live (w_sv w) "a")
  = (ODone, Some (5, 5)).
Proof. vm_compute. reflexivity. Qed.

(* Non-vacuity: two local objects for the id "a/b c" (cells 0, 1) and one for "é"; the second actor
   overwrites the document behind the client's back: the commit is refused, update() resynchronises,
   the next commit goes through and is what a lookup returns. *)
Example C16_example :
  let c := mkCfg false "h:1/db" in
  let ops := [Add 0; Add 1; ExtPut "a/b c" 7; Modify 0 5; Commit 0; Update 0; Modify 0 6; Commit 0;
              GetId "a/b c"; Discard 0 true; Commit 0; Len] in
  let run := fix run w ops := match ops with
                              | [] => []
                              | o :: r => let s := step c None w o in outcome_of s :: run (world_of s) r
                              end in
  run (init [("a/b c", 1); ("a/b c", 2); ("e", 3)]) ops
  = [ODone; OErr XKey; ODone; ODone; OErr XConflict; ODone; ODone; ODone; OCell 0; ODone; ODone; ONat 0].
Proof. vm_compute. reflexivity. Qed.
