(* C12 - Updating a live object from a fresh copy makes it equal while keeping identity.
   Only statements here; every theorem is closed by [exact <lemma>].
   Model: model/UpdateFrom.v ([upd live new us] = live.update_from(new, update_source=us) after
   the fix: commits of this property); paths = idShort paths ([resolve] = get_referable). *)
From Coq Require Import List ZArith.
From Basyx Require Import model.UpdateFrom proofs.UpdateFromProofs.
Import ListNotations.

(* Equality at every depth: along every idShort path the updated live tree has a node exactly
   where the copy has one, with the copy's class, idShort, plain attributes (payload), qualifier
   and extension values, and (below the root, or when asked) the copy's source.
   [wf]: idShorts / qualifier types / extension names are unique per collection (C01). *)
Theorem C12_equal : forall p live new us, wf live -> wf new -> n_cls live = n_cls new ->
  match resolve new p with
  | None => resolve (upd live new us) p = None
  | Some n => exists r, resolve (upd live new us) p = Some r /\ same_attrs r n /\
                        ((us = true \/ p <> []) -> n_src r = n_src n)
  end.
Proof. exact equal_paths. Qed.

(* Identity: the root, every child that survives (same idShort and class along the whole path)
   and every surviving qualifier / extension of such a node keep their Python identity. *)
Theorem C12_identity : forall p live new us, wf live -> wf new -> cmatch live new p ->
  exists l n r, resolve live p = Some l /\ resolve new p = Some n /\
                resolve (upd live new us) p = Some r /\ n_oid r = n_oid l /\
                (forall qk qo qv x, find_q qk (n_quals l) = Some (qo, qv) -> find_q qk (n_quals n) = Some x ->
                                    exists v, find_q qk (n_quals r) = Some (qo, v)).
Proof. exact identity_paths. Qed.

(* One level: a child of the copy that has no live counterpart of the same class is added (the
   copy's own object), a live child without counterpart is gone, a surviving one is updated in
   place (recursively, always with its source). *)
Theorem C12_children : forall live new us k, wf1 live -> wf1 new ->
  find_kid k (n_kids (upd live new us)) =
  match find_kid k (n_kids new) with
  | None => None
  | Some n' => match survivor_of (n_kids live) n' with
               | Some l => Some (upd l n' true)
               | None => Some n'
               end
  end.
Proof. exact kid_lookup. Qed.

(* Uniqueness of identifying attributes (the C01 statement on this tree model) still holds at
   every depth afterwards. *)
Theorem C12_wf : forall live new us, wf live -> wf new -> wf (upd live new us).
Proof. exact wf_upd. Qed.

(* The root's source changes only when asked for. *)
Theorem C12_source : forall live new,
  n_src (upd live new false) = n_src live /\ n_src (upd live new true) = n_src new.
Proof. exact source_rule. Qed.

(* Non-vacuity: a live submodel {a: Property q:t=0, b: collection {a, c}} updated from a copy in
   which a's qualifier value changed, b/a became another class, b/c vanished and d is new. *)
Definition ex_live : node :=
  Node 1 9 0 0 1 [] [Node 2 0 0 5 0 [(0, (3, 0))] []; Node 4 1 1 1 0 [] [Node 5 0 0 1 0 [] []; Node 6 0 2 2 0 [] []]].
Definition ex_new : node :=
  Node 11 9 0 7 2 [] [Node 14 1 1 2 3 [(2, (18, 1))] [Node 15 2 0 1 0 [] []]; Node 12 0 0 6 0 [(0, (13, 2))] [];
                      Node 17 0 3 0 0 [] []].
Example C12_example :
  encode 0 (upd ex_live ex_new false) =
  [[0; 1; 9; 0; 7; 1]; [1; 2; 0; 0; 6; 0; 0; 3; 2]; [1; 4; 1; 1; 2; 3; 2; 18; 1]; [2; 15; 2; 0; 1; 0];
   [1; 17; 0; 3; 0; 0]]%Z.
Proof. vm_compute. reflexivity. Qed.

(* ---- objects with several NamespaceSets in one namespace (Operation: input / output / in-output
   variables): model/UpdateFromNS.v, [updm true] = update_from after the fix (phase 1: removal from
   every set, phase 2: the sets one after the other), [updm false] = the order before the fix.
   [wfm arity n]: at every depth the idShorts are unique across ALL sets of an object (AASd-022),
   qualifier types / extension names are unique, and the number of sets is a matter of the class. *)
From Basyx Require Import model.UpdateFromNS proofs.UpdateFromNSProofs.

(* No exception (in particular no AASd-022 half way) and the result field by field; the children
   of set i by idShort: exactly the other's idShorts of set i; an object keeps its identity (it is
   updated in place, recursively) iff a same-class object with its idShort sits in the SAME set i
   of the other tree; otherwise (new, class changed, or MOVED from another set) it is the other
   tree's object. *)
Theorem C12_ns_children : forall arity live new us i k, wfm arity live -> wfm arity new -> m_cls live = m_cls new ->
  exists r, updm true live new us = Ok r /\
    m_oid r = m_oid live /\ m_cls r = m_cls new /\ m_key r = m_key new /\ m_pay r = m_pay new /\
    m_src r = (if us then m_src new else m_src live) /\
    find_in i k r =
    match find_in i k new with
    | None => None
    | Some n' => match msurvivor (set_of i live) n' with
                 | Some l => match updm true l n' true with Ok u => Some u | Raised _ => None end
                 | None => Some n'
                 end
    end.
Proof. exact ns_children. Qed.
Print Assumptions C12_ns_children.

(* The updated object is well-formed again: idShorts unique across all its sets (where the old
   order failed), and every set has exactly the other's idShorts. *)
Theorem C12_ns_unique : forall arity live new us, wfm arity live -> wfm arity new -> m_cls live = m_cls new ->
  exists r, updm true live new us = Ok r /\ wfm1 arity r /\
    (forall i k, find_in i k r <> None <-> find_in i k new <> None).
Proof. exact ns_unique. Qed.
Print Assumptions C12_ns_unique.

(* The whole result as a term: every set is (survivors updated in place, in live order) ++ (the
   other's objects without same-class counterpart in this set, in the other's order). *)
Theorem C12_ns_result : forall arity new live us, wfm arity live -> wfm arity new -> m_cls live = m_cls new ->
  updm true live new us = Ok (unode live new us).
Proof. exact updm_ok. Qed.
Print Assumptions C12_ns_result.

(* An Operation whose variable 'a' moves from output_variable to input_variable (an earlier set):
   the order before the fix adds the new 'a' to input_variable while the old one still sits in
   output_variable and raises AASd-022; the two-phase order replaces it by the other's object. *)
Example C12_ns_old_order_refuted :
  wfm ex_arity ex_op_live /\ wfm ex_arity ex_op_new /\
  updm false ex_op_live ex_op_new false = Raised AASd_022 /\
  updm true ex_op_live ex_op_new false = Ok (MNode 1 4 0 1 0 [] [[MNode 12 0 0 6 0 [] []]; []; []]).
Proof. exact ns_old_order_refuted. Qed.
Print Assumptions C12_ns_old_order_refuted.

(* ---- multi-set trees at every depth (proofs/UpdateFromNSDeepProofs.v) ---- *)
From Basyx Require Import proofs.UpdateFromNSDeepProofs.

(* The result of the two-phase update is well-formed at EVERY depth (idShorts unique across all
   sets of every object, number of sets as the class demands). *)
Theorem C12_ns_wf : forall arity live new us, wfm arity live -> wfm arity new -> m_cls live = m_cls new ->
  exists r, updm true live new us = Ok r /\ wfm arity r.
Proof. exact updm_wfm. Qed.
Print Assumptions C12_ns_wf.

(* Equality at every depth, along paths of (set index, idShort) steps ([mresolve]): the result has
   a node exactly where the other tree has one - in the same set -, with its class, idShort,
   payload, qualifier / extension values and (below the root, or when asked) its source. *)
Theorem C12_ns_equal : forall arity p live new us, wfm arity live -> wfm arity new -> m_cls live = m_cls new ->
  exists res, updm true live new us = Ok res /\
    match mresolve new p with
    | None => mresolve res p = None
    | Some n => exists r, mresolve res p = Some r /\ msame_attrs r n /\
                          ((us = true \/ p <> []) -> m_src r = m_src n)
    end.
Proof. exact mequal_paths. Qed.
Print Assumptions C12_ns_equal.

(* Identity along paths: if every step of the path finds a same-class object in the SAME set of
   the live tree ([mmatch]), the node is the live tree's object (oid; also its surviving qualifiers
   / extensions); otherwise - new, class changed, or moved from another set somewhere along the
   path - it is the other tree's object itself. *)
Theorem C12_ns_identity : forall arity p live new us, wfm arity live -> wfm arity new -> m_cls live = m_cls new ->
  exists res, updm true live new us = Ok res /\
    forall n, mresolve new p = Some n ->
      if mmatch live new p
      then exists l r, mresolve live p = Some l /\ mresolve res p = Some r /\ m_oid r = m_oid l /\
             (forall qk qo qv x, find_q qk (m_quals l) = Some (qo, qv) -> find_q qk (m_quals n) = Some x ->
                                 exists v, find_q qk (m_quals r) = Some (qo, v))
      else mresolve res p = Some n.
Proof. exact midentity_paths. Qed.
Print Assumptions C12_ns_identity.

(* The single-set model is the one-set instance: on the trees of model/UpdateFrom.v ([emb]: one
   child set per node) the multi-set update never raises and computes exactly [upd], so
   C12_equal / C12_identity / C12_children / C12_wf are statements about [updm true] as well. *)
Theorem C12_ns_single_set : forall new live us, wf live -> wf new ->
  updm true (emb live) (emb new) us = Ok (emb (upd live new us)).
Proof. exact updm_emb. Qed.
Print Assumptions C12_ns_single_set.

(* Non-vacuity of the path statements on the moved variable of C12_ns_old_order_refuted: the path
   (input_variable, 'a') exists in the other tree, does not match in the live tree (there 'a' sits
   in output_variable), and resolves to the other tree's object 12 afterwards; the old place is empty. *)
Example C12_ns_path_example :
  mmatch ex_op_live ex_op_new [(0, 0)] = false /\
  (match updm true ex_op_live ex_op_new false with
   | Ok res => (option_map m_oid (mresolve res [(0, 0)]), mresolve res [(1, 0)])
   | Raised _ => (None, None)
   end) = (Some 12, None).
Proof. vm_compute. split; reflexivity. Qed.
