(* C12 - Updating a live object from a fresh copy makes it equal while keeping identity.
   Only statements here; every theorem is closed by [exact <lemma>].
   Model: model/UpdateFrom.v ([upd live new us] = live.update_from(new, update_source=us) after
   the fix: commits of this property); paths = idShort paths ([resolve] = get_referable). *)
From Coq Require Import List ZArith.
From Basyx Require Import model.UpdateFrom proofs.UpdateFromProofs.
Import ListNotations.

(* Equality at every depth: along every idShort path the updated live tree has a node exactly
   where the copy has one, with the copy's class, idShort, plain attributes (payload), qualifier
   and extension values, and (below the root, or when asked) the copy's source.
   [wf]: idShorts / qualifier types / extension names are unique per collection (C01). *)
Theorem C12_equal : forall p live new us, wf live -> wf new -> n_cls live = n_cls new ->
  match resolve new p with
  | None => resolve (upd live new us) p = None
  | Some n => exists r, resolve (upd live new us) p = Some r /\ same_attrs r n /\
                        ((us = true \/ p <> []) -> n_src r = n_src n)
  end.
Proof. exact equal_paths. Qed.

(* Identity: the root, every child that survives (same idShort and class along the whole path)
   and every surviving qualifier / extension of such a node keep their Python identity. *)
Theorem C12_identity : forall p live new us, wf live -> wf new -> cmatch live new p ->
  exists l n r, resolve live p = Some l /\ resolve new p = Some n /\
                resolve (upd live new us) p = Some r /\ n_oid r = n_oid l /\
                (forall qk qo qv x, find_q qk (n_quals l) = Some (qo, qv) -> find_q qk (n_quals n) = Some x ->
                                    exists v, find_q qk (n_quals r) = Some (qo, v)).
Proof. exact identity_paths. Qed.

(* One level: a child of the copy that has no live counterpart of the same class is added (the
   copy's own object), a live child without counterpart is gone, a surviving one is updated in
   place (recursively, always with its source). *)
Theorem C12_children : forall live new us k, wf1 live -> wf1 new ->
  find_kid k (n_kids (upd live new us)) =
  match find_kid k (n_kids new) with
  | None => None
  | Some n' => match survivor_of (n_kids live) n' with
               | Some l => Some (upd l n' true)
               | None => Some n'
               end
  end.
Proof. exact kid_lookup. Qed.

(* Uniqueness of identifying attributes (the C01 statement on this tree model) still holds at
   every depth afterwards. *)
Theorem C12_wf : forall live new us, wf live -> wf new -> wf (upd live new us).
Proof. exact wf_upd. Qed.

(* The root's source changes only when asked for. *)
Theorem C12_source : forall live new,
  n_src (upd live new false) = n_src live /\ n_src (upd live new true) = n_src new.
Proof. exact source_rule. Qed.

(* Non-vacuity: a live submodel {a: Property q:t=0, b: collection {a, c}} updated from a copy in
   which a's qualifier value changed, b/a became another class, b/c vanished and d is new. *)
Definition ex_live : node :=
  Node 1 9 0 0 1 [] [Node 2 0 0 5 0 [(0, (3, 0))] []; Node 4 1 1 1 0 [] [Node 5 0 0 1 0 [] []; Node 6 0 2 2 0 [] []]].
Definition ex_new : node :=
  Node 11 9 0 7 2 [] [Node 14 1 1 2 3 [(2, (18, 1))] [Node 15 2 0 1 0 [] []]; Node 12 0 0 6 0 [(0, (13, 2))] [];
                      Node 17 0 3 0 0 [] []].
Example C12_example :
  encode 0 (upd ex_live ex_new false) =
  [[0; 1; 9; 0; 7; 1]; [1; 2; 0; 0; 6; 0; 0; 3; 2]; [1; 4; 1; 1; 2; 3; 2; 18; 1]; [2; 15; 2; 0; 1; 0];
   [1; 17; 0; 3; 0; 0]]%Z.
Proof. vm_compute. reflexivity. Qed.
