(* C14 - Local-file store persists, refreshes and shares objects coherently.
   Only statements here; every theorem is closed by [exact <lemma>].
   Model: model/LocalFile.v - store instances on one directory, the client's live objects, weak
   caches; [run ops] is the state after the call history [ops] (any number of instances: an
   instance is just an index), [outs init ops] the answers given along the way. *)
From Coq Require Import List.
From Basyx Require Import model.LocalFile proofs.LocalFileProofs.
From Basyx Require model.Crash proofs.CrashProofs.
From Basyx Require model.CrashConc proofs.LocalFileConcProofs.
Import ListNotations.

(* Every history of new/add/get/contains/len/iter/discard/local edit/commit/update/clear source/
   drop reference/re-open over any instances: the answers are those of one persistent map
   (replay checks each answer against the map and applies each accepted write to it): what was
   added or last committed is what any instance, also one opened later, reads back; update() returns
   the stored content; duplicates and missing ids are answered as such; and the map left at the
   end is the directory. *)
Theorem C14_persistent_map : forall ops, replay [] (outs init ops) = Some (fs (run ops)).
Proof. exact persistent_map. Qed.

(* get through any instance in any reachable state: KeyError iff the id is not stored; otherwise
   the object returned holds exactly the stored content, is bound to the document, the directory
   is unchanged and that object is from now on the instance's replica of the id. *)
Theorem C14_get : forall ops i k,
  let s := run ops in
  match alookup k (fs s) with
  | None => step s (Get i k) = (s, OMissing k)
  | Some v => exists o, snd (step s (Get i k)) = OObj k o v /\
                        alookup o (heap (fst (step s (Get i k)))) = Some (mkobj k v (SFile k)) /\
                        fs (fst (step s (Get i k))) = fs s /\ replica (fst (step s (Get i k))) i k o
  end.
Proof. intros ops i k. exact (get_spec (run ops) i k (run_Inv ops)). Qed.

(* update() of a live object in any state: without source nothing happens; bound to a stored
   document it takes exactly the stored content (a stale object is brought to the stored
   state); bound to a vanished document it reports that. *)
Theorem C14_update : forall s x ob, alookup x (heap s) = Some ob ->
  match osrc ob with
  | SNone => step s (Update x) = (s, OUnit)
  | SFile k => match alookup k (fs s) with
               | None => step s (Update x) = (s, OMissing k)
               | Some v => snd (step s (Update x)) = OUpdated k v /\
                           alookup x (heap (fst (step s (Update x)))) = Some (mkobj k v (SFile k)) /\
                           fs (fst (step s (Update x))) = fs s
               end
  end.
Proof. exact update_spec. Qed.

(* add: a stored id is rejected and nothing changes; otherwise the document holds the object's
   content, no other document changes, the object is bound and is the instance's replica. *)
Theorem C14_add : forall s i x ob, alookup x (heap s) = Some ob ->
  let k := okey ob in
  if amem k (fs s) then step s (Add i x) = (s, ODup k)
  else let s' := fst (step s (Add i x)) in
       snd (step s (Add i x)) = OAdded k (oval ob) /\
       alookup k (fs s') = Some (oval ob) /\
       (forall k', k' <> k -> alookup k' (fs s') = alookup k' (fs s)) /\
       alookup x (heap s') = Some (mkobj k (oval ob) (SFile k)) /\
       replica s' i k x.
Proof. exact add_spec. Qed.

(* add refused by the file system (OSError at the open of the temporary file, at the write or at
   os.replace - point p): the answer is the KeyError of a duplicate or the OSError, and nothing changes:
   no document, no live object's content or source, no instance's cache.  In particular the object
   stays unbound, so a later commit()/update() of it does not touch the document somebody else may
   have stored under the id meanwhile. *)
Theorem C14_add_fault : forall s i x p ob, alookup x (heap s) = Some ob ->
  fst (step s (AddFault i x p)) = s /\
  snd (step s (AddFault i x p)) = (if amem (okey ob) (fs s) then ODup (okey ob) else OFault (okey ob)).
Proof. exact add_fault_spec. Qed.

(* ... and the rest of any history runs as if the refused add had not been issued *)
Theorem C14_add_fault_transparent : forall s i x p ops,
  exec s (AddFault i x p :: ops) = exec s ops /\
  outs s (AddFault i x p :: ops) = snd (step s (AddFault i x p)) :: outs s ops.
Proof. exact add_fault_transparent. Qed.

(* Non-vacuity: a refused add of a free id, the other instance stores another object under the id,
   the first object is changed and committed: the document is the other instance's. *)
Example C14_add_fault_example :
  let ops := [New 1 1; AddFault 0 0 2; New 1 2; Add 1 1; SetVal 0 4; Commit 0; Update 0] in
  outs init ops = [OUnit; OFault 1; OUnit; OAdded 1 2; OUnit; OUnit; OUnit] /\
  fs (run ops) = [(1, 2)] /\ alookup 0 (heap (run ops)) = Some (mkobj 1 4 SNone).
Proof. vm_compute. repeat split; reflexivity. Qed.

(* discard through any instance (also one that never cached the object): a missing id is
   KeyError and nothing changes; otherwise the document is gone, no other document changes, the
   object is unbound and every instance answers KeyError for the id. *)
Theorem C14_discard : forall s i x ob, alookup x (heap s) = Some ob ->
  let k := okey ob in
  if amem k (fs s)
  then let s' := fst (step s (Discard i x)) in
       snd (step s (Discard i x)) = ODiscarded k /\
       alookup k (fs s') = None /\
       (forall k', k' <> k -> alookup k' (fs s') = alookup k' (fs s)) /\
       alookup x (heap s') = Some (mkobj k (oval ob) SNone) /\
       (forall j, step s' (Get j k) = (s', OMissing k))
  else step s (Discard i x) = (s, OMissing k).
Proof. exact discard_spec. Qed.

(* Identity, sequentially: after any history, if get returned object o for id k through instance
   i, then after every continuation during which the client keeps o and its source, instance i is
   not replaced and the document of k exists after every step, the next get of k through i
   returns that same o, holding the then stored content. *)
Theorem C14_identity_seq : forall ops i k o v ops',
  let s1 := fst (step (run ops) (Get i k)) in
  snd (step (run ops) (Get i k)) = OObj k o v ->
  undisturbed i k o s1 ops' ->
  exists v', alookup k (fs (exec s1 ops')) = Some v' /\
             snd (step (exec s1 ops') (Get i k)) = OObj k o v' /\
             alookup o (heap (fst (step (exec s1 ops') (Get i k)))) = Some (mkobj k v' (SFile k)).
Proof. exact identity_seq. Qed.

(* Identity, two threads on one instance and one id, each calling get or add (as they are now),
   from any reachable state and under every schedule of their yield points: every object a call
   returned or stored is the object a later get returns; hence both calls ended up with the same
   object. *)
Theorem C14_identity_threads : forall i k ops p1 p2 sched,
  is_now p1 = true -> is_now p2 = true -> targets k (run ops) p1 -> targets k (run ops) p2 ->
  let r := run_sched p1 p2 i k sched (run ops) pc0 pc0 in
  let s := fst (fst r) in
  (forall o, tobj p1 (snd (fst r)) = Some o \/ tobj p2 (snd r) = Some o ->
             exists v, snd (step s (Get i k)) = OObj k o v) /\
  (forall o1 o2, tobj p1 (snd (fst r)) = Some o1 -> tobj p2 (snd r) = Some o2 -> o1 = o2).
Proof. exact identity_threads. Qed.

(* The same statement is refuted for the code as it was: get with the cache insert outside the
   lock (schedule load1 load2 lock1 lock2 miss1 miss2 insert1 insert2 gives two objects, a later
   get returns only the second); add with check/write/insert/mark not in one critical section
   (a get in between caches a second copy; two adds of one id both succeed). *)
Theorem C14_pinned_get_refuted :
  let s0 := run [New 1 2; Add 1 0] in
  let r := run_sched TGetPinned TGetPinned 0 1 [false; true; false; true; false; true; false; true] s0 pc0 pc0 in
  tobj TGetPinned (snd (fst r)) = Some 1 /\ tobj TGetPinned (snd r) = Some 2 /\
  snd (step (fst (fst r)) (Get 0 1)) = OObj 1 2 2.
Proof. exact pinned_get_two_replicas. Qed.

Theorem C14_split_add_refuted :
  (let s0 := run [New 1 3] in
   let r := run_sched (TAddSplit 0) TGet 0 1 [false; false; false; true; true; true; false; false; false] s0 pc0 pc0 in
   tobj (TAddSplit 0) (snd (fst r)) = Some 0 /\ tobj TGet (snd r) = Some 1 /\
   snd (step (fst (fst r)) (Get 0 1)) = OObj 1 0 3) /\
  (let s0 := run [New 1 3; New 1 4] in
   let r := run_sched (TAddSplit 0) (TAddSplit 1) 0 1
                      [false; false; true; true; false; false; false; false; true; true; true; true] s0 pc0 pc0 in
   res (snd (fst r)) = Some (OAdded 1 3) /\ res (snd r) = Some (OAdded 1 4)).
Proof. exact (conj split_add_two_replicas split_add_duplicate_accepted). Qed.

(* Non-vacuity: object 0 added through instance 0; read through instance 1 (object 1), edited and
   committed there; instance 0 hands out object 0 again, refreshed; a stale edit of object 0 is
   undone by update(); discard through instance 1 using its own replica. *)
Example C14_example :
  outs init [New 7 1; Add 0 0; Get 1 7; SetVal 1 5; Commit 1; Get 0 7; SetVal 0 9; Update 0; Discard 1 1; Get 0 7; Len 0]
  = [OUnit; OAdded 7 1; OObj 7 1 1; OUnit; OCommitted 7 5; OObj 7 0 5; OUnit; OUpdated 7 5; ODiscarded 7; OMissing 7; ONat 0]
  /\ undisturbed 0 7 0 (run [New 7 1; Add 0 0; Get 0 7]) [Get 1 7; SetVal 1 5; Commit 1; Iter 0; Drop 1].
Proof. vm_compute. repeat split; reflexivity. Qed.

(* Non-vacuity of C14_identity_threads: an add and a get of the same id racing on one instance
   (add: to the lock, critical section | get: load, to the lock, critical section): the get
   returns the very object that was added. *)
Example C14_threads_example :
  let s0 := run [New 1 3] in
  let r := run_sched (TAdd 0) TGet 0 1 [false; false; true; true; true; false; true] s0 pc0 pc0 in
  targets 1 s0 (TAdd 0) /\ tobj (TAdd 0) (snd (fst r)) = Some 0 /\ tobj TGet (snd r) = Some 0.
Proof. vm_compute. split; [exists (mkobj 1 3 SNone); split; reflexivity|split; reflexivity]. Qed.

(* A reader (any instance, also one opened at that moment) that looks at the directory while a
   writer is paused inside any effect of a disciplined write - add and commit are such writes,
   C15_add_safe / C15_commit_safe - with any part of the buffered data flushed to the temporary
   file: every other file is as before, the document is the old one (or still absent) or the
   complete new one, and the read views agree with each other (model/Crash.v [answers_ok]: iteration
   yields exactly the contained ids, each with the content lookup returns, len is their number,
   membership and lookup answer alike) - the temporary file is never counted, listed or looked up. *)
Theorem C14_observer_during_write : forall k p pl n fl d0,
  Crash.disc k Crash.P0 p = true -> Crash.wf d0 ->
  let d := Crash.disk (Crash.fin (Crash.run p (Crash.cleanup_of k) pl (CrashProofs.paused_at n fl) Crash.FNone
                                            (Crash.fresh_st d0))) in
  (forall f, f <> Crash.FDoc k -> f <> Crash.FTmp k -> Crash.lookup f d = Crash.lookup f d0) /\
  (Crash.lookup (Crash.FDoc k) d = Crash.lookup (Crash.FDoc k) d0 \/
   exists v, pl = Crash.Good v /\ Crash.lookup (Crash.FDoc k) d = Some (Crash.Full v)) /\
  Crash.answers_ok d.
Proof. exact CrashProofs.observer_view. Qed.

(* Non-vacuity: key 1 is stored, the writer adds key 0 and is paused inside os.replace (5 effects
   done, the temporary file complete): readers see one document, len 1, key 0 absent. *)
Example C14_observer_example :
  let d0 := [(Crash.FDoc 1, Crash.Full 7)] in
  let d := Crash.disk (Crash.fin (Crash.run (Crash.add_proc 0) (Crash.cleanup_of 0) (Crash.Good 5)
                                            (CrashProofs.paused_at 5 None) Crash.FNone (Crash.fresh_st d0))) in
  d = [(Crash.FDoc 1, Crash.Full 7); (Crash.FTmp 0, Crash.Full 5)] /\
  Crash.r_len d = 1 /\ Crash.r_iter d = Some [(1, 7)] /\ Crash.r_contains d 0 = false.
Proof. vm_compute. repeat split; reflexivity. Qed.

(* Two (any number of) threads of one process committing concurrently - commit() does not run under the store lock -
   under every interleaving [ws] of their effects (open of the temporary file, write, close, os.replace;
   model/CrashConc.v), nothing being refused by the file system, stale temporary files lying around: as long as the
   writers use pairwise different temporary names, no commit fails (in particular no os.replace finds its temporary
   file gone), and a commit that performs its os.replace leaves exactly the version it serialised in the document:
   what was committed last is what is read back. *)
Theorem C14_concurrent_commits : forall (name : nat -> nat) (vof : nat -> CrashConc.cver) v0 stale ws,
  (forall a b, name a = name b -> a = b) ->
  let s := CrashConc.crun name vof (LocalFileConcProofs.all_ok ws) (CrashConc.cinit v0 stale) in
  (forall u, CrashConc.cph s u <> CrashConc.WFailed) /\
  (forall w, CrashConc.cph s w = CrashConc.WClosed ->
             CrashConc.cph (CrashConc.cstep name vof w CrashConc.COk s) w = CrashConc.WDone /\
             CrashConc.cdoc (CrashConc.cstep name vof w CrashConc.COk s) = Some (CrashConc.CFull (vof w))).
Proof. exact LocalFileConcProofs.concurrent_commits. Qed.

(* Non-vacuity: two writers with their own names, fully interleaved, writer 1 renames first (document = version 7),
   writer 0 last (document = version 6); and the premise is needed: with one name per process writer 0's os.replace
   fails after writer 1 went through between its close and its replace. *)
Example C14_concurrent_commits_example :
  (let s := CrashConc.crun (fun w => w) (fun w => 6 + w) (LocalFileConcProofs.all_ok [0; 1; 0; 1; 0; 1; 1; 0])
                           (CrashConc.cinit 2 (fun _ => None)) in
   CrashConc.cph s 0 = CrashConc.WDone /\ CrashConc.cph s 1 = CrashConc.WDone /\
   CrashConc.cdoc s = Some (CrashConc.CFull 6) /\
   CrashConc.cdoc (CrashConc.crun (fun w => w) (fun w => 6 + w) (LocalFileConcProofs.all_ok [0; 1; 0; 1; 0; 1; 1])
                                  (CrashConc.cinit 2 (fun _ => None))) = Some (CrashConc.CFull 7)) /\
  (let s := CrashConc.crun (fun _ => 0) (fun w => 6 + w) (LocalFileConcProofs.all_ok [0; 0; 0; 1; 1; 1; 1; 0])
                           (CrashConc.cinit 2 (fun _ => None)) in
   CrashConc.cph s 0 = CrashConc.WFailed /\ CrashConc.cph s 1 = CrashConc.WDone /\
   CrashConc.cdoc s = Some (CrashConc.CFull 7)).
Proof. exact (conj LocalFileConcProofs.concurrent_commits_example LocalFileConcProofs.concurrent_commits_shared_name_fails). Qed.
