(* C08 - AASX packages return the objects and files that were put in.
   Only statements here; every theorem is closed by [exact <lemma>].

   The theorems are about model/Aasx.v.  Two pieces of external behaviour are premises, never axioms:
     codec_ok : the JSON/XML payload codec returns the objects written, sorted by kind (C03 / C04);
     opc_ok   : the OPC/zip container (pyecma376_2) returns the parts, content types and relationships
                written, provided no two part names are equal after normalisation.
   A session is the documented use of AASXWriter: write_aas(ids) once, optionally core properties and
   a thumbnail, close.  [names_ok] is the input class: no File value climbs above the package root;
   stored files are referenced under legal OPC part names that differ after normalisation from each
   other and from the package's own parts. *)
From Coq Require Import List String Bool.
From Basyx Require Import model.Files proofs.FilesProofs model.Aasx proofs.AasxProofs.
Import ListNotations.

(* Both premises hold for the instance the correspondence run evaluates (identity codec, reference
   OPC semantics = parts found by normalised name, last one wins). *)
Theorem C08_codec_opc_satisfiable :
  codec_ok id_payload id_encode id_decode /\ opc_ok id_payload (ref_opc id_payload).
Proof. exact (conj id_codec_ok ref_opc_ok). Qed.

(* What write_aas selects: exactly the named shells, the submodels their references resolve to in
   the provider, and the concept descriptions the semantic ids (own and qualifiers', at any depth)
   of those resolve to - each once, each the provider's object; unresolved references are skipped. *)
Theorem C08_closure : forall S ids objs, closure S ids = Ok objs ->
  NoDup (map oid objs) /\ from_store S objs /\
  (forall x, In x objs ->
     (exists i, In i ids /\ ofind i S = Some x /\ is_shell x = true) \/
     (exists i a k, In i ids /\ ofind i S = Some a /\ In k (shell_subs a) /\ ofind k S = Some x /\ is_subm x = true) \/
     (exists o r, In o objs /\ is_cd o = false /\ In r (obj_sems o) /\ r_cd r = true /\
                  ofind (r_id r) S = Some x /\ is_cd x = true)) /\
  (forall i a, In i ids -> ofind i S = Some a -> is_shell a = true /\ In a objs) /\
  (forall i a k x, In i ids -> ofind i S = Some a -> In k (shell_subs a) -> ofind k S = Some x ->
                   is_subm x = true /\ In x objs) /\
  (forall o r x, In o objs -> is_cd o = false -> In r (obj_sems o) -> r_cd r = true ->
                 ofind (r_id r) S = Some x -> is_cd x = true -> In x objs).
Proof. exact closure_spec. Qed.

Section C08.
Variable payload : Type.
Variable encode : bool -> list obj -> payload.
Variable decode : payload -> list obj.
Variable opc : list (lentry payload) -> rpkg payload.
Hypothesis Hcodec : codec_ok payload encode decode.
Hypothesis Hopc : opc_ok payload opc.

(* Writing and reading back never raises, for every store, container history, receiving store,
   receiving container history and override flag. *)
Theorem C08_write_read_ok : forall S fops ids json core thumb S0 f0ops ov objs,
  closure S ids = Ok objs -> names_ok (run fops) json objs core thumb ->
  exists log s,
    write_package _ encode S (run fops) (session ids json core thumb) = Ok log /\
    read_into _ decode (opc log) S0 (run f0ops) ov = Ok s.
Proof. exact (rt_ok payload encode decode opc Hcodec Hopc). Qed.

(* Every object of the written closure whose id is not kept back by the merge policy is in the
   receiving store afterwards, equal to the original except for File values (obj_ok). *)
Theorem C08_objects : forall S fops ids json core thumb S0 f0ops ov objs,
  closure S ids = Ok objs -> names_ok (run fops) json objs core thumb ->
  forall log s,
    write_package _ encode S (run fops) (session ids json core thumb) = Ok log ->
    read_into _ decode (opc log) S0 (run f0ops) ov = Ok s ->
  forall o, In o objs -> omem (oid o) S0 && negb ov = false ->
  exists o', ofind (oid o) (r_store s) = Some o' /\ obj_ok (run fops) (r_files s) o o'.
Proof. exact (rt_objects payload encode decode opc Hcodec Hopc). Qed.

(* Every File element (at any nesting position the walk reaches: all of them) whose value is a local
   path naming a stored file names, after reading, a file of the receiving container with the same
   content and content type - whatever the receiving container held before (f0ops is arbitrary, in
   particular a different file under the same name). *)
Theorem C08_files : forall S fops ids json core thumb S0 f0ops ov objs,
  closure S ids = Ok objs -> names_ok (run fops) json objs core thumb ->
  forall log s,
    write_package _ encode S (run fops) (session ids json core thumb) = Ok log ->
    read_into _ decode (opc log) S0 (run f0ops) ov = Ok s ->
  forall i tok sems nodes k n v x,
    In (Subm i tok sems nodes) objs -> omem i S0 && negb ov = false ->
    nth_error nodes k = Some n -> node_file_names n = [v] -> lookup (run fops) v = Some x ->
  exists nodes' n' fin,
    ofind i (r_store s) = Some (Subm i tok sems nodes') /\ nth_error nodes' k = Some n' /\
    n_file n' = Some (Some fin) /\ lookup (r_files s) fin = Some x /\
    n_path n' = n_path n /\ n_sems n' = n_sems n /\ n_tok n' = n_tok n.
Proof. exact (rt_files payload encode decode opc Hcodec Hopc). Qed.

(* Objects already present in the receiving store are kept when overriding is off (and replaced when
   it is on: C08_objects with ov = true). *)
Theorem C08_existing : forall S fops ids json core thumb S0 f0ops ov objs,
  closure S ids = Ok objs -> names_ok (run fops) json objs core thumb ->
  forall log s,
    write_package _ encode S (run fops) (session ids json core thumb) = Ok log ->
    read_into _ decode (opc log) S0 (run f0ops) ov = Ok s ->
  forall o, In o objs -> omem (oid o) S0 = true -> ov = false ->
  ofind (oid o) (r_store s) = ofind (oid o) S0.
Proof. exact (rt_existing payload encode decode opc Hcodec Hopc). Qed.

(* Objects of the receiving store the package does not bring are untouched; the returned id set is
   exactly the ids added or replaced; every file of the receiving container keeps name, content and
   content type. *)
Theorem C08_frame : forall S fops ids json core thumb S0 f0ops ov objs,
  closure S ids = Ok objs -> names_ok (run fops) json objs core thumb ->
  forall log s,
    write_package _ encode S (run fops) (session ids json core thumb) = Ok log ->
    read_into _ decode (opc log) S0 (run f0ops) ov = Ok s ->
  (forall i, ~ In i (map oid objs) -> ofind i (r_store s) = ofind i S0) /\
  (forall i, In i (r_ids s) <-> exists o, In o objs /\ oid o = i /\ (omem i S0 && negb ov = false)) /\
  (forall m x, lookup (run f0ops) m = Some x -> lookup (r_files s) m = Some x).
Proof. exact (rt_frame payload encode decode opc Hcodec Hopc). Qed.

(* Core properties and thumbnail come back as written (None when not written). *)
Theorem C08_core_thumbnail : forall S fops ids json core thumb S0 f0ops ov objs,
  closure S ids = Ok objs -> names_ok (run fops) json objs core thumb ->
  forall log s,
    write_package _ encode S (run fops) (session ids json core thumb) = Ok log ->
    read_into _ decode (opc log) S0 (run f0ops) ov = Ok s ->
  get_core_properties _ (opc log) = core /\
  get_thumbnail _ (opc log) = option_map (fun t : thumb_t => snd (fst t)) thumb.
Proof. exact (rt_core_thumb payload encode decode opc Hcodec Hopc). Qed.
End C08.

(* The hypothesis "part names differ after normalisation" cannot be dropped: with the reference OPC
   semantics, two stored files "/A.pdf" and "/a.pdf" of different content are both written, and after
   reading both File elements name the content of the second (known finding
   C08:files:names-equal-up-to-case). *)
Theorem C08_files_collision_refuted :
  exists s nodes',
    roundtrip id_payload id_encode id_decode (ref_opc id_payload) ex_S (run ex_fops)
              (session [1] false None None) [] init false = Ok s /\
    ofind 2 (r_store s) = Some (Subm 2 0 [] nodes') /\
    map (fun n => match n_file n with Some (Some v) => lookup (r_files s) v | _ => None end) nodes'
      = [Some (2, 4); Some (2, 4)] /\
    map (lookup (run ex_fops)) ["/A.pdf"; "/a.pdf"]%string = [Some (1, 4); Some (2, 4)].
Proof. exact collision_witness. Qed.

(* Non-vacuity: a package with two shells sharing a submodel, an unresolved submodel reference, a
   concept description found through a qualifier's semantic id, an unresolved semantic id, File
   elements inside an entity statement and an operation variable (absolute, relative, URI, missing),
   read into a store that already holds one of the ids and a container that already holds a different
   file under one of the names, override on: the input class holds and the statement can be read off. *)
Theorem C08_example :
  names_ok_b (run example_fops) true example_objs (Some 7) (Some ("/thumb.png"%string, 3, 5)) = true /\
  closure example_S [1; 2] = Ok example_objs /\
  example_result = example_expected.
Proof. exact example_ok. Qed.
